/-
nvdriver — the executable side of the hand-written models: one JSON request per line on stdin,
one JSON answer per line on stdout (DESIGN Appendix D).
-/
import Lean.Data.Json
import NadaVerif.Driver.Handlers

open Lean NadaVerif

partial def loop (h : IO.FS.Stream) (out : IO.FS.Stream) : IO Unit := do
  let line ← h.getLine
  if line.isEmpty then return ()
  let ans : Json :=
    match Json.parse line with
    | .error e => Json.mkObj [("error", Json.str ("parse: " ++ e))]
    | .ok j => NadaVerif.Driver.handle j
  out.putStrLn ans.compress
  loop h out

def main : IO Unit := do
  let out ← IO.getStdout
  loop (← IO.getStdin) out
  out.flush
