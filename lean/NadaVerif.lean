import NadaVerif.Props.C02
import NadaVerif.Props.C06
