/- Spec of C05: complete Nada types. -/
import NadaVerif.Val

namespace NadaVerif.C05
open NadaVerif

def scalarNames : List String :=
  ["Integer", "UnsignedInteger", "Boolean", "SecretInteger", "SecretUnsignedInteger", "SecretBoolean"]

mutual
/-- A complete Nada type: a scalar type name, or a compound whose components are complete and whose
array sizes are present and positive (`template = true`: below a function-parameter template the
DSL has no size, so a missing size is tolerated there). -/
def complete (template : Bool) : MTy → Bool
  | .scalar n => scalarNames.contains n
  | .bare _ => false
  | .array i s => complete template i &&
      (match s with | .n v => decide (0 < v) | .omitted | .null => template)
  | .tuple l r => complete template l && complete template r
  | .ntuple ts => completeList template ts
  | .object fs => completeFields template fs
def completeList (template : Bool) : MTys → Bool
  | .nil => true
  | .cons t ts => complete template t && completeList template ts
def completeFields (template : Bool) : MFields → Bool
  | .nil => true
  | .cons _ t fs => complete template t && completeFields template fs
end

end NadaVerif.C05

namespace NadaVerif

mutual
/-- A Python-level value whose `to_mir()` is complete: sizes positive, no TypeVar, no bare class
where an instance is required. -/
def Val.sized : Val → Bool
  | .scalar _ _ _ => true
  | .array e n _ => e.sized && (match n with | some v => decide (0 < v) | none => false)
  | .tuple l r _ => l.sized && r.sized
  | .ntuple vs _ => vs.sized
  | .object fs _ => fs.sized
def Elem.sized : Elem → Bool
  | .cls _ => true
  | .inst v => v.sized
  | .typeVar => false
  | .arrayType e n => e.sizedInst && (match n with | some v => decide (0 < v) | none => false)
/-- inside an `ArrayType` marker the contained type must be an instance -/
def Elem.sizedInst : Elem → Bool
  | .inst v => v.sized
  | .arrayType e n => e.sizedInst && (match n with | some v => decide (0 < v) | none => false)
  | _ => false
def Vals.sized : Vals → Bool
  | .nil => true
  | .cons v vs => v.sized && vs.sized
def VFields.sized : VFields → Bool
  | .nil => true
  | .cons _ v fs => v.sized && fs.sized
end

end NadaVerif
