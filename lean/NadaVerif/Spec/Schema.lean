/-
The model's reading of the AST schema: which fields of each `*ASTOperation` are operand
references (children) and where `to_mir` puts them.  `Generated.astSchema` / `storeSchema`
(translators T6/T7) must agree with it — `Props/C01.lean`, `Props/C04.lean`.
-/
import NadaVerif.Generated.AstSchema

namespace NadaVerif.Spec
open NadaVerif.Generated

/-- MIR keys that are operand references (resolved in the table holding the operation). -/
def operandKeys : List String :=
  ["left", "right", "this", "arg_0", "arg_1", "inner", "initial", "elements", "args", "source", "target"]

/-- `"elements[*]"` (the whole list, in order) ↦ `"elements"` -/
def baseField (s : String) : String :=
  if s = "elements[*]" then "elements" else if s = "args[*]" then "args" else s

/-- For one class: every field exported by `to_mir` under an operand key is among the fields that
`child_operations()` returns (so the traversal files every operand the MIR mentions), and the
bodies are straight-line (one sentinel evaluation determines the mapping). -/
def rowRefsSubsetChildren (r : String × List String × String × List (String × String) × Bool) : Bool :=
  let (cls, children, _, mir, straight) := r
  straight &&
  (cls = "NadaFunctionASTOperation" ||       -- a function record is not an operation of a table
   mir.all fun (k, f) => !(operandKeys.contains k) || (children.map baseField).contains f)

/-- The schema the Lean model (`AstOp.children`, `Driver.opJson`) implements. -/
def modelAstSchema : List (String × List String × String × List (String × String) × Bool) := [
  ("BinaryASTOperation", ["left", "right"], "<self.name>", [("id", "id"), ("left", "left"), ("right", "right"), ("type", "ty")], true),
  ("CastASTOperation", ["target"], "Cast", [("id", "id"), ("target", "target"), ("to", "ty"), ("type", "ty")], true),
  ("IfElseASTOperation", ["condition", "true_branch_child", "false_branch_child"], "IfElse", [("id", "id"), ("this", "condition"), ("arg_0", "true_branch_child"), ("arg_1", "false_branch_child"), ("type", "ty")], true),
  ("InputASTOperation", [], "InputReference", [("id", "id"), ("refers_to", "name"), ("type", "ty")], true),
  ("LiteralASTOperation", [], "LiteralReference", [("id", "id"), ("refers_to", "literal_index"), ("type", "ty")], true),
  ("MapASTOperation", ["child"], "Map", [("id", "id"), ("fn", "fn"), ("inner", "child"), ("type", "ty")], true),
  ("NTupleAccessorASTOperation", ["source"], "NTupleAccessor", [("id", "id"), ("index", "index"), ("source", "source"), ("type", "ty")], true),
  ("NadaFunctionASTOperation", [], "<function>", [("id", "id"), ("args", "args"), ("function", "name"), ("return_operation_id", "child"), ("return_type", "ty")], true),
  ("NadaFunctionArgASTOperation", [], "NadaFunctionArgRef", [("id", "id"), ("function_id", "fn"), ("refers_to", "name"), ("type", "ty")], true),
  ("NadaFunctionCallASTOperation", ["args[*]"], "NadaFunctionCall", [("id", "id"), ("function_id", "fn"), ("args", "args"), ("type", "ty"), ("return_type", "ty")], true),
  ("NewASTOperation", ["elements[*]"], "New", [("id", "id"), ("elements", "elements"), ("type", "ty")], true),
  ("ObjectAccessorASTOperation", ["source"], "ObjectAccessor", [("id", "id"), ("key", "key"), ("source", "source"), ("type", "ty")], true),
  ("RandomASTOperation", [], "Random", [("id", "id"), ("type", "ty")], true),
  ("ReduceASTOperation", ["child", "initial"], "Reduce", [("id", "id"), ("fn", "fn"), ("inner", "child"), ("initial", "initial"), ("type", "ty")], true),
  ("UnaryASTOperation", ["child"], "<self.name>", [("id", "id"), ("this", "child"), ("type", "ty")], true)
]

/-- wrapper attribute ↦ MIR key, composing `store_in_ast` (T7) with `to_mir` (T6) -/
def roundtrip (w : String × String × List (String × String) × Bool) : List (String × String) :=
  let (_, astCls, mapping, _) := w
  match astSchema.find? (·.1 = astCls) with
  | none => []
  | some (_, _, _, mir, _) =>
    mapping.filterMap fun (astField, attr) =>
      (mir.find? (fun kv => kv.2 = astField)).map fun kv => (attr, kv.1)

/-- what the program wrote ↦ where it must appear in the MIR (operand order included: `x[*]` means
element i goes to position i) -/
def expectedRoundtrip : List (String × List (String × String)) := [
  ("Addition", [("left", "left"), ("right", "right")]),
  ("ArrayNew", [("child[*]", "elements")]),
  ("BinaryOperation", [("left", "left"), ("right", "right")]),
  ("IfElse", [("this", "this"), ("arg_0", "arg_0"), ("arg_1", "arg_1")]),
  ("InnerProduct", [("left", "left"), ("right", "right")]),
  ("Input", [("name", "refers_to")]),
  ("Literal", []),
  ("Map", [("child", "inner"), ("fn", "fn")]),
  ("NTupleAccessor", [("index", "index"), ("child", "source")]),
  ("NTupleNew", [("child[*]", "elements")]),
  ("NadaFunction", [("fname", "function"), ("args[*]", "args"), ("child", "return_operation_id")]),
  ("NadaFunctionArg", [("name", "refers_to"), ("function_id", "function_id")]),
  ("NadaFunctionCall", [("args[*]", "args"), ("fn", "function_id")]),
  ("Not", [("child", "this")]),
  ("ObjectAccessor", [("key", "key"), ("child", "source")]),
  ("ObjectNew", [("child[*]", "elements")]),
  ("Random", []),
  ("Reduce", [("child", "inner"), ("fn", "fn"), ("initial", "initial")]),
  ("Reveal", [("child", "this")]),
  ("TupleNew", [("child[*]", "elements")]),
  ("UnaryOperation", [("child", "this")]),
  ("Unzip", [("child", "this")]),
  ("Zip", [("left", "left"), ("right", "right")])
]

end NadaVerif.Spec
