/-
Spec of C02 (definitions only; theorems are in `Props/C02.lean`): what it means for one cell of
the regenerated scalar table to obey the typing rules.
-/
import NadaVerif.Scalar
import NadaVerif.Generated.ScalarTable

namespace NadaVerif.C02
open NadaVerif NadaVerif.Generated

/-- The operator family as the property text groups it. -/
inductive Fam where
  | arith | power | shift | rel | eqop | logic | ifElse | truncPr | publicEquals | invert | reveal | random
  | unknown
  deriving DecidableEq, Repr

def famOf : String → Fam
  | "add" | "sub" | "mul" | "div" | "mod" => .arith
  | "pow" => .power
  | "shl" | "shr" => .shift
  | "lt" | "gt" | "le" | "ge" => .rel
  | "eq" | "ne" => .eqop
  | "and" | "or" | "xor" => .logic
  | "ifElse" => .ifElse | "truncPr" => .truncPr | "publicEquals" => .publicEquals
  | "invert" => .invert | "reveal" => .reveal | "random" => .random
  | _ => .unknown

def binOpOf : String → Option BinOp
  | "add" => some .add | "sub" => some .sub | "mul" => some .mul | "div" => some .div
  | "mod" => some .mod | "pow" => some .pow | "shl" => some .shl | "shr" => some .shr
  | "lt" => some .lt | "gt" => some .gt | "le" => some .le | "ge" => some .ge
  | "eq" => some .eq | "ne" => some .ne | "and" => some .and | "or" => some .or | "xor" => some .xor
  | _ => none

def maxMode : List STy → Mode
  | [] => .const
  | t :: ts => Mode.max t.mode (maxMode ts)

/-- The combinations the property says **must be rejected**. -/
def mustReject (f : Fam) (args : List STy) : Bool :=
  match f, args with
  | .arith, [l, r] => l.base ≠ r.base || !l.base.isNumeric          -- mixed bases; arithmetic on booleans
  | .power, [l, r] => l.base ≠ r.base || !l.base.isNumeric || r.mode = .sec   -- secret exponent
  | .shift, [l, r] => !l.base.isNumeric || r.base ≠ .uint || r.mode = .sec    -- signed / secret amount
  | .rel, [l, r] => l.base ≠ r.base || !l.base.isNumeric            -- ordering on booleans
  | .eqop, [l, r] => l.base ≠ r.base
  | .logic, [l, r] => l.base ≠ .bool || r.base ≠ .bool              -- logic on non-booleans
  | .ifElse, [c, a, b] => c.base ≠ .bool || c.mode = .const || a.base = .bool || b.base = .bool || a.base ≠ b.base
  | .truncPr, [l, r] => !l.base.isNumeric || r.base ≠ .uint || r.mode = .sec
  | .publicEquals, [l, r] => l.base ≠ r.base
  | .invert, [t] => t.base ≠ .bool
  | .reveal, [_] => false
  | .random, [t] => t.mode ≠ .sec
  | _, _ => true

/-- The combinations the rules **allow** (these must be accepted). -/
def mustAccept (f : Fam) (args : List STy) : Bool :=
  match f, args with
  | .arith, [l, r] | .rel, [l, r] => l.base = r.base && l.base.isNumeric
  | .power, [l, r] => l.base = r.base && l.base.isNumeric && l.mode ≠ .sec && r.mode ≠ .sec
  | .shift, [l, r] => l.base.isNumeric && r.base = .uint && r.mode ≠ .sec
  | .eqop, [l, r] => l.base = r.base
  | .logic, [l, r] => l.base = .bool && r.base = .bool
  | .ifElse, [c, a, b] => c.base = .bool && c.mode ≠ .const && a.base = b.base && a.base.isNumeric
  | .truncPr, [l, r] => l.mode = .sec && l.base.isNumeric && r.base = .uint && r.mode ≠ .sec
  | .publicEquals, [l, r] => l.base = r.base && l.mode ≠ .const && r.mode ≠ .const && !(l.mode = .sec && l.base = .bool)
  | .invert, [t] => t.base = .bool
  | .reveal, [_] => true
  | .random, [t] => t.mode = .sec
  | _, _ => false

/-- The type the rules prescribe for an accepted combination. -/
def ruledType (f : Fam) (args : List STy) : Option STy :=
  match f, args with
  | .arith, [l, _] | .power, [l, _] | .shift, [l, _] => some ⟨maxMode args, l.base⟩
  | .rel, [_, _] | .eqop, [_, _] | .logic, [_, _] => some ⟨maxMode args, .bool⟩
  | .ifElse, [_, a, _] => some ⟨maxMode args, a.base⟩
  | .truncPr, [l, _] => some ⟨.sec, l.base⟩
  | .publicEquals, [_, _] => some ⟨.pub, .bool⟩
  | .invert, [t] => some t
  | .reveal, [t] => some ⟨if t.mode = .sec then .pub else t.mode, t.base⟩
  | .random, [t] => some t
  | _, _ => none

/-- Name of the MIR operation an accepted, non-folded application must record. -/
def ruledOpName (op : String) : String :=
  match binOpOf op with
  | some b => b.mirName
  | none =>
    match op with
    | "ifElse" => "IfElse" | "truncPr" => "TruncPr" | "publicEquals" => "PublicOutputEquality"
    | "invert" => "Not" | "reveal" => "Reveal" | "random" => "Random" | _ => "?"

/-- One cell of the table satisfies C02. -/
def cellOK (r : Row) : Bool :=
  let (op, args, outs) := r
  let f := famOf op
  match outs with
  | [.reject] => !mustAccept f args
  | [.ok t folded name mirTy] =>
      !mustReject f args && ruledType f args = some t &&
      -- a literal-only application is folded (or an alias), anything else records the ruled node
      (if folded then (name = "Literal" && mirTy = t.mirName && maxMode args = .const) ||
                      (name = "alias" && f = .reveal)
       else name = ruledOpName op && mirTy = t.mirName)
  | _ => false          -- `weird`, or the outcome depends on how the operands were produced

/-- Index set of the table: every operator × every ordered tuple of the nine scalar types. -/
def keysOf (op : String) (arity : Nat) : List (String × List STy) :=
  match arity with
  | 1 => STy.all.map fun a => (op, [a])
  | 2 => STy.all.flatMap fun a => STy.all.map fun b => (op, [a, b])
  | _ => STy.all.flatMap fun a => STy.all.flatMap fun b => STy.all.map fun c => (op, [a, b, c])


def allKeys : List (String × List STy) :=
  (["add", "sub", "mul", "div", "mod", "pow", "shl", "shr", "lt", "gt", "le", "ge", "eq", "ne",
    "and", "or", "xor", "truncPr", "publicEquals"].flatMap (keysOf · 2))
  ++ keysOf "ifElse" 3 ++ keysOf "invert" 1 ++ keysOf "reveal" 1 ++ keysOf "random" 1


/-- The closed form used by the other layers, evaluated on one key. -/
def modelOut (op : String) (args : List STy) : Out :=
  match binOpOf op, args with
  | some b, [l, r] => typeBin b l r
  | none, _ =>
    match op, args with
    | "ifElse", [c, a, b] => typeIfElse c a b
    | "truncPr", [l, r] => typeTruncPr l r
    | "publicEquals", [l, r] => typePublicEquals l r
    | "invert", [t] => typeInvert t
    | "reveal", [t] => typeReveal t
    | "random", [t] => typeRandom t
    | _, _ => .reject
  | _, _ => .reject


def eraseOut : List ROut → Option Out
  | [.reject] => some .reject
  | [.ok t f _ _] => some (.ok t f)
  | _ => none


end NadaVerif.C02
