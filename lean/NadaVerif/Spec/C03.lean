/- Spec of C03 on the scalar table: no operator other than the two declassifying ones lowers secrecy. -/
import NadaVerif.Spec.C02

namespace NadaVerif.C03
open NadaVerif NadaVerif.Generated

/-- An accepted application of a non-declassifying operator yields a value at least as secret as
every operand; `random` yields a secret. `reveal` and `publicEquals` are the declassifying ones. -/
def noDeclass (r : Row) : Bool :=
  let (op, args, outs) := r
  match outs with
  | [.ok t _ _ mir] =>
      (op = "reveal" || op = "publicEquals" ||
        (args.all fun a => a.mode.rank ≤ t.mode.rank) && (op != "random" || t.mode = .sec)) &&
      -- the MIR type records secrecy faithfully (only `Secret…` names are secret)
      (mir = "" || mir = t.mirName)
  | _ => true

end NadaVerif.C03
