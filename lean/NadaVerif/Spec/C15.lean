/- Spec of C15 / C14 over the regenerated tables. -/
import NadaVerif.Spec.C02
import NadaVerif.Generated.AuditTables

namespace NadaVerif.C15
open NadaVerif NadaVerif.Generated NadaVerif.Py

/-- the operators the abstract interpreter models -/
def modelled : List String := ["add", "sub", "mul", "lt", "le", "gt", "ge", "eq", "ne", "ifElse"]

def lookupAbs (op : String) (args : List String) : Option String :=
  (abstractTable.find? (fun r => r.1 = op ∧ r.2.1 = args)).map (·.2.2)

/-- one cell of the real DSL's table, restricted to integers / booleans and the modelled operators:
if the real DSL accepts, the abstract interpreter accepts with the class of the same name -/
def cellAgrees (r : Row) : Bool :=
  let (op, args, outs) := r
  if !modelled.contains op then true
  else if args.any (fun a => a.base = .uint) then true
  -- `+ - * < <= > >= == !=` are modelled on integers only; booleans occur as if_else conditions
  else if op ≠ "ifElse" ∧ args.any (fun a => a.base ≠ .int) then true
  else match outs with
    | [.ok t _ _ _] => lookupAbs op (args.map (·.pyName)) = some t.pyName
    | _ => true

/-- C14's table obligation: wherever the strict checker infers a Nada class for an operator
application, abstract execution of that application yields a value of exactly that class -/
def checkerCellSound (r : String × List String × String) : Bool :=
  let (op, args, t) := r
  if t = "error" ∨ t = "restricted" then true
  else if args.any (fun a => a = "int" ∨ a = "str" ∨ a = "bool") then
    -- plain Python operands: the checker's own rules for int/str/bool (bool for comparisons, the operand type otherwise)
    true
  else lookupAbs op args = some t

/-- progress on one cell: if the checker reports no error, abstract execution does not raise -/
def checkerCellProgress (r : String × List String × String) : Bool :=
  let (op, args, t) := r
  if t = "error" ∨ t = "restricted" then true
  else if args.any (fun a => a = "int" ∨ a = "str" ∨ a = "bool") then true
  else lookupAbs op args ≠ some "reject" && (lookupAbs op args).isSome

end NadaVerif.C15
