/- Spec of C06 (definitions only). -/
import NadaVerif.Generated.FoldOps
import NadaVerif.Generated.ScalarTable

namespace NadaVerif.C06
open NadaVerif NadaVerif.Py NadaVerif.Generated

/-- The value of the literal produced by folding `op` over literals of base `b`. -/
def foldVal (op : BinOp) (b : Base) (l r : PyVal) : Except PyErr PyVal := eval (foldExpr op b) l r

/-- Over the regenerated table: an application is folded (recorded as one `Literal` of the result
type, or returned unchanged by `to_public`) **iff** all its operands are literals — an operation
with at least one non-literal operand is never folded, a literal-only one always is. -/
def foldedIffLiteral (r : Row) : Bool :=
  -- every outcome observed for the cell (the provenance classes include literals of other *values*: 0 / False, 1 / True, 2)
  r.2.2.all fun o =>
    match o with
    | .ok t folded name _ =>
        if name = "alias" then true
        else (folded == r.2.1.all (·.mode = .const)) && (!folded || (name = "Literal" && t.mode = .const))
    | _ => true

end NadaVerif.C06
