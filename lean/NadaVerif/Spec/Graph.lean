/-
Specs (Bool-valued, executable) of the graph properties over a `MirProg`:
C01 closed / acyclic / scoped, C09 exactness.  The Python oracles in harness/nv/oracle/graph.py
mirror these definitions; both are evaluated on the same MIRs by the checks.
-/
import NadaVerif.Compile

namespace NadaVerif.Spec
open NadaVerif

abbrev Table := List (Id × AstOp)

def Table.has (t : Table) (k : Id) : Bool := t.any (·.1 = k)

def keys (t : Table) : List Id := t.map (·.1)

/-- every operand reference of every entry is a key of the same table -/
def tableClosed (t : Table) : Bool := t.all fun e => e.2.children.all fun c => Table.has t c

def allTables (m : MirProg) : List Table := m.operations :: m.functions.map (·.ops)

def count {α} [DecidableEq α] (x : α) (xs : List α) : Nat := (xs.filter (· = x)).length

/-- C01, referential closure: operand references resolve in their own table, function / input /
literal references resolve to exactly one entry, outputs and return operations designate entries
of the right table, no id is filed twice. -/
def closed (m : MirProg) : Bool :=
  (allTables m).all (fun t =>
    tableClosed t && (keys t).Nodup &&
    t.all fun e =>
      (match e.2.fnRef with
       | some f => count f (m.functions.map (·.id)) = 1
       | none => true) &&
      (match e.2 with
       | .input n _ _ _ => count n (m.inputs.map (·.name)) = 1
       | .literal _ i _ => count (toString i) (m.literals.map (·.name)) = 1
       | .function .. => false          -- a function record has no MIR representation as an operation
       | _ => true)) &&
  m.outputs.all (fun o => Table.has m.operations o.opId) &&
  m.functions.all (fun f => Table.has f.ops f.returnOp)

/-- C01, acyclicity (as the compiler establishes it): every operand reference is smaller than the
referring id, hence no chain of references returns to its start. -/
def acyclic (m : MirProg) : Bool :=
  (allTables m).all fun t => t.all fun e => e.2.children.all fun c => c < e.1

/-- C01, scoping of function-argument references. -/
def argScoped (m : MirProg) : Bool :=
  m.operations.all (fun e => match e.2 with | .argRef .. => false | _ => true) &&
  m.functions.all fun f => f.ops.all fun e =>
    match e.2 with
    | .argRef n fid _ => fid = f.id && (f.args.map (·.1)).contains n
    | _ => true

/-- Ids reachable from `roots` through operand references inside table `t` (fuel = table size). -/
def reachIn (t : Table) : Nat → List Id → List Id → List Id
  | 0, _, seen => seen
  | _, [], seen => seen
  | fuel + 1, k :: stack, seen =>
    if seen.contains k then reachIn t fuel stack seen
    else match t.find? (·.1 = k) with
      | none => reachIn t fuel stack seen
      | some e => reachIn t fuel (e.2.children ++ stack) (k :: seen)

def fuelOf (t : Table) : Nat := 1 + (t.map fun e => 1 + e.2.children.length).sum

def allFnRefs (t : Table) : List Id := t.filterMap (·.2.fnRef)

/-- C09: tables hold exactly what is needed, each entry once. -/
def exact (m : MirProg) : Bool :=
  -- program table = reachable from the outputs; function tables = reachable from the return op
  (let r := reachIn m.operations (fuelOf m.operations + m.outputs.length) (m.outputs.map (·.opId)) []
   m.operations.all fun e => r.contains e.1) &&
  m.functions.all (fun f =>
    let r := reachIn f.ops (fuelOf f.ops) [f.returnOp] []
    f.ops.all fun e => r.contains e.1) &&
  -- lists without duplicates
  (m.functions.map (·.id)).Nodup && (m.inputs.map (·.name)).Nodup &&
  (m.literals.map (·.name)).Nodup && m.parties.Nodup &&
  -- every listed function / input / literal / party is referenced
  m.functions.all (fun f => (allTables m).any fun t => (allFnRefs t).contains f.id) &&
  m.inputs.all (fun i => (allTables m).any fun t => t.any fun e =>
    match e.2 with | .input n _ _ _ => n = i.name | _ => false) &&
  m.literals.all (fun l => (allTables m).any fun t => t.any fun e =>
    match e.2 with | .literal _ i _ => toString i = l.name | _ => false) &&
  m.parties.all (fun p => m.inputs.any (·.party = p) || m.outputs.any (·.party = p)) &&
  -- every literal reference resolves to an entry with its own value and type
  (allTables m).all (fun t => t.all fun e =>
    match e.2 with
    | .literal v i ty => m.literals.any fun l => l.name = toString i ∧ l.value = v ∧ l.ty = ty
    | _ => true)

/-- Well-formedness of a store, as every trace establishes it: operand ids are smaller than the
referring id. -/
def storeWF (st : St) : Bool := st.ops.all fun e => e.2.children.all fun c => c < e.1

end NadaVerif.Spec
