/-
Spec of C03 over a store: which scalar leaves of an operation's value depend on a secret.

A leaf of a (possibly nested) value is addressed by a path (`elem` into an array, `left` / `right` into a tuple, `idx i`
into an n-tuple or object).  `taintF s fuel k π` follows operand references backwards from leaf `π` of operation `k`:
secret-typed inputs and `random()` are the sources, `Reveal` and `PublicOutputEquality` are the only operations that
cut a dependence, containers carry it leaf by leaf (zip pairs, unzip splits, accessors pick, `new` collects, `map` takes
the function's returned value, an array's elements are joined).  Inside a function body a parameter is a source exactly
where its declared type is secret; `Taint.argsCovered` is the matching obligation at every call site.
`secretAt ty π`: the leaf `π` of type `ty` is a `Secret…` scalar.
-/
import NadaVerif.Spec.Edge

namespace NadaVerif.Taint
open NadaVerif NadaVerif.Edge

inductive Step where
  | elem | left | right | idx (i : Nat)
  deriving DecidableEq, Repr

abbrev Path := List Step

def secName (n : String) : Bool := n == "SecretInteger" || n == "SecretUnsignedInteger" || n == "SecretBoolean"

/-- the leaf `π` of the type is a secret scalar -/
def secretAt : MTy → Path → Bool
  | .scalar n, [] => secName n
  | .array e _, .elem :: π => secretAt e π
  | .tuple l _, .left :: π => secretAt l π
  | .tuple _ r, .right :: π => secretAt r π
  | .ntuple ts, .idx i :: π => (match ts.toList[i]? with | some t => secretAt t π | none => false)
  | .object fs, .idx i :: π => (match fs.toList[i]? with | some p => secretAt p.2 π | none => false)
  | _, _ => false
termination_by _ π => π.length

/-- the operation a function record returns -/
def fnChild (s : St) (f : Id) : Option Id :=
  match s.lookup f with
  | some (.function _ _ child _) => some child
  | _ => none

def keyIndex (fs : List (String × MTy)) (key : String) : Option Nat := fs.findIdx? (·.1 == key)

/-- does leaf `π` of operation `k` depend on a secret (without passing through a declassifying operation)? -/
def taintF (s : St) : Nat → Id → Path → Bool
  | 0, _, _ => false
  | fuel + 1, k, π =>
    match s.lookup k with
    | none => false
    | some op =>
      let viaFn (f : Id) (ρ : Path) : Bool := match fnChild s f with | some c => taintF s fuel c ρ | none => false
      match op with
      | .binary name l r _ =>
        if name == "Zip" then
          (match π with
           | .elem :: .left :: ρ => taintF s fuel l (.elem :: ρ)
           | .elem :: .right :: ρ => taintF s fuel r (.elem :: ρ)
           | _ => false)
        else if name == "PublicOutputEquality" then false
        else if name == "InnerProduct" then π == [] && (taintF s fuel l [.elem] || taintF s fuel r [.elem])
        else π == [] && (taintF s fuel l [] || taintF s fuel r [])
      | .unary name c _ =>
        if name == "Not" then taintF s fuel c π
        else if name == "Unzip" then
          (match π with
           | .left :: .elem :: ρ => taintF s fuel c (.elem :: .left :: ρ)
           | .right :: .elem :: ρ => taintF s fuel c (.elem :: .right :: ρ)
           | _ => false)
        else false                                   -- Reveal
      | .ifElse c a b _ => π == [] && (taintF s fuel c [] || taintF s fuel a [] || taintF s fuel b [])
      | .random _ => π == []
      | .input _ _ _ ty => secretAt ty π
      | .literal .. => false
      | .reduce _ f i _ => viaFn f π || taintF s fuel i π
      | .map _ f _ => (match π with | .elem :: ρ => viaFn f ρ | _ => false)
      | .new name es _ =>
        if name == "ArrayNew" then (match π with | .elem :: ρ => es.any (fun e => taintF s fuel e ρ) | _ => false)
        else if name == "TupleNew" then
          (match es, π with
           | [a, _], .left :: ρ => taintF s fuel a ρ
           | [_, b], .right :: ρ => taintF s fuel b ρ
           | _, _ => false)
        else (match π with
              | .idx i :: ρ => (match es[i]? with | some e => taintF s fuel e ρ | none => false)
              | _ => false)
      | .call _ f _ => viaFn f π
      | .argRef _ _ ty => secretAt ty π
      | .function .. => false
      | .ntupleAcc j src _ => taintF s fuel src (.idx j.toNat :: π)
      | .objectAcc key src _ =>
        (match tyAtS s src with
         | some (.object fs) => (match keyIndex fs.toList key with | some i => taintF s fuel src (.idx i :: π) | none => false)
         | _ => false)

/-- the accumulator of a `reduce` starts from a value of the function's return type -/
def reduceInitOK (s : St) : Bool :=
  s.ops.all fun e => s.lookup e.1 != some e.2 ||
    (match e.2 with
     | .reduce _ f i _ => tyAtS s i == fnTyS s f
     | _ => true)

/-- the declared type of each parameter of a function record -/
def paramTys (s : St) (f : Id) : Option (List MTy) :=
  match s.lookup f with
  | some (.function _ args _ _) => args.mapM (fun a => match s.lookup a with | some (.argRef _ _ ty) => some ty | _ => none)
  | _ => none

mutual
/-- every leaf of a type -/
def leafPaths : MTy → List Path
  | .scalar _ => [[]]
  | .array e _ => (leafPaths e).map (Step.elem :: ·)
  | .tuple l r => (leafPaths l).map (Step.left :: ·) ++ (leafPaths r).map (Step.right :: ·)
  | .ntuple ts => leafPathsL ts 0
  | .object fs => leafPathsF fs 0
  | .bare _ => []
def leafPathsL : MTys → Nat → List Path
  | .nil, _ => []
  | .cons t ts, i => (leafPaths t).map (Step.idx i :: ·) ++ leafPathsL ts (i + 1)
def leafPathsF : MFields → Nat → List Path
  | .nil, _ => []
  | .cons _ t fs, i => (leafPaths t).map (Step.idx i :: ·) ++ leafPathsF fs (i + 1)
end

/-- the property on a whole store, executable: no leaf of a visible operation depends on a secret while typed public -/
def storeTaintOK (s : St) : Bool :=
  s.ops.all fun e => s.lookup e.1 != some e.2 ||
    (leafPaths e.2.ty).all fun π => !taintF s (s.counter + 1) e.1 π || secretAt e.2.ty π

end NadaVerif.Taint
