/-
Spec of C05's edge consistency over a *store* (and hence over every emitted table, whose entries are
store records): the type recorded for an operation is the one its operands' recorded types determine.
`edgeOK` is Bool-valued and mirrors `c05()` of harness/nv/oracle/graph.py clause by clause
(`exp = …` there is the right-hand side here).  MIR erases the literal / public distinction, so the
scalar clauses speak about the erased secrecy (`Secret…` name or not).
-/
import NadaVerif.Trace

namespace NadaVerif

mutual
/-- the values a later command can obtain from a value: itself and (recursively) NTuple / Object members -/
def Val.live : Val → List Val
  | .scalar t c l => [.scalar t c l]
  | .array e n c => [.array e n c]
  | .tuple l r c => [.tuple l r c]
  | .ntuple vs c => .ntuple vs c :: Vals.live vs
  | .object fs c => .object fs c :: VFields.live fs
def Vals.live : Vals → List Val
  | .nil => []
  | .cons v vs => Val.live v ++ Vals.live vs
def VFields.live : VFields → List Val
  | .nil => []
  | .cons _ v fs => Val.live v ++ VFields.live fs
end

def AstOp.isInput : AstOp → Bool
  | .input .. => true
  | _ => false

end NadaVerif

namespace NadaVerif

/-- the registers a command reads values from -/
def Cmd.reads : Cmd → List Reg
  | .party _ | .lit .. | .random _ | .beginFn .. | .nop | .inputObj .. | .wrap .. => []
  | .arrayOf r _ | .invert r | .reveal r | .radd _ r | .ntupleGet r _ | .objectGet r _ | .unzip r => [r]
  | .bin _ a b | .truncPr a b | .publicEquals a b | .tupleNew a b | .zip a b | .innerProduct a b => [a, b]
  | .ifElse c a b => [c, a, b]
  | .arrayNew xs | .ntupleNew xs => xs
  | .objectNew fs => fs.map (·.2)
  | .map a _ => [a]
  | .reduce a _ i => [a, i]
  | .endFn r _ => [r]
  | .call _ args kws => args ++ kws.map (·.2)

end NadaVerif

namespace NadaVerif.Edge
open NadaVerif

def arithNames : List String := ["Addition", "Subtraction", "Multiplication", "Division", "Modulo", "Power"]
def shiftNames : List String := ["LeftShift", "RightShift"]
def relLogicNames : List String :=
  ["LessThan", "GreaterThan", "LessOrEqualThan", "GreaterOrEqualThan", "Equals", "NotEquals",
   "BooleanAnd", "BooleanOr", "BooleanXor"]

/-- secrecy as the MIR shows it -/
def emode (secret : Bool) : Mode := if secret then .sec else .pub

def STy.isSec (t : STy) : Bool := t.mode == .sec

/-- scalar binary operations, by the recorded operation name, on (any representative of) the operand types -/
def binEdge (name : String) (tl tr : STy) (ty : MTy) : Bool :=
  let m := emode (STy.isSec tl || STy.isSec tr)
  if arithNames.contains name then tl.base == tr.base && ty == .scalar (STy.mk m tl.base).mirName
  else if shiftNames.contains name then ty == .scalar (STy.mk m tl.base).mirName
  else if relLogicNames.contains name then tl.base == tr.base && ty == .scalar (STy.mk m .bool).mirName
  else if name == "PublicOutputEquality" then ty == .scalar "Boolean"
  else if name == "TruncPr" then ty == .scalar (STy.mk .sec tl.base).mirName
  else if name == "InnerProduct" then false
  else false

/-- the `size` entry up to the omitted / `null` spelling of "no size" -/
def Size.norm : Size → Size
  | .omitted => .null
  | .null => .null
  | .n v => if v = 0 then .null else .n v

def scalarOf (t : MTy) : List STy := STy.all.filter fun s => t == .scalar s.mirName

/-- `[tyAt e | e ∈ es]` when all are recorded -/
def tysOf (tyAt : Id → Option MTy) : List Id → Option (List MTy)
  | [] => some []
  | e :: es => match tyAt e, tysOf tyAt es with
    | some t, some ts => some (t :: ts)
    | _, _ => none

def fieldsMatch : List (String × MTy) → List MTy → Bool
  | [], [] => true
  | (_, t) :: fs, t' :: ts => t == t' && fieldsMatch fs ts
  | _, _ => false

/-- The recorded type of `op` is the one determined by the recorded types of its operands (`tyAt`) and of the
function it names (`fnTy`: the return type of a function record). -/
def edgeOK (tyAt : Id → Option MTy) (fnTy : Id → Option MTy) : AstOp → Bool
  | .binary name l r ty =>
    match tyAt l, tyAt r with
    | some tl, some tr =>
      if name == "Zip" then
        match tl, tr with
        | .array el nl, .array er nr => ty == .array (.tuple el er) nl && nl == nr
        | _, _ => false
      else if name == "InnerProduct" then
        match tl, tr with
        | .array el _, .array er _ =>
          (scalarOf el).any fun a => (scalarOf er).any fun b =>
            a.base == b.base && ty == .scalar (STy.mk (emode (STy.isSec a || STy.isSec b)) a.base).mirName
        | _, _ => false
      else (scalarOf tl).any fun a => (scalarOf tr).any fun b => binEdge name a b ty
    | _, _ => false
  | .unary name c ty =>
    match tyAt c with
    | some tc =>
      if name == "Not" then ty == tc
      else if name == "Reveal" then (scalarOf tc).any fun a => ty == .scalar (STy.mk .pub a.base).mirName
      else if name == "Unzip" then
        match tc, ty with
        | .array (.tuple l r) n, .tuple (.array l' n1) (.array r' n2) =>
          l' == l && r' == r && Size.norm n1 == Size.norm n && Size.norm n2 == Size.norm n
        | _, _ => false
      else false
    | none => false
  | .ifElse c a b ty =>
    match tyAt c, tyAt a, tyAt b with
    | some tc, some ta, some tb =>
      (scalarOf tc).any fun x => (scalarOf ta).any fun y => (scalarOf tb).any fun z =>
        y.base == z.base &&
        ty == .scalar (STy.mk (emode (STy.isSec x || STy.isSec y || STy.isSec z)) y.base).mirName
    | _, _, _ => false
  | .map c f ty =>
    match tyAt c, fnTy f with
    | some (.array _ n), some rt => ty == .array rt n
    | _, _ => false
  | .reduce c f i ty => (tyAt c).isSome && (tyAt i).isSome && fnTy f == some ty
  | .call args f ty => (tysOf tyAt args).isSome && fnTy f == some ty
  | .new name es ty =>
    match tysOf tyAt es with
    | some ts =>
      if name == "ArrayNew" then
        match ts with
        | t0 :: _ => ts.all (· == t0) && ty == .array t0 (.n ts.length)
        | [] => false
      else if name == "TupleNew" then
        match ts with
        | [a, b] => ty == .tuple a b
        | _ => false
      else if name == "NTupleNew" then ty == .ntuple (MTys.ofList ts)
      else if name == "ObjectNew" then
        match ty with
        | .object fs => fieldsMatch fs.toList ts
        | _ => false
      else false
    | none => false
  | .ntupleAcc j src ty =>
    match tyAt src with
    | some (.ntuple ts) => decide (0 ≤ j) && ts.toList[j.toNat]? == some ty
    | _ => false
  | .objectAcc key src ty =>
    match tyAt src with
    | some (.object fs) => (fs.toList.find? (·.1 == key)).map (·.2) == some ty
    | _ => false
  | .function _ _ child ty => tyAt child == some ty
  | .random ty => (scalarOf ty).any STy.isSec          -- `T.random()` exists for the secret classes only
  | .input .. | .literal .. | .argRef .. => true

def tyAtS (s : St) (c : Id) : Option MTy := (s.lookup c).map (·.ty)
def fnTyS (s : St) (f : Id) : Option MTy :=
  match s.lookup f with
  | some (.function _ _ _ ty) => some ty
  | _ => none

/-- every visible record of the store is edge-consistent -/
def storeEdgesOK (s : St) : Bool :=
  s.ops.all fun e => s.lookup e.1 != some e.2 || edgeOK (tyAtS s) (fnTyS s) e.2

/-! ### the hypotheses of the whole-program theorem, executable (`Lemmas/TypedRun.lean`: `CleanStep`) -/

/-- the value's own record carries the value's type -/
def agreeB (s : St) (w : Val) : Bool :=
  match w.child with
  | none => true
  | some c =>
    match s.lookup c, w.toMir with
    | some op, .ok t => t == op.ty
    | _, _ => false

/-- no stored record mentions `k` -/
def unrefB (s : St) (k : Id) : Bool := s.ops.all fun e => !((e.2.children ++ e.2.fnRef.toList ++ (match e.2 with | .function _ args child _ => child :: args | _ => [])).contains k)

def cleanStepB (m : Mach) (c : Cmd) : Bool :=
  (c.reads.all fun r => match m.regs[r]? with
    | some (.val v) => v.live.all (agreeB m.st)
    | _ => true) &&
  (match c with
   | .wrap _ r => (match m.regs[r]? with | some (.input k _ _ _) => unrefB m.st k | _ => true)
   | .arrayOf r _ => (match m.regs[r]? with
      | some (.val v) => (match v.child with | some c' => unrefB m.st c' | none => true)
      | _ => true)
   | _ => true)

def cleanRunB (m : Mach) : List Cmd → Bool
  | [] => true
  | c :: cs => cleanStepB m c && cleanRunB (step m c).1 cs

end NadaVerif.Edge
