/- Spec of C07 over the regenerated class table. -/
import NadaVerif.Py.Protocol

namespace NadaVerif.C07
open NadaVerif.Py NadaVerif.Generated

def classes (t : ClassTable) : List String := (t.filter (·.2.1 = "!kind")).map (·.1)
def nonLiteral (t : ClassTable) : List String := (classes t).filter (fun c => kindOf t c ≠ "literal")

def others : List String := ["same", "pyint", "none", "str", "list", "array"]
def cmpSlots : List String := ["__eq__", "__ne__", "__lt__", "__le__", "__gt__", "__ge__"]

/-- C07 for one non-literal class: every truth route raises; every comparison with anything raises
or returns a Nada value (never a Python value); comparisons used as conditions raise; the class is
unhashable (no membership by hashing) and answers no membership test `probe in x`; a kind exists for the class. -/
def classOblivious (t : ClassTable) (c : String) : Bool :=
  truthOf t c = .raises &&
  cmpSlots.all (fun s => others.all fun o => cmpOutcome t c s o ≠ .silent) &&
  cmpSlots.all (fun s => others.all fun o => cmpThenTruth t c s o = .raises) &&
  hashOf t c = .raises && containsOf t c = .raises && kindOf t c ≠ "missing"

/-- predictions for every class × route, for the cross-check against real executions -/
def routes (t : ClassTable) : List (String × String × String × Outcome) :=
  (classes t).flatMap fun c =>
    [(c, "truth", "", truthOf t c), (c, "iter", "", iterOf t c), (c, "hash", "", hashOf t c),
     (c, "reversed", "", reversedOf t c), (c, "indexwalk", "", indexWalkOf t c), (c, "contains", "", containsOf t c)] ++
    cmpSlots.flatMap fun s => others.flatMap fun o =>
      [(c, s, o, cmpOutcome t c s o), (c, s ++ "+truth", o, cmpThenTruth t c s o)]

end NadaVerif.C07
