/-
The fuel of the compile model always suffices for the traversal: `traverse` never reports "out of fuel" when it is given
`St.fuel`, whatever the store holds (cycles included — a record is expanded at most once).
Measure: entries on the stack + Σ (1 + number of operands) over the records not yet in the table.
-/
import NadaVerif.Lemmas.Mono
import NadaVerif.Props.C01

namespace NadaVerif.Lemmas
open NadaVerif

def inTable (table : List (Id × AstOp)) (k : Id) : Bool := table.any (fun x => decide (x.1 = k))

theorem inTable_append (table : List (Id × AstOp)) (x : Id × AstOp) (k : Id) :
    inTable (table ++ [x]) k = (inTable table k || decide (x.1 = k)) := by
  simp [inTable]

/-- weight of the records that are not in the table yet -/
def unvisited : List (Id × AstOp) → List (Id × AstOp) → Nat
  | [], _ => 0
  | e :: ops, table => (if inTable table e.1 then 0 else 1 + e.2.children.length) + unvisited ops table

theorem unvisited_le_total (ops table : List (Id × AstOp)) :
    unvisited ops table ≤ (ops.map (fun e => 1 + e.2.children.length)).sum := by
  induction ops with
  | nil => simp [unvisited]
  | cons e ops ih =>
    simp only [unvisited, List.map_cons, List.sum_cons]
    split <;> omega

theorem unvisited_mono (ops table : List (Id × AstOp)) (x : Id × AstOp) :
    unvisited ops (table ++ [x]) ≤ unvisited ops table := by
  induction ops with
  | nil => simp [unvisited]
  | cons e ops ih =>
    simp only [unvisited, inTable_append]
    cases inTable table e.1 <;> cases decide (x.1 = e.1) <;> simp <;> omega

/-- expanding a record that is not in the table yet pays for the entries it pushes -/
theorem unvisited_visit (ops table : List (Id × AstOp)) (k : Id) (op : AstOp) (hm : (k, op) ∈ ops)
    (hk : inTable table k = false) :
    unvisited ops (table ++ [(k, op)]) + (1 + op.children.length) ≤ unvisited ops table := by
  induction ops with
  | nil => cases hm
  | cons e ops ih =>
    have hmono := unvisited_mono ops table (k, op)
    simp only [List.mem_cons] at hm
    simp only [unvisited, inTable_append]
    rcases hm with hm | hm
    · subst hm
      simp only [hk, decide_true, Bool.or_true, if_true, Bool.false_eq_true, if_false]
      omega
    · have := ih hm
      cases inTable table e.1 <;> cases decide (k = e.1) <;> simp <;> omega

theorem processOp_ne_unsupported (st : St) (k : Id) (op : AstOp) (fs : List (Id × AstOp)) (acc : CAcc) :
    processOp st k op fs acc ≠ .error .unsupported := by
  intro h
  cases op <;> simp only [processOp] at h
  case input name party doc ty =>
    simp only [bind, Except.bind, addInput] at h
    split at h
    · rename_i heq
      split at heq <;> simp at heq
      simp only [Except.error.injEq] at h
      subst h
      simp at heq
    · simp at h
  case function => split at h <;> simp at h
  all_goals first
    | (simp at h; done)
    | (split at h
       · simp at h
       · split at h <;> simp at h)

theorem traverse_fuel (st : St) (functions : List (Id × AstOp)) :
    ∀ (fuel : Nat) (stack : List Id) (table extra : List (Id × AstOp)) (acc : CAcc),
    stack.length + unvisited st.ops table ≤ fuel →
    traverse st functions fuel stack table extra acc ≠ .error .unsupported := by
  intro fuel
  induction fuel with
  | zero =>
    intro stack table extra acc h
    cases stack with
    | nil => simp [traverse]
    | cons k s => simp at h
  | succ fuel ih =>
    intro stack table extra acc h
    cases stack with
    | nil => simp [traverse]
    | cons k s =>
      simp only [traverse]
      simp only [List.length_cons] at h
      split
      · exact ih _ _ _ _ (by omega)
      · rename_i hk
        split
        · intro hh; cases hh
        · rename_i op hop
          split
          · rename_i e hproc
            intro hh
            simp only [Except.error.injEq] at hh
            subst hh
            exact processOp_ne_unsupported _ _ _ _ _ hproc
          · rename_i acc1 ex hproc
            apply ih
            have hm := C01.lookup_mem st k op hop
            have hk' : inTable table k = false := by
              simp only [inTable]
              exact Bool.eq_false_iff.mpr hk
            have hv := unvisited_visit st.ops table k op hm hk'
            simp only [List.length_append, List.length_reverse]
            omega

/-- from one root, `St.fuel` is enough whatever the table already holds -/
theorem traverse_root_fuel (st : St) (functions : List (Id × AstOp)) (root : Id) (table extra : List (Id × AstOp)) (acc : CAcc) :
    traverse st functions st.fuel [root] table extra acc ≠ .error .unsupported := by
  apply traverse_fuel
  have := unvisited_le_total st.ops table
  simp only [St.fuel, List.length_singleton]
  omega

theorem compileOutputs_ne_unsupported (st : St) :
    ∀ (outs : List OutDecl) (table functions : List (Id × AstOp)) (mouts : List MirOutput) (acc : CAcc),
    compileOutputs st outs table functions mouts acc ≠ .error .unsupported := by
  intro outs
  induction outs with
  | nil => intro table functions mouts acc h; simp [compileOutputs] at h
  | cons o os ih =>
    intro table functions mouts acc
    simp only [compileOutputs]
    split
    · rename_i e htr
      intro hh
      simp only [Except.error.injEq] at hh
      subst hh
      exact traverse_root_fuel st functions o.root table [] acc htr
    · split
      · intro hh; cases hh
      · exact ih _ _ _ _

end NadaVerif.Lemmas

namespace NadaVerif.Lemmas
open NadaVerif NadaVerif.Spec

/-- every key of the list is a key of the store -/
def Stored' (st : St) (t : Table) : Prop := ∀ k ∈ keys t, k ∈ keys st.ops

theorem lookup_key_mem (st : St) (k : Id) (op : AstOp) (h : st.lookup k = some op) : k ∈ keys st.ops := by
  have := C01.lookup_mem st k op h
  exact List.mem_map.mpr ⟨(k, op), this, rfl⟩

theorem processOp_stored (st : St) (k : Id) (op : AstOp) (functions : Table) (acc acc' : CAcc) (p : Id × AstOp)
    (hop : st.lookup k = some op) (h : processOp st k op functions acc = .ok (acc', some p)) : p.1 ∈ keys st.ops := by
  cases op <;> simp only [processOp] at h
  case input name party doc ty =>
    simp only [bind, Except.bind] at h
    split at h <;> simp at h
  case function =>
    split at h <;> simp at h
    obtain ⟨_, rfl⟩ := h
    exact lookup_key_mem st k _ hop
  all_goals first
    | (simp at h; done)
    | (split at h
       · simp at h
       · split at h
         · rename_i f hf
           simp only [Except.ok.injEq, Prod.mk.injEq, Option.some.injEq] at h
           obtain ⟨_, rfl⟩ := h
           exact lookup_key_mem st _ f hf
         · simp at h)

theorem stored_upsertFn (st : St) (p : Id × AstOp) (extra : Table) (hp : p.1 ∈ keys st.ops) (he : Stored' st extra) :
    Stored' st (upsertFn p extra) := by
  intro k hk
  rw [keys_upsertFn] at hk
  split at hk
  · exact he k hk
  · rcases List.mem_append.1 hk with h1 | h1
    · exact he k h1
    · simp at h1; subst h1; exact hp

theorem traverse_stored (st : St) (functions : Table) :
    ∀ (fuel : Nat) (stack : List Id) (table extra : Table) (acc : CAcc) (table' extra' : Table) (acc' : CAcc),
    traverse st functions fuel stack table extra acc = .ok (table', extra', acc') → Stored' st extra → Stored' st extra' := by
  intro fuel
  induction fuel with
  | zero =>
    intro stack table extra acc table' extra' acc' h he
    cases stack with
    | nil => simp [traverse] at h; obtain ⟨_, rfl, _⟩ := h; exact he
    | cons k s => simp [traverse] at h
  | succ fuel ih =>
    intro stack table extra acc table' extra' acc' h he
    cases stack with
    | nil => simp [traverse] at h; obtain ⟨_, rfl, _⟩ := h; exact he
    | cons k s =>
      simp only [traverse] at h
      split at h
      · exact ih _ _ _ _ _ _ _ h he
      · split at h
        · simp at h
        · rename_i op hop
          split at h
          · simp at h
          · rename_i acc1 ex hproc
            cases ex with
            | none => exact ih _ _ _ _ _ _ _ h he
            | some p =>
              exact ih _ _ _ _ _ _ _ h (stored_upsertFn st p extra (processOp_stored st k op functions acc acc1 p hop hproc) he)

theorem fnToMir_ne_unsupported (st : St) (k : Id) (f : AstOp) (table : Table) : fnToMir st k f table ≠ .error .unsupported := by
  intro h
  cases f <;> simp only [fnToMir] at h <;> try (simp at h; done)
  rename_i name args child ty
  simp only [bind, Except.bind] at h
  split at h
  · rename_i e has
    simp only [Except.error.injEq] at h
    subst h
    -- an argument lookup never answers "out of fuel"
    have : ∀ (as : List Id), as.mapM (argOf st) ≠ .error .unsupported := by
      intro as
      induction as with
      | nil => intro hh; cases hh
      | cons a as ih =>
        intro hh
        simp only [List.mapM_cons, bind, Except.bind] at hh
        split at hh
        · rename_i e' ha
          simp only [Except.error.injEq] at hh
          subst hh
          unfold argOf at ha
          split at ha <;> simp at ha
        · split at hh
          · rename_i e' hxs
            simp only [Except.error.injEq] at hh
            subst hh
            exact ih hxs
          · cases hh
    exact this _ has
  · simp at h

/-- the worklist of functions: `st.ops.length + 1` rounds are enough — every round takes one entry off the stack and
every entry pushed is a stored function not known before -/
theorem emitFunctions_fuel (st : St) :
    ∀ (fuel : Nat) (stack functions : Table) (out : List MirFn) (acc : CAcc),
    (keys functions).Nodup → Stored' st functions → stack.length + (st.ops.length - (keys functions).length) ≤ fuel →
    emitFunctions st fuel stack functions out acc ≠ .error .unsupported := by
  intro fuel
  induction fuel with
  | zero =>
    intro stack functions out acc hn hs hle
    cases stack with
    | nil => simp [emitFunctions]
    | cons x xs => simp at hle
  | succ fuel ih =>
    intro stack functions out acc hn hs hle
    cases stack with
    | nil => simp [emitFunctions]
    | cons x xs =>
      obtain ⟨k, f⟩ := x
      simp only [emitFunctions]
      split
      · rename_i name args child ty
        split
        · rename_i e htr
          intro hh
          simp only [Except.error.injEq] at hh
          subst hh
          exact traverse_root_fuel st functions child [] [] acc htr
        · rename_i t1 ex1 acc1 htr
          split
          · rename_i e hmf
            intro hh
            simp only [Except.error.injEq] at hh
            subst hh
            exact fnToMir_ne_unsupported st k _ t1 hmf
          · rename_i mf hmf
            obtain ⟨_, hen, hed⟩ := traverse_fn st functions _ _ _ _ _ _ _ _ htr (FnCov.nil _) (by simp [keys]) (by simp [keys])
            have hes := traverse_stored st functions _ _ _ _ _ _ _ _ htr (by intro k hk; simp [keys] at hk)
            have hkeys := keys_mergeFns ex1 functions hen hed
            have hn' : (keys (mergeFns functions ex1)).Nodup := by
              rw [hkeys]
              exact List.nodup_append.2 ⟨hn, hen, fun a ha b hb hab => hed b hb (hab ▸ ha)⟩
            have hs' : Stored' st (mergeFns functions ex1) := by
              intro k' hk'
              rw [hkeys] at hk'
              rcases List.mem_append.1 hk' with h1 | h1
              · exact hs k' h1
              · exact hes k' h1
            have hlen : (keys (mergeFns functions ex1)).length ≤ (keys st.ops).length :=
              List.Nodup.length_le_of_subset hn' (fun k' hk' => hs' k' hk')
            apply ih _ _ _ _ hn' hs'
            have hl1 : (keys (mergeFns functions ex1)).length = (keys functions).length + ex1.length := by
              rw [hkeys]; simp [keys]
            have hl2 : (keys st.ops).length = st.ops.length := by simp [keys]
            simp only [List.length_append, List.length_reverse, List.length_cons] at hle ⊢
            omega
      all_goals (intro hh; cases hh)

theorem stored_mergeFns (st : St) (extra : Table) : ∀ (fs : Table), Stored' st fs → Stored' st extra → Stored' st (mergeFns fs extra) := by
  induction extra with
  | nil => intro fs h _; simpa [mergeFns] using h
  | cons g gs ih =>
    intro fs hf he
    simp only [mergeFns, List.foldl_cons]
    have hg : g.1 ∈ keys st.ops := he g.1 (by simp [keys])
    have hgs : Stored' st gs := fun k hk => he k (by simp [keys] at hk ⊢; exact .inr hk)
    exact ih (upsertFn g fs) (stored_upsertFn st g fs hg hf) hgs

theorem compileOutputs_stored (st : St) :
    ∀ (outs : List OutDecl) (table functions : Table) (mouts : List MirOutput) (acc : CAcc)
      (table' functions' : Table) (mouts' : List MirOutput) (acc' : CAcc),
    compileOutputs st outs table functions mouts acc = .ok (table', functions', mouts', acc') →
    Stored' st functions → Stored' st functions' := by
  intro outs
  induction outs with
  | nil =>
    intro table functions mouts acc table' functions' mouts' acc' h hs
    simp [compileOutputs] at h
    obtain ⟨_, rfl, _, _⟩ := h
    exact hs
  | cons o os ih =>
    intro table functions mouts acc table' functions' mouts' acc' h hs
    simp only [compileOutputs] at h
    split at h
    · simp at h
    · rename_i t1 ex1 acc1 htr
      split at h
      · simp at h
      · rename_i op hop
        have hes := traverse_stored st functions _ _ _ _ _ _ _ _ htr (by intro k hk; simp [keys] at hk)
        exact ih _ _ _ _ _ _ _ _ h (stored_mergeFns st ex1 functions hs hes)

/-- **The compile model never runs out of fuel**: whatever the store holds (cycles, dangling ids, records of any kind) and
whatever outputs are asked for, `compile` answers with a MIR or with a genuine error. -/
theorem compile_ne_unsupported (st : St) (outs : List OutDecl) : compile st outs ≠ .error .unsupported := by
  intro h
  simp only [compile, bind, Except.bind] at h
  split at h
  · rename_i e hco
    simp only [Except.error.injEq] at h
    subst h
    exact compileOutputs_ne_unsupported st outs [] [] [] {} hco
  · rename_i r hco
    obtain ⟨table, functions, mouts, acc⟩ := r
    simp only at h
    split at h
    · rename_i e hef
      simp only [Except.error.injEq] at h
      subst h
      obtain ⟨_, hn⟩ := compileOutputs_fn st outs [] [] [] {} table functions mouts acc hco (FnCov.nil _) (by simp [keys])
      have hs := compileOutputs_stored st outs [] [] [] {} table functions mouts acc hco (by intro k hk; simp [keys] at hk)
      have hlen : (keys functions).length ≤ (keys st.ops).length := List.Nodup.length_le_of_subset hn (fun k hk => hs k hk)
      refine emitFunctions_fuel st _ functions.reverse functions [] acc hn hs ?_ hef
      have hl2 : (keys st.ops).length = st.ops.length := by simp [keys]
      have hl3 : (keys functions).length = functions.length := by simp [keys]
      simp only [List.length_reverse]
      omega
    · simp at h

end NadaVerif.Lemmas
