/-
C08 / C13 — the compiler walk commutes with an injective renaming of operation ids and of literal names.

`Ren` = a map on ids and a map on literal indices, both injective.  `St.ren r s` renames every record of the store.
`compile_ren`: compiling the renamed store from the renamed outputs yields the renamed MIR (and fails alike):
the walk compares ids and literal names only for equality, and orders nothing by them.
-/
import NadaVerif.Compile
import Std.Data.String.ToNat

namespace NadaVerif

structure Ren where
  id : Nat → Nat
  lit : Nat → Nat

def AstOp.ren (r : Ren) : AstOp → AstOp
  | .binary n l rr ty => .binary n (r.id l) (r.id rr) ty
  | .unary n c ty => .unary n (r.id c) ty
  | .ifElse c a b ty => .ifElse (r.id c) (r.id a) (r.id b) ty
  | .random ty => .random ty
  | .input n p d ty => .input n p d ty
  | .literal v i ty => .literal v (r.lit i) ty
  | .reduce c f i ty => .reduce (r.id c) (r.id f) (r.id i) ty
  | .map c f ty => .map (r.id c) (r.id f) ty
  | .new n es ty => .new n (es.map r.id) ty
  | .call as f ty => .call (as.map r.id) (r.id f) ty
  | .argRef n f ty => .argRef n (r.id f) ty
  | .function n args c ty => .function n (args.map r.id) (r.id c) ty
  | .ntupleAcc i s ty => .ntupleAcc i (r.id s) ty
  | .objectAcc key s ty => .objectAcc key (r.id s) ty

def renE (r : Ren) (e : Id × AstOp) : Id × AstOp := (r.id e.1, e.2.ren r)

def St.ren (r : Ren) (s : St) : St := { s with ops := s.ops.map (renE r) }

def MirInput.ren (r : Ren) (i : MirInput) : MirInput := { i with id := r.id i.id }

/-- a literal's name is its index in decimal -/
def MirLiteral.ren (r : Ren) (l : MirLiteral) : MirLiteral :=
  { l with name := toString (r.lit (l.name.toNat?.getD 0)) }

def renB (r : Ren) (b : String × List MirInput) : String × List MirInput := (b.1, b.2.map (MirInput.ren r))

def CAcc.ren (r : Ren) (a : CAcc) : CAcc :=
  { inputs := a.inputs.map (renB r), parties := a.parties, literals := a.literals.map (MirLiteral.ren r) }

def MirOutput.ren (r : Ren) (o : MirOutput) : MirOutput := { o with opId := r.id o.opId }

def MirFn.ren (r : Ren) (f : MirFn) : MirFn :=
  { f with id := r.id f.id, returnOp := r.id f.returnOp, ops := f.ops.map (renE r) }

def OutDecl.ren (r : Ren) (o : OutDecl) : OutDecl := { o with root := r.id o.root }

def MirProg.ren (r : Ren) (m : MirProg) : MirProg :=
  { functions := m.functions.map (MirFn.ren r), parties := m.parties, inputs := m.inputs.map (MirInput.ren r),
    literals := m.literals.map (MirLiteral.ren r), outputs := m.outputs.map (MirOutput.ren r),
    operations := m.operations.map (renE r) }

end NadaVerif

namespace NadaVerif.Lemmas
open NadaVerif

structure Ren.Inj (r : Ren) : Prop where
  id : ∀ a b, r.id a = r.id b → a = b
  lit : ∀ a b, r.lit a = r.lit b → a = b

variable {r : Ren}

theorem ren_children (op : AstOp) : (op.ren r).children = op.children.map r.id := by
  cases op <;> simp [AstOp.ren, AstOp.children]

theorem ren_ty (op : AstOp) : (op.ren r).ty = op.ty := by
  cases op <;> simp [AstOp.ren, AstOp.ty]

theorem find_ren (h : Ren.Inj r) (l : List (Id × AstOp)) (c : Id) :
    (l.map (renE r)).find? (·.1 == r.id c) = (l.find? (·.1 == c)).map (renE r) := by
  induction l with
  | nil => rfl
  | cons e l ih =>
    simp only [List.map_cons, List.find?_cons]
    have : ((renE r e).1 == r.id c) = (e.1 == c) := by
      simp only [renE]
      by_cases hh : e.1 = c
      · simp [hh]
      · have h3 : ¬ r.id e.1 = r.id c := fun x => hh (h.id _ _ x)
        rw [beq_eq_false_iff_ne.mpr hh, beq_eq_false_iff_ne.mpr h3]
    rw [this]
    cases e.1 == c with
    | true => rfl
    | false => exact ih

theorem lookup_ren (h : Ren.Inj r) (s : St) (c : Id) : (s.ren r).lookup (r.id c) = (s.lookup c).map (AstOp.ren r) := by
  simp only [St.lookup, St.ren, find_ren h, Option.map_map]
  rfl

theorem any_key_ren (h : Ren.Inj r) (t : List (Id × AstOp)) (k : Id) :
    (t.map (renE r)).any (fun e => decide (e.1 = r.id k)) = t.any (fun e => decide (e.1 = k)) := by
  induction t with
  | nil => rfl
  | cons e t ih =>
    simp only [List.map_cons, List.any_cons, ih, renE]
    congr 1
    by_cases hh : e.1 = k
    · simp [hh]
    · have h3 : ¬ r.id e.1 = r.id k := fun x => hh (h.id _ _ x)
      simp [hh, h3]

theorem upsertFn_ren (h : Ren.Inj r) (f : Id × AstOp) (fs : List (Id × AstOp)) :
    upsertFn (renE r f) (fs.map (renE r)) = (upsertFn f fs).map (renE r) := by
  induction fs with
  | nil => rfl
  | cons g gs ih =>
    simp only [List.map_cons, upsertFn]
    by_cases hh : g.1 = f.1
    · simp [hh, renE]
    · have h3 : ¬ r.id g.1 = r.id f.1 := fun x => hh (h.id _ _ x)
      simp [hh, h3, renE, ← ih]

theorem mergeFns_ren (h : Ren.Inj r) (fs extra : List (Id × AstOp)) :
    mergeFns (fs.map (renE r)) (extra.map (renE r)) = (mergeFns fs extra).map (renE r) := by
  unfold mergeFns
  induction extra generalizing fs with
  | nil => rfl
  | cons e es ih =>
    simp only [List.map_cons, List.foldl_cons]
    rw [upsertFn_ren h, ih]

theorem insertParty_ren (p : String) (xs : List (String × List MirInput)) :
    insertParty p (xs.map (renB r)) = (insertParty p xs).map (renB r) := by
  induction xs with
  | nil => rfl
  | cons x xs ih =>
    obtain ⟨q, is⟩ := x
    simp only [List.map_cons, renB, insertParty]
    split
    · simp [renB]
    · split
      · simp [renB]
      · simp only [List.map_cons, renB]
        rw [← ih]

theorem upsertInput_ren (i : MirInput) (js : List MirInput) :
    upsertInput (i.ren r) (js.map (MirInput.ren r)) = (upsertInput i js).map (MirInput.ren r) := by
  induction js with
  | nil => rfl
  | cons j js ih =>
    simp only [List.map_cons, upsertInput, MirInput.ren]
    split
    · simp [MirInput.ren]
    · simp only [List.map_cons, MirInput.ren]
      rw [← ih]
      simp [MirInput.ren]

end NadaVerif.Lemmas

namespace NadaVerif.Lemmas
open NadaVerif

variable {r : Ren}

theorem dup_ren (h : Ren.Inj r) (i : MirInput) (xs : List (String × List MirInput)) :
    (xs.map (renB r)).any (fun (x : String × List MirInput) =>
        x.2.any (fun j => decide (j.name = (i.ren r).name ∧ j.id ≠ (i.ren r).id))) =
      xs.any (fun (x : String × List MirInput) => x.2.any (fun j => decide (j.name = i.name ∧ j.id ≠ i.id))) := by
  simp only [List.any_map, Function.comp_def, renB, MirInput.ren]
  congr 1
  funext x
  congr 1
  funext j
  by_cases hh : j.id = i.id
  · simp [hh]
  · have h3 : ¬ r.id j.id = r.id i.id := fun x => hh (h.id _ _ x)
    simp [hh, h3]

theorem addInput_ren (h : Ren.Inj r) (acc : CAcc) (i : MirInput) :
    addInput (acc.ren r) (i.ren r) = (addInput acc i).map (CAcc.ren r) := by
  have hd := dup_ren h i (insertParty i.party acc.inputs)
  have hp : (i.ren r).party = i.party := rfl
  unfold addInput
  simp only [CAcc.ren, hp, insertParty_ren]
  by_cases hc : (insertParty i.party acc.inputs).any
      (fun (x : String × List MirInput) => x.2.any (fun j => decide (j.name = i.name ∧ j.id ≠ i.id))) = true
  · have hc' := hc
    rw [← hd] at hc'
    simp only [hc, hc', if_true]
    rfl
  · have hc' := hc
    rw [← hd] at hc'
    simp only [hc, hc', if_false, Bool.false_eq_true, Except.map, CAcc.ren, List.map_map]
    congr 2
    apply List.map_congr_left
    intro x _
    obtain ⟨p, is⟩ := x
    simp only [Function.comp_def, renB]
    by_cases hpp : p = i.party
    · simp [hpp, upsertInput_ren]
    · simp [hpp]

end NadaVerif.Lemmas

namespace NadaVerif.Lemmas
open NadaVerif

variable {r : Ren}

/-- the names in the literal table are decimal indices -/
def LitNames (ls : List MirLiteral) : Prop := ∀ l ∈ ls, ∃ n : Nat, l.name = n.repr

theorem ren_mk (n : Nat) (v : String) (ty : MTy) :
    MirLiteral.ren r { name := n.repr, value := v, ty := ty } = { name := (r.lit n).repr, value := v, ty := ty } := by
  simp [MirLiteral.ren]

theorem upsertLiteral_ren (h : Ren.Inj r) (i : Nat) (v : String) (ty : MTy) (ls : List MirLiteral) (hl : LitNames ls) :
    upsertLiteral { name := (r.lit i).repr, value := v, ty := ty } (ls.map (MirLiteral.ren r)) =
      (upsertLiteral { name := i.repr, value := v, ty := ty } ls).map (MirLiteral.ren r) := by
  induction ls with
  | nil => simp only [List.map_nil, upsertLiteral, List.map_cons, ren_mk]
  | cons m ms ih =>
    obtain ⟨n, hn⟩ := hl m (by simp)
    have hms : LitNames ms := fun l hl' => hl l (by simp [hl'])
    obtain ⟨nm, val, t⟩ := m
    simp only at hn
    subst hn
    simp only [List.map_cons, upsertLiteral, ren_mk]
    by_cases hh : n = i
    · subst hh; simp only [if_true, List.map_cons, ren_mk]
    · have h3 : ¬ r.lit n = r.lit i := fun x => hh (h.lit _ _ x)
      simp only [Nat.repr_inj, hh, h3, if_false, List.map_cons, ren_mk, ih hms]

theorem upsertLiteral_names (i : Nat) (v : String) (ty : MTy) (ls : List MirLiteral) (hl : LitNames ls) :
    LitNames (upsertLiteral { name := i.repr, value := v, ty := ty } ls) := by
  induction ls with
  | nil => intro l hl'; simp only [upsertLiteral, List.mem_singleton] at hl'; exact ⟨i, by rw [hl']⟩
  | cons m ms ih =>
    have hms : LitNames ms := fun l hl' => hl l (by simp [hl'])
    simp only [upsertLiteral]
    split
    · intro l hl'
      simp only [List.mem_cons] at hl'
      rcases hl' with rfl | hl'
      · exact ⟨i, rfl⟩
      · exact hms l hl'
    · intro l hl'
      simp only [List.mem_cons] at hl'
      rcases hl' with rfl | hl'
      · exact hl _ (by simp)
      · exact ih hms l hl'

end NadaVerif.Lemmas

namespace NadaVerif.Lemmas
open NadaVerif

variable {r : Ren}

def renEx (r : Ren) (x : CAcc × Option (Id × AstOp)) : CAcc × Option (Id × AstOp) := (x.1.ren r, x.2.map (renE r))

theorem fn_lookup_ren (h : Ren.Inj r) (s : St) (fn : Id) (functions : List (Id × AstOp)) (acc : CAcc) :
    (if (functions.map (renE r)).any (fun e => decide (e.1 = r.id fn)) = true then
        (.ok (acc.ren r, none) : Except Err (CAcc × Option (Id × AstOp)))
      else match (s.ren r).lookup (r.id fn) with
        | some f => .ok (acc.ren r, some (r.id fn, f))
        | none => .error .key) =
    (if functions.any (fun e => decide (e.1 = fn)) = true then
        (.ok (acc, none) : Except Err (CAcc × Option (Id × AstOp)))
      else match s.lookup fn with
        | some f => .ok (acc, some (fn, f))
        | none => .error .key).map (renEx r) := by
  rw [any_key_ren h, lookup_ren h]
  split
  · rfl
  · cases s.lookup fn <;> rfl

theorem processOp_ren (h : Ren.Inj r) (s : St) (k : Id) (op : AstOp) (functions : List (Id × AstOp)) (acc : CAcc)
    (hl : LitNames acc.literals) :
    processOp (s.ren r) (r.id k) (op.ren r) (functions.map (renE r)) (acc.ren r) =
      (processOp s k op functions acc).map (renEx r) := by
  cases op with
  | input name party doc ty =>
    simp only [processOp, AstOp.ren, bind, Except.bind]
    have := addInput_ren h acc { name := name, ty := ty, party := party, doc := doc, id := k }
    simp only [MirInput.ren] at this
    rw [this]
    cases addInput acc { name := name, ty := ty, party := party, doc := doc, id := k } <;> rfl
  | literal v i ty =>
    simp only [processOp, AstOp.ren, Except.map, renEx, Option.map, CAcc.ren]
    have := upsertLiteral_ren h i v ty acc.literals hl
    simp only [toString, Nat.repr] at this ⊢
    rw [this]
  | map c fn ty => simp only [processOp, AstOp.ren]; exact fn_lookup_ren h s fn functions acc
  | reduce c fn i ty => simp only [processOp, AstOp.ren]; exact fn_lookup_ren h s fn functions acc
  | call as fn ty => simp only [processOp, AstOp.ren]; exact fn_lookup_ren h s fn functions acc
  | function name args child ty =>
    simp only [processOp, AstOp.ren]
    rw [any_key_ren h]
    split <;> rfl
  | _ => rfl

theorem processOp_names (s : St) (k : Id) (op : AstOp) (functions : List (Id × AstOp)) (acc : CAcc)
    (res : CAcc × Option (Id × AstOp)) (hp : processOp s k op functions acc = .ok res) (hl : LitNames acc.literals) :
    LitNames res.1.literals := by
  cases op with
  | input name party doc ty =>
    simp only [processOp, bind, Except.bind] at hp
    split at hp
    · simp at hp
    · rename_i acc1 hadd
      simp only [Except.ok.injEq] at hp
      subst hp
      simp only [addInput] at hadd
      split at hadd
      · simp at hadd
      · simp only [Except.ok.injEq] at hadd
        subst hadd
        exact hl
  | literal v i ty =>
    simp only [processOp, Except.ok.injEq] at hp
    subst hp
    exact upsertLiteral_names i v ty acc.literals hl
  | map c fn ty | reduce c fn i ty | call as fn ty =>
    simp only [processOp] at hp
    split at hp
    · simp only [Except.ok.injEq] at hp; subst hp; exact hl
    · split at hp
      · simp only [Except.ok.injEq] at hp; subst hp; exact hl
      · simp at hp
  | function name args child ty =>
    simp only [processOp] at hp
    split at hp <;> (simp only [Except.ok.injEq] at hp; subst hp; exact hl)
  | _ => simp only [processOp, Except.ok.injEq] at hp; subst hp; exact hl

end NadaVerif.Lemmas

namespace NadaVerif.Lemmas
open NadaVerif

variable {r : Ren}

abbrev Tbl := List (Id × AstOp)

def renT (r : Ren) (x : Tbl × Tbl × CAcc) : Tbl × Tbl × CAcc := (x.1.map (renE r), x.2.1.map (renE r), x.2.2.ren r)

theorem traverse_ren (h : Ren.Inj r) (s : St) (functions : Tbl) :
    ∀ (fuel : Nat) (stack : List Id) (table extra : Tbl) (acc : CAcc), LitNames acc.literals →
    traverse (s.ren r) (functions.map (renE r)) fuel (stack.map r.id) (table.map (renE r)) (extra.map (renE r)) (acc.ren r) =
        (traverse s functions fuel stack table extra acc).map (renT r) ∧
      ∀ res, traverse s functions fuel stack table extra acc = .ok res → LitNames res.2.2.literals := by
  intro fuel
  induction fuel with
  | zero =>
    intro stack table extra acc hl
    cases stack with
    | nil => simp only [List.map_nil, traverse]; exact ⟨rfl, fun res hr => by cases hr; exact hl⟩
    | cons k st => simp only [List.map_cons, traverse]; exact ⟨rfl, fun res hr => by cases hr⟩
  | succ fuel ih =>
    intro stack table extra acc hl
    cases stack with
    | nil => simp only [List.map_nil, traverse]; exact ⟨rfl, fun res hr => by cases hr; exact hl⟩
    | cons k st =>
      simp only [List.map_cons, traverse]
      rw [any_key_ren h, lookup_ren h]
      by_cases hk : table.any (fun e => decide (e.1 = k)) = true
      · simp only [hk, if_true]
        exact ih st table extra acc hl
      · simp only [hk, if_false, Bool.false_eq_true]
        cases hop : s.lookup k with
        | none => exact ⟨rfl, fun res hr => by cases hr⟩
        | some op =>
          simp only [Option.map]
          rw [processOp_ren h s k op functions acc hl]
          cases hp : processOp s k op functions acc with
          | error e => exact ⟨rfl, fun res hr => by cases hr⟩
          | ok pr =>
            obtain ⟨acc1, ex⟩ := pr
            have hl1 : LitNames acc1.literals := processOp_names s k op functions acc _ hp hl
            simp only [Except.map, renEx]
            have hst : (op.ren r).children.reverse ++ st.map r.id = (op.children.reverse ++ st).map r.id := by
              rw [ren_children]; simp
            have htb : table.map (renE r) ++ [(r.id k, op.ren r)] = (table ++ [(k, op)]).map (renE r) := by
              simp [renE]
            rw [hst, htb]
            cases ex with
            | none => exact ih _ _ _ acc1 hl1
            | some f =>
              simp only [Option.map]
              rw [upsertFn_ren h f extra]
              exact ih _ _ _ acc1 hl1

end NadaVerif.Lemmas

namespace NadaVerif.Lemmas
open NadaVerif

variable {r : Ren}

theorem fuel_ren (s : St) : (s.ren r).fuel = s.fuel := by
  simp [St.fuel, St.ren, List.map_map, Function.comp_def, renE, ren_children]

theorem length_ren (s : St) : (s.ren r).ops.length = s.ops.length := by simp [St.ren]

def renO (r : Ren) (x : Tbl × Tbl × List MirOutput × CAcc) : Tbl × Tbl × List MirOutput × CAcc :=
  (x.1.map (renE r), x.2.1.map (renE r), x.2.2.1.map (MirOutput.ren r), x.2.2.2.ren r)

theorem compileOutputs_ren (h : Ren.Inj r) (s : St) :
    ∀ (outs : List OutDecl) (table functions : Tbl) (mouts : List MirOutput) (acc : CAcc), LitNames acc.literals →
    compileOutputs (s.ren r) (outs.map (OutDecl.ren r)) (table.map (renE r)) (functions.map (renE r))
        (mouts.map (MirOutput.ren r)) (acc.ren r) =
        (compileOutputs s outs table functions mouts acc).map (renO r) ∧
      ∀ res, compileOutputs s outs table functions mouts acc = .ok res → LitNames res.2.2.2.literals := by
  intro outs
  induction outs with
  | nil =>
    intro table functions mouts acc hl
    simp only [List.map_nil, compileOutputs]
    exact ⟨rfl, fun res hr => by cases hr; exact hl⟩
  | cons o os ih =>
    intro table functions mouts acc hl
    simp only [List.map_cons, compileOutputs, fuel_ren]
    have ht := traverse_ren h s functions s.fuel [o.root] table [] acc hl
    simp only [List.map_cons, List.map_nil] at ht
    have hroot : (OutDecl.ren r o).root = r.id o.root := rfl
    rw [hroot, ht.1, lookup_ren h]
    cases htr : traverse s functions s.fuel [o.root] table [] acc with
    | error e => exact ⟨rfl, fun res hr => by cases hr⟩
    | ok tr =>
      obtain ⟨table1, extra1, acc1⟩ := tr
      have hl1 : LitNames acc1.literals := ht.2 _ htr
      simp only [Except.map, renT]
      cases hop : s.lookup o.root with
      | none => exact ⟨rfl, fun res hr => by cases hr⟩
      | some op =>
        simp only [Option.map]
        have hacc : ∀ p : String, (CAcc.mk (acc1.ren r).inputs (insertSorted p (acc1.ren r).parties) (acc1.ren r).literals) =
            CAcc.ren r (CAcc.mk acc1.inputs (insertSorted p acc1.parties) acc1.literals) := fun _ => rfl
        have hm : mouts.map (MirOutput.ren r) ++
            [MirOutput.mk (r.id o.root) (OutDecl.ren r o).name (OutDecl.ren r o).party (op.ren r).ty] =
            (mouts ++ [MirOutput.mk o.root o.name o.party op.ty]).map (MirOutput.ren r) := by
          simp [MirOutput.ren, OutDecl.ren, ren_ty]
        rw [hacc, hm, mergeFns_ren h]
        exact ih _ _ _ _ hl1

end NadaVerif.Lemmas

namespace NadaVerif.Lemmas
open NadaVerif

variable {r : Ren}

theorem argOf_ren (h : Ren.Inj r) (s : St) (a : Id) : argOf (s.ren r) (r.id a) = argOf s a := by
  unfold argOf
  rw [lookup_ren h]
  cases s.lookup a with
  | none => rfl
  | some op => cases op <;> rfl

theorem mapM_argOf_ren (h : Ren.Inj r) (s : St) : ∀ (as : List Id),
    (as.map r.id).mapM (argOf (s.ren r)) = as.mapM (argOf s)
  | [] => rfl
  | a :: as => by
    simp only [List.map_cons, List.mapM_cons, argOf_ren h, mapM_argOf_ren h s as]

theorem fnToMir_ren (h : Ren.Inj r) (s : St) (k : Id) (f : AstOp) (table : Tbl) :
    fnToMir (s.ren r) (r.id k) (f.ren r) (table.map (renE r)) = (fnToMir s k f table).map (MirFn.ren r) := by
  cases f with
  | function name args child ty =>
    simp only [fnToMir, AstOp.ren, bind, Except.bind, mapM_argOf_ren h]
    cases args.mapM (argOf s) <;> rfl
  | _ => rfl

def renF (r : Ren) (x : List MirFn × CAcc) : List MirFn × CAcc := (x.1.map (MirFn.ren r), x.2.ren r)

theorem emitFunctions_ren (h : Ren.Inj r) (s : St) :
    ∀ (fuel : Nat) (stack functions : Tbl) (out : List MirFn) (acc : CAcc), LitNames acc.literals →
    emitFunctions (s.ren r) fuel (stack.map (renE r)) (functions.map (renE r)) (out.map (MirFn.ren r)) (acc.ren r) =
      (emitFunctions s fuel stack functions out acc).map (renF r) := by
  intro fuel
  induction fuel with
  | zero =>
    intro stack functions out acc hl
    cases stack with
    | nil => simp only [List.map_nil, emitFunctions]; rfl
    | cons x xs => simp only [List.map_cons, emitFunctions]; rfl
  | succ fuel ih =>
    intro stack functions out acc hl
    cases stack with
    | nil => simp only [List.map_nil, emitFunctions]; rfl
    | cons x xs =>
      obtain ⟨k, f⟩ := x
      cases f with
      | function name args child ty =>
        simp only [List.map_cons, renE, AstOp.ren, emitFunctions, fuel_ren]
        have ht := traverse_ren h s functions s.fuel [child] [] [] acc hl
        simp only [List.map_cons, List.map_nil] at ht
        rw [ht.1]
        cases htr : traverse s functions s.fuel [child] [] [] acc with
        | error e => rfl
        | ok tr =>
          obtain ⟨table1, extra1, acc1⟩ := tr
          have hl1 : LitNames acc1.literals := ht.2 _ htr
          simp only [Except.map, renT]
          have hf := fnToMir_ren h s k (.function name args child ty) table1
          simp only [AstOp.ren] at hf
          rw [hf]
          cases fnToMir s k (.function name args child ty) table1 with
          | error e => rfl
          | ok mf =>
            simp only [Except.map]
            have e1 : (extra1.map (renE r)).reverse ++ xs.map (renE r) = (extra1.reverse ++ xs).map (renE r) := by simp
            have e2 : out.map (MirFn.ren r) ++ [mf.ren r] = (out ++ [mf]).map (MirFn.ren r) := by simp
            rw [e1, e2, mergeFns_ren h]
            exact ih _ _ _ _ hl1
      | _ => simp only [List.map_cons, renE, AstOp.ren, emitFunctions]; rfl

/-- **The compiler walk commutes with an injective renaming of ids and literal names.** -/
theorem compile_ren (h : Ren.Inj r) (s : St) (outs : List OutDecl) :
    compile (s.ren r) (outs.map (OutDecl.ren r)) = (compile s outs).map (MirProg.ren r) := by
  simp only [compile, bind, Except.bind]
  have hc := compileOutputs_ren h s outs [] [] [] {} (by intro l hl; simp at hl)
  simp only [List.map_nil] at hc
  have h0 : CAcc.ren r {} = {} := rfl
  rw [h0] at hc
  rw [hc.1]
  cases hco : compileOutputs s outs [] [] [] {} with
  | error e => rfl
  | ok res =>
    obtain ⟨table, functions, mouts, acc⟩ := res
    have hl : LitNames acc.literals := hc.2 _ hco
    simp only [Except.map, renO, length_ren]
    have he := emitFunctions_ren h s (s.ops.length + 1) functions.reverse functions [] acc hl
    simp only [List.map_reverse, List.map_nil] at he
    rw [he]
    cases emitFunctions s (s.ops.length + 1) functions.reverse functions [] acc with
    | error e => rfl
    | ok fr =>
      obtain ⟨fns, acc2⟩ := fr
      simp only [Except.map, renF, MirProg.ren, CAcc.ren, Except.ok.injEq, MirProg.mk.injEq, true_and, and_true]
      simp [List.flatMap_map, List.map_flatMap, renB]

end NadaVerif.Lemmas
