/-
Typed store — the invariant layer.

`StoreInv s`   : stored ids are at most the counter, and every visible record is edge-consistent
                 (`Edge.edgeOK`: its recorded type is the one its operands' recorded types determine).
`FrameRel s0 s`: lookups at ids that existed before are unchanged.
`Weak s w`     : the value `w` held by a register points at a stored record whose type is `w.to_mir()`,
                 unless that record is an input record (which `Array(T(Input), size)` re-types).
`Agree s w`    : the same without the exception — required of the registers a command reads.
-/
import NadaVerif.Lemmas.TypedBase
import NadaVerif.Lemmas.TraceInv
import NadaVerif.Lemmas.NoMissing


namespace NadaVerif.Lemmas
open Std.Do NadaVerif NadaVerif.Spec NadaVerif.Edge

set_option mvcgen.warning false
set_option maxHeartbeats 4000000

/-! ### live values -/

theorem self_mem_live (v : Val) : v ∈ v.live := by
  cases v <;> simp [Val.live]

theorem live_vals_mem : ∀ (vs : Vals) (m : Val), m ∈ vs.toList → ∀ w ∈ m.live, w ∈ Vals.live vs
  | .nil, m, hm, _, _ => by simp [Vals.toList] at hm
  | .cons v vs, m, hm, w, hw => by
    simp only [Vals.toList, List.mem_cons] at hm
    simp only [Vals.live, List.mem_append]
    rcases hm with rfl | hm
    · exact .inl hw
    · exact .inr (live_vals_mem vs m hm w hw)

theorem live_fields_mem : ∀ (fs : VFields) (k : String) (m : Val), (k, m) ∈ fs.toList → ∀ w ∈ m.live, w ∈ VFields.live fs
  | .nil, _, m, hm, _, _ => by simp [VFields.toList] at hm
  | .cons k' v fs, k, m, hm, w, hw => by
    simp only [VFields.toList, List.mem_cons, Prod.mk.injEq] at hm
    simp only [VFields.live, List.mem_append]
    rcases hm with ⟨_, rfl⟩ | hm
    · exact .inl hw
    · exact .inr (live_fields_mem fs k m hm w hw)

theorem live_ofList (vs : List Val) : ∀ w, w ∈ Vals.live (Vals.ofList vs) ↔ ∃ v ∈ vs, w ∈ v.live := by
  induction vs with
  | nil => simp [Vals.ofList, Vals.live]
  | cons v vs ih => intro w; simp [Vals.ofList, Vals.live, ih]

theorem live_fieldsOfList (fs : List (String × Val)) :
    ∀ w, w ∈ VFields.live (VFields.ofList fs) ↔ ∃ p ∈ fs, w ∈ p.2.live := by
  induction fs with
  | nil => simp [VFields.ofList, VFields.live]
  | cons p fs ih => obtain ⟨k, v⟩ := p; intro w; simp [VFields.ofList, VFields.live, ih]

theorem live_withChild (v : Val) (k : Id) : ∀ w ∈ (v.withChild k).live, w = v.withChild k ∨ w ∈ v.live := by
  intro w hw
  cases v <;> simp_all [Val.withChild, Val.live] <;> grind

/-! ### store invariants -/

def IdsLe (s : St) : Prop := ∀ e ∈ s.ops, (e.1 : Nat) ≤ s.counter
def EdgesOK (s : St) : Prop := ∀ k op, s.lookup k = some op → edgeOK (tyAtS s) (fnTyS s) op = true
def StoreInv (s : St) : Prop := IdsLe s ∧ EdgesOK s

def FrameRel (s0 s : St) : Prop := s0.counter ≤ s.counter ∧ ∀ k, k ≤ s0.counter → s.lookup k = s0.lookup k

theorem FrameRel.refl (s : St) : FrameRel s s := ⟨Nat.le_refl _, fun _ _ => rfl⟩
theorem FrameRel.trans {a b c : St} (h1 : FrameRel a b) (h2 : FrameRel b c) : FrameRel a c :=
  ⟨Nat.le_trans h1.1 h2.1, fun k hk => by rw [h2.2 k (Nat.le_trans hk h1.1), h1.2 k hk]⟩

theorem IdsLe.lookup_le {s : St} (h : IdsLe s) {k : Nat} {op : AstOp} (hl : s.lookup k = some op) : k ≤ s.counter := by
  obtain ⟨o, hm⟩ := lookup_some_has s k op hl
  exact h _ hm

theorem IdsLe.none_above {s : St} (h : IdsLe s) {k : Nat} (hk : s.counter < k) : s.lookup k = none := by
  cases hl : s.lookup k with
  | none => rfl
  | some op => have h2 : k ≤ s.counter := IdsLe.lookup_le h hl
               exact absurd h2 (by omega)

def Agree (s : St) (w : Val) : Prop := ∀ c, w.child = some c → ∃ op, s.lookup c = some op ∧ w.toMir = .ok op.ty
def Weak (s : St) (w : Val) : Prop :=
  ∀ c, w.child = some c → ∃ op, s.lookup c = some op ∧ (op.isInput = true ∨ w.toMir = .ok op.ty)

theorem Agree.weak {s : St} {w : Val} (h : Agree s w) : Weak s w :=
  fun c hc => let ⟨op, h1, h2⟩ := h c hc; ⟨op, h1, .inr h2⟩

theorem Weak.frame {s0 s : St} {w : Val} (h : Weak s0 w) (hi : IdsLe s0) (hf : FrameRel s0 s) : Weak s w := by
  intro c hc
  obtain ⟨op, h1, h2⟩ := h c hc
  exact ⟨op, by rw [hf.2 c (hi.lookup_le h1)]; exact h1, h2⟩

theorem Agree.frame {s0 s : St} {w : Val} (h : Agree s0 w) (hi : IdsLe s0) (hf : FrameRel s0 s) : Agree s w := by
  intro c hc
  obtain ⟨op, h1, h2⟩ := h c hc
  exact ⟨op, by rw [hf.2 c (hi.lookup_le h1)]; exact h1, h2⟩

/-- what the invariant says about one register -/
def RegTyped (s : St) : RVal → Prop
  | .val v => ∀ w ∈ v.live, Weak s w
  | .fn fid ret _ => ∃ n a c, s.lookup fid = some (.function n a c (.scalar ret.mirName))
  | .input k _ _ _ => s.lookup k = none ∨ ∃ op, s.lookup k = some op ∧ op.isInput = true
  | _ => True

def RegsTyped (s : St) (rs : List RVal) : Prop := ∀ r ∈ rs, RegTyped s r

/-! ### congruence of `edgeOK` in the lookups it makes -/

theorem tysOf_congr (f g : Id → Option MTy) : ∀ (es : List Id), (∀ e ∈ es, f e = g e) → tysOf f es = tysOf g es
  | [], _ => rfl
  | e :: es, h => by
    simp only [tysOf]
    rw [h e (by simp), tysOf_congr f g es (fun x hx => h x (by simp [hx]))]

theorem edgeOK_congr (f g f' g' : Id → Option MTy) (op : AstOp)
    (h1 : ∀ c ∈ op.mentions, f c = f' c) (h2 : ∀ c ∈ op.mentions, g c = g' c) :
    edgeOK f g op = edgeOK f' g' op := by
  cases op with
  | binary n l r ty => simp only [mentions_binary, List.mem_cons, List.not_mem_nil, or_false, forall_eq_or_imp, forall_eq] at h1; simp only [edgeOK, h1.1, h1.2]
  | unary n c ty => simp only [mentions_unary, List.mem_cons, List.not_mem_nil, or_false, forall_eq] at h1; simp only [edgeOK, h1]
  | ifElse c a b ty => simp only [mentions_ifElse, List.mem_cons, List.not_mem_nil, or_false, forall_eq_or_imp, forall_eq] at h1; simp only [edgeOK, h1.1, h1.2.1, h1.2.2]
  | random ty => rfl
  | input n p d ty => rfl
  | literal v i ty => rfl
  | reduce c fn i ty =>
    simp only [mentions_reduce, List.mem_cons, List.not_mem_nil, or_false, forall_eq_or_imp, forall_eq] at h1 h2
    simp only [edgeOK, h1.1, h1.2.1, h2.2.2]
  | map c fn ty =>
    simp only [mentions_map, List.mem_cons, List.not_mem_nil, or_false, forall_eq_or_imp, forall_eq] at h1 h2
    simp only [edgeOK, h1.1, h2.2]
  | new n es ty =>
    simp only [mentions_new] at h1
    simp only [edgeOK, tysOf_congr f f' es h1]
  | call as fn ty =>
    simp only [mentions_call, List.mem_append, List.mem_cons, List.not_mem_nil, or_false] at h1 h2
    simp only [edgeOK, tysOf_congr f f' as (fun e he => h1 e (.inl he)), h2 fn (.inr rfl)]
  | argRef n fn ty => rfl
  | function n args c ty =>
    simp only [mentions_function, List.mem_cons, forall_eq_or_imp] at h1
    simp only [edgeOK, h1.1]
  | ntupleAcc i s ty => simp only [mentions_ntupleAcc, List.mem_cons, List.not_mem_nil, or_false, forall_eq] at h1; simp only [edgeOK, h1]
  | objectAcc n s ty => simp only [mentions_objectAcc, List.mem_cons, List.not_mem_nil, or_false, forall_eq] at h1; simp only [edgeOK, h1]

theorem tyAtS_eq {s t : St} {k : Id} (h : t.lookup k = s.lookup k) : tyAtS t k = tyAtS s k := by simp [tyAtS, h]
theorem fnTyS_eq {s t : St} {k : Id} (h : t.lookup k = s.lookup k) : fnTyS t k = fnTyS s k := by simp [fnTyS, h]

/-- Storing a record under a fresh id keeps the store invariant, provided the record itself is edge-consistent
with the store it is put into and mentions stored ids only. -/
theorem storeInv_put_fresh (s0 : St) (k : Id) (op : AstOp) (c' : Nat) (l' : List String)
    (hS : StoreInv s0) (hcl : StoL s0.ops) (hk : s0.lookup k = none) (hk' : k ≤ c') (hc : s0.counter ≤ c')
    (hm : ∀ x ∈ op.mentions, Has s0.ops x)
    (he : edgeOK (tyAtS s0) (fnTyS s0) op = true) :
    StoreInv ⟨c', (k, op) :: s0.ops, l'⟩ := by
  have hlk : ∀ x, x ≠ k → (St.mk c' ((k, op) :: s0.ops) l').lookup x = s0.lookup x := by
    intro x hx; rw [lookup_cons]; simp [hx]; exact lookup_eq_of_ops _ _ rfl x
  have hne : ∀ x, Has s0.ops x → x ≠ k := by
    intro x hx e; subst e
    obtain ⟨o, ho⟩ := has_lookup s0 x hx
    rw [hk] at ho; cases ho
  refine ⟨?_, ?_⟩
  · intro e he'
    simp only [List.mem_cons] at he'
    rcases he' with rfl | he'
    · exact hk'
    · exact Nat.le_trans (hS.1 e he') hc
  · intro x o hx
    rw [lookup_cons] at hx
    split at hx
    · cases hx
      rw [edgeOK_congr _ _ (tyAtS s0) (fnTyS s0) op
        (fun c hc => tyAtS_eq (hlk c (hne c (hm c hc)))) (fun c hc => fnTyS_eq (hlk c (hne c (hm c hc))))]
      exact he
    · have hx' : s0.lookup x = some o := by rw [← hx]; exact lookup_eq_of_ops _ _ rfl x
      have hmem := lookup_mem' s0 x o hx'
      have hclosed := hcl.closed (x, o) hmem
      rw [edgeOK_congr _ _ (tyAtS s0) (fnTyS s0) o
        (fun c hc => tyAtS_eq (hlk c (hne c (hclosed c hc)))) (fun c hc => fnTyS_eq (hlk c (hne c (hclosed c hc))))]
      exact hS.2 x o hx'

theorem frame_put_fresh (s0 : St) (k : Id) (op : AstOp) (c' : Nat) (l' : List String)
    (hk : s0.counter < k) (hc : s0.counter ≤ c') : FrameRel s0 ⟨c', (k, op) :: s0.ops, l'⟩ := by
  refine ⟨hc, fun x hx => ?_⟩
  rw [lookup_cons]
  have : x ≠ k := by omega
  simp [this]; exact lookup_eq_of_ops _ _ rfl x

end NadaVerif.Lemmas

namespace NadaVerif.Lemmas
open Std.Do NadaVerif NadaVerif.Spec NadaVerif.Edge

set_option mvcgen.warning false
set_option maxHeartbeats 4000000

/-- post-state of a command that only stores under fresh ids -/
def Step (s0 s : St) : Prop := StoreInv s ∧ StoL s.ops ∧ FrameRel s0 s

theorem Step.refl (s : St) (h : StoreInv s) (h' : StoL s.ops) : Step s s := ⟨h, h', FrameRel.refl s⟩
theorem Step.trans {a b c : St} (h1 : Step a b) (h2 : Step b c) : Step a c := ⟨h2.1, h2.2.1, h1.2.2.trans h2.2.2⟩

theorem storeInv_congr {s t : St} (ho : t.ops = s.ops) (hc : s.counter ≤ t.counter) (h : StoreInv s) : StoreInv t := by
  have hl : ∀ k, t.lookup k = s.lookup k := lookup_eq_of_ops t s ho
  refine ⟨fun e he => Nat.le_trans (h.1 e (ho ▸ he)) hc, fun k op hk => ?_⟩
  rw [hl] at hk
  rw [edgeOK_congr _ _ (tyAtS s) (fnTyS s) op (fun c _ => tyAtS_eq (hl c)) (fun c _ => fnTyS_eq (hl c))]
  exact h.2 k op hk

theorem step_same_ops {s0 s : St} (ho : s.ops = s0.ops) (hc : s0.counter ≤ s.counter)
    (hS : StoreInv s0) (hcl : StoL s0.ops) : Step s0 s :=
  ⟨storeInv_congr ho hc hS, ho ▸ hcl, hc, fun k _ => lookup_eq_of_ops s s0 ho k⟩

theorem step_put_fresh {s0 s : St} {k : Nat} {op : AstOp}
    (ho : s.ops = (k, op) :: s0.ops) (hk : s0.counter < k) (hk' : k ≤ s.counter)
    (hS : StoreInv s0) (hcl : StoL s0.ops)
    (hm : ∀ x ∈ op.mentions, Has s0.ops x)
    (he : edgeOK (tyAtS s0) (fnTyS s0) op = true) : Step s0 s := by
  have h1 := storeInv_put_fresh s0 k op s.counter s.lits hS hcl (hS.1.none_above hk) hk' (by omega) hm he
  have h3 := frame_put_fresh s0 k op s.counter s.lits hk (by omega)
  have hs : s = ⟨s.counter, (k, op) :: s0.ops, s.lits⟩ := by cases s; simp_all
  rw [hs]
  exact ⟨h1, (StoL_cons k op s0.ops).2 ⟨hm, hcl⟩, h3⟩

/-! ### the primitives, described completely on `ops` and `counter` -/

theorem alloc_spec (s0 : St) :
    ⦃fun s => ⌜s = s0⌝⦄ alloc
    ⦃post⟨fun k s => ⌜k = s0.counter + 1 ∧ s.counter = s0.counter + 1 ∧ s.ops = s0.ops⌝, fun _ _ => ⌜False⌝⟩⦄ := by
  mvcgen [alloc] <;> simp_all

theorem put_spec (k : Id) (op : AstOp) (s0 : St) :
    ⦃fun s => ⌜s = s0⌝⦄ put k op
    ⦃post⟨fun _ s => ⌜s.counter = s0.counter ∧ s.ops = (k, op) :: s0.ops⌝, fun _ _ => ⌜False⌝⟩⦄ := by
  mvcgen [put]
  all_goals (subst_vars; first | exact ⟨rfl, rfl⟩ | trivial | (simp; done))

theorem litIndex_spec (key : String) (s0 : St) :
    ⦃fun s => ⌜s = s0⌝⦄ litIndex key
    ⦃post⟨fun _ s => ⌜s.counter = s0.counter ∧ s.ops = s0.ops⌝, fun _ _ => ⌜False⌝⟩⦄ := by
  mvcgen [litIndex] <;> (try simp_all)

theorem lookup_head {s : St} {k : Nat} {op : AstOp} {ops : List (Id × AstOp)} (ho : s.ops = (k, op) :: ops) :
    s.lookup k = some op := by
  simp [St.lookup, ho]

theorem mkLiteral_typed (base : Base) (v : LitVal) (s0 : St) (hS : StoreInv s0) (hcl : StoL s0.ops) :
    ⦃fun s => ⌜s = s0⌝⦄ mkLiteral base v
    ⦃post⟨fun r s => ⌜Step s0 s ∧ Agree s r ∧ ∃ c, r = .scalar ⟨.const, base⟩ (some c) (some v)⌝,
          fun _ s => ⌜Step s0 s⌝⟩⦄ := by
  mvcgen [mkLiteral, alloc_spec, put_spec, litIndex_spec]
  all_goals (try simp_all)
  expose_names
  refine ⟨step_put_fresh h_3.2 (by omega) (by omega) hS hcl (by simp [mentions_literal]) (by simp [edgeOK]), ?_, rfl⟩
  intro c hc
  simp only [Val.child, Option.some.injEq] at hc
  subst hc
  exact ⟨_, lookup_head h_3.2, by simp [Val.toMir, AstOp.ty]⟩

end NadaVerif.Lemmas


namespace NadaVerif.Lemmas
open Std.Do NadaVerif NadaVerif.Spec NadaVerif.Edge

set_option mvcgen.warning false
set_option maxHeartbeats 4000000

/-- a read register agrees with the store: its type is the recorded one -/
theorem agree_tyAt {s : St} {v : Val} {c : Id} {t : MTy} (h : Agree s v) (hc : v.child = some c) (ht : v.toMir = .ok t) :
    tyAtS s c = some t := by
  obtain ⟨op, h1, h2⟩ := h c hc
  rw [ht] at h2; cases h2
  simp [tyAtS, h1]

theorem agree_has {s : St} {v : Val} {c : Id} (h : Agree s v) (hc : v.child = some c) : Has s.ops c := by
  obtain ⟨op, h1, _⟩ := h c hc
  exact lookup_some_has s c op h1

theorem agree_scalar {s : St} {t : STy} {c : Id} {l : Option LitVal} (h : Agree s (.scalar t (some c) l)) :
    tyAtS s c = some (.scalar t.mirName) ∧ Has s.ops c :=
  ⟨agree_tyAt h rfl rfl, agree_has h rfl⟩

@[grind →] theorem agree_scalar_has {s : St} {t : STy} {c : Id} {l : Option LitVal} (h : Agree s (.scalar t (some c) l)) :
    Has s.ops c := (agree_scalar h).2
@[grind →] theorem agree_scalar_ty {s : St} {t : STy} {c : Id} {l : Option LitVal} (h : Agree s (.scalar t (some c) l)) :
    tyAtS s c = some (.scalar t.mirName) := (agree_scalar h).1

/-! ### edge facts per operation kind -/

theorem binEdge_names (op : BinOp) : (op.mirName == "Zip") = false ∧ (op.mirName == "InnerProduct") = false := by
  cases op <;> decide

theorem edge_bin (s : St) (op : BinOp) (ta tb t : STy) (ca cb : Id) (h : typeBin op ta tb = .ok t false)
    (ha : tyAtS s ca = some (.scalar ta.mirName)) (hb : tyAtS s cb = some (.scalar tb.mirName)) :
    edgeOK (tyAtS s) (fnTyS s) (.binary op.mirName ca cb (.scalar t.mirName)) = true := by
  simp only [edgeOK, ha, hb, (binEdge_names op).1, (binEdge_names op).2]
  simp only [Bool.false_eq_true, if_false, List.any_eq_true]
  exact ⟨ta, mem_scalarOf ta, tb, mem_scalarOf tb, binEdge_of_typeBin op ta tb t h⟩

theorem edge_truncPr (s : St) (ta tb t : STy) (ca cb : Id) (h : typeTruncPr ta tb = .ok t false)
    (ha : tyAtS s ca = some (.scalar ta.mirName)) (hb : tyAtS s cb = some (.scalar tb.mirName)) :
    edgeOK (tyAtS s) (fnTyS s) (.binary "TruncPr" ca cb (.scalar t.mirName)) = true := by
  simp only [edgeOK, ha, hb]
  simp only [show ("TruncPr" == "Zip") = false by decide, show ("TruncPr" == "InnerProduct") = false by decide,
    Bool.false_eq_true, if_false, List.any_eq_true]
  exact ⟨ta, mem_scalarOf ta, tb, mem_scalarOf tb, binEdge_of_truncPr ta tb t h⟩

theorem edge_publicEquals (s : St) (ta tb t : STy) (ca cb : Id) (h : typePublicEquals ta tb = .ok t false)
    (ha : tyAtS s ca = some (.scalar ta.mirName)) (hb : tyAtS s cb = some (.scalar tb.mirName)) :
    edgeOK (tyAtS s) (fnTyS s) (.binary "PublicOutputEquality" ca cb (.scalar t.mirName)) = true := by
  simp only [edgeOK, ha, hb]
  simp only [show ("PublicOutputEquality" == "Zip") = false by decide,
    show ("PublicOutputEquality" == "InnerProduct") = false by decide, Bool.false_eq_true, if_false, List.any_eq_true]
  exact ⟨ta, mem_scalarOf ta, tb, mem_scalarOf tb, binEdge_of_publicEquals ta tb t h⟩

theorem edge_ifElse (s : St) (tc ta tb t : STy) (cc ca cb : Id) (h : typeIfElse tc ta tb = .ok t false)
    (hc : tyAtS s cc = some (.scalar tc.mirName))
    (ha : tyAtS s ca = some (.scalar ta.mirName)) (hb : tyAtS s cb = some (.scalar tb.mirName)) :
    edgeOK (tyAtS s) (fnTyS s) (.ifElse cc ca cb (.scalar t.mirName)) = true := by
  simp only [edgeOK, hc, ha, hb, List.any_eq_true]
  exact ⟨tc, mem_scalarOf tc, ta, mem_scalarOf ta, tb, mem_scalarOf tb, ifElse_edge tc ta tb t h⟩

theorem edge_random (s : St) (t r : STy) (h : typeRandom t = .ok r false) :
    edgeOK (tyAtS s) (fnTyS s) (.random (.scalar r.mirName)) = true := by
  unfold typeRandom at h
  split at h
  · rename_i hm
    simp at h; subst h
    simp only [edgeOK, List.any_eq_true]
    exact ⟨t, mem_scalarOf t, by simp [STy.isSec, hm]⟩
  · simp at h

theorem edge_invert (s : St) (ta t : STy) (ca : Id) (h : typeInvert ta = .ok t false)
    (ha : tyAtS s ca = some (.scalar ta.mirName)) :
    edgeOK (tyAtS s) (fnTyS s) (.unary "Not" ca (.scalar t.mirName)) = true := by
  simp [edgeOK, ha, invert_edge ta t h]

theorem edge_reveal (s : St) (ta t : STy) (ca : Id) (h : typeReveal ta = .ok t false)
    (ha : tyAtS s ca = some (.scalar ta.mirName)) :
    edgeOK (tyAtS s) (fnTyS s) (.unary "Reveal" ca (.scalar t.mirName)) = true := by
  simp only [edgeOK, ha, show ("Reveal" == "Not") = false by decide, show ("Reveal" == "Reveal") = true by decide,
    Bool.false_eq_true, if_false, if_true, List.any_eq_true]
  exact ⟨ta, mem_scalarOf ta, by rw [reveal_edge ta t h]; simp⟩

end NadaVerif.Lemmas

namespace NadaVerif.Lemmas
open Std.Do NadaVerif NadaVerif.Spec NadaVerif.Edge

set_option mvcgen.warning false
set_option maxHeartbeats 4000000

def IsScalar (v : Val) : Prop := ∃ t c l, v = .scalar t (some c) l

/-- the common shape "draw an id, store a record under it, return a value pointing at it" -/
theorem post_put_fresh {s0 s2 : St} {op : AstOp} {v : Val} {k : Nat}
    (hk : k = s0.counter + 1)
    (h1 : s2.counter = s0.counter + 1 ∧ s2.ops = (k, op) :: s0.ops)
    (hS : StoreInv s0) (hcl : StoL s0.ops)
    (hm : ∀ x ∈ op.mentions, Has s0.ops x)
    (he : edgeOK (tyAtS s0) (fnTyS s0) op = true)
    (hv : v.child = some k) (hty : v.toMir = .ok op.ty) :
    Step s0 s2 ∧ Agree s2 v := by
  subst hk
  refine ⟨step_put_fresh h1.2 (by omega) (by omega) hS hcl hm he, ?_⟩
  intro c hc
  rw [hv] at hc; cases hc
  exact ⟨op, lookup_head h1.2, hty⟩

theorem scalarResult_typed (out : Out) (foldE : Option (Py.PyExpr × Base)) (l r : Option LitVal) (mkOp : MTy → AstOp)
    (s0 : St) (hS : StoreInv s0) (hcl : StoL s0.ops)
    (hmk : ∀ ty, ∀ c ∈ (mkOp ty).mentions, Has s0.ops c)
    (hty : ∀ ty, (mkOp ty).ty = ty)
    (hedge : ∀ t, out = .ok t false → edgeOK (tyAtS s0) (fnTyS s0) (mkOp (.scalar t.mirName)) = true) :
    ⦃fun s => ⌜s = s0⌝⦄ scalarResult out foldE l r mkOp
    ⦃post⟨fun v s => ⌜Step s0 s ∧ Agree s v ∧ IsScalar v⌝, fun _ s => ⌜Step s0 s⌝⟩⦄ := by
  mvcgen [scalarResult, mkLiteral_typed, alloc_spec, put_spec]
  all_goals (try subst_vars)
  all_goals (try (exact Step.refl _ hS hcl))
  all_goals (try simp_all)
  all_goals expose_names
  · intro _ _ x _; exact ⟨_, x, _, rfl⟩
  · have := post_put_fresh (v := Val.scalar t (some (s.counter + 1)) none) rfl h_1 hS hcl (hmk _) hedge rfl (by simp [Val.toMir, hty])
    exact ⟨this.1, this.2, ⟨_, _, _, rfl⟩⟩

end NadaVerif.Lemmas

namespace NadaVerif.Lemmas
open Std.Do NadaVerif NadaVerif.Spec NadaVerif.Edge

set_option mvcgen.warning false
set_option maxHeartbeats 4000000

def RegNew (s0 s : St) (x : RVal) : Prop := RegTyped s x ∧ ∀ k n p d, x = .input k n p d → s0.counter < k
def FramesNew (frames : List Frame) (s0 s : St) (fs : List Frame) : Prop :=
  ∀ fr ∈ fs, fr ∈ frames ∨ (s0.counter < fr.fid ∧ fr.fid ≤ s.counter ∧ s.lookup fr.fid = none)

/-- a command binds an `Input` object or opens a function bracket, never both -/
def PostShape (frames : List Frame) (s0 : St) (r : List RVal × List Frame) : Prop :=
  r.2 = frames ∨ ((∃ fr, r.2 = fr :: frames ∧ s0.counter < fr.fid) ∧ ∀ x ∈ r.1, ∃ v, x = RVal.val v)
theorem postShape_same (frames : List Frame) (s0 : St) (x : List RVal) : PostShape frames s0 (x, frames) := .inl rfl

def ReadsAgree (regs : List RVal) (s0 : St) (c : Cmd) : Prop :=
  ∀ r ∈ c.reads, ∀ v, regs[r]? = some (.val v) → ∀ w ∈ v.live, Agree s0 w

theorem regNew_scalar {s0 s : St} {v : Val} (ha : Agree s v) (hs : IsScalar v) : ∀ x ∈ [RVal.val v], RegNew s0 s x := by
  intro x hx
  simp only [List.mem_singleton] at hx
  subst hx
  obtain ⟨t, c, l, rfl⟩ := hs
  refine ⟨?_, by intro k n p d h; cases h⟩
  intro w hw
  simp only [Val.live, List.mem_singleton] at hw
  subst hw
  exact ha.weak

theorem framesNew_same (frames : List Frame) (s0 s : St) : FramesNew frames s0 s frames := fun _ h => .inl h

theorem Has_mono_step {s0 s : St} (h : Step s0 s) (hS : StoreInv s0) {c : Id} (hc : Has s0.ops c) : Has s.ops c := by
  obtain ⟨op, hl⟩ := has_lookup s0 c hc
  have : s.lookup c = some op := by rw [h.2.2.2 c (hS.1.lookup_le hl)]; exact hl
  exact lookup_some_has s c op this

theorem agree_step {s0 s : St} {v : Val} (h : Step s0 s) (hS : StoreInv s0) (ha : Agree s0 v) : Agree s v :=
  ha.frame hS.1 h.2.2
grind_pattern agree_step => Step s0 s, Agree s0 v

/-! ### exact specifications of the state-preserving list helpers -/

def All2 {α β} (R : α → β → Prop) : List α → List β → Prop
  | [], [] => True
  | a :: as, b :: bs => R a b ∧ All2 R as bs
  | _, _ => False

@[simp] theorem All2_nil {α β} (R : α → β → Prop) : All2 R [] [] = True := rfl
@[simp] theorem All2_cons {α β} (R : α → β → Prop) (a as b bs) : All2 R (a :: as) (b :: bs) = (R a b ∧ All2 R as bs) := rfl

theorem mapM_getVal_exact (regs : List RVal) (xs : List Reg) (s0 : St) :
    ⦃fun s => ⌜s = s0⌝⦄ xs.mapM (getVal regs)
    ⦃post⟨fun vs s => ⌜s = s0 ∧ All2 (fun r v => regs[r]? = some (.val v)) xs vs⌝, fun _ s => ⌜s = s0⌝⟩⦄ := by
  induction xs generalizing s0 with
  | nil => simp only [List.mapM_nil]; mvcgen <;> simp_all
  | cons x xs ih =>
    simp only [List.mapM_cons]
    mvcgen [getVal, ih]
    all_goals simp_all

theorem childIds_exact (vs : List Val) (s0 : St) :
    ⦃fun s => ⌜s = s0⌝⦄ childIds vs
    ⦃post⟨fun ids s => ⌜s = s0 ∧ All2 (fun v c => v.child = some c) vs ids⌝, fun _ s => ⌜s = s0⌝⟩⦄ := by
  unfold childIds
  induction vs generalizing s0 with
  | nil => simp only [List.mapM_nil]; mvcgen <;> simp_all
  | cons v vs ih =>
    simp only [List.mapM_cons]
    mvcgen [childOf, ih]
    all_goals simp_all

theorem mapM_toMir_exact (vs : List Val) (s0 : St) :
    ⦃fun s => ⌜s = s0⌝⦄ vs.mapM (fun v => liftE v.toMir)
    ⦃post⟨fun ts s => ⌜s = s0 ∧ All2 (fun v t => v.toMir = .ok t) vs ts⌝, fun _ s => ⌜s = s0⌝⟩⦄ := by
  induction vs generalizing s0 with
  | nil => simp only [List.mapM_nil]; mvcgen <;> simp_all
  | cons v vs ih =>
    simp only [List.mapM_cons]
    mvcgen [liftE, ih]
    all_goals simp_all

theorem mapM_fields_exact (regs : List RVal) (fs : List (String × Reg)) (s0 : St) :
    ⦃fun s => ⌜s = s0⌝⦄ fs.mapM (fun (p : String × Reg) => do pure (p.1, ← getVal regs p.2))
    ⦃post⟨fun vs s => ⌜s = s0 ∧ All2 (fun p q => q.1 = p.1 ∧ regs[p.2]? = some (.val q.2)) fs vs⌝,
          fun _ s => ⌜s = s0⌝⟩⦄ := by
  induction fs generalizing s0 with
  | nil => simp only [List.mapM_nil]; mvcgen <;> simp_all
  | cons x xs ih =>
    simp only [List.mapM_cons]
    mvcgen [getVal, ih]
    all_goals simp_all

/-! ### edge facts for the collection operations -/

theorem tysOf_of_all2 (s : St) : ∀ (vs : List Val) (ids : List Id) (ts : List MTy),
    All2 (fun v c => v.child = some c) vs ids → All2 (fun v t => v.toMir = .ok t) vs ts → (∀ v ∈ vs, Agree s v) →
    tysOf (tyAtS s) ids = some ts
  | [], [], [], _, _, _ => rfl
  | [], _ :: _, _, h, _, _ => by simp [All2] at h
  | [], [], _ :: _, _, h, _ => by simp [All2] at h
  | _ :: _, [], _, h, _, _ => by simp [All2] at h
  | _ :: _, _ :: _, [], _, h, _ => by simp [All2] at h
  | v :: vs, c :: ids, t :: ts, h1, h2, ha => by
    simp only [All2_cons] at h1 h2
    simp only [tysOf, agree_tyAt (ha v (by simp)) h1.1 h2.1,
      tysOf_of_all2 s vs ids ts h1.2 h2.2 (fun x hx => ha x (by simp [hx]))]

theorem all2_has (s : St) : ∀ (vs : List Val) (ids : List Id),
    All2 (fun v c => v.child = some c) vs ids → (∀ v ∈ vs, Agree s v) → ∀ x ∈ ids, Has s.ops x
  | [], [], _, _ => by simp
  | [], _ :: _, h, _ => by simp [All2] at h
  | _ :: _, [], h, _ => by simp [All2] at h
  | v :: vs, c :: ids, h, ha => by
    simp only [All2_cons] at h
    intro x hx
    simp only [List.mem_cons] at hx
    rcases hx with rfl | hx
    · exact agree_has (ha v (by simp)) h.1
    · exact all2_has s vs ids h.2 (fun y hy => ha y (by simp [hy])) x hx

theorem all2_length {α β} (R : α → β → Prop) : ∀ (as : List α) (bs : List β), All2 R as bs → as.length = bs.length
  | [], [], _ => rfl
  | [], _ :: _, h => by simp [All2] at h
  | _ :: _, [], h => by simp [All2] at h
  | _ :: as, _ :: bs, h => by simp only [All2_cons] at h; simp [all2_length R as bs h.2]

theorem memberTypes_ofList : ∀ (vs : List Val) (ts : MTys), (Vals.ofList vs).memberTypes = .ok ts →
    All2 (fun v t => v.toMir = .ok t) vs ts.toList ∧ MTys.ofList ts.toList = ts
  | [], ts, h => by
    simp [Vals.ofList, Vals.memberTypes] at h; subst h; simp [MTys.toList, MTys.ofList]
  | v :: vs, ts, h => by
    simp only [Vals.ofList, Vals.memberTypes, bind, Except.bind] at h
    split at h
    · simp at h
    · rename_i t ht
      split at h
      · simp at h
      · rename_i ts' hts
        simp at h; subst h
        have ih := memberTypes_ofList vs ts' hts
        simp [MTys.toList, MTys.ofList, ht, ih.1, ih.2]

theorem fieldTypes_ofList : ∀ (fs : List (String × Val)) (ts : MFields), (VFields.ofList fs).memberTypes = .ok ts →
    All2 (fun p q => p.2.toMir = .ok q.2) fs ts.toList
  | [], ts, h => by
    simp [VFields.ofList, VFields.memberTypes] at h; subst h; simp [MFields.toList]
  | (k, v) :: fs, ts, h => by
    simp only [VFields.ofList, VFields.memberTypes, bind, Except.bind] at h
    split at h
    · simp at h
    · rename_i t ht
      split at h
      · simp at h
      · rename_i ts' hts
        simp at h; subst h
        have ih := fieldTypes_ofList fs ts' hts
        simp [MFields.toList, ht, ih]

theorem edge_tupleNew (s : St) (va vb : Val) (ca cb : Id) (c : Option Id) (ty : MTy)
    (h : (Val.tuple (.inst va) (.inst vb) c).toMir = .ok ty) (ha : Agree s va) (hb : Agree s vb)
    (hca : va.child = some ca) (hcb : vb.child = some cb) :
    edgeOK (tyAtS s) (fnTyS s) (.new "TupleNew" [ca, cb] ty) = true := by
  simp only [Val.toMir, Elem.sideType, bind, Except.bind] at h
  split at h
  · simp at h
  · rename_i lt hl
    split at h
    · simp at h
    · rename_i rt hr
      simp at h; subst h
      simp [edgeOK, tysOf, agree_tyAt ha hca hl, agree_tyAt hb hcb hr]

theorem edge_ntupleNew (s : St) (vs : List Val) (ids : List Id) (c : Option Id) (ty : MTy)
    (h : (Val.ntuple (Vals.ofList vs) c).toMir = .ok ty) (ha : ∀ v ∈ vs, Agree s v)
    (hids : All2 (fun v c => v.child = some c) vs ids) :
    edgeOK (tyAtS s) (fnTyS s) (.new "NTupleNew" ids ty) = true := by
  simp only [Val.toMir, bind, Except.bind] at h
  split at h
  · simp at h
  · rename_i ts hts
    simp at h; subst h
    have hm := memberTypes_ofList vs ts hts
    simp [edgeOK, tysOf_of_all2 s vs ids ts.toList hids hm.1 ha, hm.2]

theorem fieldsMatch_of_all2 : ∀ (fs : List (String × Val)) (ts : List (String × MTy)) (ids : List Id) (us : List MTy),
    All2 (fun p q => p.2.toMir = .ok q.2) fs ts → All2 (fun v t => v.toMir = .ok t) (fs.map (·.2)) us →
    fieldsMatch ts us = true
  | [], [], _, [], _, _ => rfl
  | [], _ :: _, _, _, h, _ => by simp [All2] at h
  | _ :: _, [], _, _, h, _ => by simp [All2] at h
  | [], [], _, _ :: _, _, h => by simp [All2] at h
  | _ :: _, _ :: _, _, [], _, h => by simp [All2] at h
  | p :: fs, q :: ts, ids, u :: us, h1, h2 => by
    simp only [All2_cons, List.map_cons] at h1 h2
    obtain ⟨k, t⟩ := q
    have : t = u := by
      have := h1.1; simp only at this; rw [h2.1] at this; cases this; rfl
    subst this
    simp [fieldsMatch, fieldsMatch_of_all2 fs ts ids us h1.2 h2.2]

theorem all2_reads {regs : List RVal} {P : Val → Prop} : ∀ (xs : List Reg) (vs : List Val),
    All2 (fun r v => regs[r]? = some (.val v)) xs vs →
    (∀ r ∈ xs, ∀ v, regs[r]? = some (.val v) → P v) → ∀ v ∈ vs, P v
  | [], [], _, _ => by simp
  | [], _ :: _, h, _ => by simp [All2] at h
  | _ :: _, [], h, _ => by simp [All2] at h
  | x :: xs, v :: vs, h, hp => by
    simp only [All2_cons] at h
    intro u hu
    simp only [List.mem_cons] at hu
    rcases hu with rfl | hu
    · exact hp x (by simp) _ h.1
    · exact all2_reads xs vs h.2 (fun r hr => hp r (by simp [hr])) u hu

theorem all2_two {α β} {R : α → β → Prop} {a b : α} {l : List β} (h : All2 R [a, b] l) :
    ∃ x y, l = [x, y] ∧ R a x ∧ R b y := by
  match l, h with
  | [x, y], h => simp only [All2_cons] at h; exact ⟨x, y, rfl, h.1, h.2.1⟩
  | [], h => simp [All2] at h
  | [_], h => simp [All2] at h
  | _ :: _ :: _ :: _, h => simp [All2] at h

theorem regNew_val {s0 s : St} {v : Val} (h : ∀ w ∈ v.live, Weak s w) : ∀ x ∈ [RVal.val v], RegNew s0 s x := by
  intro x hx
  simp only [List.mem_singleton] at hx
  subst hx
  exact ⟨h, by intro k n p d h; cases h⟩

theorem all2_toMir_map : ∀ (fs : List (String × Val)) (ts : List (String × MTy)),
    All2 (fun p q => p.2.toMir = .ok q.2) fs ts → All2 (fun v t => v.toMir = .ok t) (fs.map (·.2)) (ts.map (·.2))
  | [], [], _ => by simp
  | [], _ :: _, h => by simp [All2] at h
  | _ :: _, [], h => by simp [All2] at h
  | p :: fs, q :: ts, h => by
    simp only [All2_cons, List.map_cons] at h ⊢
    exact ⟨h.1, all2_toMir_map fs ts h.2⟩

theorem fieldsMatch_self : ∀ (ts : List (String × MTy)), fieldsMatch ts (ts.map (·.2)) = true
  | [] => rfl
  | (k, t) :: ts => by simp [fieldsMatch, fieldsMatch_self ts]

theorem edge_objectNew (s : St) (fs : List (String × Val)) (ids : List Id) (c : Option Id) (ty : MTy)
    (h : (Val.object (VFields.ofList fs) c).toMir = .ok ty) (ha : ∀ v ∈ fs.map (·.2), Agree s v)
    (hids : All2 (fun v c => v.child = some c) (fs.map (·.2)) ids) :
    edgeOK (tyAtS s) (fnTyS s) (.new "ObjectNew" ids ty) = true := by
  simp only [Val.toMir, bind, Except.bind] at h
  split at h
  · simp at h
  · rename_i ts hts
    simp at h; subst h
    have hm := fieldTypes_ofList fs ts hts
    have := tysOf_of_all2 s (fs.map (·.2)) ids (ts.toList.map (·.2)) hids (all2_toMir_map fs ts.toList hm) ha
    simp [edgeOK, this, fieldsMatch_self]

theorem all2_fields_reads {regs : List RVal} {P : Val → Prop} : ∀ (fs : List (String × Reg)) (vs : List (String × Val)),
    All2 (fun p q => q.1 = p.1 ∧ regs[p.2]? = some (.val q.2)) fs vs →
    (∀ r ∈ fs.map (·.2), ∀ v, regs[r]? = some (.val v) → P v) → ∀ v ∈ vs.map (·.2), P v
  | [], [], _, _ => by simp
  | [], _ :: _, h, _ => by simp [All2] at h
  | _ :: _, [], h, _ => by simp [All2] at h
  | x :: xs, v :: vs, h, hp => by
    simp only [All2_cons] at h
    intro u hu
    simp only [List.map_cons, List.mem_cons] at hu
    rcases hu with rfl | hu
    · exact hp x.2 (by simp) _ h.1.2
    · exact all2_fields_reads xs vs h.2 (fun r hr => hp r (by simp only [List.map_cons, List.mem_cons]; exact .inr hr)) u hu

theorem edge_arrayNew (s : St) (first : Val) (rest : List Val) (ids : List Id) (tys : List MTy) (fty ty : MTy)
    (c : Option Id)
    (hf : first.toMir = .ok fty) (htys : All2 (fun v t => v.toMir = .ok t) (first :: rest) tys)
    (hall : tys.all (· = fty) = true)
    (h : (Val.array (.inst first) (some ((first :: rest).length : Nat)) c).toMir = .ok ty)
    (ha : ∀ v ∈ first :: rest, Agree s v)
    (hids : All2 (fun v c => v.child = some c) (first :: rest) ids) :
    edgeOK (tyAtS s) (fnTyS s) (.new "ArrayNew" ids ty) = true := by
  have hts := tysOf_of_all2 s (first :: rest) ids tys hids htys ha
  have hlen := all2_length _ _ _ htys
  simp only [Val.toMir, Elem.innerType, hf, bind, Except.bind] at h
  simp at h; subst h
  match tys, htys, hall, hts, hlen with
  | t0 :: ts, htys, hall, hts, hlen =>
    simp only [All2_cons] at htys
    have : t0 = fty := by rw [hf] at htys; cases htys.1; rfl
    subst this
    have hne : ((rest.length : Int) + 1 = 0) = False := by simp; omega
    simp only [List.length_cons] at hlen
    simp [edgeOK, hts, sizeOfArray, hne]
    refine ⟨?_, by omega⟩
    simp only [List.all_eq_true, decide_eq_true_eq, List.mem_cons, forall_eq_or_imp] at hall
    exact hall.2

theorem array_toMir_inv {e : Elem} {n : Option Int} {c : Option Id} {ty : MTy} (h : (Val.array e n c).toMir = .ok ty) :
    ∃ inner, e.innerType = .ok inner ∧ ty = .array inner (sizeOfArray n) := by
  simp only [Val.toMir, bind, Except.bind] at h
  split at h
  · simp at h
  · rename_i inner hi; simp at h; exact ⟨inner, hi, h.symm⟩

theorem agree_array {s : St} {e : Elem} {n : Option Int} {c : Id} (h : Agree s (.array e n (some c))) :
    ∃ inner, e.innerType = .ok inner ∧ tyAtS s c = some (.array inner (sizeOfArray n)) ∧ Has s.ops c := by
  obtain ⟨op, h1, h2⟩ := h c rfl
  obtain ⟨inner, hi, hty⟩ := array_toMir_inv h2
  exact ⟨inner, hi, by simp [tyAtS, h1, hty], lookup_some_has s c op h1⟩

theorem edge_zip (s : St) (ea eb : Elem) (na : Option Int) (ca cb : Id) (c : Option Id) (ty : MTy)
    (h : (Val.array (.inst (.tuple ea eb none)) na c).toMir = .ok ty)
    (ha : Agree s (.array ea na (some ca))) (hb : Agree s (.array eb na (some cb))) :
    edgeOK (tyAtS s) (fnTyS s) (.binary "Zip" ca cb ty) = true := by
  obtain ⟨ia, hia, hta, _⟩ := agree_array ha
  obtain ⟨ib, hib, htb, _⟩ := agree_array hb
  obtain ⟨inner, hi, rfl⟩ := array_toMir_inv h
  simp only [Elem.innerType, Val.toMir, bind, Except.bind] at hi
  split at hi
  · simp at hi
  · rename_i lt hl
    split at hi
    · simp at hi
    · rename_i rt hr
      simp at hi; subst hi
      rw [sideType_eq_innerType ea lt hl] at hia; cases hia
      rw [sideType_eq_innerType eb rt hr] at hib; cases hib
      simp [edgeOK, hta, htb]

theorem size_norm_eq (n : Option Int) : Size.norm (sizeOfArrayType n) = Size.norm (sizeOfArray n) := by
  cases n with
  | none => rfl
  | some v => by_cases h : v = 0 <;> simp [sizeOfArrayType, sizeOfArray, Size.norm, h]

theorem edge_unzip (s : St) (l r : Elem) (x : Option Id) (n : Option Int) (ca : Id) (c : Option Id) (ty : MTy)
    (h : (Val.tuple (.arrayType l n) (.arrayType r n) c).toMir = .ok ty)
    (ha : Agree s (.array (.inst (.tuple l r x)) n (some ca))) :
    edgeOK (tyAtS s) (fnTyS s) (.unary "Unzip" ca ty) = true := by
  obtain ⟨ia, hia, hta, _⟩ := agree_array ha
  simp only [Elem.innerType, Val.toMir, bind, Except.bind] at hia
  simp only [Val.toMir, Elem.sideType, bind, Except.bind] at h
  split at h
  · simp at h
  · rename_i lt hl
    split at hl
    · simp at hl
    · rename_i li hli
      simp at hl; subst hl
      split at h
      · simp at h
      · rename_i rt hr
        split at hr
        · simp at hr
        · rename_i ri hri
          simp at hr; subst hr
          simp at h; subst h
          rw [asInstance_eq_sideType l li hli, asInstance_eq_sideType r ri hri] at hia
          simp at hia; subst hia
          simp [edgeOK, hta, size_norm_eq]

theorem scalarClass_innerType {e : Elem} {t : STy} (h : e.scalarClass = some t) : e.innerType = .ok (.scalar t.mirName) := by
  cases e with
  | cls s => simp [Elem.scalarClass] at h; subst h; rfl
  | inst v => cases v <;> simp_all [Elem.scalarClass, Elem.innerType, Val.toMir]
  | typeVar => simp [Elem.scalarClass] at h
  | arrayType e n => simp [Elem.scalarClass] at h

theorem innerProduct_table :
    (STy.all.all fun a => STy.all.all fun b =>
      (Mode.max a.mode b.mode == .const) ||
      (MTy.scalar (STy.mk (Mode.max a.mode b.mode) a.base).mirName ==
        .scalar (STy.mk (emode (STy.isSec a || STy.isSec b)) a.base).mirName)) = true := by decide +kernel

theorem edge_innerProduct (s : St) (ea eb : Elem) (na nb : Option Int) (ca cb : Id) (tl tr : STy)
    (hl : ea.scalarClass = some tl) (hr : eb.scalarClass = some tr) (hb : tl.base = tr.base)
    (hm : Mode.max tl.mode tr.mode ≠ .const)
    (ha : Agree s (.array ea na (some ca))) (hb' : Agree s (.array eb nb (some cb))) :
    edgeOK (tyAtS s) (fnTyS s) (.binary "InnerProduct" ca cb (.scalar (STy.mk (Mode.max tl.mode tr.mode) tl.base).mirName)) = true := by
  obtain ⟨ia, hia, hta, _⟩ := agree_array ha
  obtain ⟨ib, hib, htb, _⟩ := agree_array hb'
  rw [scalarClass_innerType hl] at hia; cases hia
  rw [scalarClass_innerType hr] at hib; cases hib
  have ht := innerProduct_table
  simp only [List.all_eq_true] at ht
  have := ht tl (STy.mem_all tl) tr (STy.mem_all tr)
  simp only [Bool.or_eq_true, beq_iff_eq] at this
  have h2 := this.resolve_left hm
  simp only [edgeOK, hta, htb, show ("InnerProduct" == "Zip") = false by decide, show ("InnerProduct" == "InnerProduct") = true by decide,
    Bool.false_eq_true, if_false, if_true, List.any_eq_true]
  refine ⟨tl, mem_scalarOf tl, tr, mem_scalarOf tr, ?_⟩
  simp only [hb, beq_self_eq_true, Bool.true_and, beq_iff_eq]
  rw [← hb]; exact h2

theorem edge_map (s : St) (e : Elem) (n : Option Int) (ca fid : Id) (ret : STy) (c : Option Id) (ty : MTy)
    (h : (Val.array (.cls ret) n c).toMir = .ok ty)
    (ha : Agree s (.array e n (some ca))) (hf : fnTyS s fid = some (.scalar ret.mirName)) :
    edgeOK (tyAtS s) (fnTyS s) (.map ca fid ty) = true := by
  obtain ⟨ia, hia, hta, _⟩ := agree_array ha
  obtain ⟨inner, hi, rfl⟩ := array_toMir_inv h
  simp [Elem.innerType] at hi; subst hi
  simp [edgeOK, hta, hf]

theorem fnReg_facts {s : St} {regs : List RVal} (hT : RegsTyped s regs) {f : Nat} {fid : Id} {ret : STy} {ns : List String}
    (h : regs[f]? = some (.fn fid ret ns)) : fnTyS s fid = some (.scalar ret.mirName) ∧ Has s.ops fid := by
  obtain ⟨n, a, c, hl⟩ := hT _ (List.mem_of_getElem? h)
  exact ⟨by simp [fnTyS, hl], lookup_some_has s fid _ hl⟩

/-- no stored record mentions `k` -/
def Unref (s : St) (k : Id) : Prop := ∀ e ∈ s.ops, k ∉ e.2.mentions

/-- post-state of a command that (re-)stores an input record under `k` -/
def StepAt (k : Id) (s0 s : St) : Prop :=
  StoreInv s ∧ StoL s.ops ∧ s0.counter ≤ s.counter ∧ (∀ x, x ≤ s0.counter → x ≠ k → s.lookup x = s0.lookup x) ∧
  ∃ op, s.lookup k = some op ∧ op.isInput = true

theorem stepAt_put_input {s0 s : St} {k : Nat} {op : AstOp}
    (ho : s.ops = (k, op) :: s0.ops) (hc : s.counter = s0.counter) (hk : k ≤ s0.counter)
    (hS : StoreInv s0) (hcl : StoL s0.ops) (hin : op.isInput = true) (hu : Unref s0 k) : StepAt k s0 s := by
  have hlk : ∀ x, x ≠ k → s.lookup x = s0.lookup x := by
    intro x hx
    have h1 : s.lookup x = (St.mk s.counter ((k, op) :: s0.ops) s.lits).lookup x := lookup_eq_of_ops _ _ ho x
    rw [h1, lookup_cons]; simp [hx]; exact lookup_eq_of_ops _ _ rfl x
  have hment : op.mentions = [] := by cases op <;> simp_all [AstOp.isInput, AstOp.mentions, AstOp.children, AstOp.fnRef]
  refine ⟨⟨?_, ?_⟩, ?_, by omega, fun x _ hx => hlk x hx, op, lookup_head ho, hin⟩
  · intro e he
    rw [ho] at he
    simp only [List.mem_cons] at he
    rcases he with rfl | he
    · simpa [hc] using hk
    · rw [hc]; exact hS.1 e he
  · intro x o hx
    by_cases hxk : x = k
    · subst hxk
      rw [lookup_head ho] at hx; cases hx
      cases op <;> simp_all [AstOp.isInput, edgeOK]
    · rw [hlk x hxk] at hx
      have hmem := lookup_mem' s0 x o hx
      have hnk : ∀ c ∈ o.mentions, c ≠ k := fun c hc e => hu (x, o) hmem (e ▸ hc)
      rw [edgeOK_congr _ _ (tyAtS s0) (fnTyS s0) o
        (fun c hc => tyAtS_eq (hlk c (hnk c hc))) (fun c hc => fnTyS_eq (hlk c (hnk c hc)))]
      exact hS.2 x o hx
  · rw [ho]; exact (StoL_cons k op s0.ops).2 ⟨by simp [hment], hcl⟩

theorem lookup_none_fresh {s s1 : St} {k : Nat} (ho : s1.ops = s.ops) (hS : StoreInv s) (hk : s.counter < k) :
    s1.lookup k = none := by
  rw [lookup_eq_of_ops s1 s ho]; exact hS.1.none_above hk

theorem regNew_input {s s1 : St} {k : Nat} {a pn b : String} (ho : s1.ops = s.ops) (hS : StoreInv s) (hk : k = s.counter + 1) :
    ∀ x ∈ [RVal.input k a pn b], RegNew s s1 x := by
  intro x hx
  simp only [List.mem_singleton] at hx
  subst hx
  refine ⟨.inl (lookup_none_fresh ho hS (by omega)), ?_⟩
  intro k' n p d h; cases h; omega

theorem finish_simple {s s2 : St} {frames : List Frame} {v : Val} {op : AstOp} {r : Nat} (hr : r = s.counter + 1)
    (h1 : s2.counter = s.counter + 1 ∧ s2.ops = (r, op) :: s.ops) (hS : StoreInv s) (hcl : StoL s.ops)
    (hm : ∀ x ∈ op.mentions, Has s.ops x) (he : edgeOK (tyAtS s) (fnTyS s) op = true)
    (hv : v.child = some r) (hty : v.toMir = .ok op.ty) (hlive : v.live = [v]) :
    Step s s2 ∧ (∀ x ∈ [RVal.val v], RegNew s s2 x) ∧ FramesNew frames s s2 frames ∧ PostShape frames s ([RVal.val v], frames) := by
  have hp := post_put_fresh hr h1 hS hcl hm he hv hty
  refine ⟨hp.1, regNew_val ?_, framesNew_same _ _ _, postShape_same _ _ _⟩
  intro w hw
  rw [hlive] at hw
  simp only [List.mem_singleton] at hw
  subst hw
  exact hp.2.weak

theorem agree_tyAt_some {s : St} {v : Val} {c : Id} (h : Agree s v) (hc : v.child = some c) : (tyAtS s c).isSome = true := by
  obtain ⟨op, h1, _⟩ := h c hc
  simp [tyAtS, h1]

theorem tysOf_isSome (s : St) : ∀ (vs : List Val) (ids : List Id),
    All2 (fun v c => v.child = some c) vs ids → (∀ v ∈ vs, Agree s v) → (tysOf (tyAtS s) ids).isSome = true
  | [], [], _, _ => rfl
  | [], _ :: _, h, _ => by simp [All2] at h
  | _ :: _, [], h, _ => by simp [All2] at h
  | v :: vs, c :: ids, h, ha => by
    simp only [All2_cons] at h
    have h1 := agree_tyAt_some (ha v (by simp)) h.1
    have h2 := tysOf_isSome s vs ids h.2 (fun y hy => ha y (by simp [hy]))
    simp only [tysOf]
    cases hx : tyAtS s c <;> cases hy : tysOf (tyAtS s) ids <;> simp_all

theorem kwRegs_mem (kws : List (String × Reg)) : ∀ (rest : List String) (kwRegs : List Reg),
    rest.mapM (fun n => Option.map (fun x => x.snd) (List.find? (fun x => x.fst == n) kws)) = some kwRegs →
    ∀ r ∈ kwRegs, r ∈ kws.map (·.2)
  | [], kwRegs, h => by simp at h; subst h; simp
  | n :: rest, kwRegs, h => by
    simp only [List.mapM_cons, Option.bind_eq_bind, Option.bind_eq_some_iff, Option.pure_def, Option.some.injEq] at h
    obtain ⟨r, hr, rs, hrs, rfl⟩ := h
    intro x hx
    simp only [List.mem_cons] at hx
    rcases hx with rfl | hx
    · simp only [Option.map_eq_some_iff] at hr
      obtain ⟨p, hp, rfl⟩ := hr
      exact List.mem_map_of_mem (List.mem_of_find?_eq_some hp)
    · exact kwRegs_mem kws rest rs hrs x hx

theorem memberTypes_get : ∀ (vs : Vals) (ts : MTys) (i : Nat) (m : Val) (ty : MTy),
    vs.memberTypes = .ok ts → vs.toList[i]? = some m → m.toMir = .ok ty → ts.toList[i]? = some ty
  | .nil, _, i, m, _, _, hm, _ => by simp [Vals.toList] at hm
  | .cons v vs, ts, i, m, ty, h, hm, hty => by
    simp only [Vals.memberTypes, bind, Except.bind] at h
    split at h
    · simp at h
    · rename_i t ht
      split at h
      · simp at h
      · rename_i ts' hts
        simp at h; subst h
        cases i with
        | zero => simp [Vals.toList] at hm; subst hm; rw [ht] at hty; cases hty; simp [MTys.toList]
        | succ i => simp [Vals.toList] at hm; simpa [MTys.toList] using memberTypes_get vs ts' i m ty hts hm hty

theorem fieldTypes_find : ∀ (fs : VFields) (ts : MFields) (key : String) (p : String × Val) (ty : MTy),
    fs.memberTypes = .ok ts → fs.toList.find? (·.1 == key) = some p → p.2.toMir = .ok ty →
    (ts.toList.find? (·.1 == key)).map (·.2) = some ty
  | .nil, _, _, _, _, _, hm, _ => by simp [VFields.toList] at hm
  | .cons k v fs, ts, key, p, ty, h, hm, hty => by
    simp only [VFields.memberTypes, bind, Except.bind] at h
    split at h
    · simp at h
    · rename_i t ht
      split at h
      · simp at h
      · rename_i ts' hts
        simp at h; subst h
        simp only [VFields.toList, List.find?_cons] at hm
        simp only [MFields.toList, List.find?_cons]
        by_cases hk : (k == key) = true
        · simp only [hk] at hm ⊢
          cases hm
          simp only at hty; rw [ht] at hty; cases hty; rfl
        · simp only [Bool.not_eq_true] at hk
          simp only [hk] at hm ⊢
          exact fieldTypes_find fs ts' key p ty hts hm hty

theorem edge_ntupleAcc (s : St) (vs : Vals) (src : Id) (j : Int) (m : Val) (ty : MTy)
    (ha : Agree s (.ntuple vs (some src))) (hj : 0 ≤ j) (hm : vs.toList[j.toNat]? = some m) (hty : m.toMir = .ok ty) :
    edgeOK (tyAtS s) (fnTyS s) (.ntupleAcc j src ty) = true := by
  obtain ⟨op, h1, h2⟩ := ha src rfl
  simp only [Val.toMir, bind, Except.bind] at h2
  split at h2
  · simp at h2
  · rename_i ts hts
    simp at h2
    have := memberTypes_get vs ts j.toNat m ty hts hm hty
    simp [edgeOK, tyAtS, h1, ← h2, hj, this]

theorem edge_objectAcc (s : St) (fs : VFields) (src : Id) (key : String) (p : String × Val) (ty : MTy)
    (ha : Agree s (.object fs (some src))) (hm : fs.toList.find? (·.1 == key) = some p) (hty : p.2.toMir = .ok ty) :
    edgeOK (tyAtS s) (fnTyS s) (.objectAcc key src ty) = true := by
  obtain ⟨op, h1, h2⟩ := ha src rfl
  simp only [Val.toMir, bind, Except.bind] at h2
  split at h2
  · simp at h2
  · rename_i ts hts
    simp at h2
    have := fieldTypes_find fs ts key p ty hts hm hty
    simp [edgeOK, tyAtS, h1, ← h2, this]

theorem weak_step {s0 s : St} {v : Val} (h : Step s0 s) (hS : StoreInv s0) (ha : Weak s0 v) : Weak s v :=
  ha.frame hS.1 h.2.2

/-- `_generate_accessor` after the caller drew the id `k` (state `sa`; `sb` is the state before the draw) -/
theorem genAccessor_typed (member : Val) (k : Id) (mk : MTy → AstOp) (sb sa : St)
    (hal : k = sb.counter + 1 ∧ sa.counter = sb.counter + 1 ∧ sa.ops = sb.ops)
    (hS : StoreInv sb) (hcl : StoL sb.ops)
    (hm : ∀ ty, ∀ c ∈ (mk ty).mentions, Has sb.ops c) (hty : ∀ ty, (mk ty).ty = ty)
    (hedge : ∀ ty, member.toMir = .ok ty → edgeOK (tyAtS sb) (fnTyS sb) (mk ty) = true)
    (hw : ∀ w ∈ member.live, Weak sb w) :
    ⦃fun s => ⌜s = sa⌝⦄ genAccessor member k mk
    ⦃post⟨fun v s => ⌜Step sb s ∧ ∀ w ∈ v.live, Weak s w⌝, fun _ s => ⌜Step sb s⌝⟩⦄ := by
  have hst : Step sb sa := step_same_ops hal.2.2 (by omega) hS hcl
  mvcgen [genAccessor, put_spec, liftE_spec']
  all_goals (try subst_vars)
  all_goals expose_names
  all_goals try (first | exact hst | exact ⟨hst, fun w hw' => weak_step hst hS (hw w hw')⟩)
  · have h1 : s_1.counter = sb.counter + 1 ∧ s_1.ops = (k, mk (MTy.scalar t.mirName)) :: sb.ops := by grind
    have hp := post_put_fresh (v := Val.scalar t (some k) none) hal.1 h1 hS hcl (hm _) (hedge _ rfl) rfl
      (by simp [Val.toMir, hty])
    refine ⟨hp.1, ?_⟩
    intro w hw'
    simp only [Val.live, List.mem_singleton] at hw'
    subst hw'
    exact hp.2.weak
  · have h1 : s_2.counter = sb.counter + 1 ∧ s_2.ops = (k, mk r) :: sb.ops := by grind
    have htm : v.toMir = .ok r := by rw [← toMir_withChild v k]; exact h_2.2
    have hp := post_put_fresh (v := v') hal.1 h1 hS hcl (hm _) (hedge _ htm) (child_withChild v k)
      (by rw [hty]; exact h_2.2)
    refine ⟨hp.1, ?_⟩
    intro w hw'
    rcases live_withChild v k w hw' with rfl | hw'
    · exact hp.2.weak
    · exact weak_step hp.1 hS (hw w hw')
  · intro h; subst h; exact hst


theorem template_typed (ann : Ann) (s0 : St) (hS : StoreInv s0) (hcl : StoL s0.ops) :
    ⦃fun s => ⌜s = s0⌝⦄ template ann
    ⦃post⟨fun v s => ⌜Step s0 s ∧ v.live = [v] ∧ Weak s v⌝, fun _ s => ⌜Step s0 s⌝⟩⦄ := by
  induction ann generalizing s0 with
  | scalar t =>
    mvcgen [template, mkLiteral_typed]
    all_goals (try subst_vars)
    all_goals (try intro s hs; subst hs)
    all_goals expose_names
    all_goals try (first | assumption | exact Step.refl _ hS hcl | exact id)
    · intro hst hag x
      obtain ⟨c, rfl⟩ := x
      exact ⟨hst, rfl, hag.weak⟩
    · exact ⟨Step.refl _ hS hcl, rfl, fun c hc => by simp [Val.child] at hc⟩
  | array inner ih =>
    mvcgen [template, ih]
    all_goals (try subst_vars)
    all_goals (try intro s hs; subst hs)
    all_goals expose_names
    all_goals try (first | assumption | exact Step.refl _ hS hcl | exact id)
    · exact ⟨h.1, rfl, fun c hc => by simp [Val.child] at hc⟩
  | bareArray =>
    mvcgen [template]
    all_goals (try subst_vars)
    exact Step.refl _ hS hcl

theorem regNew_step {s0 s1 s : St} {x : RVal} (h : RegNew s0 s1 x) (hv : ∃ v, x = .val v) (hst : Step s1 s) (hS1 : StoreInv s1) :
    RegNew s0 s x := by
  obtain ⟨v, rfl⟩ := hv
  exact ⟨fun w hw => weak_step hst hS1 (h.1 w hw), by intro k n p d h; cases h⟩

theorem bindParams_typed (fid : Id) (params : List (String × Ann)) (s0 : St) (hS : StoreInv s0) (hcl : StoL s0.ops) :
    ⦃fun s => ⌜s = s0⌝⦄ bindParams fid params
    ⦃post⟨fun r s => ⌜Step s0 s ∧ ∀ x ∈ r.2, RegNew s0 s x ∧ ∃ v, x = .val v⌝, fun _ s => ⌜Step s0 s⌝⟩⦄ := by
  induction params generalizing s0 with
  | nil =>
    mvcgen [bindParams]
    all_goals (try subst_vars)
    exact ⟨Step.refl _ hS hcl, by simp⟩
  | cons p ps ih =>
    obtain ⟨pname, ann⟩ := p
    mvcgen [bindParams, template_typed, alloc_spec, put_spec, liftE_spec', ih]
    all_goals (try subst_vars)
    all_goals (try intro s hs; subst hs)
    all_goals expose_names
    all_goals try (first | assumption | exact Step.refl _ hS hcl | exact id)
    all_goals try (
      have h14 : s_4.counter = s_1.counter + 1 ∧ s_4.ops = (r_1, AstOp.argRef pname fid r_2) :: s_1.ops := by grind
      have hp := post_put_fresh (v := r.withChild r_1) h_1.1 h14 h.1.1 h.1.2.1 (by simp [mentions_argRef])
        (by simp [edgeOK]) (child_withChild r r_1) (by rw [toMir_withChild]; exact h_2.2))
    · exact hp.1.1
    · exact hp.1.2.1
    · refine ⟨h.1.trans (hp.1.trans h_4.1), ?_⟩
      intro x hx
      simp only [List.mem_cons] at hx
      rcases hx with rfl | hx
      · refine ⟨⟨?_, by intro k n p d h; cases h⟩, _, rfl⟩
        intro w hw
        rcases live_withChild r r_1 w hw with rfl | hw
        · exact weak_step h_4.1 hp.1.1 hp.2.weak
        · rw [h.2.1] at hw; simp only [List.mem_singleton] at hw; subst hw
          exact weak_step h_4.1 hp.1.1 (weak_step hp.1 h.1.1 h.2.2)
      · obtain ⟨hx1, v, rfl⟩ := h_4.2 x hx
        exact ⟨⟨hx1.1, by intro k n p d h; cases h⟩, v, rfl⟩
    · intro h5; exact h.1.trans (hp.1.trans h5)
    · intro h3; subst h3; exact h.1.trans (step_same_ops h_1.2.2 (by omega) h.1.1 h.1.2.1)

/-- post-state of `endFn`: the function record is stored under the id drawn when the function was opened -/
def StepFn (k : Id) (ty : MTy) (s0 s : St) : Prop :=
  StoreInv s ∧ StoL s.ops ∧ s0.counter ≤ s.counter ∧ (∀ x, x ≤ s0.counter → x ≠ k → s.lookup x = s0.lookup x) ∧
  ∃ n a c, s.lookup k = some (.function n a c ty)

theorem stepFn_put {s0 s : St} {k : Nat} {n : String} {a : List Id} {c : Id} {ty : MTy}
    (ho : s.ops = (k, .function n a c ty) :: s0.ops) (hc : s.counter = s0.counter)
    (hk : s0.lookup k = none) (hk' : k ≤ s0.counter) (hS : StoreInv s0) (hcl : StoL s0.ops)
    (hm : ∀ x ∈ (AstOp.function n a c ty).mentions, Has s0.ops x)
    (he : edgeOK (tyAtS s0) (fnTyS s0) (.function n a c ty) = true) : StepFn k ty s0 s := by
  have hkc : k ≤ s.counter := by rw [hc]; exact hk'
  have h1 := storeInv_put_fresh s0 k _ s.counter s.lits hS hcl hk hkc (by omega) hm he
  have hs : s = ⟨s.counter, (k, .function n a c ty) :: s0.ops, s.lits⟩ := by
    cases s; simp only [St.mk.injEq, true_and]; exact ⟨ho, trivial⟩
  refine ⟨hs ▸ h1, ?_, by omega, ?_, n, a, c, lookup_head ho⟩
  · rw [ho]; exact (StoL_cons k _ s0.ops).2 ⟨hm, hcl⟩
  · intro x _ hx
    have hx1 : s.lookup x = (St.mk s.counter ((k, .function n a c ty) :: s0.ops) s.lits).lookup x := lookup_eq_of_ops _ _ ho x
    rw [hx1, lookup_cons]; simp [hx]; exact lookup_eq_of_ops _ _ rfl x

section
variable (regs : List RVal) (frames : List Frame) (s0 : St)
  (hS : StoreInv s0) (hcl : StoL s0.ops) (hsto : RegsSto s0.ops regs) (hT : RegsTyped s0 regs)
include hS hcl hsto hT

abbrev GoalT (c : Cmd) : Prop :=
  ReadsAgree regs s0 c →
  ⦃fun s => ⌜s = s0⌝⦄ exec regs frames c
  ⦃post⟨fun r s => ⌜Step s0 s ∧ (∀ x ∈ r.1, RegNew s0 s x) ∧ FramesNew frames s0 s r.2 ∧ PostShape frames s0 r⌝, fun _ s => ⌜Step s0 s⌝⟩⦄

macro "tx_case" "[" ts:Lean.Parser.Tactic.simpLemma,* "]" "[" gs:Lean.Parser.Tactic.grindParam,* "]" : tactic =>
  `(tactic| (
    intro hA
    have hrd : ∀ r ∈ Cmd.reads _, ∀ v, regs[r]? = some (.val v) → Agree s0 v :=
      fun r hr v h => hA r hr v h v (self_mem_live v)
    simp only [Cmd.reads, List.mem_cons, List.not_mem_nil, or_false, forall_eq_or_imp, forall_eq, false_imp_iff,
      implies_true] at hrd
    mvcgen [exec, getScalar, getVal, childOf, liftE, $ts,*]
    all_goals (try subst_vars)
    all_goals (try (exact Step.refl _ hS hcl))
    all_goals expose_names
    all_goals first
      | assumption
      | (intro _; rfl)
      | grind [regNew_scalar, framesNew_same, postShape_same, Step.refl, $gs,*]))

theorem tx_bin (op a b) : GoalT regs frames s0 (.bin op a b) := by
  tx_case [scalarResult_typed] [edge_bin, mentions_binary]
theorem tx_truncPr (a b) : GoalT regs frames s0 (.truncPr a b) := by
  tx_case [scalarResult_typed] [edge_truncPr, mentions_binary]
theorem tx_publicEquals (a b) : GoalT regs frames s0 (.publicEquals a b) := by
  tx_case [scalarResult_typed] [edge_publicEquals, mentions_binary]
theorem tx_ifElse (c a b) : GoalT regs frames s0 (.ifElse c a b) := by
  tx_case [scalarResult_typed] [edge_ifElse, mentions_ifElse]
theorem tx_invert (a) : GoalT regs frames s0 (.invert a) := by
  tx_case [scalarResult_typed] [edge_invert, mentions_unary]
theorem tx_random (t) : GoalT regs frames s0 (.random t) := by
  tx_case [scalarResult_typed] [mentions_random, edge_random]
theorem tx_nop : GoalT regs frames s0 .nop := by
  tx_case [] []
theorem tx_party (nm) : GoalT regs frames s0 (.party nm) := by
  tx_case [] [RegNew, RegTyped]
theorem tx_lit (b v) : GoalT regs frames s0 (.lit b v) := by
  tx_case [mkLiteral_typed] [IsScalar]
theorem tx_reveal (a) : GoalT regs frames s0 (.reveal a) := by
  tx_case [scalarResult_typed] [edge_reveal, mentions_unary, IsScalar]
theorem tx_inputObj (a b p) : GoalT regs frames s0 (.inputObj a b p) := by
  tx_case [alloc_spec] [regNew_input, step_same_ops]
theorem tx_radd (k a) : GoalT regs frames s0 (.radd k a) := by
  tx_case [mkLiteral_typed, scalarResult_typed] [edge_bin, mentions_binary, Step.trans, Step, Has_mono_step]

/-- `T(Input(..))`: (re-)stores the input record under the `Input` object's id -/
theorem tx_wrap (t r) (hle : RegsLe s0.counter regs)
    (hU : ∀ k n p d, regs[r]? = some (.input k n p d) → Unref s0 k) :
    ⦃fun s => ⌜s = s0⌝⦄ exec regs frames (.wrap t r)
    ⦃post⟨fun res s => ⌜∃ k n p d, regs[r]? = some (.input k n p d) ∧ StepAt k s0 s ∧ res.2 = frames ∧
                          ∃ v, res.1 = [.val v] ∧ Agree s v ∧ IsScalar v⌝,
          fun _ s => ⌜Step s0 s⌝⟩⦄ := by
  mvcgen [exec, put_spec]
  all_goals (try subst_vars)
  all_goals (try (exact Step.refl _ hS hcl))
  all_goals expose_names
  have hk : k ≤ s.counter := hle _ (List.mem_of_getElem? h) k (by simp [RVal.ids])
  have hst := stepAt_put_input h_2.2 h_2.1 hk hS hcl (by simp [AstOp.isInput]) (hU _ _ _ _ h)
  refine ⟨k, name, pn, doc, h, hst, by trivial, _, rfl, ?_, ⟨_, _, _, rfl⟩⟩
  intro c hc
  simp only [Val.child, Option.some.injEq] at hc
  subst hc
  exact ⟨_, lookup_head h_2.2, by simp [Val.toMir, AstOp.ty]⟩

macro "tx_pre" "[" ts:Lean.Parser.Tactic.simpLemma,* "]" "[" gs:Lean.Parser.Tactic.grindParam,* "]" : tactic =>
  `(tactic| (
    intro hA
    have hrd : ∀ r ∈ Cmd.reads _, ∀ v, regs[r]? = some (.val v) → Agree s0 v :=
      fun r hr v h => hA r hr v h v (self_mem_live v)
    simp only [Cmd.reads, List.mem_cons, List.not_mem_nil, or_false, forall_eq_or_imp, forall_eq, false_imp_iff,
      implies_true] at hrd
    mvcgen [exec, getScalar, getVal, childOf, liftE, $ts,*]
    all_goals (try subst_vars)
    all_goals (try (exact Step.refl _ hS hcl))
    all_goals expose_names
    all_goals try (first
      | assumption
      | (intro _; rfl)
      | grind [regNew_scalar, framesNew_same, postShape_same, Step.refl, step_same_ops, $gs,*])))

theorem tx_tupleNew (a b) : GoalT regs frames s0 (.tupleNew a b) := by
  tx_pre [alloc_spec, put_spec, childIds_exact] []
  obtain ⟨ca, cb, rfl, hca, hcb⟩ := all2_two h_4.2
  have h1 : s_3.counter = s.counter + 1 ∧ s_3.ops = (r, AstOp.new "TupleNew" [ca, cb] a_1) :: s.ops := by grind
  have hp := post_put_fresh (v := tup) h_2.1 h1 hS hcl
    (by simp only [mentions_new]; intro x hx; simp at hx; rcases hx with rfl | rfl
        · exact agree_has (hrd.1 _ h) hca
        · exact agree_has (hrd.2 _ h_1) hcb)
    (edge_tupleNew s v v_1 ca cb _ a_1 h_3 (hrd.1 _ h) (hrd.2 _ h_1) hca hcb) rfl h_3
  refine ⟨hp.1, regNew_val ?_, framesNew_same _ _ _, postShape_same _ _ _⟩
  intro w hw
  simp only [tup, Val.live, List.mem_singleton] at hw
  subst hw
  exact hp.2.weak

macro "tx_pre'" "[" ts:Lean.Parser.Tactic.simpLemma,* "]" "[" gs:Lean.Parser.Tactic.grindParam,* "]" : tactic =>
  `(tactic| (
    intro hA
    have hrd : ∀ r ∈ Cmd.reads _, ∀ v, regs[r]? = some (.val v) → Agree s0 v :=
      fun r hr v h => hA r hr v h v (self_mem_live v)
    simp only [Cmd.reads, List.mem_cons, List.not_mem_nil, or_false, forall_eq_or_imp, forall_eq, false_imp_iff,
      implies_true] at hrd
    mvcgen [exec, liftE_spec', getVal_spec', childOf_spec', $ts,*]
    all_goals (try subst_vars)
    all_goals (try (exact Step.refl _ hS hcl))
    all_goals expose_names
    all_goals try (first
      | assumption
      | (intro _; rfl)
      | grind [regNew_scalar, framesNew_same, postShape_same, Step.refl, step_same_ops, $gs,*])))

theorem tx_ntupleNew (xs) : GoalT regs frames s0 (.ntupleNew xs) := by
  tx_pre' [alloc_spec, put_spec, childIds_exact, mapM_getVal_exact] []
  have hag : ∀ v ∈ r, Agree s v := all2_reads xs r h.2 hrd
  have hlive : ∀ v ∈ r, ∀ w ∈ v.live, Agree s w :=
    all2_reads (P := fun v => ∀ w ∈ v.live, Agree s w) xs r h.2 (fun x hx v hv => hA x (by simpa [Cmd.reads] using hx) v hv)
  have h1 : s_5.counter = s.counter + 1 ∧ s_5.ops = (r_1, AstOp.new "NTupleNew" r_3 r_2) :: s.ops := by grind
  have hp := post_put_fresh (v := nt) (by grind) h1 hS hcl
    (by simp only [mentions_new]; exact all2_has s r r_3 h_3.2 hag)
    (edge_ntupleNew s r r_3 _ r_2 h_2.2 hag h_3.2) rfl h_2.2
  refine ⟨hp.1, regNew_val ?_, framesNew_same _ _ _, postShape_same _ _ _⟩
  intro w hw
  simp only [nt, Val.live, List.mem_cons, live_ofList] at hw
  rcases hw with rfl | ⟨v, hv, hw⟩
  · exact hp.2.weak
  · exact (agree_step hp.1 hS (hlive v hv w hw)).weak

theorem tx_objectNew (fs) : GoalT regs frames s0 (.objectNew fs) := by
  tx_pre' [alloc_spec, put_spec, childIds_exact, mapM_fields_exact] []
  have hag : ∀ v ∈ r.map (·.2), Agree s v := all2_fields_reads fs r h_1.2 hrd
  have hlive : ∀ v ∈ r.map (·.2), ∀ w ∈ v.live, Agree s w :=
    all2_fields_reads (P := fun v => ∀ w ∈ v.live, Agree s w) fs r h_1.2
      (fun x hx v hv => hA x (by simpa [Cmd.reads] using hx) v hv)
  have h1 : s_5.counter = s.counter + 1 ∧ s_5.ops = (r_1, AstOp.new "ObjectNew" r_3 r_2) :: s.ops := by grind
  have hp := post_put_fresh (v := ob) (by grind) h1 hS hcl
    (by simp only [mentions_new]; exact all2_has s _ r_3 h_4.2 hag)
    (edge_objectNew s r r_3 _ r_2 h_3.2 hag h_4.2) rfl h_3.2
  refine ⟨hp.1, regNew_val ?_, framesNew_same _ _ _, postShape_same _ _ _⟩
  intro w hw
  simp only [ob, Val.live, List.mem_cons, live_fieldsOfList] at hw
  rcases hw with rfl | ⟨q, hq, hw⟩
  · exact hp.2.weak
  · exact (agree_step hp.1 hS (hlive q.2 (List.mem_map_of_mem hq) w hw)).weak

theorem tx_arrayNew (xs) : GoalT regs frames s0 (.arrayNew xs) := by
  tx_pre' [alloc_spec, put_spec, childIds_exact, mapM_getVal_exact, mapM_toMir_exact] []
  have hag : ∀ v ∈ first :: tail, Agree s v := all2_reads xs _ h.2 hrd
  have hall : r_1.all (· = r) = true := by
    simp only [Bool.not_eq_true', Bool.not_eq_false, Bool.and_eq_true] at h_2; exact h_2.2
  have h1 : s_7.counter = s.counter + 1 ∧ s_7.ops = (r_2, AstOp.new "ArrayNew" r_4 r_3) :: s.ops := by grind
  have hp := post_put_fresh (v := arr) (by grind) h1 hS hcl
    (by simp only [mentions_new]; exact all2_has s _ r_4 h_6.2 hag)
    (edge_arrayNew s first tail r_4 r_1 r r_3 _ h_1.2 h_3.2 hall h_5.2 hag h_6.2) rfl h_5.2
  refine ⟨hp.1, regNew_val ?_, framesNew_same _ _ _, postShape_same _ _ _⟩
  intro w hw
  simp only [arr, Val.live, List.mem_singleton] at hw
  subst hw
  exact hp.2.weak

theorem tx_zip (a b) : GoalT regs frames s0 (.zip a b) := by
  tx_pre [alloc_spec, put_spec] []
  have hab : na = nb := by simpa using h
  subst hab
  have ha := hrd.1 _ h_4
  have hb := hrd.2 _ h_5
  exact finish_simple h_1.1 (by grind) hS hcl
    (by simp only [mentions_binary]; intro x hx; simp at hx; rcases hx with rfl | rfl
        · exact agree_has ha rfl
        · exact agree_has hb rfl)
    (edge_zip s ea eb na ca cb _ a_1 h_2 ha hb) rfl h_2 rfl

theorem tx_unzip (a) : GoalT regs frames s0 (.unzip a) := by
  tx_pre [alloc_spec, put_spec] []
  have ha := hrd _ h_3
  exact finish_simple h.1 (by grind) hS hcl
    (by simp only [mentions_unary]; intro x hx; simp at hx; subst hx; exact agree_has ha rfl)
    (edge_unzip s l r child n ca _ a_1 h_1 ha) rfl h_1 rfl

theorem tx_innerProduct (a b) : GoalT regs frames s0 (.innerProduct a b) := by
  tx_pre [alloc_spec, put_spec] []
  have ha := hrd.1 _ h_10
  have hb := hrd.2 _ h_11
  exact finish_simple h_8.1 (by grind) hS hcl
    (by simp only [mentions_binary]; intro x hx; simp at hx; rcases hx with rfl | rfl
        · exact agree_has ha rfl
        · exact agree_has hb rfl)
    (edge_innerProduct s ea eb na nb ca cb tl tr h_5 h_4 (by simpa using h_6) h_7 ha hb) rfl rfl rfl

theorem tx_map (a f) : GoalT regs frames s0 (.map a f) := by
  tx_pre [alloc_spec, put_spec] []
  have ha := hrd _ h_4
  have hf := fnReg_facts hT h
  exact finish_simple h_1.1 (by grind) hS hcl
    (by simp only [mentions_map]; intro x hx; simp at hx; rcases hx with rfl | rfl
        · exact agree_has ha rfl
        · exact hf.2)
    (edge_map s elem n ca fid ret _ a_1 h_2 ha hf.1) rfl h_2 rfl

theorem tx_reduce (a f init) : GoalT regs frames s0 (.reduce a f init) := by
  tx_pre [alloc_spec, put_spec] []
  have ha := hrd.1 _ h_4
  have hi := hrd.2 _ h_5
  have hf := fnReg_facts hT h
  exact finish_simple (op := AstOp.reduce ca fid c (MTy.scalar ret.mirName)) h_2.1 (by grind) hS hcl
    (by simp only [mentions_reduce]; intro x hx; simp at hx; rcases hx with rfl | rfl | rfl
        · exact agree_has ha rfl
        · exact agree_has hi h_1
        · exact hf.2)
    (by simp [edgeOK, agree_tyAt_some ha rfl, agree_tyAt_some hi h_1, hf.1]) rfl rfl rfl

theorem tx_call (f args kws) : GoalT regs frames s0 (.call f args kws) := by
  tx_pre' [alloc_spec, put_spec, childIds_exact, mapM_getVal_exact] []
  have hsub : ∀ x ∈ args ++ kwRegs, x ∈ args ++ kws.map (·.2) := by
    intro x hx
    rcases List.mem_append.1 hx with hx | hx
    · exact List.mem_append.2 (.inl hx)
    · exact List.mem_append.2 (.inr (kwRegs_mem kws _ _ h_2 x hx))
  have hag : ∀ v ∈ r, Agree s v := all2_reads _ r h_4.2 (fun x hx => hrd x (hsub x hx))
  have hf := fnReg_facts hT h
  exact finish_simple (op := AstOp.call r_2 fid (MTy.scalar ret.mirName)) (by grind) (by grind) hS hcl
    (by simp only [mentions_call]; intro x hx; simp at hx; rcases hx with hx | rfl
        · exact all2_has s r r_2 h_6.2 hag x hx
        · exact hf.2)
    (by simp [edgeOK, tysOf_isSome s r r_2 h_6.2 hag, hf.1]) rfl rfl rfl

theorem tx_ntupleGet (t i) : GoalT regs frames s0 (.ntupleGet t i) := by
  tx_pre [alloc_spec, genAccessor_typed] []
  · intro ty c hc
    simp only [mentions_ntupleAcc, List.mem_singleton] at hc
    subst hc
    exact agree_has (hrd _ h_3) rfl
  · intro ty hty
    exact edge_ntupleAcc s vs src j m ty (hrd _ h_3) (by omega) h_1 hty
  · intro w hw
    have hm : m ∈ vs.toList := List.mem_of_getElem? h_1
    exact (hA t (by simp [Cmd.reads]) _ h_3 w
      (by simp only [Val.live, List.mem_cons]; exact .inr (live_vals_mem vs m hm w hw))).weak
  · exact ⟨h_3.1, regNew_val h_3.2, framesNew_same _ _ _, postShape_same _ _ _⟩

theorem tx_objectGet (o key) : GoalT regs frames s0 (.objectGet o key) := by
  tx_pre [alloc_spec, genAccessor_typed] []
  · intro ty c hc
    simp only [mentions_objectAcc, List.mem_singleton] at hc
    subst hc
    exact agree_has (hrd _ h_3) rfl
  · intro ty hty
    exact edge_objectAcc s fs src key (fst, m) ty (hrd _ h_3) h_1 hty
  · intro w hw
    have hm : (fst, m) ∈ fs.toList := List.mem_of_find?_eq_some h_1
    exact (hA o (by simp [Cmd.reads]) _ h_3 w
      (by simp only [Val.live, List.mem_cons]; exact .inr (live_fields_mem fs fst m hm w hw))).weak
  · exact ⟨h_3.1, regNew_val h_3.2, framesNew_same _ _ _, postShape_same _ _ _⟩

theorem tx_beginFn (name params) : GoalT regs frames s0 (.beginFn name params) := by
  tx_pre [alloc_spec, bindParams_typed] []
  all_goals have hst1 : Step s s_1 := step_same_ops h.2.2 (by have := h.2.1; omega) hS hcl
  all_goals obtain ⟨rfl, hc1, ho1⟩ := h
  · exact hst1.1
  · have hc2 : s_1.counter ≤ s_2.counter := h_1.1.2.2.1
    refine ⟨hst1.trans h_1.1, ?_, ?_, ?_⟩
    · intro x hx
      obtain ⟨hx1, v, rfl⟩ := h_1.2 x hx
      exact ⟨hx1.1, by intro k n p d h; cases h⟩
    · intro fr hfr
      simp only [List.mem_cons] at hfr
      rcases hfr with rfl | hfr
      · refine .inr ⟨by simp only; omega, by show (s.counter + 1 : Nat) ≤ s_2.counter; omega, ?_⟩
        simp only
        rw [h_1.1.2.2.2 _ (by omega), lookup_eq_of_ops s_1 s ho1]
        exact hS.1.none_above (by omega)
      · exact .inl hfr
    · exact .inr ⟨⟨_, rfl, by simp only; omega⟩, fun x hx => (h_1.2 x hx).2⟩
  · intro h2; exact hst1.trans h2

/-- `Array(T(Input), size)`: re-types the input record under the wrapper's id -/
theorem tx_arrayOf (r size)
    (hU : ∀ v c, regs[r]? = some (.val v) → v.child = some c → Unref s0 c) :
    ReadsAgree regs s0 (.arrayOf r size) →
    ⦃fun s => ⌜s = s0⌝⦄ exec regs frames (.arrayOf r size)
    ⦃post⟨fun res s => ⌜∃ c, StepAt c s0 s ∧ (∃ op, s0.lookup c = some op ∧ op.isInput = true) ∧ res.2 = frames ∧
                          ∃ v, res.1 = [.val v] ∧ Agree s v ∧ v.live = [v]⌝,
          fun _ s => ⌜Step s0 s⌝⟩⦄ := by
  tx_pre [put_spec] []
  have hk : (c : Nat) ≤ s.counter := hS.1.lookup_le h_4
  have hst := stepAt_put_input h_5.2 h_5.1 hk hS hcl (by simp [AstOp.isInput]) (hU _ _ h_1 h_2)
  refine ⟨c, hst, ⟨_, h_4, by simp [AstOp.isInput]⟩, trivial, arr, rfl, ?_, rfl⟩
  intro c' hc'
  simp only [arr, Val.child, Option.some.injEq] at hc'
  subst hc'
  exact ⟨_, lookup_head h_5.2, by simpa [AstOp.ty] using h_3⟩

/-- `endFn`: stores the function record under the id drawn by `beginFn` -/
theorem tx_endFn (ret retAnn)
    (hF : ∀ fr ∈ frames, s0.lookup fr.fid = none ∧ fr.fid ≤ s0.counter) (hFs : FramesSto s0.ops frames) :
    ReadsAgree regs s0 (.endFn ret retAnn) →
    ⦃fun s => ⌜s = s0⌝⦄ exec regs frames (.endFn ret retAnn)
    ⦃post⟨fun res s => ⌜∃ fr rest, frames = fr :: rest ∧ res = ([.fn fr.fid retAnn fr.pnames], rest) ∧
                          StepFn fr.fid (.scalar retAnn.mirName) s0 s⌝,
          fun _ s => ⌜Step s0 s⌝⟩⦄ := by
  tx_pre [put_spec] []
  have htr : t = retAnn := by simpa using h_2
  subst htr
  have ha := hrd _ h_4
  have hf := hF fr (by simp)
  refine ⟨fr, rest, rfl, rfl, ?_⟩
  refine stepFn_put h_3.2 h_3.1 hf.1 hf.2 hS hcl ?_ ?_
  · simp only [mentions_function, List.mem_cons, List.mem_map]
    rintro x (rfl | ⟨p, hp, rfl⟩)
    · exact agree_has ha rfl
    · exact hFs fr (by simp) p hp
  · simp [edgeOK, agree_tyAt ha rfl rfl]
end

end NadaVerif.Lemmas
