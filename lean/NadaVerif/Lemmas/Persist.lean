/-
C04 — what was recorded stays recorded.

`Persist s s'`: every record the store `s` holds is still what `s'` returns for that id — unchanged if it is an operation,
still an input record if it is an input (`T(Input)` / `Array(value, size)` re-type an input record in place).
`runCmds_persist`: along every clean run (the hypothesis `CleanRun` of the typed-store layer: no input is re-wrapped while
referenced, operands agree with their records) each step keeps the earlier records; so the record an executed operation left
(`C04.bin_operand_order`, …) is the record the compiler reads, whatever is traced afterwards.
-/
import NadaVerif.Lemmas.TypedRun

namespace NadaVerif.Lemmas
open NadaVerif NadaVerif.Edge

def Persist (s s' : St) : Prop :=
  ∀ k op, s.lookup k = some op →
    (op.isInput = false → s'.lookup k = some op) ∧ (op.isInput = true → ∃ op', s'.lookup k = some op' ∧ op'.isInput = true)

theorem Persist.refl (s : St) : Persist s s := fun _ op h => ⟨fun _ => h, fun hi => ⟨op, h, hi⟩⟩

theorem Persist.trans {a b c : St} (h1 : Persist a b) (h2 : Persist b c) : Persist a c := by
  intro k op h
  obtain ⟨p1, p2⟩ := h1 k op h
  refine ⟨fun hn => (h2 k op (p1 hn)).1 hn, fun hi => ?_⟩
  obtain ⟨op', h', hi'⟩ := p2 hi
  exact (h2 k op' h').2 hi'

theorem persist_of_frame {s s' : St} (hi : IdsLe s) (hf : FrameRel s s') : Persist s s' := by
  intro k op h
  have hk : k ≤ s.counter := hi.lookup_le h
  have : s'.lookup k = some op := by rw [hf.2 k hk]; exact h
  exact ⟨fun _ => this, fun hin => ⟨op, this, hin⟩⟩

theorem persist_of_at {s s' : St} {k0 : Nat} (hi : IdsLe s)
    (hsame : ∀ x, x ≤ s.counter → x ≠ k0 → s'.lookup x = s.lookup x)
    (hold : s.lookup k0 = none ∨ ∃ op, s.lookup k0 = some op ∧ op.isInput = true)
    (hnew : ∃ op, s'.lookup k0 = some op ∧ op.isInput = true) : Persist s s' := by
  intro k op h
  have hk : k ≤ s.counter := hi.lookup_le h
  by_cases e : k = k0
  · subst e
    rcases hold with hn | ⟨op0, h0, hin0⟩
    · rw [hn] at h; cases h
    · rw [h0] at h; cases h
      exact ⟨fun hf => by rw [hin0] at hf; exact absurd hf (by decide), fun _ => hnew⟩
  · have : s'.lookup k = some op := by rw [hsame k hk e]; exact h
    exact ⟨fun _ => this, fun hin => ⟨op, this, hin⟩⟩

theorem persist_of_fn {s s' : St} {k0 : Nat} (hi : IdsLe s)
    (hsame : ∀ x, x ≤ s.counter → x ≠ k0 → s'.lookup x = s.lookup x) (hold : s.lookup k0 = none) : Persist s s' := by
  intro k op h
  have hk : k ≤ s.counter := hi.lookup_le h
  by_cases e : k = k0
  · subst e; rw [hold] at h; cases h
  · have : s'.lookup k = some op := by rw [hsame k hk e]; exact h
    exact ⟨fun _ => this, fun hin => ⟨op, this, hin⟩⟩

/-- one clean step keeps every earlier record -/
theorem step_persist (m : Mach) (c : Cmd) (hok : MachOK m) (hsto : MachSto m) (hJ : J m) (hc : CleanStep m c) :
    Persist m.st (step m c).1.st := by
  by_cases hstd : (∀ t r, c ≠ .wrap t r) ∧ (∀ r n, c ≠ .arrayOf r n) ∧ (∀ r t, c ≠ .endFn r t)
  · have hx := triple_run _ m.st _ _
      (exec_typed_std m.regs m.frames m.st hJ.store hsto.1 hsto.2.1 hJ.regs c hstd.1 hstd.2.1 hstd.2.2 hc.1)
    unfold step
    generalize hrun : (exec m.regs m.frames c).run.run m.st = r at hx ⊢
    obtain ⟨e, s'⟩ := r
    cases e with
    | ok v =>
      obtain ⟨vals, frames'⟩ := v
      simp only at hx ⊢
      exact persist_of_frame hJ.store.1 hx.1.2.2
    | error err =>
      simp only at hx ⊢
      exact persist_of_frame hJ.store.1 hx.2.2
  · cases c with
    | wrap t r =>
      have hx := triple_run _ m.st _ _
        (tx_wrap m.regs m.frames m.st hJ.store hsto.1 hsto.2.1 hJ.regs t r hok.2 hc.2)
      unfold step
      generalize hrun : (exec m.regs m.frames (.wrap t r)).run.run m.st = res at hx ⊢
      obtain ⟨e, s'⟩ := res
      cases e with
      | ok v =>
        obtain ⟨vals, frames'⟩ := v
        simp only at hx ⊢
        obtain ⟨k, n, p, d, hr, hst, hfr, v, hv, hag, hsc⟩ := hx
        obtain ⟨_, _, _, hsame, hnew⟩ := hst
        exact persist_of_at hJ.store.1 hsame (hJ.regs _ (List.mem_of_getElem? hr)) hnew
      | error err =>
        simp only at hx ⊢
        exact persist_of_frame hJ.store.1 hx.2.2
    | arrayOf r sz =>
      have hx := triple_run _ m.st _ _
        (tx_arrayOf m.regs m.frames m.st hJ.store hsto.1 hsto.2.1 hJ.regs r sz hc.2 hc.1)
      unfold step
      generalize hrun : (exec m.regs m.frames (.arrayOf r sz)).run.run m.st = res at hx ⊢
      obtain ⟨e, s'⟩ := res
      cases e with
      | ok v =>
        obtain ⟨vals, frames'⟩ := v
        simp only at hx ⊢
        obtain ⟨k, hst, ⟨op, hop, hin⟩, hfr, v, hv, hag, hlive⟩ := hx
        obtain ⟨_, _, _, hsame, hnew⟩ := hst
        exact persist_of_at hJ.store.1 hsame (.inr ⟨op, hop, hin⟩) hnew
      | error err =>
        simp only at hx ⊢
        exact persist_of_frame hJ.store.1 hx.2.2
    | endFn ret retAnn =>
      have hx := triple_run _ m.st _ _
        (tx_endFn m.regs m.frames m.st hJ.store hsto.1 hsto.2.1 hJ.regs ret retAnn hJ.free hsto.2.2 hc.1)
      unfold step
      generalize hrun : (exec m.regs m.frames (.endFn ret retAnn)).run.run m.st = res at hx ⊢
      obtain ⟨e, s'⟩ := res
      cases e with
      | ok v =>
        obtain ⟨vals, frames'⟩ := v
        simp only at hx ⊢
        obtain ⟨fr, rest', hfr, hres, hst⟩ := hx
        obtain ⟨_, _, _, hsame, _⟩ := hst
        exact persist_of_fn hJ.store.1 hsame (hJ.free fr (by rw [hfr]; simp)).1
      | error err =>
        simp only at hx ⊢
        exact persist_of_frame hJ.store.1 hx.2.2
    | _ =>
      apply absurd _ hstd
      refine ⟨?_, ?_, ?_⟩ <;> (intro _ _ h; cases h)

theorem runCmds_persist (cs : List Cmd) : ∀ (m : Mach), MachOK m → MachSto m → J m → CleanRun m cs →
    Persist m.st (runCmds m cs).1.st := by
  induction cs with
  | nil => intro m _ _ _ _; exact Persist.refl _
  | cons c cs ih =>
    intro m hok hsto hJ hc
    simp only [runCmds]
    exact (step_persist m c hok hsto hJ hc.1).trans
      (ih _ (step_ok m c hok) (step_sto m c hsto) (step_typed m c hok hsto hJ hc.1) hc.2)

end NadaVerif.Lemmas
