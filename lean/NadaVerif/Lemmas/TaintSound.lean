/-
C03 over whole stores: in an edge-consistent store, a leaf that depends on a secret is typed secret.

`taint_sound`: if every visible record is edge-consistent (`EdgesOK`, established for every clean run by
`Lemmas/TypedRun.lean`) and every `reduce` starts from a value of its function's return type, then for every operation
`k`, every leaf `π` of its value and any amount of fuel: `taintF s fuel k π = true → secretAt (type of k) π = true`.
Proof by induction on the fuel (= on the length of the dependence chain), one case per operation kind; the edge
relation supplies the shape of the recorded type, the induction hypothesis the secrecy of the operand's leaf.
-/
import NadaVerif.Spec.Taint
import NadaVerif.Lemmas.TypedRun

namespace NadaVerif.Lemmas
open NadaVerif NadaVerif.Edge NadaVerif.Taint

theorem secName_mirName (t : STy) : secName t.mirName = STy.isSec t := by
  obtain ⟨m, b⟩ := t; cases m <;> cases b <;> decide

theorem eq_of_mem_scalarOf {t : MTy} {a : STy} (h : a ∈ scalarOf t) : t = .scalar a.mirName := by
  simp only [scalarOf, List.mem_filter, beq_iff_eq] at h
  exact h.2

theorem tyAt_lookup {s : St} {c : Id} {t : MTy} (h : tyAtS s c = some t) : ∃ op, s.lookup c = some op ∧ op.ty = t := by
  simp only [tyAtS, Option.map_eq_some_iff] at h
  exact h

theorem secretAt_scalar (n : String) : secretAt (.scalar n) [] = secName n := by
  simp [secretAt]

theorem emode_isSec (b : Bool) (base : Base) : STy.isSec (STy.mk (emode b) base) = b := by
  cases b <;> simp [emode, STy.isSec]

/-- a scalar binary operation other than `public_equals`: a secret operand makes the recorded type secret -/
theorem binEdge_secret (name : String) (a b : STy) (ty : MTy) (h : binEdge name a b ty = true)
    (hn : (name == "PublicOutputEquality") = false) (hs : (STy.isSec a || STy.isSec b) = true) :
    secretAt ty [] = true := by
  unfold binEdge at h
  simp only [hn] at h
  split at h
  · simp only [Bool.and_eq_true, beq_iff_eq] at h
    rw [h.2, secretAt_scalar, secName_mirName, emode_isSec]; exact hs
  · split at h
    · simp only [beq_iff_eq] at h
      rw [h, secretAt_scalar, secName_mirName, emode_isSec]; exact hs
    · split at h
      · simp only [Bool.and_eq_true, beq_iff_eq] at h
        rw [h.2, secretAt_scalar, secName_mirName, emode_isSec]; exact hs
      · simp only [Bool.false_eq_true, if_false] at h
        split at h
        · simp only [beq_iff_eq] at h
          rw [h, secretAt_scalar, secName_mirName]; simp [STy.isSec]
        · simp at h

theorem tysOf_get (f : Id → Option MTy) : ∀ (es : List Id) (ts : List MTy), tysOf f es = some ts →
    ∀ (i : Nat) (e : Id), es[i]? = some e → ∃ t, ts[i]? = some t ∧ f e = some t
  | [], ts, h, i, e, he => by simp at he
  | x :: es, ts, h, i, e, he => by
    simp only [tysOf] at h
    cases hx : f x with
    | none => simp [hx] at h
    | some t =>
      cases hr : tysOf f es with
      | none => simp [hx, hr] at h
      | some ts' =>
        simp [hx, hr] at h; subst h
        cases i with
        | zero => simp at he; subst he; exact ⟨t, by simp, hx⟩
        | succ i => simp at he; simpa using tysOf_get f es ts' hr i e he

theorem tysOf_length (f : Id → Option MTy) : ∀ (es : List Id) (ts : List MTy), tysOf f es = some ts → ts.length = es.length
  | [], ts, h => by simp [tysOf] at h; subst h; rfl
  | x :: es, ts, h => by
    simp only [tysOf] at h
    cases hx : f x with
    | none => simp [hx] at h
    | some t =>
      cases hr : tysOf f es with
      | none => simp [hx, hr] at h
      | some ts' => simp [hx, hr] at h; subst h; simp [tysOf_length f es ts' hr]

theorem toList_ofList_mtys : ∀ (ts : List MTy), (MTys.ofList ts).toList = ts
  | [] => rfl
  | t :: ts => by simp [MTys.ofList, MTys.toList, toList_ofList_mtys ts]

theorem fieldsMatch_get : ∀ (fs : List (String × MTy)) (ts : List MTy), fieldsMatch fs ts = true →
    ∀ (i : Nat) (t : MTy), ts[i]? = some t → ∃ p, fs[i]? = some p ∧ p.2 = t
  | [], [], _, i, t, h => by simp at h
  | [], _ :: _, h, _, _, _ => by simp [fieldsMatch] at h
  | _ :: _, [], h, _, _, _ => by simp [fieldsMatch] at h
  | (n, a) :: fs, b :: ts, h, i, t, hi => by
    simp only [fieldsMatch, Bool.and_eq_true, beq_iff_eq] at h
    cases i with
    | zero => simp at hi; subst hi; exact ⟨(n, a), by simp, h.1⟩
    | succ i => simp at hi; simpa using fieldsMatch_get fs ts h.2 i t hi

theorem find_of_findIdx {α} (p : α → Bool) : ∀ (l : List α) (i : Nat), l.findIdx? p = some i →
    ∃ x, l[i]? = some x ∧ l.find? p = some x
  | [], i, h => by simp at h
  | a :: l, i, h => by
    simp only [List.findIdx?_cons] at h
    by_cases hp : p a = true
    · simp [hp] at h; subst h; exact ⟨a, by simp, by simp [hp]⟩
    · simp only [Bool.not_eq_true] at hp
      simp [hp] at h
      obtain ⟨j, hj, rfl⟩ := h
      obtain ⟨x, hx1, hx2⟩ := find_of_findIdx p l j hj
      exact ⟨x, by simpa using hx1, by simp [hp, hx2]⟩

/-- what a function reference contributes: the leaf of the function's returned value, typed by the function's type -/
theorem viaFn_sound (s : St) (hE : EdgesOK s) (fuel : Nat)
    (ih : ∀ (k : Id) (π : Path) (op : AstOp), s.lookup k = some op → taintF s fuel k π = true → secretAt op.ty π = true)
    (f : Id) (ρ : Path) (ty : MTy) (hf : fnTyS s f = some ty)
    (ht : (match fnChild s f with | some c => taintF s fuel c ρ | none => false) = true) : secretAt ty ρ = true := by
  simp only [fnTyS] at hf
  simp only [fnChild] at ht
  split at hf
  · rename_i n a ch tyf hlf
    cases hf
    simp only [hlf] at ht
    have he := hE f _ hlf
    simp only [edgeOK, beq_iff_eq] at he
    obtain ⟨och, hoch, hty⟩ := tyAt_lookup he
    have := ih ch ρ och hoch ht
    rwa [hty] at this
  · cases hf

theorem taint_sound (s : St) (hE : EdgesOK s) (hR : reduceInitOK s = true) :
    ∀ (fuel : Nat) (k : Id) (π : Path) (op : AstOp), s.lookup k = some op → taintF s fuel k π = true →
      secretAt op.ty π = true := by
  intro fuel
  induction fuel with
  | zero => intro k π op _ h; simp [taintF] at h
  | succ fuel ih =>
    intro k π op hl ht
    have he := hE k op hl
    simp only [taintF, hl] at ht
    cases op with
    | binary name l r ty =>
      simp only [edgeOK] at he
      simp only [AstOp.ty]
      cases htl : tyAtS s l with
      | none => simp [htl] at he
      | some tl =>
      cases htr : tyAtS s r with
      | none => simp [htl, htr] at he
      | some tr =>
      simp only [htl, htr] at he
      obtain ⟨ol, hol, hotl⟩ := tyAt_lookup htl
      obtain ⟨or_, hor, hotr⟩ := tyAt_lookup htr
      by_cases hz : (name == "Zip") = true
      · simp only [hz, if_true] at he ht
        cases tl <;> cases tr <;> simp at he
        rename_i el nl er nr
        obtain ⟨rfl, _⟩ := he
        split at ht
        · have := ih l _ ol hol ht
          rw [hotl] at this
          simpa [secretAt] using this
        · have := ih r _ or_ hor ht
          rw [hotr] at this
          simpa [secretAt] using this
        · cases ht
      · simp only [hz, if_false] at he ht
        by_cases hp : (name == "PublicOutputEquality") = true
        · simp [hp] at ht
        · simp only [hp, if_false] at ht
          by_cases hi : (name == "InnerProduct") = true
          · simp only [hi, if_true] at he
            simp [hi] at ht
            obtain ⟨rfl, hor2⟩ := ht
            cases tl <;> cases tr <;> simp at he
            rename_i el nl er nr
            obtain ⟨a, ha, b, hb, _, hty⟩ := he
            have hel := eq_of_mem_scalarOf ha
            have her := eq_of_mem_scalarOf hb
            subst hel; subst her
            rw [hty, secretAt_scalar, secName_mirName, emode_isSec]
            rcases hor2 with h | h
            · have := ih l _ ol hol h
              rw [hotl] at this
              simp only [secretAt, secretAt_scalar, secName_mirName] at this
              simp [this]
            · have := ih r _ or_ hor h
              rw [hotr] at this
              simp only [secretAt, secretAt_scalar, secName_mirName] at this
              simp [this]
          · have he' : ((scalarOf tl).any fun a => (scalarOf tr).any fun b => binEdge name a b ty) = true := by
              simpa [hi] using he
            simp only [List.any_eq_true] at he'
            simp [hi] at ht
            obtain ⟨rfl, hor2⟩ := ht
            obtain ⟨a, ha, b, hb, hbe⟩ := he'
            have hel := eq_of_mem_scalarOf ha
            have her := eq_of_mem_scalarOf hb
            subst hel; subst her
            refine binEdge_secret name a b ty hbe (by simpa using hp) ?_
            rcases hor2 with h | h
            · have := ih l _ ol hol h
              rw [hotl, secretAt_scalar, secName_mirName] at this
              simp [this]
            · have := ih r _ or_ hor h
              rw [hotr, secretAt_scalar, secName_mirName] at this
              simp [this]
    | unary name c ty =>
      simp only [edgeOK] at he
      simp only [AstOp.ty]
      cases htc : tyAtS s c with
      | none => simp [htc] at he
      | some tc =>
      simp only [htc] at he
      obtain ⟨oc, hoc, hotc⟩ := tyAt_lookup htc
      by_cases hn : (name == "Not") = true
      · simp [hn] at he ht
        have := ih c π oc hoc ht
        rw [hotc] at this
        rw [he]; exact this
      · by_cases hu : (name == "Unzip") = true
        · have hname : name = "Unzip" := by simpa using hu
          subst hname
          simp only [show ("Unzip" == "Not") = false by decide, show ("Unzip" == "Reveal") = false by decide,
            show ("Unzip" == "Unzip") = true by decide, Bool.false_eq_true, if_false, if_true] at he ht
          split at he
          · rename_i l r n l' n1 r' n2
            simp only [Bool.and_eq_true, beq_iff_eq] at he
            obtain ⟨⟨⟨rfl, rfl⟩, _⟩, _⟩ := he
            split at ht
            · have := ih c _ oc hoc ht
              rw [hotc] at this
              simpa [secretAt] using this
            · have := ih c _ oc hoc ht
              rw [hotc] at this
              simpa [secretAt] using this
            · cases ht
          · cases he
        · have hn' : (name == "Not") = false := by simpa using hn
          have hu' : (name == "Unzip") = false := by simpa using hu
          simp [hn', hu'] at ht
    | ifElse c a b ty =>
      simp only [edgeOK] at he
      simp only [AstOp.ty]
      cases htc : tyAtS s c with
      | none => simp [htc] at he
      | some tc =>
      cases hta : tyAtS s a with
      | none => simp [htc, hta] at he
      | some ta =>
      cases htb : tyAtS s b with
      | none => simp [htc, hta, htb] at he
      | some tb =>
      simp only [htc, hta, htb, List.any_eq_true, Bool.and_eq_true, beq_iff_eq] at he
      obtain ⟨x, hx, y, hy, z, hz, _, hty⟩ := he
      have h1 := eq_of_mem_scalarOf hx
      have h2 := eq_of_mem_scalarOf hy
      have h3 := eq_of_mem_scalarOf hz
      subst h1; subst h2; subst h3
      obtain ⟨oc, hoc, hotc⟩ := tyAt_lookup htc
      obtain ⟨oa, hoa, hota⟩ := tyAt_lookup hta
      obtain ⟨ob, hob, hotb⟩ := tyAt_lookup htb
      simp at ht
      obtain ⟨rfl, hor⟩ := ht
      rw [hty, secretAt_scalar, secName_mirName, emode_isSec]
      rcases hor with (h | h) | h
      · have := ih c _ oc hoc h
        rw [hotc, secretAt_scalar, secName_mirName] at this
        simp [this]
      · have := ih a _ oa hoa h
        rw [hota, secretAt_scalar, secName_mirName] at this
        simp [this]
      · have := ih b _ ob hob h
        rw [hotb, secretAt_scalar, secName_mirName] at this
        simp [this]
    | random ty =>
      simp only [edgeOK, List.any_eq_true] at he
      obtain ⟨a, ha, hs⟩ := he
      have := eq_of_mem_scalarOf ha
      subst this
      simp at ht
      subst ht
      simp only [AstOp.ty, secretAt_scalar, secName_mirName]
      exact hs
    | input n p d ty => simpa [AstOp.ty] using ht
    | literal v i ty => simp at ht
    | argRef n f ty => simpa [AstOp.ty] using ht
    | function n args c ty => simp at ht
    | call args f ty =>
      simp only at ht
      simp only [edgeOK, Bool.and_eq_true, beq_iff_eq] at he
      exact viaFn_sound s hE fuel ih f π ty he.2 ht
    | map c f ty =>
      simp only at ht
      simp only [edgeOK] at he
      simp only [AstOp.ty]
      split at he
      · rename_i el n rt htc hfn
        simp only [beq_iff_eq] at he
        subst he
        split at ht
        · rename_i ρ
          have := viaFn_sound s hE fuel ih f ρ rt hfn ht
          simpa [secretAt] using this
        · cases ht
      · cases he
    | reduce c f i ty =>
      simp only at ht
      simp only [edgeOK, Bool.and_eq_true, beq_iff_eq] at he
      simp only [AstOp.ty]
      simp only [Bool.or_eq_true] at ht
      rcases ht with h | h
      · exact viaFn_sound s hE fuel ih f π ty he.2 h
      · have hm := lookup_mem' s k _ hl
        simp only [reduceInitOK, List.all_eq_true, Bool.or_eq_true, bne_iff_ne, ne_eq] at hR
        have := hR _ hm
        simp only [hl, not_true_eq_false, false_or, beq_iff_eq] at this
        rw [he.2] at this
        obtain ⟨oi, hoi, hty⟩ := tyAt_lookup this
        have h2 := ih i π oi hoi h
        rwa [hty] at h2
    | ntupleAcc j src ty =>
      simp only at ht
      simp only [edgeOK] at he
      simp only [AstOp.ty]
      split at he
      · rename_i ts hts
        simp only [Bool.and_eq_true, decide_eq_true_eq, beq_iff_eq] at he
        obtain ⟨osrc, hos, hty⟩ := tyAt_lookup hts
        have := ih src _ osrc hos ht
        rw [hty] at this
        simpa [secretAt, he.2] using this
      · cases he
    | objectAcc key src ty =>
      simp only at ht
      simp only [edgeOK] at he
      simp only [AstOp.ty]
      split at he
      · rename_i fs hfs
        simp only [hfs] at ht
        simp only [beq_iff_eq] at he
        split at ht
        · rename_i i hi
          obtain ⟨x, hx1, hx2⟩ := find_of_findIdx _ _ _ hi
          rw [hx2] at he
          simp at he
          obtain ⟨osrc, hos, hty⟩ := tyAt_lookup hfs
          have := ih src _ osrc hos ht
          rw [hty] at this
          simpa [secretAt, hx1, he] using this
        · cases ht
      · cases he
    | new name es ty =>
      simp only at ht
      simp only [edgeOK] at he
      simp only [AstOp.ty]
      cases hts : tysOf (tyAtS s) es with
      | none => simp [hts] at he
      | some ts =>
      simp only [hts] at he
      by_cases ha : (name == "ArrayNew") = true
      · simp only [ha, if_true] at he ht
        split at he
        · rename_i t0 rest
          simp only [Bool.and_eq_true, List.all_eq_true, beq_iff_eq] at he
          obtain ⟨hall, rfl⟩ := he
          split at ht
          · rename_i ρ
            simp only [List.any_eq_true] at ht
            obtain ⟨e, hem, hte⟩ := ht
            obtain ⟨i, hi⟩ := List.getElem?_of_mem hem
            obtain ⟨t, ht1, ht2⟩ := tysOf_get _ es _ hts i e hi
            have := hall t (List.mem_of_getElem? ht1)
            subst this
            obtain ⟨oe, hoe, hty⟩ := tyAt_lookup ht2
            have h2 := ih e ρ oe hoe hte
            rw [hty] at h2
            simpa [secretAt] using h2
          · cases ht
        · cases he
      · have ha' : (name == "ArrayNew") = false := by simpa using ha
        simp only [ha', Bool.false_eq_true, if_false] at he ht
        by_cases htn : (name == "TupleNew") = true
        · simp only [htn, if_true] at he ht
          split at he
          · rename_i a b
            simp only [beq_iff_eq] at he
            subst he
            have hlen := tysOf_length _ es _ hts
            match es, hlen, hts, ht with
            | [ea, eb], _, hts, ht =>
              obtain ⟨t1, h11, h12⟩ := tysOf_get _ _ _ hts 0 ea rfl
              obtain ⟨t2, h21, h22⟩ := tysOf_get _ _ _ hts 1 eb rfl
              simp at h11 h21
              subst h11; subst h21
              split at ht
              · rename_i _ _ a1 b1 ρ heq _
                simp only [List.cons.injEq, and_true] at heq
                obtain ⟨rfl, rfl⟩ := heq
                obtain ⟨oe, hoe, hty⟩ := tyAt_lookup h12
                have h2 := ih _ _ oe hoe ht
                rw [hty] at h2
                simpa [secretAt] using h2
              · rename_i _ _ a1 b1 ρ heq _
                simp only [List.cons.injEq, and_true] at heq
                obtain ⟨rfl, rfl⟩ := heq
                obtain ⟨oe, hoe, hty⟩ := tyAt_lookup h22
                have h2 := ih _ _ oe hoe ht
                rw [hty] at h2
                simpa [secretAt] using h2
              · cases ht
          · cases he
        · have htn' : (name == "TupleNew") = false := by simpa using htn
          simp only [htn', Bool.false_eq_true, if_false] at he ht
          split at ht
          · rename_i i ρ
            split at ht
            · rename_i e hei
              obtain ⟨t, ht1, ht2⟩ := tysOf_get _ es _ hts i e hei
              obtain ⟨oe, hoe, hty⟩ := tyAt_lookup ht2
              have h2 := ih e ρ oe hoe ht
              rw [hty] at h2
              by_cases hnn : (name == "NTupleNew") = true
              · simp only [hnn, if_true, beq_iff_eq] at he
                subst he
                simp [secretAt, toList_ofList_mtys, ht1, h2]
              · have hnn' : (name == "NTupleNew") = false := by simpa using hnn
                simp only [hnn', Bool.false_eq_true, if_false] at he
                by_cases hon : (name == "ObjectNew") = true
                · simp only [hon, if_true] at he
                  split at he
                  · rename_i fs
                    obtain ⟨p, hp1, hp2⟩ := fieldsMatch_get _ _ he i t ht1
                    simp [secretAt, hp1, hp2, h2]
                  · cases he
                · have hon' : (name == "ObjectNew") = false := by simpa using hon
                  simp [hon'] at he
            · cases ht
          · cases ht

end NadaVerif.Lemmas

namespace NadaVerif.Lemmas
open NadaVerif NadaVerif.Edge NadaVerif.Taint

/-- What justifies treating a parameter as a source exactly where its declared type is secret: at a call site whose
arguments have the declared parameter types, whatever an argument's leaf depends on is covered by the parameter's type. -/
theorem call_args_covered (s : St) (hE : EdgesOK s) (hR : reduceInitOK s = true)
    (args : List Id) (ptys : List MTy) (hb : tysOf (tyAtS s) args = some ptys) :
    ∀ (i : Nat) (arg : Id) (fuel : Nat) (π : Path), args[i]? = some arg → taintF s fuel arg π = true →
      ∃ pt, ptys[i]? = some pt ∧ secretAt pt π = true := by
  intro i arg fuel π hi ht
  obtain ⟨t, ht1, ht2⟩ := tysOf_get _ args ptys hb i arg hi
  obtain ⟨oa, hoa, hty⟩ := tyAt_lookup ht2
  have := taint_sound s hE hR fuel arg π oa hoa ht
  exact ⟨t, ht1, by rwa [hty] at this⟩

/-- **No implicit declassification, for whole programs**: after any clean run, in which every `reduce` starts from a value
of its function's return type, a leaf of any traced operation that depends on a secret (through any chain of operand
references, containers, function bodies — anything but `Reveal` / `PublicOutputEquality`) is typed secret. -/
theorem trace_no_declass (cs : List Cmd) (hc : cleanRunB {} cs = true)
    (hR : reduceInitOK (runCmds {} cs).1.st = true) :
    ∀ (fuel : Nat) (k : Id) (π : Path) (op : AstOp), (runCmds {} cs).1.st.lookup k = some op →
      taintF (runCmds {} cs).1.st fuel k π = true → secretAt op.ty π = true :=
  taint_sound _ ((storeEdgesOK_iff _).1 (trace_edges_okB cs hc)) hR

/-- the executable form, evaluated by the driver on every generated program -/
theorem trace_taint_ok (cs : List Cmd) (hc : cleanRunB {} cs = true)
    (hR : reduceInitOK (runCmds {} cs).1.st = true) : storeTaintOK (runCmds {} cs).1.st = true := by
  simp only [storeTaintOK, List.all_eq_true, Bool.or_eq_true, bne_iff_ne, ne_eq, Bool.not_eq_true']
  intro e _
  by_cases hl : (runCmds {} cs).1.st.lookup e.1 = some e.2
  · refine .inr (fun π _ => ?_)
    cases ht : taintF (runCmds {} cs).1.st ((runCmds {} cs).1.st.counter + 1) e.1 π with
    | false => exact .inl rfl
    | true => exact .inr (trace_no_declass cs hc hR _ e.1 π e.2 hl ht)
  · exact .inl hl

end NadaVerif.Lemmas
