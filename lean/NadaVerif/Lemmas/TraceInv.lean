/-
The trace establishes a well-formed store — for **every** command list.

`WFc s`      : every stored record's operand ids are smaller than the id it is stored under
               (so operand references can never form a cycle, `Spec.storeWF`);
`RegsLe n rs`: every operation id held anywhere inside a register value is `≤ n`.

`exec_spec` (Hoare triple over the tracing monad, generated with `mvcgen` from the code of `exec`
and closed per command): from a state with `WFc` whose counter is `≥ n`, with registers bounded
by `n`, every command — accepted or rejected, whatever partial effects it leaves — ends in a
state with `WFc`, a counter that did not decrease, and new register values bounded by the new
counter.  `runCmds_wf` lifts it to all command lists, `trace_storeWF` is the statement C01 uses.
-/
import Std.Do
import Std.Tactic.Do
import NadaVerif.Trace
import NadaVerif.Spec.Graph

namespace NadaVerif

mutual
/-- every operation id held inside a value (its own `child`, and those of everything it contains) -/
def Val.ids : Val → List Id
  | .scalar _ c _ => c.toList
  | .array e _ c => c.toList ++ Elem.ids e
  | .tuple l r c => c.toList ++ Elem.ids l ++ Elem.ids r
  | .ntuple vs c => c.toList ++ Vals.ids vs
  | .object fs c => c.toList ++ VFields.ids fs
def Elem.ids : Elem → List Id
  | .cls _ | .typeVar => []
  | .inst v => Val.ids v
  | .arrayType e _ => Elem.ids e
def Vals.ids : Vals → List Id
  | .nil => []
  | .cons v vs => Val.ids v ++ Vals.ids vs
def VFields.ids : VFields → List Id
  | .nil => []
  | .cons _ v fs => Val.ids v ++ VFields.ids fs
end

def RVal.ids : RVal → List Id
  | .val v => Val.ids v
  | .input k _ _ _ => [k]
  | _ => []

end NadaVerif

namespace NadaVerif.Lemmas
open Std.Do NadaVerif NadaVerif.Spec

set_option mvcgen.warning false
set_option maxHeartbeats 4000000

def WFc (s : St) : Prop := ∀ e ∈ s.ops, ∀ c ∈ e.2.children, c < e.1

theorem storeWF_iff (s : St) : storeWF s = true ↔ WFc s := by
  simp [storeWF, WFc, List.all_eq_true]

def ValLe (n : Nat) (v : Val) : Prop := ∀ x ∈ Val.ids v, x ≤ n
def RegsLe (n : Nat) (rs : List RVal) : Prop := ∀ r ∈ rs, ∀ x ∈ r.ids, x ≤ n

theorem ValLe.mono {n m : Nat} {v : Val} (h : ValLe n v) (hnm : n ≤ m) : ValLe m v :=
  fun x hx => Nat.le_trans (h x hx) hnm
theorem RegsLe.mono {n m : Nat} {rs : List RVal} (h : RegsLe n rs) (hnm : n ≤ m) : RegsLe m rs :=
  fun r hr x hx => Nat.le_trans (h r hr x hx) hnm
theorem RegsLe.append {n : Nat} {a b : List RVal} (ha : RegsLe n a) (hb : RegsLe n b) : RegsLe n (a ++ b) := by
  intro r hr; rcases List.mem_append.1 hr with h | h
  · exact ha r h
  · exact hb r h
theorem RegsLe.val {n : Nat} {rs : List RVal} {v : Val} (h : RegsLe n rs) (hm : RVal.val v ∈ rs) : ValLe n v :=
  fun x hx => h _ hm x hx

theorem child_mem_ids {v : Val} {c : Id} (h : v.child = some c) : c ∈ Val.ids v := by
  cases v <;> simp_all [Val.child, Val.ids]

theorem mem_vals_ids : ∀ (vs : Vals) (v : Val), v ∈ vs.toList → ∀ x ∈ Val.ids v, x ∈ Vals.ids vs
  | .nil, _, h => by simp [Vals.toList] at h
  | .cons w ws, v, h => by
    simp only [Vals.toList, List.mem_cons] at h
    intro x hx
    simp only [Vals.ids, List.mem_append]
    rcases h with rfl | h
    · exact .inl hx
    · exact .inr (mem_vals_ids ws v h x hx)

theorem mem_fields_ids : ∀ (fs : VFields) (k : String) (v : Val), (k, v) ∈ fs.toList →
    ∀ x ∈ Val.ids v, x ∈ VFields.ids fs
  | .nil, _, _, h => by simp [VFields.toList] at h
  | .cons k' w ws, k, v, h => by
    simp only [VFields.toList, List.mem_cons, Prod.mk.injEq] at h
    intro x hx
    simp only [VFields.ids, List.mem_append]
    rcases h with ⟨_, rfl⟩ | h
    · exact .inl hx
    · exact .inr (mem_fields_ids ws k v h x hx)

theorem ids_ofList (vs : List Val) : ∀ x, x ∈ Vals.ids (Vals.ofList vs) ↔ ∃ v ∈ vs, x ∈ Val.ids v := by
  induction vs with
  | nil => simp [Vals.ofList, Vals.ids]
  | cons v vs ih => intro x; simp [Vals.ofList, Vals.ids, ih x]

theorem ids_fieldsOfList (fs : List (String × Val)) :
    ∀ x, x ∈ VFields.ids (VFields.ofList fs) ↔ ∃ p ∈ fs, x ∈ Val.ids p.2 := by
  induction fs with
  | nil => simp [VFields.ofList, VFields.ids]
  | cons p fs ih => intro x; obtain ⟨k, v⟩ := p; simp [VFields.ofList, VFields.ids, ih x]

theorem ids_withChild (v : Val) (k : Id) : ∀ x ∈ Val.ids (v.withChild k), x = k ∨ x ∈ Val.ids v := by
  intro x hx
  cases v <;> simp_all [Val.withChild, Val.ids] <;> grind

def WFops (ops : List (Id × AstOp)) : Prop := ∀ e ∈ ops, ∀ c ∈ e.2.children, c < e.1
theorem WFc_iff (s : St) : WFc s ↔ WFops s.ops := Iff.rfl
theorem WFops_cons (k : Id) (op : AstOp) (ops : List (Id × AstOp)) :
    WFops ((k, op) :: ops) ↔ (∀ c ∈ op.children, c < k) ∧ WFops ops := by
  simp [WFops]

/-- what a piece of the trace may do to the state: the counter does not decrease, well-formedness is kept -/
def Ext (s0 s : St) : Prop := s0.counter ≤ s.counter ∧ (WFops s0.ops → WFops s.ops)

theorem Ext.refl (s : St) : Ext s s := ⟨Nat.le_refl _, id⟩
theorem Ext.trans {a b c : St} (h1 : Ext a b) (h2 : Ext b c) : Ext a c :=
  ⟨Nat.le_trans h1.1 h2.1, fun h => h2.2 (h1.2 h)⟩

theorem reg_ids_le {n : Nat} {regs : List RVal} (hr : RegsLe n regs) {a : Nat} {v : Val}
    (h : regs[a]? = some (.val v)) : ∀ x ∈ Val.ids v, x ≤ n :=
  hr _ (List.mem_of_getElem? h)
theorem reg_scalar_le {n : Nat} {regs : List RVal} (hr : RegsLe n regs) {a : Nat} {t : STy} {c : Id} {l : Option LitVal}
    (h : regs[a]? = some (.val (.scalar t (some c) l))) : c ≤ n :=
  reg_ids_le hr h c (by simp [Val.ids])
theorem reg_child_le {n : Nat} {regs : List RVal} (hr : RegsLe n regs) {a : Nat} {v : Val} {c : Id}
    (h : regs[a]? = some (.val v)) (hc : v.child = some c) : c ≤ n :=
  reg_ids_le hr h c (child_mem_ids hc)
theorem reg_input_le {n : Nat} {regs : List RVal} (hr : RegsLe n regs) {a : Nat} {k : Id} {x y z : String}
    (h : regs[a]? = some (.input k x y z)) : k ≤ n :=
  hr _ (List.mem_of_getElem? h) k (by simp [RVal.ids])
theorem mem_val_le {n : Nat} {regs : List RVal} (hr : RegsLe n regs) {v : Val} (h : RVal.val v ∈ regs) :
    ∀ x ∈ Val.ids v, x ≤ n := hr _ h

theorem regsLe_single (m : Nat) (v : Val) : RegsLe m [.val v] ↔ ∀ x ∈ Val.ids v, x ≤ m := by
  simp [RegsLe, RVal.ids]
theorem regsLe_nil (m : Nat) : RegsLe m [] := by simp [RegsLe]
theorem regsLe_cons (m : Nat) (r : RVal) (rs : List RVal) : RegsLe m (r :: rs) ↔ (∀ x ∈ r.ids, x ≤ m) ∧ RegsLe m rs := by
  simp [RegsLe]

/-! ### state-preserving helpers -/

theorem mapM_getVal_spec (regs : List RVal) (xs : List Reg) (s0 : St) :
    ⦃fun s => ⌜s = s0⌝⦄ xs.mapM (getVal regs)
    ⦃post⟨fun vs s => ⌜s = s0 ∧ ∀ v ∈ vs, RVal.val v ∈ regs⌝, fun _ s => ⌜s = s0⌝⟩⦄ := by
  induction xs generalizing s0 with
  | nil => simp only [List.mapM_nil]; mvcgen; simp_all
  | cons x xs ih =>
    simp only [List.mapM_cons]
    mvcgen [getVal, ih]
    all_goals simp_all
    all_goals (rename_i h _ _ _; first | exact List.mem_of_getElem? h | skip)

theorem childIds_spec (vs : List Val) (s0 : St) :
    ⦃fun s => ⌜s = s0⌝⦄ childIds vs
    ⦃post⟨fun ids s => ⌜s = s0 ∧ ∀ x ∈ ids, ∃ v ∈ vs, x ∈ Val.ids v⌝, fun _ s => ⌜s = s0⌝⟩⦄ := by
  unfold childIds
  induction vs generalizing s0 with
  | nil => simp only [List.mapM_nil]; mvcgen
  | cons v vs ih =>
    simp only [List.mapM_cons]
    mvcgen [childOf, ih]
    all_goals simp_all
    exact .inl (child_mem_ids ‹_›)

theorem mapM_toMir_spec (vs : List Val) (s0 : St) :
    ⦃fun s => ⌜s = s0⌝⦄ vs.mapM (fun v => liftE v.toMir)
    ⦃post⟨fun _ s => ⌜s = s0⌝, fun _ s => ⌜s = s0⌝⟩⦄ := by
  induction vs generalizing s0 with
  | nil => simp only [List.mapM_nil]; mvcgen
  | cons v vs ih =>
    simp only [List.mapM_cons]
    mvcgen [liftE, ih]
    all_goals simp_all

theorem mapM_fields_spec (regs : List RVal) (fs : List (String × Reg)) (s0 : St) :
    ⦃fun s => ⌜s = s0⌝⦄ fs.mapM (fun (p : String × Reg) => do pure (p.1, ← getVal regs p.2))
    ⦃post⟨fun vs s => ⌜s = s0 ∧ ∀ p ∈ vs, RVal.val p.2 ∈ regs⌝, fun _ s => ⌜s = s0⌝⟩⦄ := by
  induction fs generalizing s0 with
  | nil => simp only [List.mapM_nil]; mvcgen; simp_all
  | cons x xs ih =>
    simp only [List.mapM_cons]
    mvcgen [getVal, ih]
    all_goals simp_all
    all_goals (rename_i h _; exact ⟨List.mem_of_getElem? h, ‹_ ∧ _›.2⟩)


macro "vc_norm" : tactic =>
  `(tactic| (simp +zetaDelta only [Ext, WFc_iff, WFops_cons, regsLe_single, regsLe_cons, regsLe_nil, RVal.ids, AstOp.children,
      Val.ids, Elem.ids, Option.toList, List.mem_cons, List.not_mem_nil, List.mem_append, forall_eq_or_imp, forall_eq,
      or_false, false_or, and_true, true_and, implies_true, List.append_nil, Nat.le_refl, ValLe] at *))

theorem template_spec (ann : Ann) (s0 : St) :
    ⦃fun s => ⌜s = s0⌝⦄ template ann
    ⦃post⟨fun v s => ⌜Ext s0 s ∧ ValLe s.counter v⌝, fun _ s => ⌜Ext s0 s⌝⟩⦄ := by
  induction ann generalizing s0 with
  | scalar t =>
    mvcgen [template, mkLiteral, alloc, put, litIndex]
    all_goals (subst_vars; vc_norm; try grind)
  | array inner ih =>
    mvcgen [template, ih]
    all_goals (subst_vars; vc_norm; try grind)
  | bareArray =>
    mvcgen [template]
    all_goals (subst_vars; vc_norm; try grind)

theorem ids_withChild' (v : Val) (k : Id) : ∀ x ∈ Val.ids (v.withChild k), x = k ∨ x ∈ Val.ids v := by
  intro x hx
  cases v <;> simp_all [Val.withChild, Val.ids] <;> grind

theorem bindParams_spec (fid : Id) (params : List (String × Ann)) (s0 : St) :
    ⦃fun s => ⌜s = s0⌝⦄ bindParams fid params
    ⦃post⟨fun r s => ⌜Ext s0 s ∧ RegsLe s.counter r.2⌝, fun _ s => ⌜Ext s0 s⌝⟩⦄ := by
  induction params generalizing s0 with
  | nil => mvcgen [bindParams]; subst_vars; vc_norm; exact id
  | cons p ps ih =>
    obtain ⟨pname, ann⟩ := p
    mvcgen [bindParams, template_spec, alloc, put, liftE, ih]
    all_goals (subst_vars; vc_norm)
    all_goals (try have hw := ids_withChild' ‹Val› )
    all_goals grind


theorem scalarResult_spec (out : Out) (foldE : Option (Py.PyExpr × Base)) (l r : Option LitVal) (mkOp : MTy → AstOp)
    (s0 : St) (hmk : ∀ ty, ∀ c ∈ (mkOp ty).children, c ≤ s0.counter) :
    ⦃fun s => ⌜s = s0⌝⦄ scalarResult out foldE l r mkOp
    ⦃post⟨fun v s => ⌜Ext s0 s ∧ ValLe s.counter v⌝, fun _ s => ⌜Ext s0 s⌝⟩⦄ := by
  mvcgen [scalarResult, mkLiteral, alloc, put, litIndex] <;> (subst_vars; vc_norm; try grind)

theorem genAccessor_spec (member : Val) (k : Id) (mk : MTy → AstOp) (s0 : St)
    (hm : ∀ x ∈ Val.ids member, x ≤ s0.counter) (hk : k ≤ s0.counter) (hmk : ∀ ty, ∀ c ∈ (mk ty).children, c < k) :
    ⦃fun s => ⌜s = s0⌝⦄ genAccessor member k mk
    ⦃post⟨fun v s => ⌜Ext s0 s ∧ ValLe s.counter v⌝, fun _ s => ⌜Ext s0 s⌝⟩⦄ := by
  have hw := ids_withChild' member k
  mvcgen [genAccessor, put, liftE] <;> (subst_vars; vc_norm; try grind)


macro "vc_norm'" : tactic =>
  `(tactic| (simp +zetaDelta only [Ext, WFc_iff, WFops_cons, regsLe_single, regsLe_cons, regsLe_nil, RVal.ids, AstOp.children,
      Val.ids, Elem.ids, Vals.ids, VFields.ids, ids_ofList, ids_fieldsOfList, Option.toList, List.mem_cons, List.not_mem_nil,
      List.mem_append, forall_eq_or_imp, forall_eq,
      or_false, false_or, and_true, true_and, implies_true, List.append_nil, Nat.le_refl, ValLe] at *))

theorem getVal_spec' (regs : List RVal) (r : Reg) (s0 : St) :
    ⦃fun s => ⌜s = s0⌝⦄ getVal regs r
    ⦃post⟨fun v s => ⌜s = s0 ∧ regs[r]? = some (.val v)⌝, fun _ s => ⌜s = s0⌝⟩⦄ := by
  mvcgen [getVal] <;> simp_all
theorem liftE_spec' {α} (e : Except Err α) (s0 : St) :
    ⦃fun s => ⌜s = s0⌝⦄ liftE e ⦃post⟨fun a s => ⌜s = s0 ∧ e = .ok a⌝, fun _ s => ⌜s = s0⌝⟩⦄ := by
  mvcgen [liftE] <;> simp_all
theorem childOf_spec' (v : Val) (s0 : St) :
    ⦃fun s => ⌜s = s0⌝⦄ childOf v ⦃post⟨fun c s => ⌜s = s0 ∧ v.child = some c⌝, fun _ s => ⌜s = s0⌝⟩⦄ := by
  mvcgen [childOf] <;> simp_all

theorem nt_member_le {n : Nat} {regs : List RVal} (hr : RegsLe n regs) {a : Nat} {vs : Vals} {c : Option Id}
    (h : regs[a]? = some (.val (.ntuple vs c))) : ∀ m ∈ vs.toList, ∀ x ∈ Val.ids m, x ≤ n := by
  intro m hm x hx
  exact reg_ids_le hr h x (by simp only [Val.ids, List.mem_append]; exact .inr (mem_vals_ids vs m hm x hx))
theorem obj_member_le {n : Nat} {regs : List RVal} (hr : RegsLe n regs) {a : Nat} {fs : VFields} {c : Option Id}
    (h : regs[a]? = some (.val (.object fs c))) : ∀ p ∈ fs.toList, ∀ x ∈ Val.ids p.2, x ≤ n := by
  intro p hp x hx
  exact reg_ids_le hr h x (by simp only [Val.ids, List.mem_append]; exact .inr (mem_fields_ids fs p.1 p.2 hp x hx))

theorem reg_array_le {n : Nat} {regs : List RVal} (hr : RegsLe n regs) {a : Nat} {e : Elem} {sz : Option Int} {c : Id}
    (h : regs[a]? = some (.val (.array e sz (some c)))) : c ≤ n ∧ ∀ x ∈ Elem.ids e, x ≤ n :=
  ⟨reg_ids_le hr h c (by simp [Val.ids]), fun x hx => reg_ids_le hr h x (by simp [Val.ids, hx])⟩
theorem reg_ntuple_le {n : Nat} {regs : List RVal} (hr : RegsLe n regs) {a : Nat} {vs : Vals} {c : Id}
    (h : regs[a]? = some (.val (.ntuple vs (some c)))) : c ≤ n :=
  reg_ids_le hr h c (by simp [Val.ids])
theorem reg_object_le {n : Nat} {regs : List RVal} (hr : RegsLe n regs) {a : Nat} {fs : VFields} {c : Id}
    (h : regs[a]? = some (.val (.object fs (some c)))) : c ≤ n :=
  reg_ids_le hr h c (by simp [Val.ids])

theorem reg_ziparray_le {n : Nat} {regs : List RVal} (hr : RegsLe n regs) {a : Nat} {l r : Elem} {ch : Option Id}
    {sz : Option Int} {c : Id} (h : regs[a]? = some (.val (.array (.inst (.tuple l r ch)) sz (some c)))) :
    (∀ x ∈ Elem.ids l, x ≤ n) ∧ (∀ x ∈ Elem.ids r, x ≤ n) :=
  ⟨fun x hx => reg_ids_le hr h x (by simp [Val.ids, Elem.ids, hx]),
   fun x hx => reg_ids_le hr h x (by simp [Val.ids, Elem.ids, hx])⟩

section
variable (regs : List RVal) (frames : List Frame) (s0 : St) (hr : RegsLe s0.counter regs)
include hr

macro "exec_case" "[" ts:Lean.Parser.Tactic.simpLemma,* "]" : tactic =>
  `(tactic| (
    have hreg := @reg_ids_le _ regs hr
    have hreg1 := @reg_scalar_le _ regs hr
    have hreg2 := @reg_child_le _ regs hr
    have hreg4 := @reg_input_le _ regs hr
    have hmem := @mem_val_le _ regs hr
    have hnt := @nt_member_le _ regs hr
    have harr := @reg_array_le _ regs hr
    have hzip := @reg_ziparray_le _ regs hr
    have hnt2 := @reg_ntuple_le _ regs hr
    have hobj2 := @reg_object_le _ regs hr
    have hobj := @obj_member_le _ regs hr
    mvcgen [exec, alloc, put, litIndex, liftE, getVal, getScalar, childOf, mkLiteral, $ts,*] <;>
      (try subst_vars) <;> (try vc_norm') <;> (first | grind | grind [List.getElem_mem, List.mem_of_getElem?, List.mem_of_find?_eq_some, mem_vals_ids, mem_fields_ids, Val.child, Val.ids, Elem.ids] | (simp_all; done) | (simp_all; grind))))

macro "exec_case'" "[" ts:Lean.Parser.Tactic.simpLemma,* "]" : tactic =>
  `(tactic| (
    have hreg := @reg_ids_le _ regs hr
    have hreg1 := @reg_scalar_le _ regs hr
    have hreg2 := @reg_child_le _ regs hr
    have hreg4 := @reg_input_le _ regs hr
    have hmem := @mem_val_le _ regs hr
    mvcgen [exec, alloc, put, litIndex, liftE_spec', getVal_spec', childOf_spec', $ts,*] <;>
      (try subst_vars) <;> (try vc_norm') <;> (first | grind | grind [List.getElem_mem, List.mem_of_getElem?, List.mem_of_find?_eq_some, mem_vals_ids, mem_fields_ids, Val.child, Val.ids, Elem.ids] | (simp_all; done) | (simp_all; grind))))

abbrev Goal (c : Cmd) : Prop :=
  ⦃fun s => ⌜s = s0⌝⦄ exec regs frames c ⦃post⟨fun r s => ⌜Ext s0 s ∧ RegsLe s.counter r.1⌝, fun _ s => ⌜Ext s0 s⌝⟩⦄

theorem ex_arrayOf (r sz) : Goal regs frames s0 (.arrayOf r sz) := by
  exec_case [sizeRejected]
theorem ex_invert (a) : Goal regs frames s0 (.invert a) := by
  exec_case [scalarResult_spec]
theorem ex_reveal (a) : Goal regs frames s0 (.reveal a) := by
  exec_case [scalarResult_spec]
theorem ex_nop : Goal regs frames s0 .nop := by
  exec_case []
theorem ex_party (nm) : Goal regs frames s0 (.party nm) := by
  exec_case []
theorem ex_inputObj (a b p) : Goal regs frames s0 (.inputObj a b p) := by
  exec_case []
theorem ex_wrap (t r) : Goal regs frames s0 (.wrap t r) := by
  exec_case []
theorem ex_lit (b v) : Goal regs frames s0 (.lit b v) := by
  exec_case []
theorem ex_bin (op a b) : Goal regs frames s0 (.bin op a b) := by
  exec_case [scalarResult_spec]
theorem ex_truncPr (a b) : Goal regs frames s0 (.truncPr a b) := by
  exec_case [scalarResult_spec]
theorem ex_publicEquals (a b) : Goal regs frames s0 (.publicEquals a b) := by
  exec_case [scalarResult_spec]
theorem ex_ifElse (c a b) : Goal regs frames s0 (.ifElse c a b) := by
  exec_case [scalarResult_spec]
theorem ex_random (t) : Goal regs frames s0 (.random t) := by
  exec_case [scalarResult_spec]
theorem ex_radd (k a) : Goal regs frames s0 (.radd k a) := by
  exec_case [scalarResult_spec]
theorem ex_arrayNew (xs) : Goal regs frames s0 (.arrayNew xs) := by
  exec_case' [mapM_getVal_spec, childIds_spec, mapM_toMir_spec]
theorem ex_tupleNew (a b) : Goal regs frames s0 (.tupleNew a b) := by
  exec_case' [childIds_spec]
theorem ex_ntupleNew (xs) : Goal regs frames s0 (.ntupleNew xs) := by
  exec_case' [mapM_getVal_spec, childIds_spec]
theorem ex_objectNew (fs) : Goal regs frames s0 (.objectNew fs) := by
  exec_case' [mapM_fields_spec, childIds_spec]
theorem ex_ntupleGet (t i) : Goal regs frames s0 (.ntupleGet t i) := by
  exec_case [genAccessor_spec]
theorem ex_objectGet (o key) : Goal regs frames s0 (.objectGet o key) := by
  exec_case [genAccessor_spec]
theorem ex_zip (a b) : Goal regs frames s0 (.zip a b) := by
  exec_case []
theorem ex_unzip (a) : Goal regs frames s0 (.unzip a) := by
  exec_case []
theorem ex_map (a f) : Goal regs frames s0 (.map a f) := by
  exec_case []
theorem ex_reduce (a f init) : Goal regs frames s0 (.reduce a f init) := by
  exec_case []
theorem ex_innerProduct (a b) : Goal regs frames s0 (.innerProduct a b) := by
  exec_case []
theorem ex_beginFn (name params) : Goal regs frames s0 (.beginFn name params) := by
  exec_case [bindParams_spec]
theorem ex_endFn (ret retAnn) : Goal regs frames s0 (.endFn ret retAnn) := by
  exec_case []
theorem ex_call (f args kws) : Goal regs frames s0 (.call f args kws) := by
  exec_case' [mapM_getVal_spec, childIds_spec]
end


/-- **Every command**, accepted or rejected, keeps the store well formed, never decreases the counter, and binds
only values whose operation ids exist (are at most the counter). -/
theorem exec_spec (regs : List RVal) (frames : List Frame) (c : Cmd) (s0 : St) (hr : RegsLe s0.counter regs) :
    ⦃fun s => ⌜s = s0⌝⦄ exec regs frames c
    ⦃post⟨fun r s => ⌜Ext s0 s ∧ RegsLe s.counter r.1⌝, fun _ s => ⌜Ext s0 s⌝⟩⦄ := by
  cases c with
  | party nm => exact ex_party regs frames s0 hr nm
  | inputObj a b p => exact ex_inputObj regs frames s0 hr a b p
  | wrap t r => exact ex_wrap regs frames s0 hr t r
  | arrayOf r sz => exact ex_arrayOf regs frames s0 hr r sz
  | lit b v => exact ex_lit regs frames s0 hr b v
  | bin op a b => exact ex_bin regs frames s0 hr op a b
  | invert a => exact ex_invert regs frames s0 hr a
  | reveal a => exact ex_reveal regs frames s0 hr a
  | truncPr a b => exact ex_truncPr regs frames s0 hr a b
  | publicEquals a b => exact ex_publicEquals regs frames s0 hr a b
  | ifElse c a b => exact ex_ifElse regs frames s0 hr c a b
  | random t => exact ex_random regs frames s0 hr t
  | radd k a => exact ex_radd regs frames s0 hr k a
  | arrayNew xs => exact ex_arrayNew regs frames s0 hr xs
  | tupleNew a b => exact ex_tupleNew regs frames s0 hr a b
  | ntupleNew xs => exact ex_ntupleNew regs frames s0 hr xs
  | objectNew fs => exact ex_objectNew regs frames s0 hr fs
  | ntupleGet t i => exact ex_ntupleGet regs frames s0 hr t i
  | objectGet o key => exact ex_objectGet regs frames s0 hr o key
  | zip a b => exact ex_zip regs frames s0 hr a b
  | unzip a => exact ex_unzip regs frames s0 hr a
  | map a f => exact ex_map regs frames s0 hr a f
  | reduce a f init => exact ex_reduce regs frames s0 hr a f init
  | innerProduct a b => exact ex_innerProduct regs frames s0 hr a b
  | beginFn name params => exact ex_beginFn regs frames s0 hr name params
  | endFn ret retAnn => exact ex_endFn regs frames s0 hr ret retAnn
  | call f args kws => exact ex_call regs frames s0 hr f args kws
  | nop => exact ex_nop regs frames s0 hr

/-- from a Hoare triple to the run of the state/exception monad -/
theorem triple_run {α} (m : M α) (s0 : St) (Q : α → St → Prop) (E : St → Prop)
    (h : ⦃fun s => ⌜s = s0⌝⦄ m ⦃post⟨fun a s => ⌜Q a s⌝, fun _ s => ⌜E s⌝⟩⦄) :
    match m.run.run s0 with
    | (.ok a, s') => Q a s'
    | (.error _, s') => E s' := by
  have := h s0 rfl
  simp only [WP.wp, PredTrans.apply, PredTrans.pushExcept, PredTrans.pushArg, PredTrans.pure, pure, Id.run, StateT.run] at this
  generalize hr : ExceptT.run m s0 = r at this ⊢
  obtain ⟨e, s'⟩ := r
  simp only [StateT.run, hr]
  cases e <;> simpa using this

/-- the machine invariant: well-formed store, registers bounded by the counter -/
def MachOK (m : Mach) : Prop := WFops m.st.ops ∧ RegsLe m.st.counter m.regs

theorem regsLe_replicate_dead (n k : Nat) : RegsLe n (List.replicate k .dead) := by
  intro r hr x hx
  have := List.eq_of_mem_replicate hr
  subst this
  simp [RVal.ids] at hx

theorem step_ok (m : Mach) (c : Cmd) (h : MachOK m) : MachOK (step m c).1 := by
  obtain ⟨hw, hr⟩ := h
  have hx := triple_run _ m.st _ _ (exec_spec m.regs m.frames c m.st hr)
  unfold step
  generalize hrun : (exec m.regs m.frames c).run.run m.st = r at hx ⊢
  obtain ⟨e, s'⟩ := r
  cases e with
  | ok v =>
    obtain ⟨vals, frames'⟩ := v
    simp only at hx ⊢
    exact ⟨hx.1.2 hw, RegsLe.append (hr.mono hx.1.1) hx.2⟩
  | error err =>
    simp only at hx ⊢
    exact ⟨hx.2 hw, RegsLe.append (hr.mono hx.1) (regsLe_replicate_dead _ _)⟩

theorem runCmds_ok (cs : List Cmd) : ∀ (m : Mach), MachOK m → MachOK (runCmds m cs).1 := by
  induction cs with
  | nil => intro m h; exact h
  | cons c cs ih =>
    intro m h
    simp only [runCmds]
    exact ih _ (step_ok m c h)

/-- **Whatever program is traced — any command list, any mixture of accepted and rejected commands, aborted
function bodies included — the store it leaves has every operand id smaller than the id of the operation that
mentions it** (the hypothesis of `C01.compile_acyclic`). -/
theorem trace_storeWF (cs : List Cmd) : storeWF (runCmds {} cs).1.st = true := by
  have h := runCmds_ok cs {} ⟨by simp [WFops], by simp [RegsLe]⟩
  exact (storeWF_iff _).2 h.1

end NadaVerif.Lemmas
