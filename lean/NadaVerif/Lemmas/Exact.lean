/-
Exactness of the traversal (C09): every entry that `traverse` adds is reachable, through operand
references of the store, from the ids that were on the stack — nothing dead is filed.
-/
import NadaVerif.Lemmas.CompileClosed

namespace NadaVerif.Lemmas
open NadaVerif NadaVerif.Spec

/-- `k` is reachable from `roots` by following operand references of store records -/
inductive Reach (st : St) (roots : List Id) : Id → Prop where
  | root {k} : k ∈ roots → Reach st roots k
  | step {k c op} : Reach st roots k → st.lookup k = some op → c ∈ op.children → Reach st roots c

theorem Reach.mono {st : St} {r1 r2 : List Id} (h : ∀ k ∈ r1, Reach st r2 k) {k : Id} (hk : Reach st r1 k) :
    Reach st r2 k := by
  induction hk with
  | root hm => exact h _ hm
  | step _ hl hc ih => exact .step ih hl hc

theorem traverse_reach (st : St) (functions : Table) (roots : List Id) :
    ∀ (fuel : Nat) (stack : List Id) (table extra : Table) (acc : CAcc) (table' extra' : Table) (acc' : CAcc),
    traverse st functions fuel stack table extra acc = .ok (table', extra', acc') →
    (∀ k ∈ stack, Reach st roots k) → (∀ e ∈ table, Reach st roots e.1) →
    ∀ e ∈ table', Reach st roots e.1 := by
  intro fuel
  induction fuel with
  | zero =>
    intro stack table extra acc table' extra' acc' h hs ht
    cases stack with
    | nil => simp [traverse] at h; obtain ⟨rfl, _, _⟩ := h; exact ht
    | cons k s => simp [traverse] at h
  | succ fuel ih =>
    intro stack table extra acc table' extra' acc' h hs ht
    cases stack with
    | nil => simp [traverse] at h; obtain ⟨rfl, _, _⟩ := h; exact ht
    | cons k s =>
      simp only [traverse] at h
      split at h
      · exact ih s table extra acc _ _ _ h (fun k' hk' => hs k' (List.mem_cons_of_mem _ hk')) ht
      · split at h
        · simp at h
        · rename_i op hop
          split at h
          · simp at h
          · have hk : Reach st roots k := hs k (by simp)
            apply ih _ _ _ _ _ _ _ h
            · intro c hc
              rcases List.mem_append.1 hc with hc | hc
              · exact .step hk hop (List.mem_reverse.1 hc)
              · exact hs c (List.mem_cons_of_mem _ hc)
            · intro e he
              rcases List.mem_append.1 he with he | he
              · exact ht e he
              · simp at he; subst he; exact hk

/-- The program table holds only operations reachable from the outputs. -/
theorem compileOutputs_reach (st : St) (roots : List Id) :
    ∀ (outs : List OutDecl) (table functions : Table) (mouts : List MirOutput) (acc : CAcc)
      (table' functions' : Table) (mouts' : List MirOutput) (acc' : CAcc),
    compileOutputs st outs table functions mouts acc = .ok (table', functions', mouts', acc') →
    (∀ o ∈ outs, o.root ∈ roots) → (∀ e ∈ table, Reach st roots e.1) →
    ∀ e ∈ table', Reach st roots e.1 := by
  intro outs
  induction outs with
  | nil =>
    intro table functions mouts acc table' functions' mouts' acc' h _ ht
    simp [compileOutputs] at h
    obtain ⟨rfl, _, _, _⟩ := h
    exact ht
  | cons o os ih =>
    intro table functions mouts acc table' functions' mouts' acc' h hr ht
    simp only [compileOutputs] at h
    split at h
    · simp at h
    · rename_i t1 ex1 acc1 htr
      split at h
      · simp at h
      · have h1 := traverse_reach st functions roots _ _ _ _ _ _ _ _ htr
          (by intro k hk; simp at hk; subst hk; exact .root (hr o (by simp))) ht
        exact ih _ _ _ _ _ _ _ _ h (fun o' ho' => hr o' (List.mem_cons_of_mem _ ho')) h1

theorem emitFunctions_reach (st : St) :
    ∀ (fuel : Nat) (stack functions : Table) (out : List MirFn) (acc : CAcc) (out' : List MirFn) (acc' : CAcc),
    emitFunctions st fuel stack functions out acc = .ok (out', acc') →
    (∀ f ∈ out, ∀ e ∈ f.ops, Reach st [f.returnOp] e.1) →
    ∀ f ∈ out', ∀ e ∈ f.ops, Reach st [f.returnOp] e.1 := by
  intro fuel
  induction fuel with
  | zero =>
    intro stack functions out acc out' acc' h hg
    cases stack with
    | nil => simp [emitFunctions] at h; obtain ⟨rfl, _⟩ := h; exact hg
    | cons x xs => simp [emitFunctions] at h
  | succ fuel ih =>
    intro stack functions out acc out' acc' h hg
    cases stack with
    | nil => simp [emitFunctions] at h; obtain ⟨rfl, _⟩ := h; exact hg
    | cons x xs =>
      obtain ⟨k, f⟩ := x
      simp only [emitFunctions] at h
      split at h
      · rename_i name args child ty
        split at h
        · simp at h
        · rename_i t1 ex1 acc1 htr
          split at h
          · simp at h
          · rename_i mf hmf
            have hr := traverse_reach st functions [child] _ _ _ _ _ _ _ _ htr
              (by intro k hk; exact .root hk) (by intro e he; simp at he)
            have hmf' : mf.ops = t1 ∧ mf.returnOp = child := by
              simp only [fnToMir, bind, Except.bind] at hmf
              split at hmf
              · simp at hmf
              · simp at hmf; subst hmf; exact ⟨rfl, rfl⟩
            apply ih _ _ _ _ _ _ h
            intro g hgm
            rcases List.mem_append.1 hgm with hgm | hgm
            · exact hg g hgm
            · simp at hgm; subst hgm
              rw [hmf'.1, hmf'.2]; exact hr
      all_goals simp at h

/-- **No dead operation**: in every MIR the compile model emits, each entry of the program table is
reachable from an output and each entry of a function table from the function's return operation. -/
theorem compile_no_dead_ops (st : St) (outs : List OutDecl) (m : MirProg) (h : compile st outs = .ok m) :
    (∀ e ∈ m.operations, Reach st (outs.map (·.root)) e.1) ∧
    (∀ f ∈ m.functions, ∀ e ∈ f.ops, Reach st [f.returnOp] e.1) := by
  simp only [compile, bind, Except.bind] at h
  split at h
  · simp at h
  · rename_i r hco
    obtain ⟨table, functions, mouts, acc⟩ := r
    simp only at h
    split at h
    · simp at h
    · rename_i r2 hef
      obtain ⟨fns, acc2⟩ := r2
      injection h with h
      subst h
      refine ⟨?_, ?_⟩
      · exact compileOutputs_reach st _ outs [] [] [] {} _ _ _ _ hco
          (fun o ho => List.mem_map.2 ⟨o, ho, rfl⟩) (by simp)
      · exact emitFunctions_reach st _ _ _ _ _ _ _ hef (by simp)

end NadaVerif.Lemmas
