/-
Input and literal lists of the emitted MIR (C01, C09, C10) — for every store and every output list.

Through `process_operation` / `add_input_to_map` (the accumulators `INPUTS`, `LITERALS`), `traverse`,
`compileOutputs`, `emitFunctions`:

* every input entry of the MIR is the store's record of its id (name, party, type, doc as traced);
* no input name is listed twice (the duplicate test rejects a second, different input of that name,
  whatever parties own the two; the same input reached twice is listed once);
* every `InputReference` filed in the program table or in a function table has its entry:
  hence it resolves to **exactly one** entry — `compile_input_refs_resolve`;
* the same for literal references and the literal list (by name) — `compile_literal_refs_resolve`.
-/
import NadaVerif.Lemmas.FnExact

namespace NadaVerif.Lemmas
open NadaVerif NadaVerif.Spec

theorem count_eq_one_of_nodup' {x : String} {l : List String} (hn : l.Nodup) (hm : x ∈ l) : count x l = 1 := by
  induction l with
  | nil => simp at hm
  | cons y ys ih =>
    simp only [List.nodup_cons] at hn
    simp only [count, List.filter_cons]
    by_cases hxy : y = x
    · subst hxy
      have : ys.filter (· = y) = [] := by
        simp only [List.filter_eq_nil_iff, decide_eq_true_eq]
        intro a ha hay; subst hay; exact hn.1 ha
      simp [this]
    · have hm' : x ∈ ys := by
        rcases List.mem_cons.1 hm with h | h
        · exact absurd h.symm hxy
        · exact h
      simp only [hxy, decide_false, Bool.false_eq_true, if_false]
      exact ih hn.2 hm'

abbrev Buckets := List (String × List MirInput)

def accIns (xs : Buckets) : List MirInput := xs.flatMap (·.2)

/-- the input entry is the store's record of its id -/
def IsRec (st : St) (i : MirInput) : Prop := st.lookup i.id = some (.input i.name i.party i.doc i.ty)

theorem isRec_eq {st : St} {i j : MirInput} (hi : IsRec st i) (hj : IsRec st j) (h : i.id = j.id) : i = j := by
  unfold IsRec at hi hj
  rw [h] at hi
  rw [hi] at hj
  injection hj with hj
  injection hj with h1 h2 h3 h4
  cases i; cases j; simp_all

def SortedKeys (xs : Buckets) : Prop := (xs.map (·.1)).Pairwise (· < ·)

theorem SortedKeys.nodup {xs : Buckets} (h : SortedKeys xs) : (xs.map (·.1)).Nodup := by
  unfold SortedKeys at h
  exact h.imp (fun hab heq => by subst heq; exact String.lt_irrefl _ hab)

/-! ### `insertParty` -/

theorem accIns_insertParty (p : String) (xs : Buckets) : accIns (insertParty p xs) = accIns xs := by
  induction xs with
  | nil => simp [insertParty, accIns]
  | cons x rest ih =>
    obtain ⟨q, is⟩ := x
    simp only [insertParty]
    split
    · rfl
    · split
      · simp [accIns]
      · simp only [accIns, List.flatMap_cons] at ih ⊢
        rw [ih]

theorem keys_insertParty (p : String) (xs : Buckets) :
    ∀ q, q ∈ (insertParty p xs).map (·.1) ↔ (q = p ∨ q ∈ xs.map (·.1)) := by
  induction xs with
  | nil => intro q; simp [insertParty]
  | cons x rest ih =>
    obtain ⟨r, is⟩ := x
    intro q
    simp only [insertParty]
    split
    · rename_i h; subst h; simp
    · split
      · simp
      · simp only [List.map_cons, List.mem_cons, ih q]
        constructor
        · rintro (h | h | h) <;> simp [h]
        · rintro (h | h | h) <;> simp [h]

theorem sorted_insertParty (p : String) (xs : Buckets) (h : SortedKeys xs) : SortedKeys (insertParty p xs) := by
  induction xs with
  | nil => simp [insertParty, SortedKeys]
  | cons x rest ih =>
    obtain ⟨r, is⟩ := x
    simp only [insertParty]
    unfold SortedKeys at h ih ⊢
    simp only [List.map_cons, List.pairwise_cons] at h
    split
    · simpa using h
    · rename_i hne
      split
      · rename_i hlt
        simp only [List.map_cons, List.pairwise_cons, List.mem_cons]
        refine ⟨?_, h⟩
        rintro a (rfl | ha)
        · exact hlt
        · exact String.lt_trans hlt (h.1 a ha)
      · rename_i hnlt
        simp only [List.map_cons, List.pairwise_cons]
        refine ⟨?_, ih h.2⟩
        intro a ha
        rcases (keys_insertParty p rest a).1 ha with rfl | ha
        · -- r < a: neither a = r nor a < r
          apply Decidable.byContradiction
          intro hc
          exact hne (String.le_antisymm (String.not_lt.1 hc) (String.not_lt.1 hnlt))
        · exact h.1 a ha

theorem bucketParty_insertParty (p : String) (xs : Buckets) (h : ∀ b ∈ xs, ∀ i ∈ b.2, i.party = b.1) :
    ∀ b ∈ insertParty p xs, ∀ i ∈ b.2, i.party = b.1 := by
  induction xs with
  | nil => intro b hb; simp [insertParty] at hb; subst hb; simp
  | cons x rest ih =>
    obtain ⟨r, is⟩ := x
    simp only [insertParty]
    split
    · exact h
    · split
      · intro b hb
        rcases List.mem_cons.1 hb with rfl | hb
        · simp
        · exact h b hb
      · intro b hb
        rcases List.mem_cons.1 hb with rfl | hb
        · exact h _ (by simp)
        · exact ih (fun b hb => h b (List.mem_cons_of_mem _ hb)) b hb

/-! ### `upsertInput` and the bucket update of `addInput` -/

theorem upsertInput_new (i : MirInput) (is : List MirInput) (h : ∀ j ∈ is, j.name ≠ i.name) :
    upsertInput i is = is ++ [i] := by
  induction is with
  | nil => rfl
  | cons j js ih =>
    simp only [upsertInput]
    have hj : j.name ≠ i.name := h j (by simp)
    simp only [hj, if_false]
    rw [ih (fun k hk => h k (List.mem_cons_of_mem _ hk))]
    rfl

theorem upsertInput_same (i : MirInput) (is : List MirInput) (hm : i ∈ is)
    (hn : ∀ j ∈ is, j.name = i.name → j = i) : upsertInput i is = is := by
  induction is with
  | nil => simp at hm
  | cons j js ih =>
    simp only [upsertInput]
    by_cases hj : j.name = i.name
    · have := hn j (by simp) hj
      subst this
      simp
    · simp only [hj, if_false]
      rcases List.mem_cons.1 hm with rfl | hm'
      · exact absurd rfl hj
      · rw [ih hm' (fun k hk => hn k (List.mem_cons_of_mem _ hk))]

def updBucket (i : MirInput) (xs : Buckets) : Buckets :=
  xs.map (fun x => if x.1 = i.party then (x.1, upsertInput i x.2) else (x.1, x.2))

theorem updBucket_notin (i : MirInput) (xs : Buckets) (h : i.party ∉ xs.map (·.1)) : updBucket i xs = xs := by
  induction xs with
  | nil => rfl
  | cons x rest ih =>
    obtain ⟨q, is⟩ := x
    simp only [List.map_cons, List.mem_cons, not_or] at h
    simp only [updBucket, List.map_cons]
    have hq : ¬ q = i.party := fun e => h.1 e.symm
    simp only [hq, if_false]
    have := ih h.2
    simp only [updBucket] at this
    rw [this]

theorem updBucket_keys (i : MirInput) (xs : Buckets) : (updBucket i xs).map (·.1) = xs.map (·.1) := by
  induction xs with
  | nil => rfl
  | cons x rest ih =>
    obtain ⟨q, is⟩ := x
    simp only [updBucket, List.map_cons] at ih ⊢
    rw [ih]
    split <;> rfl

/-- a new name: the entry is appended to its party's bucket — up to order, the list grows by `i` -/
theorem updBucket_new (i : MirInput) (xs : Buckets) (hk : i.party ∈ xs.map (·.1)) (hs : (xs.map (·.1)).Nodup)
    (hn : ∀ j ∈ accIns xs, j.name ≠ i.name) : (accIns (updBucket i xs)).Perm (accIns xs ++ [i]) := by
  induction xs with
  | nil => simp at hk
  | cons x rest ih =>
    obtain ⟨q, is⟩ := x
    simp only [List.map_cons, List.nodup_cons] at hs
    simp only [updBucket, List.map_cons, accIns, List.flatMap_cons]
    by_cases hq : q = i.party
    · subst hq
      have hrest : updBucket i rest = rest := updBucket_notin i rest hs.1
      simp only [updBucket] at hrest
      simp only [if_true, hrest]
      rw [upsertInput_new i is (fun j hj => hn j (by simp [accIns, hj]))]
      simp only [List.append_assoc]
      exact List.Perm.append_left _ List.perm_append_comm
    · simp only [hq, if_false]
      have hk' : i.party ∈ rest.map (·.1) := by
        simp only [List.map_cons, List.mem_cons] at hk
        rcases hk with h | h
        · exact absurd h.symm hq
        · exact h
      have := ih hk' hs.2 (fun j hj => hn j (by simp only [accIns, List.flatMap_cons, List.mem_append]; exact .inr hj))
      simp only [updBucket, accIns] at this
      simp only [List.append_assoc]
      exact List.Perm.append_left _ this

theorem mem_accIns {xs : Buckets} {i : MirInput} : i ∈ accIns xs ↔ ∃ b ∈ xs, i ∈ b.2 := by
  simp [accIns, List.mem_flatMap]

/-- the same input again: nothing changes -/
theorem updBucket_same (i : MirInput) (xs : Buckets) (hs : (xs.map (·.1)).Nodup) (hm : i ∈ accIns xs)
    (hb : ∀ b ∈ xs, ∀ j ∈ b.2, j.party = b.1) (hn : ∀ j ∈ accIns xs, j.name = i.name → j = i) :
    updBucket i xs = xs := by
  induction xs with
  | nil => rfl
  | cons x rest ih =>
    obtain ⟨q, is⟩ := x
    simp only [List.map_cons, List.nodup_cons] at hs
    have his : ∀ j ∈ is, j.name = i.name → j = i :=
      fun j hj => hn j (mem_accIns.2 ⟨(q, is), by simp, hj⟩)
    have hrestn : ∀ j ∈ accIns rest, j.name = i.name → j = i := by
      intro j hj
      obtain ⟨b, hb1, hb2⟩ := mem_accIns.1 hj
      exact hn j (mem_accIns.2 ⟨b, List.mem_cons_of_mem _ hb1, hb2⟩)
    have hb' : ∀ b ∈ rest, ∀ j ∈ b.2, j.party = b.1 := fun b h => hb b (List.mem_cons_of_mem _ h)
    obtain ⟨b, hb1, hb2⟩ := mem_accIns.1 hm
    by_cases hq : q = i.party
    · -- i's bucket is the head; the tail has no bucket of that party
      have hnot : i.party ∉ rest.map (·.1) := hq ▸ hs.1
      have hrest := updBucket_notin i rest hnot
      have hin : i ∈ is := by
        rcases List.mem_cons.1 hb1 with rfl | hb1
        · exact hb2
        · exfalso
          have := hb' b hb1 i hb2
          exact hnot (List.mem_map.2 ⟨b, hb1, this.symm⟩)
      simp only [updBucket, List.map_cons] at hrest ⊢
      rw [hrest]
      simp only [hq, if_true]
      rw [upsertInput_same i is hin his]
    · have hin : i ∈ accIns rest := by
        rcases List.mem_cons.1 hb1 with rfl | hb1
        · exact absurd (hb _ (by simp) i hb2).symm hq
        · exact mem_accIns.2 ⟨b, hb1, hb2⟩
      have := ih hs.2 hin hb' hrestn
      simp only [updBucket, List.map_cons] at this ⊢
      rw [this]
      simp [hq]

/-! ### the accumulator invariant -/

structure AI (st : St) (xs : Buckets) : Prop where
  sorted : SortedKeys xs
  party : ∀ b ∈ xs, ∀ i ∈ b.2, i.party = b.1
  names : ((accIns xs).map (·.name)).Nodup
  recs : ∀ i ∈ accIns xs, IsRec st i

theorem AI.nil (st : St) : AI st [] :=
  ⟨by simp [SortedKeys], by simp, by simp [accIns], by simp [accIns]⟩

theorem nodup_names_unique {l : List MirInput} (h : (l.map (·.name)).Nodup) {a b : MirInput}
    (ha : a ∈ l) (hb : b ∈ l) (hn : a.name = b.name) : a = b := by
  induction l with
  | nil => simp at ha
  | cons x xs ih =>
    simp only [List.map_cons, List.nodup_cons, List.mem_map, not_exists, not_and] at h
    rcases List.mem_cons.1 ha with rfl | ha' <;> rcases List.mem_cons.1 hb with rfl | hb'
    · rfl
    · exact absurd hn.symm (h.1 b hb')
    · exact absurd hn (h.1 a ha')
    · exact ih h.2 ha' hb'

/-- `add_input_to_map`: the invariant is kept, the input is listed afterwards, nothing listed is lost -/
theorem addInput_AI (st : St) (acc acc' : CAcc) (i : MirInput) (hi : IsRec st i) (h : addInput acc i = .ok acc')
    (inv : AI st acc.inputs) :
    AI st acc'.inputs ∧ i ∈ accIns acc'.inputs ∧ (∀ j ∈ accIns acc.inputs, j ∈ accIns acc'.inputs) ∧
    acc'.literals = acc.literals := by
  simp only [addInput] at h
  split at h
  · simp at h
  · rename_i hdup
    simp at h
    subst h
    -- the buckets after making sure the party has one
    have inv0 : AI st (insertParty i.party acc.inputs) :=
      ⟨sorted_insertParty _ _ inv.sorted, bucketParty_insertParty _ _ inv.party,
       by rw [accIns_insertParty]; exact inv.names, by rw [accIns_insertParty]; exact inv.recs⟩
    have hkey : i.party ∈ (insertParty i.party acc.inputs).map (·.1) := (keys_insertParty _ _ _).2 (.inl rfl)
    -- no *different* input of that name anywhere
    have hno : ∀ j ∈ accIns (insertParty i.party acc.inputs), j.name = i.name → j.id = i.id := by
      intro j hj hname
      obtain ⟨b, hb1, hb2⟩ := mem_accIns.1 hj
      simp only [List.any_eq_true, not_exists, not_and, Bool.not_eq_true, decide_eq_true_eq] at hdup
      have := hdup b hb1
      simp only [List.any_eq_false, decide_eq_true_eq, not_and, Decidable.not_not] at this
      exact this j hb2 hname
    show AI st (updBucket i (insertParty i.party acc.inputs)) ∧ i ∈ accIns (updBucket i (insertParty i.party acc.inputs)) ∧
      (∀ j ∈ accIns acc.inputs, j ∈ accIns (updBucket i (insertParty i.party acc.inputs))) ∧ acc.literals = acc.literals
    by_cases hex : ∃ j ∈ accIns (insertParty i.party acc.inputs), j.name = i.name
    · -- the same input reached again
      obtain ⟨j, hj, hname⟩ := hex
      have hji : j = i := isRec_eq (inv0.recs j hj) hi (hno j hj hname)
      subst hji
      have hsame := updBucket_same j _ inv0.sorted.nodup hj inv0.party
        (fun k hk hkn => nodup_names_unique inv0.names hk hj hkn)
      rw [hsame]
      refine ⟨inv0, hj, ?_, rfl⟩
      intro k hk; rw [accIns_insertParty]; exact hk
    · -- a new name
      have hnew : ∀ j ∈ accIns (insertParty i.party acc.inputs), j.name ≠ i.name :=
        fun j hj hn => hex ⟨j, hj, hn⟩
      have hperm := updBucket_new i _ hkey inv0.sorted.nodup hnew
      refine ⟨⟨?_, ?_, ?_, ?_⟩, ?_, ?_, rfl⟩
      · unfold SortedKeys; rw [updBucket_keys]; exact inv0.sorted
      · -- bucket parties
        intro b hb k hk
        simp only [updBucket, List.mem_map] at hb
        obtain ⟨b0, hb0, rfl⟩ := hb
        obtain ⟨q, is⟩ := b0
        by_cases hq : q = i.party
        · simp only [hq, if_true] at hk ⊢
          rw [upsertInput_new i is (fun j hj => hnew j (mem_accIns.2 ⟨_, hb0, hj⟩))] at hk
          rcases List.mem_append.1 hk with hk | hk
          · exact hq ▸ inv0.party _ hb0 k hk
          · simp at hk; subst hk; rfl
        · simp only [hq, if_false] at hk ⊢
          exact inv0.party _ hb0 k hk
      · have := (hperm.map (·.name)).nodup_iff.2
        apply this
        simp only [List.map_append, List.map_cons, List.map_nil]
        refine List.nodup_append.2 ⟨inv0.names, by simp, ?_⟩
        intro a ha b hb hab
        simp at hb; subst hb
        obtain ⟨j, hj, hjn⟩ := List.mem_map.1 ha
        exact hnew j hj (hjn.trans hab)
      · intro k hk
        have := hperm.mem_iff.1 hk
        rcases List.mem_append.1 this with h1 | h1
        · exact inv0.recs k h1
        · simp at h1; subst h1; exact hi
      · exact hperm.mem_iff.2 (by simp)
      · intro k hk
        exact hperm.mem_iff.2 (List.mem_append_left _ (by rw [accIns_insertParty]; exact hk))

/-! ### literals -/

theorem names_upsertLiteral (l : MirLiteral) (ls : List MirLiteral) :
    (upsertLiteral l ls).map (·.name) =
      if l.name ∈ ls.map (·.name) then ls.map (·.name) else ls.map (·.name) ++ [l.name] := by
  induction ls with
  | nil => simp [upsertLiteral]
  | cons m ms ih =>
    simp only [upsertLiteral]
    by_cases hm : m.name = l.name
    · simp [hm]
    · simp only [hm, if_false, List.map_cons, List.mem_cons]
      rw [ih]
      have : ¬ l.name = m.name := fun h => hm h.symm
      by_cases hin : l.name ∈ ms.map (·.name) <;> simp [hin, this]

/-! ### one operation, the traversal, the outputs, the functions -/

def InCov (t : Table) (xs : Buckets) : Prop :=
  ∀ e ∈ t, ∀ n p d ty, e.2 = .input n p d ty → (⟨n, ty, p, d, e.1⟩ : MirInput) ∈ accIns xs

def LitCov (t : Table) (ls : List MirLiteral) : Prop :=
  ∀ e ∈ t, ∀ v i ty, e.2 = .literal v i ty → toString i ∈ ls.map (·.name)

/-- the state of the two accumulators that the lemmas carry -/
structure AccOK (st : St) (acc : CAcc) : Prop where
  ai : AI st acc.inputs
  lits : (acc.literals.map (·.name)).Nodup

def AccLe (a b : CAcc) : Prop :=
  (∀ j ∈ accIns a.inputs, j ∈ accIns b.inputs) ∧ (∀ n ∈ a.literals.map (·.name), n ∈ b.literals.map (·.name))

theorem AccLe.refl (a : CAcc) : AccLe a a := ⟨fun _ h => h, fun _ h => h⟩
theorem AccLe.trans {a b c : CAcc} (h1 : AccLe a b) (h2 : AccLe b c) : AccLe a c :=
  ⟨fun j hj => h2.1 j (h1.1 j hj), fun n hn => h2.2 n (h1.2 n hn)⟩

theorem InCov.mono {t : Table} {a b : CAcc} (h : InCov t a.inputs) (hab : AccLe a b) : InCov t b.inputs :=
  fun e he n p d ty heq => hab.1 _ (h e he n p d ty heq)
theorem LitCov.mono {t : Table} {a b : CAcc} (h : LitCov t a.literals) (hab : AccLe a b) : LitCov t b.literals :=
  fun e he v i ty heq => hab.2 _ (h e he v i ty heq)

theorem processOp_acc (st : St) (k : Id) (op : AstOp) (functions : Table) (acc acc' : CAcc) (ex : Option (Id × AstOp))
    (hop : st.lookup k = some op) (h : processOp st k op functions acc = .ok (acc', ex)) (ok : AccOK st acc) :
    AccOK st acc' ∧ AccLe acc acc' ∧ InCov [(k, op)] acc'.inputs ∧ LitCov [(k, op)] acc'.literals := by
  cases op <;> simp only [processOp] at h
  case input name party doc ty =>
    simp only [bind, Except.bind] at h
    split at h
    · simp at h
    · rename_i acc1 hadd
      simp at h; obtain ⟨rfl, _⟩ := h
      obtain ⟨a, b, c, d⟩ := addInput_AI st acc acc1 ⟨name, ty, party, doc, k⟩ (by simpa [IsRec] using hop) hadd ok.ai
      refine ⟨⟨a, by rw [d]; exact ok.lits⟩, ⟨c, by rw [d]; exact fun _ h => h⟩, ?_, ?_⟩
      · intro e he n p dd t heq
        simp at he; subst he
        simp at heq
        obtain ⟨rfl, rfl, rfl, rfl⟩ := heq
        exact b
      · intro e he v i t heq; simp at he; subst he; simp at heq
  case literal v i ty =>
    simp at h; obtain ⟨rfl, _⟩ := h
    have hn := names_upsertLiteral { name := i.repr, value := v, ty := ty } acc.literals
    refine ⟨⟨ok.ai, ?_⟩, ⟨fun _ h => h, ?_⟩, ?_, ?_⟩
    · simp only; rw [hn]; split
      · exact ok.lits
      · rename_i hm
        exact List.nodup_append.2 ⟨ok.lits, by simp, by
          intro a ha b hb; simp at hb; subst hb; intro hab; subst hab; exact hm ha⟩
    · intro n hnm; simp only; rw [hn]; split
      · exact hnm
      · exact List.mem_append_left _ hnm
    · intro e he n p dd t heq; simp at he; subst he; simp at heq
    · intro e he v' i' t heq
      simp at he; subst he
      simp at heq
      obtain ⟨_, rfl, _⟩ := heq
      show i.repr ∈ _
      simp only; rw [hn]; split
      · assumption
      · simp
  case map c fn ty =>
    have : acc' = acc := by
      split at h
      · simp at h; exact h.1.symm
      · split at h
        · simp at h; exact h.1.symm
        · simp at h
    subst this
    exact ⟨ok, AccLe.refl _, by intro e he n p d t heq; simp at he; subst he; simp at heq,
           by intro e he v i t heq; simp at he; subst he; simp at heq⟩
  case reduce c fn i ty =>
    have : acc' = acc := by
      split at h
      · simp at h; exact h.1.symm
      · split at h
        · simp at h; exact h.1.symm
        · simp at h
    subst this
    exact ⟨ok, AccLe.refl _, by intro e he n p d t heq; simp at he; subst he; simp at heq,
           by intro e he v i t heq; simp at he; subst he; simp at heq⟩
  case call as fn ty =>
    have : acc' = acc := by
      split at h
      · simp at h; exact h.1.symm
      · split at h
        · simp at h; exact h.1.symm
        · simp at h
    subst this
    exact ⟨ok, AccLe.refl _, by intro e he n p d t heq; simp at he; subst he; simp at heq,
           by intro e he v i t heq; simp at he; subst he; simp at heq⟩
  case function name args child ty =>
    have : acc' = acc := by
      split at h <;> (simp at h; exact h.1.symm)
    subst this
    exact ⟨ok, AccLe.refl _, by intro e he n p d t heq; simp at he; subst he; simp at heq,
           by intro e he v i t heq; simp at he; subst he; simp at heq⟩
  all_goals
    simp at h; obtain ⟨rfl, _⟩ := h
    exact ⟨ok, AccLe.refl _, by intro e he n p d t heq; simp at he; subst he; simp at heq,
           by intro e he v i t heq; simp at he; subst he; simp at heq⟩

theorem traverse_acc (st : St) (functions : Table) :
    ∀ (fuel : Nat) (stack : List Id) (table extra : Table) (acc : CAcc) (table' extra' : Table) (acc' : CAcc),
    traverse st functions fuel stack table extra acc = .ok (table', extra', acc') →
    AccOK st acc → InCov table acc.inputs → LitCov table acc.literals →
      AccOK st acc' ∧ AccLe acc acc' ∧ InCov table' acc'.inputs ∧ LitCov table' acc'.literals := by
  intro fuel
  induction fuel with
  | zero =>
    intro stack table extra acc table' extra' acc' h ok hi hl
    cases stack with
    | nil => simp [traverse] at h; obtain ⟨rfl, _, rfl⟩ := h; exact ⟨ok, AccLe.refl _, hi, hl⟩
    | cons k s => simp [traverse] at h
  | succ fuel ih =>
    intro stack table extra acc table' extra' acc' h ok hi hl
    cases stack with
    | nil => simp [traverse] at h; obtain ⟨rfl, _, rfl⟩ := h; exact ⟨ok, AccLe.refl _, hi, hl⟩
    | cons k s =>
      simp only [traverse] at h
      split at h
      · exact ih s table extra acc _ _ _ h ok hi hl
      · split at h
        · simp at h
        · rename_i op hop
          split at h
          · simp at h
          · rename_i acc1 ex hproc
            obtain ⟨ok1, le1, c1, l1⟩ := processOp_acc st k op functions acc acc1 ex hop hproc ok
            have hi' : InCov (table ++ [(k, op)]) acc1.inputs := by
              intro e he
              rcases List.mem_append.1 he with he | he
              · exact (hi.mono le1) e he
              · exact c1 e he
            have hl' : LitCov (table ++ [(k, op)]) acc1.literals := by
              intro e he
              rcases List.mem_append.1 he with he | he
              · exact (hl.mono le1) e he
              · exact l1 e he
            obtain ⟨a, b, c, d⟩ := ih _ _ _ _ _ _ _ h ok1 hi' hl'
            exact ⟨a, le1.trans b, c, d⟩

theorem compileOutputs_acc (st : St) :
    ∀ (outs : List OutDecl) (table functions : Table) (mouts : List MirOutput) (acc : CAcc)
      (table' functions' : Table) (mouts' : List MirOutput) (acc' : CAcc),
    compileOutputs st outs table functions mouts acc = .ok (table', functions', mouts', acc') →
    AccOK st acc → InCov table acc.inputs → LitCov table acc.literals →
      AccOK st acc' ∧ InCov table' acc'.inputs ∧ LitCov table' acc'.literals := by
  intro outs
  induction outs with
  | nil =>
    intro table functions mouts acc table' functions' mouts' acc' h ok hi hl
    simp [compileOutputs] at h
    obtain ⟨rfl, _, _, rfl⟩ := h
    exact ⟨ok, hi, hl⟩
  | cons o os ih =>
    intro table functions mouts acc table' functions' mouts' acc' h ok hi hl
    simp only [compileOutputs] at h
    split at h
    · simp at h
    · rename_i t1 ex1 acc1 htr
      split at h
      · simp at h
      · obtain ⟨a, _, c, d⟩ := traverse_acc st functions _ _ _ _ _ _ _ _ htr ok hi hl
        exact ih _ _ _ _ _ _ _ _ h ⟨a.ai, a.lits⟩ c d

theorem emitFunctions_acc (st : St) (prog : Table) :
    ∀ (fuel : Nat) (stack functions : Table) (out : List MirFn) (acc : CAcc) (out' : List MirFn) (acc' : CAcc),
    emitFunctions st fuel stack functions out acc = .ok (out', acc') →
    AccOK st acc → InCov prog acc.inputs → LitCov prog acc.literals →
    (∀ f ∈ out, InCov f.ops acc.inputs ∧ LitCov f.ops acc.literals) →
      AccOK st acc' ∧ InCov prog acc'.inputs ∧ LitCov prog acc'.literals ∧
      ∀ f ∈ out', InCov f.ops acc'.inputs ∧ LitCov f.ops acc'.literals := by
  intro fuel
  induction fuel with
  | zero =>
    intro stack functions out acc out' acc' h ok hi hl ho
    cases stack with
    | nil => simp [emitFunctions] at h; obtain ⟨rfl, rfl⟩ := h; exact ⟨ok, hi, hl, ho⟩
    | cons x xs => simp [emitFunctions] at h
  | succ fuel ih =>
    intro stack functions out acc out' acc' h ok hi hl ho
    cases stack with
    | nil => simp [emitFunctions] at h; obtain ⟨rfl, rfl⟩ := h; exact ⟨ok, hi, hl, ho⟩
    | cons x xs =>
      obtain ⟨k, f⟩ := x
      simp only [emitFunctions] at h
      split at h
      · rename_i name args child ty
        split at h
        · simp at h
        · rename_i t1 ex1 acc1 htr
          split at h
          · simp at h
          · rename_i mf hmf
            have hmf' : mf.ops = t1 := by
              simp only [fnToMir, bind, Except.bind] at hmf
              split at hmf
              · simp at hmf
              · simp at hmf; subst hmf; rfl
            obtain ⟨a, le, c, d⟩ := traverse_acc st functions _ _ _ _ _ _ _ _ htr ok
              (by intro e he; simp at he) (by intro e he; simp at he)
            apply ih _ _ _ _ _ _ h a (hi.mono le) (hl.mono le)
            intro g hg
            rcases List.mem_append.1 hg with hg | hg
            · exact ⟨(ho g hg).1.mono le, (ho g hg).2.mono le⟩
            · simp at hg; subst hg; rw [hmf']; exact ⟨c, d⟩
      all_goals simp at h

/-- **Inputs and literals of every emitted MIR**: each input entry is the store's record of its id, no input
name and no literal name is listed twice, and every input / literal reference filed in any table has its entry —
so it resolves to exactly one. -/
theorem compile_acc (st : St) (outs : List OutDecl) (m : MirProg) (h : compile st outs = .ok m) :
    (m.inputs.map (·.name)).Nodup ∧ (∀ i ∈ m.inputs, IsRec st i) ∧ (m.literals.map (·.name)).Nodup ∧
    (∀ t ∈ allTables m, ∀ e ∈ t,
      (∀ n p d ty, e.2 = .input n p d ty → (⟨n, ty, p, d, e.1⟩ : MirInput) ∈ m.inputs ∧ count n (m.inputs.map (·.name)) = 1) ∧
      (∀ v i ty, e.2 = .literal v i ty → count (toString i) (m.literals.map (·.name)) = 1)) := by
  simp only [compile, bind, Except.bind] at h
  split at h
  · simp at h
  · rename_i r hco
    obtain ⟨table, functions, mouts, acc⟩ := r
    simp only at h
    split at h
    · simp at h
    · rename_i r2 hef
      obtain ⟨fns, acc2⟩ := r2
      injection h with h
      subst h
      have ok0 : AccOK st ({} : CAcc) := ⟨AI.nil st, by simp⟩
      obtain ⟨ok1, hi1, hl1⟩ := compileOutputs_acc st outs [] [] [] {} _ _ _ _ hco ok0
        (by intro e he; simp at he) (by intro e he; simp at he)
      obtain ⟨ok2, hi2, hl2, ho2⟩ := emitFunctions_acc st table _ _ _ _ _ _ _ hef ok1 hi1 hl1 (by simp)
      refine ⟨ok2.ai.names, ok2.ai.recs, ok2.lits, ?_⟩
      intro t ht e he
      simp only [allTables, List.mem_cons, List.mem_map] at ht
      have hcov : InCov t acc2.inputs ∧ LitCov t acc2.literals := by
        rcases ht with rfl | ⟨g, hg, rfl⟩
        · exact ⟨hi2, hl2⟩
        · exact ho2 g hg
      refine ⟨fun n p d ty heq => ?_, fun v i ty heq => ?_⟩
      · have hm := hcov.1 e he n p d ty heq
        refine ⟨hm, ?_⟩
        have : n ∈ (accIns acc2.inputs).map (·.name) := List.mem_map.2 ⟨_, hm, rfl⟩
        exact count_eq_one_of_nodup' ok2.ai.names this
      · exact count_eq_one_of_nodup' ok2.lits (hcov.2 e he v i ty heq)

/-! ### parties -/

/-- every listed input's party is a listed party -/
def PartiesCover (acc : CAcc) : Prop := ∀ i ∈ accIns acc.inputs, i.party ∈ acc.parties

theorem mem_insertSorted' (x y : String) (xs : List String) : y ∈ insertSorted x xs ↔ y = x ∨ y ∈ xs := by
  induction xs with
  | nil => simp [insertSorted]
  | cons z zs ih =>
    simp only [insertSorted]
    split
    · rename_i h; subst h; simp
    · split
      · simp
      · simp only [List.mem_cons, ih]
        constructor
        · rintro (h | h | h) <;> simp [h]
        · rintro (h | h | h) <;> simp [h]

theorem addInput_parties (acc acc' : CAcc) (i : MirInput) (h : addInput acc i = .ok acc') :
    acc'.parties = insertSorted i.party acc.parties ∧
    ∀ j ∈ accIns acc'.inputs, j = i ∨ j ∈ accIns acc.inputs := by
  simp only [addInput] at h
  split at h
  · simp at h
  · simp at h; subst h
    refine ⟨rfl, ?_⟩
    intro j hj
    obtain ⟨b, hb1, hb2⟩ := mem_accIns.1 hj
    simp only [List.mem_map] at hb1
    obtain ⟨b0, hb0, rfl⟩ := hb1
    have hsub : ∀ k ∈ b0.2, k ∈ accIns acc.inputs := by
      intro k hk
      rw [← accIns_insertParty i.party]
      exact mem_accIns.2 ⟨b0, hb0, hk⟩
    split at hb2
    · -- upserted bucket
      simp only at hb2
      have : ∀ (is : List MirInput), j ∈ upsertInput i is → j = i ∨ j ∈ is := by
        intro is
        induction is with
        | nil => simp [upsertInput]
        | cons a as ih =>
          simp only [upsertInput]
          split
          · simp; rintro (h | h) <;> simp [h]
          · simp only [List.mem_cons]
            rintro (h | h)
            · exact .inr (.inl h)
            · rcases ih h with h1 | h1
              · exact .inl h1
              · exact .inr (.inr h1)
      rcases this _ hb2 with h1 | h1
      · exact .inl h1
      · exact .inr (hsub j h1)
    · exact .inr (hsub j hb2)

theorem processOp_parties (st : St) (k : Id) (op : AstOp) (functions : Table) (acc acc' : CAcc) (ex : Option (Id × AstOp))
    (h : processOp st k op functions acc = .ok (acc', ex)) (hc : PartiesCover acc) :
    PartiesCover acc' ∧ ∀ p ∈ acc.parties, p ∈ acc'.parties := by
  cases op <;> simp only [processOp] at h
  case input name party doc ty =>
    simp only [bind, Except.bind] at h
    split at h
    · simp at h
    · rename_i acc1 hadd
      simp at h; obtain ⟨rfl, _⟩ := h
      obtain ⟨hp, hj⟩ := addInput_parties acc acc1 _ hadd
      refine ⟨?_, ?_⟩
      · intro j hjm
        rw [hp]
        rcases hj j hjm with rfl | h1
        · exact (mem_insertSorted' _ _ _).2 (.inl rfl)
        · exact (mem_insertSorted' _ _ _).2 (.inr (hc j h1))
      · intro p hpm; rw [hp]; exact (mem_insertSorted' _ _ _).2 (.inr hpm)
  case literal v i ty =>
    simp at h; obtain ⟨rfl, _⟩ := h
    exact ⟨hc, fun _ h => h⟩
  case map c fn ty =>
    have : acc' = acc := by
      split at h
      · simp at h; exact h.1.symm
      · split at h
        · simp at h; exact h.1.symm
        · simp at h
    subst this; exact ⟨hc, fun _ h => h⟩
  case reduce c fn i ty =>
    have : acc' = acc := by
      split at h
      · simp at h; exact h.1.symm
      · split at h
        · simp at h; exact h.1.symm
        · simp at h
    subst this; exact ⟨hc, fun _ h => h⟩
  case call as fn ty =>
    have : acc' = acc := by
      split at h
      · simp at h; exact h.1.symm
      · split at h
        · simp at h; exact h.1.symm
        · simp at h
    subst this; exact ⟨hc, fun _ h => h⟩
  case function name args child ty =>
    have : acc' = acc := by
      split at h <;> (simp at h; exact h.1.symm)
    subst this; exact ⟨hc, fun _ h => h⟩
  all_goals
    simp at h; obtain ⟨rfl, _⟩ := h
    exact ⟨hc, fun _ h => h⟩

theorem traverse_parties (st : St) (functions : Table) :
    ∀ (fuel : Nat) (stack : List Id) (table extra : Table) (acc : CAcc) (table' extra' : Table) (acc' : CAcc),
    traverse st functions fuel stack table extra acc = .ok (table', extra', acc') → PartiesCover acc →
      PartiesCover acc' ∧ ∀ p ∈ acc.parties, p ∈ acc'.parties := by
  intro fuel
  induction fuel with
  | zero =>
    intro stack table extra acc table' extra' acc' h hc
    cases stack with
    | nil => simp [traverse] at h; obtain ⟨_, _, rfl⟩ := h; exact ⟨hc, fun _ h => h⟩
    | cons k s => simp [traverse] at h
  | succ fuel ih =>
    intro stack table extra acc table' extra' acc' h hc
    cases stack with
    | nil => simp [traverse] at h; obtain ⟨_, _, rfl⟩ := h; exact ⟨hc, fun _ h => h⟩
    | cons k s =>
      simp only [traverse] at h
      split at h
      · exact ih s table extra acc _ _ _ h hc
      · split at h
        · simp at h
        · rename_i op hop
          split at h
          · simp at h
          · rename_i acc1 ex hproc
            obtain ⟨a, b⟩ := processOp_parties st k op functions acc acc1 ex hproc hc
            obtain ⟨c, d⟩ := ih _ _ _ _ _ _ _ h a
            exact ⟨c, fun p hp => d p (b p hp)⟩

theorem compileOutputs_parties (st : St) :
    ∀ (outs : List OutDecl) (table functions : Table) (mouts : List MirOutput) (acc : CAcc)
      (table' functions' : Table) (mouts' : List MirOutput) (acc' : CAcc),
    compileOutputs st outs table functions mouts acc = .ok (table', functions', mouts', acc') →
    PartiesCover acc → (∀ o ∈ mouts, o.party ∈ acc.parties) →
      PartiesCover acc' ∧ (∀ o ∈ mouts', o.party ∈ acc'.parties) := by
  intro outs
  induction outs with
  | nil =>
    intro table functions mouts acc table' functions' mouts' acc' h hc ho
    simp [compileOutputs] at h
    obtain ⟨_, _, rfl, rfl⟩ := h
    exact ⟨hc, ho⟩
  | cons o os ih =>
    intro table functions mouts acc table' functions' mouts' acc' h hc ho
    simp only [compileOutputs] at h
    split at h
    · simp at h
    · rename_i t1 ex1 acc1 htr
      split at h
      · simp at h
      · rename_i op hop
        obtain ⟨a, b⟩ := traverse_parties st functions _ _ _ _ _ _ _ _ htr hc
        apply ih _ _ _ _ _ _ _ _ h
        · intro j hj
          exact (mem_insertSorted' _ _ _).2 (.inr (a j hj))
        · intro x hx
          rcases List.mem_append.1 hx with hx | hx
          · exact (mem_insertSorted' _ _ _).2 (.inr (b _ (ho x hx)))
          · simp at hx; subst hx; exact (mem_insertSorted' _ _ _).2 (.inl rfl)

theorem emitFunctions_parties (st : St) :
    ∀ (fuel : Nat) (stack functions : Table) (out : List MirFn) (acc : CAcc) (out' : List MirFn) (acc' : CAcc),
    emitFunctions st fuel stack functions out acc = .ok (out', acc') → PartiesCover acc →
      PartiesCover acc' ∧ ∀ p ∈ acc.parties, p ∈ acc'.parties := by
  intro fuel
  induction fuel with
  | zero =>
    intro stack functions out acc out' acc' h hc
    cases stack with
    | nil => simp [emitFunctions] at h; obtain ⟨_, rfl⟩ := h; exact ⟨hc, fun _ h => h⟩
    | cons x xs => simp [emitFunctions] at h
  | succ fuel ih =>
    intro stack functions out acc out' acc' h hc
    cases stack with
    | nil => simp [emitFunctions] at h; obtain ⟨_, rfl⟩ := h; exact ⟨hc, fun _ h => h⟩
    | cons x xs =>
      obtain ⟨k, f⟩ := x
      simp only [emitFunctions] at h
      split at h
      · split at h
        · simp at h
        · rename_i t1 ex1 acc1 htr
          split at h
          · simp at h
          · obtain ⟨a, b⟩ := traverse_parties st functions _ _ _ _ _ _ _ _ htr hc
            obtain ⟨c, d⟩ := ih _ _ _ _ _ _ h a
            exact ⟨c, fun p hp => d p (b p hp)⟩
      all_goals simp at h

/-- **Every party named by a listed input or by an output is listed.** -/
theorem compile_parties_cover (st : St) (outs : List OutDecl) (m : MirProg) (h : compile st outs = .ok m) :
    (∀ i ∈ m.inputs, i.party ∈ m.parties) ∧ (∀ o ∈ m.outputs, o.party ∈ m.parties) := by
  simp only [compile, bind, Except.bind] at h
  split at h
  · simp at h
  · rename_i r hco
    obtain ⟨table, functions, mouts, acc⟩ := r
    simp only at h
    split at h
    · simp at h
    · rename_i r2 hef
      obtain ⟨fns, acc2⟩ := r2
      injection h with h
      subst h
      obtain ⟨a, b⟩ := compileOutputs_parties st outs [] [] [] {} _ _ _ _ hco (by intro j hj; simp [accIns] at hj) (by simp)
      obtain ⟨c, d⟩ := emitFunctions_parties st _ _ _ _ _ _ _ hef a
      exact ⟨c, fun o ho => d _ (b o ho)⟩


end NadaVerif.Lemmas
