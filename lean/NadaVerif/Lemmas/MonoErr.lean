/-
Monotonicity of the compile model in the store, for compilations that *fail*: if every record `st` holds is what `st'`
returns for that id and `st'` gives at least as much fuel, then a compilation that fails from `st` with an error other than
"an id is missing" / "out of fuel" fails with the same error from `st'` (those two are the errors a larger store could turn
into something else; `C01.trace_compile_no_missing` excludes the first for traces).
-/
import NadaVerif.Lemmas.Mono

namespace NadaVerif.Lemmas
open NadaVerif

theorem processOp_mono_err {st st' : St} (h : Extends st st') (k : Id) (op : AstOp) (fs : List (Id × AstOp))
    (acc : CAcc) (e : Err) (hr : processOp st k op fs acc = .error e) (hk : e ≠ .key) :
    processOp st' k op fs acc = .error e := by
  cases op <;> simp only [processOp] at hr ⊢ <;> try exact hr
  all_goals
    split at hr
    · simp at hr
    · rename_i hc
      split at hr
      · simp at hr
      · simp only [Except.error.injEq] at hr
        exact absurd hr.symm hk

theorem traverse_mono_err {st st' : St} (h : Extends st st') (functions : List (Id × AstOp)) :
    ∀ (fuel : Nat) (stack : List Id) (table extra : List (Id × AstOp)) (acc : CAcc) (e : Err),
    traverse st functions fuel stack table extra acc = .error e → e ≠ .key → e ≠ .unsupported →
    ∀ extraFuel, traverse st' functions (fuel + extraFuel) stack table extra acc = .error e := by
  intro fuel
  induction fuel with
  | zero =>
    intro stack table extra acc e hr hk hu n
    cases stack with
    | nil => simp [traverse] at hr
    | cons k s =>
      simp only [traverse, Except.error.injEq] at hr
      exact absurd hr.symm hu
  | succ fuel ih =>
    intro stack table extra acc e hr hk hu n
    cases stack with
    | nil => simp [traverse] at hr
    | cons k s =>
      rw [Nat.add_right_comm]
      simp only [traverse] at hr ⊢
      split at hr
      · rename_i hkk; simp only [hkk, if_true]; exact ih _ _ _ _ _ hr hk hu n
      · rename_i hkk
        simp only [hkk]
        split at hr
        · simp only [Except.error.injEq] at hr
          exact absurd hr.symm hk
        · rename_i op hop
          rw [h _ _ hop]
          simp only
          split at hr
          · rename_i e' hproc
            simp only [Except.error.injEq] at hr
            subst hr
            rw [processOp_mono_err h _ _ _ _ _ hproc hk]
            simp
          · rename_i acc1 ex hproc
            rw [processOp_mono h _ _ _ _ _ hproc]
            exact ih _ _ _ _ _ hr hk hu n

theorem compileOutputs_mono_err {st st' : St} (h : Extends st st') (hf : st.fuel ≤ st'.fuel) :
    ∀ (outs : List OutDecl) (table functions : List (Id × AstOp)) (mouts : List MirOutput) (acc : CAcc) (e : Err),
    compileOutputs st outs table functions mouts acc = .error e → e ≠ .key → e ≠ .unsupported →
    compileOutputs st' outs table functions mouts acc = .error e := by
  intro outs
  induction outs with
  | nil => intro table functions mouts acc e hr; simp [compileOutputs] at hr
  | cons o os ih =>
    intro table functions mouts acc e hr hk hu
    simp only [compileOutputs] at hr ⊢
    split at hr
    · rename_i e' htr
      simp only [Except.error.injEq] at hr
      subst hr
      have := traverse_mono_err h functions _ _ _ _ _ _ htr hk hu (st'.fuel - st.fuel)
      rw [Nat.add_sub_cancel' hf] at this
      rw [this]
    · rename_i t1 ex1 acc1 htr
      have := traverse_mono h functions _ _ _ _ _ _ htr (st'.fuel - st.fuel)
      rw [Nat.add_sub_cancel' hf] at this
      rw [this]
      simp only
      split at hr
      · simp only [Except.error.injEq] at hr
        exact absurd hr.symm hk
      · rename_i op hop
        rw [h _ _ hop]
        exact ih _ _ _ _ _ hr hk hu

theorem fnToMir_mono_err {st st' : St} (h : Extends st st') (k : Id) (f : AstOp) (table : List (Id × AstOp))
    (e : Err) (hr : fnToMir st k f table = .error e) (hk : e ≠ .key) : fnToMir st' k f table = .error e := by
  cases f <;> simp only [fnToMir] at hr ⊢ <;> try exact hr
  rename_i name args child ty
  have one : ∀ a x, argOf st a = .ok x → argOf st' a = .ok x := by
    intro a x hx
    unfold argOf at hx ⊢
    cases hl : st.lookup a with
    | none => simp [hl] at hx
    | some op => rw [h _ _ hl]; simpa [hl] using hx
  have oneE : ∀ a e', argOf st a = .error e' → e' ≠ .key → argOf st' a = .error e' := by
    intro a e' hx hne
    unfold argOf at hx ⊢
    cases hl : st.lookup a with
    | none => simp only [hl, Except.error.injEq] at hx; exact absurd hx.symm hne
    | some op => rw [h _ _ hl]; simpa [hl] using hx
  have key : ∀ (as : List Id) (e' : Err), as.mapM (argOf st) = .error e' → e' ≠ .key → as.mapM (argOf st') = .error e' := by
    intro as
    induction as with
    | nil => intro e' hr; cases hr
    | cons a as ih =>
      intro e' hr hne
      simp only [List.mapM_cons, bind, Except.bind] at hr ⊢
      split at hr
      · rename_i e'' hx
        simp only [Except.error.injEq] at hr
        subst hr
        rw [oneE _ _ hx hne]
      · rename_i x hx
        rw [one _ _ hx]
        simp only
        split at hr
        · rename_i e'' hxs
          simp only [Except.error.injEq] at hr
          subst hr
          rw [ih _ hxs hne]
        · cases hr
  simp only [bind, Except.bind] at hr ⊢
  split at hr
  · rename_i e' has
    simp only [Except.error.injEq] at hr
    subst hr
    rw [key _ _ has hk]
  · simp at hr

theorem emitFunctions_mono_err {st st' : St} (h : Extends st st') (hf : st.fuel ≤ st'.fuel) :
    ∀ (fuel : Nat) (stack functions : List (Id × AstOp)) (out : List MirFn) (acc : CAcc) (e : Err),
    emitFunctions st fuel stack functions out acc = .error e → e ≠ .key → e ≠ .unsupported →
    ∀ extra, emitFunctions st' (fuel + extra) stack functions out acc = .error e := by
  intro fuel
  induction fuel with
  | zero =>
    intro stack functions out acc e hr hk hu n
    cases stack with
    | nil => simp [emitFunctions] at hr
    | cons x xs =>
      simp only [emitFunctions, Except.error.injEq] at hr
      exact absurd hr.symm hu
  | succ fuel ih =>
    intro stack functions out acc e hr hk hu n
    cases stack with
    | nil => simp [emitFunctions] at hr
    | cons x xs =>
      obtain ⟨k, f⟩ := x
      rw [Nat.add_right_comm]
      simp only [emitFunctions] at hr ⊢
      split at hr
      · rename_i name args child ty
        split at hr
        · rename_i e' htr
          simp only [Except.error.injEq] at hr
          subst hr
          have := traverse_mono_err h functions _ _ _ _ _ _ htr hk hu (st'.fuel - st.fuel)
          rw [Nat.add_sub_cancel' hf] at this
          rw [this]
        · rename_i t1 ex1 acc1 htr
          have := traverse_mono h functions _ _ _ _ _ _ htr (st'.fuel - st.fuel)
          rw [Nat.add_sub_cancel' hf] at this
          rw [this]
          simp only
          split at hr
          · rename_i e' hmf
            simp only [Except.error.injEq] at hr
            subst hr
            rw [fnToMir_mono_err h _ _ _ _ hmf hk]
          · rename_i mf hmf
            rw [fnToMir_mono h _ _ _ _ hmf]
            exact ih _ _ _ _ _ hr hk hu n
      all_goals (simp only [Except.error.injEq] at hr; subst hr; rfl)

/-- **Store monotonicity of failing compilations.** -/
theorem compile_mono_err {st st' : St} (h : Extends st st') (hf : st.fuel ≤ st'.fuel)
    (hl : st.ops.length ≤ st'.ops.length) (outs : List OutDecl) (e : Err)
    (hc : compile st outs = .error e) (hk : e ≠ .key) (hu : e ≠ .unsupported) : compile st' outs = .error e := by
  simp only [compile, bind, Except.bind] at hc ⊢
  split at hc
  · rename_i e' hco
    simp only [Except.error.injEq] at hc
    subst hc
    rw [compileOutputs_mono_err h hf _ _ _ _ _ _ hco hk hu]
  · rename_i r hco
    rw [compileOutputs_mono h hf _ _ _ _ _ _ hco]
    obtain ⟨table, functions, mouts, acc⟩ := r
    simp only at hc ⊢
    split at hc
    · rename_i e' hef
      simp only [Except.error.injEq] at hc
      subst hc
      have := emitFunctions_mono_err h hf _ _ _ _ _ _ hef hk hu (st'.ops.length - st.ops.length)
      have e : st.ops.length + 1 + (st'.ops.length - st.ops.length) = st'.ops.length + 1 := by omega
      rw [e] at this
      rw [this]
    · simp at hc

end NadaVerif.Lemmas
