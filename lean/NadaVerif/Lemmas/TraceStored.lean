/-
The trace stores everything it mentions — for **every** command list.

`StoL ops`     : every stored record mentions (as operand, as applied function, as a function's return
                 operation or parameter) only ids that were stored *before* it;
`RegsSto ops rs`: every operation id held anywhere inside a register value (and every function id a
                 register holds) is stored.

`exec_sto` is the Hoare triple for one command (accepted or rejected), `trace_stored` the statement for
all command lists; `Props/C01.lean` and `Props/C09.lean` use it to show that compiling a traced program
never looks up an id that is missing.
-/
import NadaVerif.Lemmas.TraceInv

namespace NadaVerif

/-- every id a record mentions: operands, applied function, and for a function its return operation and parameters -/
def AstOp.mentions (op : AstOp) : List Id :=
  op.children ++ op.fnRef.toList ++ (match op with | .function _ args child _ => child :: args | _ => [])

/-- ids a register keeps alive: those inside a value, and a function's id -/
def RVal.sids : RVal → List Id
  | .val v => Val.ids v
  | .fn fid _ _ => [fid]
  | _ => []

end NadaVerif

namespace NadaVerif.Lemmas
open Std.Do NadaVerif NadaVerif.Spec

set_option mvcgen.warning false
set_option maxHeartbeats 4000000

def Has (ops : List (Id × AstOp)) (x : Id) : Prop := ∃ op, (x, op) ∈ ops

theorem Has_cons (k : Id) (op : AstOp) (ops : List (Id × AstOp)) (x : Id) :
    Has ((k, op) :: ops) x ↔ (x = k ∨ Has ops x) := by
  simp only [Has, List.mem_cons, Prod.mk.injEq]
  constructor
  · rintro ⟨o, (⟨rfl, rfl⟩ | h)⟩
    · exact .inl rfl
    · exact .inr ⟨o, h⟩
  · rintro (rfl | ⟨o, h⟩)
    · exact ⟨op, .inl ⟨rfl, rfl⟩⟩
    · exact ⟨o, .inr h⟩

theorem mentions_binary (n l r ty) : (AstOp.binary n l r ty).mentions = [l, r] := rfl
theorem mentions_unary (n c ty) : (AstOp.unary n c ty).mentions = [c] := rfl
theorem mentions_ifElse (c t f ty) : (AstOp.ifElse c t f ty).mentions = [c, t, f] := rfl
theorem mentions_reduce (c fn i ty) : (AstOp.reduce c fn i ty).mentions = [c, i, fn] := rfl
theorem mentions_map (c fn ty) : (AstOp.map c fn ty).mentions = [c, fn] := rfl
theorem mentions_new (n es ty) : (AstOp.new n es ty).mentions = es := by simp [AstOp.mentions, AstOp.children, AstOp.fnRef]
theorem mentions_call (as fn ty) : (AstOp.call as fn ty).mentions = as ++ [fn] := by
  simp [AstOp.mentions, AstOp.children, AstOp.fnRef]
theorem mentions_ntupleAcc (i s ty) : (AstOp.ntupleAcc i s ty).mentions = [s] := rfl
theorem mentions_objectAcc (n s ty) : (AstOp.objectAcc n s ty).mentions = [s] := rfl
theorem mentions_random (ty) : (AstOp.random ty).mentions = [] := rfl
theorem mentions_input (n p d ty) : (AstOp.input n p d ty).mentions = [] := rfl
theorem mentions_literal (v i ty) : (AstOp.literal v i ty).mentions = [] := rfl
theorem mentions_argRef (n f ty) : (AstOp.argRef n f ty).mentions = [] := rfl
theorem mentions_function (n args c ty) : (AstOp.function n args c ty).mentions = c :: args := rfl

theorem Has_nil (x : Id) : Has [] x ↔ False := by simp [Has]

/-- newest first: each record mentions only what the older part of the store holds -/
def StoL : List (Id × AstOp) → Prop
  | [] => True
  | (_, op) :: ops => (∀ c ∈ op.mentions, Has ops c) ∧ StoL ops

theorem StoL_cons (k : Id) (op : AstOp) (ops : List (Id × AstOp)) :
    StoL ((k, op) :: ops) ↔ (∀ c ∈ op.mentions, Has ops c) ∧ StoL ops := Iff.rfl

/-- the unordered consequence: whatever a stored record mentions is stored -/
theorem StoL.closed : ∀ {ops : List (Id × AstOp)}, StoL ops → ∀ e ∈ ops, ∀ c ∈ e.2.mentions, Has ops c
  | [], _, e, he => by simp at he
  | (k, op) :: ops, h, e, he => by
    intro c hc
    rcases List.mem_cons.1 he with rfl | he
    · exact (Has_cons _ _ _ _).2 (.inr (h.1 c hc))
    · exact (Has_cons _ _ _ _).2 (.inr (StoL.closed h.2 e he c hc))

def RegsSto (ops : List (Id × AstOp)) (rs : List RVal) : Prop := ∀ r ∈ rs, ∀ x ∈ r.sids, Has ops x
def FramesSto (ops : List (Id × AstOp)) (fs : List Frame) : Prop := ∀ fr ∈ fs, ∀ p ∈ fr.params, Has ops p.1

/-- what a piece of the trace may do: stored ids stay stored, closedness is kept -/
def ExtS (s0 s : St) : Prop := (∀ x, Has s0.ops x → Has s.ops x) ∧ (StoL s0.ops → StoL s.ops)

theorem ExtS.refl (s : St) : ExtS s s := ⟨fun _ h => h, id⟩

theorem regsSto_single (ops) (v : Val) : RegsSto ops [.val v] ↔ ∀ x ∈ Val.ids v, Has ops x := by
  simp [RegsSto, RVal.sids]
theorem regsSto_nil (ops) : RegsSto ops [] := by simp [RegsSto]
theorem regsSto_cons (ops) (r : RVal) (rs : List RVal) :
    RegsSto ops (r :: rs) ↔ (∀ x ∈ r.sids, Has ops x) ∧ RegsSto ops rs := by
  simp [RegsSto]
theorem framesSto_cons (ops) (f : Frame) (fs : List Frame) :
    FramesSto ops (f :: fs) ↔ (∀ p ∈ f.params, Has ops p.1) ∧ FramesSto ops fs := by
  simp [FramesSto]

theorem RegsSto.mono {a b : List (Id × AstOp)} {rs : List RVal} (h : RegsSto a rs) (hab : ∀ x, Has a x → Has b x) :
    RegsSto b rs := fun r hr x hx => hab x (h r hr x hx)
theorem FramesSto.mono {a b : List (Id × AstOp)} {fs : List Frame} (h : FramesSto a fs) (hab : ∀ x, Has a x → Has b x) :
    FramesSto b fs := fun r hr x hx => hab _ (h r hr x hx)
theorem RegsSto.append {ops} {a b : List RVal} (ha : RegsSto ops a) (hb : RegsSto ops b) : RegsSto ops (a ++ b) := by
  intro r hr; rcases List.mem_append.1 hr with h | h
  · exact ha r h
  · exact hb r h

macro "vs_norm" : tactic =>
  `(tactic| (simp +zetaDelta only [ExtS, StoL_cons, Has_cons, regsSto_single, regsSto_cons, regsSto_nil, framesSto_cons,
      RVal.sids, mentions_binary, mentions_unary, mentions_ifElse, mentions_reduce, mentions_map, mentions_new, mentions_call,
      mentions_ntupleAcc, mentions_objectAcc, mentions_random, mentions_input, mentions_literal, mentions_argRef, mentions_function,
      Val.ids, Elem.ids, Vals.ids, VFields.ids, ids_ofList, ids_fieldsOfList, Option.toList, List.mem_cons, List.not_mem_nil,
      List.mem_append, forall_eq_or_imp, forall_eq, List.mem_map,
      or_false, false_or, and_true, true_and, implies_true, List.append_nil] at *))

theorem template_sto (ann : Ann) (s0 : St) :
    ⦃fun s => ⌜s = s0⌝⦄ template ann
    ⦃post⟨fun v s => ⌜ExtS s0 s ∧ ∀ x ∈ Val.ids v, Has s.ops x⌝, fun _ s => ⌜ExtS s0 s⌝⟩⦄ := by
  induction ann generalizing s0 with
  | scalar t =>
    mvcgen [template, mkLiteral, alloc, put, litIndex] <;> (try subst_vars) <;> (try vs_norm) <;>
      (first | grind | (simp_all; done))
  | array inner ih =>
    mvcgen [template, ih] <;> (try subst_vars) <;> (try vs_norm) <;> (first | grind | (simp_all; done))
  | bareArray =>
    mvcgen [template] <;> (try subst_vars) <;> (try vs_norm) <;> (first | grind | (simp_all; done))

theorem ids_withChild_sto (ops) (v : Val) (k : Id) (hk : Has ops k) (hv : ∀ x ∈ Val.ids v, Has ops x) :
    ∀ x ∈ Val.ids (v.withChild k), Has ops x := by
  intro x hx
  rcases ids_withChild' v k x hx with rfl | h
  · exact hk
  · exact hv x h

theorem bindParams_sto (fid : Id) (params : List (String × Ann)) (s0 : St) :
    ⦃fun s => ⌜s = s0⌝⦄ bindParams fid params
    ⦃post⟨fun r s => ⌜ExtS s0 s ∧ RegsSto s.ops r.2 ∧ ∀ p ∈ r.1, Has s.ops p.1⌝, fun _ s => ⌜ExtS s0 s⌝⟩⦄ := by
  induction params generalizing s0 with
  | nil => mvcgen [bindParams]; subst_vars; vs_norm; simp
  | cons p ps ih =>
    obtain ⟨pname, ann⟩ := p
    mvcgen [bindParams, template_sto, alloc, put, liftE, ih]
    all_goals ((try subst_vars); (try vs_norm))
    all_goals (try have hw := ids_withChild' ‹Val›)
    all_goals grind

theorem scalarResult_sto (out : Out) (foldE : Option (Py.PyExpr × Base)) (l r : Option LitVal) (mkOp : MTy → AstOp)
    (s0 : St) (hmk : ∀ ty, ∀ c ∈ (mkOp ty).mentions, Has s0.ops c) :
    ⦃fun s => ⌜s = s0⌝⦄ scalarResult out foldE l r mkOp
    ⦃post⟨fun v s => ⌜ExtS s0 s ∧ ∀ x ∈ Val.ids v, Has s.ops x⌝, fun _ s => ⌜ExtS s0 s⌝⟩⦄ := by
  mvcgen [scalarResult, mkLiteral, alloc, put, litIndex] <;> ((try subst_vars); (try vs_norm); try grind)

theorem genAccessor_sto (member : Val) (k : Id) (mk : MTy → AstOp) (s0 : St)
    (hm : ∀ x ∈ Val.ids member, Has s0.ops x) (hmk : ∀ ty, ∀ c ∈ (mk ty).mentions, Has s0.ops c) :
    ⦃fun s => ⌜s = s0⌝⦄ genAccessor member k mk
    ⦃post⟨fun v s => ⌜ExtS s0 s ∧ ∀ x ∈ Val.ids v, Has s.ops x⌝, fun _ s => ⌜ExtS s0 s⌝⟩⦄ := by
  have hw := ids_withChild' member k
  mvcgen [genAccessor, put, liftE] <;> ((try subst_vars); (try vs_norm); try grind)

theorem sreg_ids {ops} {regs : List RVal} (hr : RegsSto ops regs) {a : Nat} {v : Val}
    (h : regs[a]? = some (.val v)) : ∀ x ∈ Val.ids v, Has ops x :=
  hr _ (List.mem_of_getElem? h)
theorem sreg_scalar {ops} {regs : List RVal} (hr : RegsSto ops regs) {a : Nat} {t : STy} {c : Id} {l : Option LitVal}
    (h : regs[a]? = some (.val (.scalar t (some c) l))) : Has ops c :=
  sreg_ids hr h c (by simp [Val.ids])
theorem sreg_child {ops} {regs : List RVal} (hr : RegsSto ops regs) {a : Nat} {v : Val} {c : Id}
    (h : regs[a]? = some (.val v)) (hc : v.child = some c) : Has ops c :=
  sreg_ids hr h c (child_mem_ids hc)
theorem sreg_fn {ops} {regs : List RVal} (hr : RegsSto ops regs) {a : Nat} {k : Id} {x : STy} {y : List String}
    (h : regs[a]? = some (.fn k x y)) : Has ops k :=
  hr _ (List.mem_of_getElem? h) k (by simp [RVal.sids])
theorem smem_val {ops} {regs : List RVal} (hr : RegsSto ops regs) {v : Val} (h : RVal.val v ∈ regs) :
    ∀ x ∈ Val.ids v, Has ops x := hr _ h
theorem snt_member {ops} {regs : List RVal} (hr : RegsSto ops regs) {a : Nat} {vs : Vals} {c : Option Id}
    (h : regs[a]? = some (.val (.ntuple vs c))) : ∀ m ∈ vs.toList, ∀ x ∈ Val.ids m, Has ops x := by
  intro m hm x hx
  exact sreg_ids hr h x (by simp only [Val.ids, List.mem_append]; exact .inr (mem_vals_ids vs m hm x hx))
theorem sobj_member {ops} {regs : List RVal} (hr : RegsSto ops regs) {a : Nat} {fs : VFields} {c : Option Id}
    (h : regs[a]? = some (.val (.object fs c))) : ∀ p ∈ fs.toList, ∀ x ∈ Val.ids p.2, Has ops x := by
  intro p hp x hx
  exact sreg_ids hr h x (by simp only [Val.ids, List.mem_append]; exact .inr (mem_fields_ids fs p.1 p.2 hp x hx))
theorem sreg_array {ops} {regs : List RVal} (hr : RegsSto ops regs) {a : Nat} {e : Elem} {sz : Option Int} {c : Id}
    (h : regs[a]? = some (.val (.array e sz (some c)))) : Has ops c ∧ ∀ x ∈ Elem.ids e, Has ops x :=
  ⟨sreg_ids hr h c (by simp [Val.ids]), fun x hx => sreg_ids hr h x (by simp [Val.ids, hx])⟩
theorem sreg_ntuple {ops} {regs : List RVal} (hr : RegsSto ops regs) {a : Nat} {vs : Vals} {c : Id}
    (h : regs[a]? = some (.val (.ntuple vs (some c)))) : Has ops c :=
  sreg_ids hr h c (by simp [Val.ids])
theorem sreg_object {ops} {regs : List RVal} (hr : RegsSto ops regs) {a : Nat} {fs : VFields} {c : Id}
    (h : regs[a]? = some (.val (.object fs (some c)))) : Has ops c :=
  sreg_ids hr h c (by simp [Val.ids])
theorem sreg_ziparray {ops} {regs : List RVal} (hr : RegsSto ops regs) {a : Nat} {l r : Elem} {ch : Option Id}
    {sz : Option Int} {c : Id} (h : regs[a]? = some (.val (.array (.inst (.tuple l r ch)) sz (some c)))) :
    (∀ x ∈ Elem.ids l, Has ops x) ∧ (∀ x ∈ Elem.ids r, Has ops x) :=
  ⟨fun x hx => sreg_ids hr h x (by simp [Val.ids, Elem.ids, hx]),
   fun x hx => sreg_ids hr h x (by simp [Val.ids, Elem.ids, hx])⟩

section
variable (regs : List RVal) (frames : List Frame) (s0 : St) (hr : RegsSto s0.ops regs) (hf : FramesSto s0.ops frames)
include hr hf

macro "sto_case" "[" ts:Lean.Parser.Tactic.simpLemma,* "]" : tactic =>
  `(tactic| (
    have hreg := @sreg_ids _ regs hr
    have hreg1 := @sreg_scalar _ regs hr
    have hreg2 := @sreg_child _ regs hr
    have hreg4 := @sreg_fn _ regs hr
    have hmem := @smem_val _ regs hr
    have hnt := @snt_member _ regs hr
    have harr := @sreg_array _ regs hr
    have hzip := @sreg_ziparray _ regs hr
    have hnt2 := @sreg_ntuple _ regs hr
    have hobj2 := @sreg_object _ regs hr
    have hobj := @sobj_member _ regs hr
    mvcgen [exec, alloc, put, litIndex, liftE, getVal, getScalar, childOf, mkLiteral, $ts,*] <;>
      (try subst_vars) <;> (try vs_norm) <;> (first | grind | grind [List.getElem_mem, List.mem_of_getElem?, List.mem_of_find?_eq_some, mem_vals_ids, mem_fields_ids, Val.child, Val.ids, Elem.ids, FramesSto] | (simp_all; done) | (simp_all; grind))))

macro "sto_case'" "[" ts:Lean.Parser.Tactic.simpLemma,* "]" : tactic =>
  `(tactic| (
    have hreg := @sreg_ids _ regs hr
    have hreg1 := @sreg_scalar _ regs hr
    have hreg2 := @sreg_child _ regs hr
    have hreg4 := @sreg_fn _ regs hr
    have hmem := @smem_val _ regs hr
    mvcgen [exec, alloc, put, litIndex, liftE_spec', getVal_spec', childOf_spec', $ts,*] <;>
      (try subst_vars) <;> (try vs_norm) <;> (first | grind | grind [List.getElem_mem, List.mem_of_getElem?, List.mem_of_find?_eq_some, mem_vals_ids, mem_fields_ids, Val.child, Val.ids, Elem.ids, FramesSto] | (simp_all; done) | (simp_all; grind))))

abbrev GoalS (c : Cmd) : Prop :=
  ⦃fun s => ⌜s = s0⌝⦄ exec regs frames c
  ⦃post⟨fun r s => ⌜ExtS s0 s ∧ RegsSto s.ops r.1 ∧ ∀ fr ∈ r.2, fr ∈ frames ∨ ∀ p ∈ fr.params, Has s.ops p.1⌝, fun _ s => ⌜ExtS s0 s⌝⟩⦄

theorem sx_nop : GoalS regs frames s0 .nop := by
  sto_case []
theorem sx_party (nm) : GoalS regs frames s0 (.party nm) := by
  sto_case []
theorem sx_inputObj (a b p) : GoalS regs frames s0 (.inputObj a b p) := by
  sto_case []
theorem sx_wrap (t r) : GoalS regs frames s0 (.wrap t r) := by
  sto_case []
theorem sx_lit (b v) : GoalS regs frames s0 (.lit b v) := by
  sto_case []
theorem sx_bin (op a b) : GoalS regs frames s0 (.bin op a b) := by
  sto_case [scalarResult_sto]
theorem sx_arrayOf (r sz) : GoalS regs frames s0 (.arrayOf r sz) := by
  sto_case [sizeRejected]
theorem sx_invert (a) : GoalS regs frames s0 (.invert a) := by
  sto_case [scalarResult_sto]
theorem sx_reveal (a) : GoalS regs frames s0 (.reveal a) := by
  sto_case [scalarResult_sto]
theorem sx_truncPr (a b) : GoalS regs frames s0 (.truncPr a b) := by
  sto_case [scalarResult_sto]
theorem sx_publicEquals (a b) : GoalS regs frames s0 (.publicEquals a b) := by
  sto_case [scalarResult_sto]
theorem sx_ifElse (c a b) : GoalS regs frames s0 (.ifElse c a b) := by
  sto_case [scalarResult_sto]
theorem sx_random (t) : GoalS regs frames s0 (.random t) := by
  sto_case [scalarResult_sto]
theorem sx_radd (k a) : GoalS regs frames s0 (.radd k a) := by
  sto_case [scalarResult_sto]
theorem sx_arrayNew (xs) : GoalS regs frames s0 (.arrayNew xs) := by
  sto_case' [mapM_getVal_spec, childIds_spec, mapM_toMir_spec]
theorem sx_tupleNew (a b) : GoalS regs frames s0 (.tupleNew a b) := by
  sto_case' [childIds_spec]
theorem sx_ntupleNew (xs) : GoalS regs frames s0 (.ntupleNew xs) := by
  sto_case' [mapM_getVal_spec, childIds_spec]
theorem sx_objectNew (fs) : GoalS regs frames s0 (.objectNew fs) := by
  sto_case' [mapM_fields_spec, childIds_spec]
theorem sx_ntupleGet (t i) : GoalS regs frames s0 (.ntupleGet t i) := by
  sto_case [genAccessor_sto]
theorem sx_objectGet (o key) : GoalS regs frames s0 (.objectGet o key) := by
  sto_case [genAccessor_sto]
theorem sx_zip (a b) : GoalS regs frames s0 (.zip a b) := by
  sto_case []
theorem sx_unzip (a) : GoalS regs frames s0 (.unzip a) := by
  sto_case []
theorem sx_map (a f) : GoalS regs frames s0 (.map a f) := by
  sto_case []
theorem sx_reduce (a f init) : GoalS regs frames s0 (.reduce a f init) := by
  sto_case []
theorem sx_innerProduct (a b) : GoalS regs frames s0 (.innerProduct a b) := by
  sto_case []
theorem sx_beginFn (name params) : GoalS regs frames s0 (.beginFn name params) := by
  sto_case [bindParams_sto]
theorem sx_endFn (ret retAnn) : GoalS regs frames s0 (.endFn ret retAnn) := by
  sto_case []
theorem sx_call (f args kws) : GoalS regs frames s0 (.call f args kws) := by
  sto_case' [mapM_getVal_spec, childIds_spec]
end

/-- **Every command**, accepted or rejected: stored ids stay stored, the store stays closed, and whatever the new
registers and the new function bracket hold is stored. -/
theorem exec_sto (regs : List RVal) (frames : List Frame) (c : Cmd) (s0 : St)
    (hr : RegsSto s0.ops regs) (hf : FramesSto s0.ops frames) : GoalS regs frames s0 c := by
  cases c with
  | party nm => exact sx_party regs frames s0 hr hf nm
  | inputObj a b p => exact sx_inputObj regs frames s0 hr hf a b p
  | wrap t r => exact sx_wrap regs frames s0 hr hf t r
  | arrayOf r sz => exact sx_arrayOf regs frames s0 hr hf r sz
  | lit b v => exact sx_lit regs frames s0 hr hf b v
  | bin op a b => exact sx_bin regs frames s0 hr hf op a b
  | invert a => exact sx_invert regs frames s0 hr hf a
  | reveal a => exact sx_reveal regs frames s0 hr hf a
  | truncPr a b => exact sx_truncPr regs frames s0 hr hf a b
  | publicEquals a b => exact sx_publicEquals regs frames s0 hr hf a b
  | ifElse c a b => exact sx_ifElse regs frames s0 hr hf c a b
  | random t => exact sx_random regs frames s0 hr hf t
  | radd k a => exact sx_radd regs frames s0 hr hf k a
  | arrayNew xs => exact sx_arrayNew regs frames s0 hr hf xs
  | tupleNew a b => exact sx_tupleNew regs frames s0 hr hf a b
  | ntupleNew xs => exact sx_ntupleNew regs frames s0 hr hf xs
  | objectNew fs => exact sx_objectNew regs frames s0 hr hf fs
  | ntupleGet t i => exact sx_ntupleGet regs frames s0 hr hf t i
  | objectGet o key => exact sx_objectGet regs frames s0 hr hf o key
  | zip a b => exact sx_zip regs frames s0 hr hf a b
  | unzip a => exact sx_unzip regs frames s0 hr hf a
  | map a f => exact sx_map regs frames s0 hr hf a f
  | reduce a f init => exact sx_reduce regs frames s0 hr hf a f init
  | innerProduct a b => exact sx_innerProduct regs frames s0 hr hf a b
  | beginFn name params => exact sx_beginFn regs frames s0 hr hf name params
  | endFn ret retAnn => exact sx_endFn regs frames s0 hr hf ret retAnn
  | call f args kws => exact sx_call regs frames s0 hr hf f args kws
  | nop => exact sx_nop regs frames s0 hr hf

/-- the machine invariant: closed store; registers and open function brackets hold stored ids only -/
def MachSto (m : Mach) : Prop := StoL m.st.ops ∧ RegsSto m.st.ops m.regs ∧ FramesSto m.st.ops m.frames

theorem regsSto_replicate_dead (ops) (k : Nat) : RegsSto ops (List.replicate k .dead) := by
  intro r hr x hx
  have := List.eq_of_mem_replicate hr
  subst this
  simp [RVal.sids] at hx

theorem step_sto (m : Mach) (c : Cmd) (h : MachSto m) : MachSto (step m c).1 := by
  obtain ⟨hw, hr, hf⟩ := h
  have hx := triple_run _ m.st _ _ (exec_sto m.regs m.frames c m.st hr hf)
  unfold step
  generalize hrun : (exec m.regs m.frames c).run.run m.st = r at hx ⊢
  obtain ⟨e, s'⟩ := r
  cases e with
  | ok v =>
    obtain ⟨vals, frames'⟩ := v
    simp only at hx ⊢
    refine ⟨hx.1.2 hw, RegsSto.append (hr.mono hx.1.1) hx.2.1, ?_⟩
    intro fr hfr
    rcases hx.2.2 fr hfr with h | h
    · exact fun p hp => hx.1.1 _ (hf fr h p hp)
    · exact h
  | error err =>
    simp only at hx ⊢
    refine ⟨hx.2 hw, RegsSto.append (hr.mono hx.1) (regsSto_replicate_dead _ _), ?_⟩
    have hmono : FramesSto s'.ops m.frames := hf.mono hx.1
    cases c <;> first
      | exact hmono
      | exact fun fr hfr => hmono fr (List.mem_of_mem_drop hfr)

theorem runCmds_sto (cs : List Cmd) : ∀ (m : Mach), MachSto m → MachSto (runCmds m cs).1 := by
  induction cs with
  | nil => intro m h; exact h
  | cons c cs ih =>
    intro m h
    simp only [runCmds]
    exact ih _ (step_sto m c h)

theorem machSto_init : MachSto {} := ⟨trivial, regsSto_nil _, by simp [FramesSto]⟩

/-- **Whatever program is traced**, the store it leaves is closed: each record mentions only ids stored before it,
and every operation id a register holds is stored. -/
theorem trace_stored (cs : List Cmd) : MachSto (runCmds {} cs).1 := runCmds_sto cs {} machSto_init

end NadaVerif.Lemmas
