/-
C08 — tracing is equivariant under the id shift an earlier history induces.

`Val.shift k`, `RVal.shift k`, `Frame.shift k`, `AstOp.shift k`: add `k` to every operation id.  `AstOp.eraseIdx` forgets the
position of a literal in the process-wide literal table (the "literal name": C08 compares MIRs up to literal renaming).
`Rel k hist s t`: state `t` is state `s` with every id shifted by `k`, on top of the records `hist` of an earlier history,
up to literal names (the literal tables themselves are unrelated).
`Sim R Q x y`: from related states the two computations fail alike (same error class) or succeed with `Q`-related results,
in related states.
-/
import NadaVerif.Trace
import NadaVerif.Lemmas.TraceStored
import NadaVerif.Lemmas.Rename

namespace NadaVerif

/-- the id shift -/
def sh (k i : Nat) : Nat := i + k

mutual
def Val.shift (k : Nat) : Val → Val
  | .scalar t c l => .scalar t (c.map (sh k)) l
  | .array e n c => .array (Elem.shift k e) n (c.map (sh k))
  | .tuple l r c => .tuple (Elem.shift k l) (Elem.shift k r) (c.map (sh k))
  | .ntuple vs c => .ntuple (Vals.shift k vs) (c.map (sh k))
  | .object fs c => .object (VFields.shift k fs) (c.map (sh k))
def Elem.shift (k : Nat) : Elem → Elem
  | .cls t => .cls t
  | .inst v => .inst (Val.shift k v)
  | .typeVar => .typeVar
  | .arrayType e n => .arrayType (Elem.shift k e) n
def Vals.shift (k : Nat) : Vals → Vals
  | .nil => .nil
  | .cons v vs => .cons (Val.shift k v) (Vals.shift k vs)
def VFields.shift (k : Nat) : VFields → VFields
  | .nil => .nil
  | .cons n v fs => .cons n (Val.shift k v) (VFields.shift k fs)
end

def RVal.shift (k : Nat) : RVal → RVal
  | .val v => .val (v.shift k)
  | .fn id ret ps => .fn (sh k id) ret ps
  | .party n => .party n
  | .input id n p d => .input (sh k id) n p d
  | .dead => .dead

def Frame.shift (k : Nat) (f : Frame) : Frame :=
  { f with fid := sh k f.fid, params := f.params.map fun p => (sh k p.1, p.2.shift k) }

def AstOp.shift (k : Nat) : AstOp → AstOp
  | .binary n l r ty => .binary n (sh k l) (sh k r) ty
  | .unary n c ty => .unary n (sh k c) ty
  | .ifElse c a b ty => .ifElse (sh k c) (sh k a) (sh k b) ty
  | .random ty => .random ty
  | .input n p d ty => .input n p d ty
  | .literal v i ty => .literal v i ty
  | .reduce c f i ty => .reduce (sh k c) (sh k f) (sh k i) ty
  | .map c f ty => .map (sh k c) (sh k f) ty
  | .new n es ty => .new n (es.map (sh k)) ty
  | .call as f ty => .call (as.map (sh k)) (sh k f) ty
  | .argRef n f ty => .argRef n (sh k f) ty
  | .function n args c ty => .function n (args.map (sh k)) (sh k c) ty
  | .ntupleAcc i s ty => .ntupleAcc i (sh k s) ty
  | .objectAcc key s ty => .objectAcc key (sh k s) ty

def AstOp.isLit : AstOp → Bool
  | .literal .. => true
  | _ => false

/-- forget the literal's position in the process-wide table -/
def AstOp.eraseIdx : AstOp → AstOp
  | .literal v _ ty => .literal v 0 ty
  | op => op

end NadaVerif

namespace NadaVerif.Lemmas
open NadaVerif

def eraseE (e : Id × AstOp) : Id × AstOp := (e.1, e.2.eraseIdx)
def shiftEraseE (k : Nat) (e : Id × AstOp) : Id × AstOp := (sh k e.1, (e.2.shift k).eraseIdx)

/-- the literal renaming two literal tables induce: index `i` of `ls` goes to the index of the same key in `lt`
(indices outside `ls` go beyond `lt`, so that the map is injective everywhere) -/
def mkLit (ls lt : List String) (i : Nat) : Nat :=
  match ls[i]? with
  | some key => lt.idxOf key
  | none => lt.length + i

/-- the renaming an earlier history induces: ids shifted, literal names by key -/
def shiftRen (k : Nat) (ls lt : List String) : Ren := ⟨sh k, mkLit ls lt⟩

/-- `t` is `s` renamed on top of `hist`: ids shifted by `k`, every literal under the name its key has in `t`'s table -/
structure Rel (k : Nat) (hist : List (Id × AstOp)) (s t : St) : Prop where
  counter : t.counter = s.counter + k
  ops : t.ops = s.ops.map (renE (shiftRen k s.lits t.lits)) ++ hist
  nodup : s.lits.Nodup
  sub : ∀ key ∈ s.lits, key ∈ t.lits
  inv : ∀ e ∈ s.ops, ∀ v i ty, e.2 = AstOp.literal v i ty → i < s.lits.length

/-- the two computations behave alike from related states -/
def SimAt {α β : Type} (R : St → St → Prop) (Q : α → β → Prop) (x : M α) (y : M β) (s t : St) : Prop :=
  match x.run.run s, y.run.run t with
  | (.ok a, s'), (.ok b, t') => Q a b ∧ R s' t'
  | (.error e, s'), (.error e', t') => e = e' ∧ R s' t'
  | _, _ => False

def Sim {α β : Type} (R : St → St → Prop) (Q : α → β → Prop) (x : M α) (y : M β) : Prop :=
  ∀ s t, R s t → SimAt R Q x y s t

theorem SimAt.mono {α β : Type} {R R' : St → St → Prop} {Q : α → β → Prop} {x : M α} {y : M β} {s t : St}
    (hRR : ∀ s t, R s t → R' s t) (h : SimAt R Q x y s t) : SimAt R' Q x y s t := by
  unfold SimAt at h ⊢
  generalize x.run.run s = r1 at h ⊢
  generalize y.run.run t = r2 at h ⊢
  obtain ⟨e1, s1⟩ := r1
  obtain ⟨e2, s2⟩ := r2
  cases e1 <;> cases e2 <;> first | exact h.elim | exact ⟨h.1, hRR _ _ h.2⟩

theorem Sim.pure {α β} {R : St → St → Prop} {Q : α → β → Prop} {a : α} {b : β} (h : Q a b) :
    Sim R Q (Pure.pure a : M α) (Pure.pure b : M β) := by
  intro s t hR
  simpa [SimAt, ExceptT.run, StateT.run, Pure.pure, ExceptT.pure, ExceptT.mk, StateT.pure] using ⟨h, hR⟩

theorem Sim.throw {α β} {R : St → St → Prop} {Q : α → β → Prop} (e : Err) :
    Sim R Q (throw e : M α) (throw e : M β) := by
  intro s t hR
  simpa [SimAt, ExceptT.run, StateT.run, MonadExcept.throw, throw, throwThe, MonadExceptOf.throw, ExceptT.mk, Pure.pure, StateT.pure] using hR

theorem Sim.bind {α β γ δ} {R : St → St → Prop} {Q : α → β → Prop} {Q' : γ → δ → Prop}
    {x : M α} {y : M β} {f : α → M γ} {g : β → M δ}
    (h1 : Sim R Q x y) (h2 : ∀ a b, Q a b → Sim R Q' (f a) (g b)) : Sim R Q' (x >>= f) (y >>= g) := by
  intro s t hR
  have := h1 s t hR
  simp only [SimAt, ExceptT.run, StateT.run, Bind.bind, ExceptT.bind, ExceptT.mk, StateT.bind, ExceptT.bindCont] at this ⊢
  generalize hx : x s = rx at this ⊢
  generalize hy : y t = ry at this ⊢
  obtain ⟨ex, s'⟩ := rx
  obtain ⟨ey, t'⟩ := ry
  cases ex with
  | error e =>
    cases ey with
    | error e' => simpa [Pure.pure, StateT.pure] using this
    | ok b => exact this.elim
  | ok a =>
    cases ey with
    | error e' => exact this.elim
    | ok b =>
      have h3 := h2 a b this.1 s' t' this.2
      simpa only [SimAt, ExceptT.run, StateT.run] using h3

end NadaVerif.Lemmas

namespace NadaVerif.Lemmas
open NadaVerif

variable {k : Nat} {hist : List (Id × AstOp)}

theorem ren_nonlit (op : AstOp) (l : Nat → Nat) (h : op.isLit = false) : op.ren ⟨sh k, l⟩ = op.shift k := by
  cases op <;> simp_all [AstOp.ren, AstOp.shift, AstOp.isLit]

theorem erase_nonlit {op op' : AstOp} (h : op.isLit = false) (he : op'.eraseIdx = (op.shift k).eraseIdx) :
    op' = op.shift k := by
  cases op <;> cases op' <;> simp_all [AstOp.shift, AstOp.eraseIdx, AstOp.isLit]

theorem Sim.alloc : Sim (Rel k hist) (fun a b => b = sh k a) alloc alloc := by
  intro s t hR
  simp only [SimAt, alloc, ExceptT.run, StateT.run, Bind.bind, ExceptT.bind, ExceptT.mk, StateT.bind, ExceptT.bindCont, get, getThe,
    MonadStateOf.get, liftM, monadLift, MonadLift.monadLift, ExceptT.lift, StateT.get, Pure.pure, StateT.pure, set, MonadStateOf.set,
    StateT.set, Functor.map, StateT.map, ExceptT.pure]
  refine ⟨?_, ⟨?_, hR.ops, hR.nodup, hR.sub, hR.inv⟩⟩
  · rw [hR.counter]; simp only [sh]; omega
  · simp only [hR.counter]; omega

/-- storing a record that is not a literal -/
theorem Sim.put {i j : Id} {op op' : AstOp} (hi : j = sh k i) (hop : op'.eraseIdx = (op.shift k).eraseIdx)
    (hnl : op.isLit = false := by rfl) :
    Sim (Rel k hist) (fun _ _ => True) (put i op) (put j op') := by
  intro s t hR
  subst hi
  have hop' := erase_nonlit hnl hop
  subst hop'
  simp only [SimAt, put, modify, modifyGet, MonadStateOf.modifyGet, ExceptT.run, StateT.run, liftM, monadLift, MonadLift.monadLift,
    ExceptT.lift, StateT.modifyGet, Functor.map, StateT.map, Pure.pure, StateT.pure, ExceptT.mk, Bind.bind, StateT.bind]
  refine ⟨trivial, ⟨hR.counter, ?_, hR.nodup, hR.sub, ?_⟩⟩
  · simp only [List.map_cons, List.cons_append, hR.ops, renE, shiftRen, ren_nonlit _ _ hnl]
  · intro e he v n ty heq
    simp only [List.mem_cons] at he
    rcases he with rfl | he
    · simp only at heq; subst heq; simp [AstOp.isLit] at hnl
    · exact hR.inv e he v n ty heq

/-! ### the literal table -/

theorem idxOf?_eq (l : List String) (a : String) : l.idxOf? a = if a ∈ l then some (l.idxOf a) else none := by
  induction l with
  | nil => simp
  | cons x xs ih =>
    simp only [List.idxOf?_cons, List.idxOf_cons, ih, List.mem_cons]
    by_cases h : x = a
    · simp [h]
    · have h' : ¬ a = x := fun e => h e.symm
      have hb : (x == a) = false := by simp [h]
      simp [h', hb]

/-- `LiteralASTOperation.__init__` on the table alone: the key's index, and the table afterwards -/
def litStep (ls : List String) (key : String) : Nat × List String :=
  if key ∈ ls then (ls.idxOf key, ls) else (ls.length, ls ++ [key])

theorem litStep_get (ls : List String) (key : String) : (litStep ls key).2[(litStep ls key).1]? = some key := by
  unfold litStep
  split
  · rename_i h
    have := List.idxOf_lt_length_of_mem h
    simp [List.getElem?_eq_getElem this]
  · simp

theorem litStep_idx (ls : List String) (key : String) : (litStep ls key).2.idxOf key = (litStep ls key).1 := by
  unfold litStep
  split
  · rfl
  · rename_i h
    simp [List.idxOf_append, h]

theorem litStep_mem (ls : List String) (key : String) : key ∈ (litStep ls key).2 := by
  unfold litStep; split <;> simp [*]

theorem litStep_cases (ls : List String) (key : String) :
    (litStep ls key).2 = ls ∨ (key ∉ ls ∧ (litStep ls key).2 = ls ++ [key]) := by
  unfold litStep; split <;> simp [*]

theorem litStep_lt (ls : List String) (key : String) : (litStep ls key).1 < (litStep ls key).2.length := by
  have := litStep_get ls key
  exact (List.getElem?_eq_some_iff.mp this).1

theorem litIndex_run (key : String) (s : St) :
    (litIndex key).run.run s = (.ok (litStep s.lits key).1, { s with lits := (litStep s.lits key).2 }) := by
  unfold litIndex litStep
  simp only [idxOf?_eq]
  by_cases hm : key ∈ s.lits
  · simp [hm, ExceptT.run, StateT.run, bind, ExceptT.bind, ExceptT.mk, StateT.bind, ExceptT.bindCont, get, getThe, MonadStateOf.get,
      liftM, monadLift, MonadLift.monadLift, ExceptT.lift, StateT.get, pure, StateT.pure, ExceptT.pure, Functor.map, StateT.map]
  · simp [hm, ExceptT.run, StateT.run, bind, ExceptT.bind, ExceptT.mk, StateT.bind, ExceptT.bindCont, get, getThe, MonadStateOf.get,
      liftM, monadLift, MonadLift.monadLift, ExceptT.lift, StateT.get, pure, StateT.pure, ExceptT.pure, Functor.map, StateT.map,
      set, MonadStateOf.set, StateT.set]

/-- growing both tables by the same key leaves the renaming of the old indices alone -/
theorem mkLit_stable (ls lt : List String) (key : String) (hsub : ∀ x ∈ ls, x ∈ lt) (i : Nat) (hi : i < ls.length) :
    mkLit (litStep ls key).2 (litStep lt key).2 i = mkLit ls lt i := by
  have h1 : (litStep ls key).2[i]? = ls[i]? := by
    rcases litStep_cases ls key with h | ⟨_, h⟩ <;> rw [h]
    exact List.getElem?_append_left hi
  unfold mkLit
  rw [h1, List.getElem?_eq_getElem hi]
  simp only
  have hm : ls[i] ∈ lt := hsub _ (List.getElem_mem hi)
  rcases litStep_cases lt key with h | ⟨_, h⟩ <;> rw [h]
  rw [List.idxOf_append, if_pos hm]

theorem mkLit_new (ls lt : List String) (key : String) :
    mkLit (litStep ls key).2 (litStep lt key).2 (litStep ls key).1 = (litStep lt key).1 := by
  unfold mkLit
  rw [litStep_get]
  exact litStep_idx lt key

theorem mkLit_inj (ls lt : List String) (hn : ls.Nodup) (hsub : ∀ x ∈ ls, x ∈ lt) (a b : Nat)
    (h : mkLit ls lt a = mkLit ls lt b) : a = b := by
  unfold mkLit at h
  by_cases ha : a < ls.length
  · by_cases hb : b < ls.length
    · rw [List.getElem?_eq_getElem ha, List.getElem?_eq_getElem hb] at h
      simp only at h
      have ma : ls[a] ∈ lt := hsub _ (List.getElem_mem ha)
      have mb : ls[b] ∈ lt := hsub _ (List.getElem_mem hb)
      have la := List.idxOf_lt_length_of_mem ma
      have e1 : lt[lt.idxOf ls[a]] = ls[a] := List.getElem_idxOf la
      have lb := List.idxOf_lt_length_of_mem mb
      have e2 : lt[lt.idxOf ls[b]] = ls[b] := List.getElem_idxOf lb
      have : ls[a] = ls[b] := by rw [← e1, ← e2]; simp only [h]
      exact (List.getElem_inj hn).mp this
    · rw [List.getElem?_eq_getElem ha, List.getElem?_eq_none (by omega)] at h
      simp only at h
      have := List.idxOf_lt_length_of_mem (hsub _ (List.getElem_mem ha))
      omega
  · by_cases hb : b < ls.length
    · rw [List.getElem?_eq_none (by omega), List.getElem?_eq_getElem hb] at h
      simp only at h
      have := List.idxOf_lt_length_of_mem (hsub _ (List.getElem_mem hb))
      omega
    · rw [List.getElem?_eq_none (by omega), List.getElem?_eq_none (by omega)] at h
      simp only at h
      omega

theorem shiftRen_inj (ls lt : List String) (hn : ls.Nodup) (hsub : ∀ x ∈ ls, x ∈ lt) : Ren.Inj (shiftRen k ls lt) :=
  ⟨fun a b h => by simp only [shiftRen, sh] at h; omega, mkLit_inj ls lt hn hsub⟩

/-- records whose literal indices lie inside the old table are renamed alike by the old and the grown renaming -/
theorem map_renE_stable (ops : List (Id × AstOp)) (ls lt : List String) (key : String) (hsub : ∀ x ∈ ls, x ∈ lt)
    (hinv : ∀ e ∈ ops, ∀ v i ty, e.2 = AstOp.literal v i ty → i < ls.length) :
    ops.map (renE (shiftRen k (litStep ls key).2 (litStep lt key).2)) = ops.map (renE (shiftRen k ls lt)) := by
  apply List.map_congr_left
  intro e he
  obtain ⟨id, op⟩ := e
  simp only [renE, Prod.mk.injEq]
  refine ⟨rfl, ?_⟩
  cases op with
  | literal v i ty =>
    simp only [AstOp.ren, shiftRen, AstOp.literal.injEq, true_and, and_true]
    exact mkLit_stable ls lt key hsub i (hinv _ he v i ty rfl)
  | _ => simp [AstOp.ren, shiftRen]

theorem Sim.liftE {α} {R : St → St → Prop} (e : Except Err α) : Sim R (fun a b => b = a) (liftE e) (liftE e) := by
  cases e with
  | ok a => exact Sim.pure rfl
  | error e => exact Sim.throw e

end NadaVerif.Lemmas

namespace NadaVerif.Lemmas
open NadaVerif

variable {k : Nat} {hist : List (Id × AstOp)}

mutual
theorem toMir_shift (k : Nat) : ∀ (v : Val), (v.shift k).toMir = v.toMir
  | .scalar t c l => by simp [Val.shift, Val.toMir]
  | .array e n c => by simp [Val.shift, Val.toMir, innerType_shift k e]
  | .tuple l r c => by simp [Val.shift, Val.toMir, sideType_shift k l, sideType_shift k r]
  | .ntuple vs c => by simp [Val.shift, Val.toMir, memberTypes_shift k vs]
  | .object fs c => by simp [Val.shift, Val.toMir, fieldTypes_shift k fs]
theorem innerType_shift (k : Nat) : ∀ (e : Elem), (e.shift k).innerType = e.innerType
  | .cls t => by simp [Elem.shift, Elem.innerType]
  | .inst v => by simp [Elem.shift, Elem.innerType, toMir_shift k v]
  | .typeVar => by simp [Elem.shift, Elem.innerType]
  | .arrayType e n => by simp [Elem.shift, Elem.innerType, asInstance_shift k e]
theorem sideType_shift (k : Nat) : ∀ (e : Elem), (e.shift k).sideType = e.sideType
  | .cls t => by simp [Elem.shift, Elem.sideType]
  | .inst v => by simp [Elem.shift, Elem.sideType, toMir_shift k v]
  | .typeVar => by simp [Elem.shift, Elem.sideType]
  | .arrayType e n => by simp [Elem.shift, Elem.sideType, asInstance_shift k e]
theorem asInstance_shift (k : Nat) : ∀ (e : Elem), (e.shift k).asInstanceToMir = e.asInstanceToMir
  | .cls t => by simp [Elem.shift, Elem.asInstanceToMir]
  | .inst v => by simp [Elem.shift, Elem.asInstanceToMir, toMir_shift k v]
  | .typeVar => by simp [Elem.shift, Elem.asInstanceToMir]
  | .arrayType e n => by simp [Elem.shift, Elem.asInstanceToMir, asInstance_shift k e]
theorem memberTypes_shift (k : Nat) : ∀ (vs : Vals), (vs.shift k).memberTypes = vs.memberTypes
  | .nil => by simp [Vals.shift, Vals.memberTypes]
  | .cons v vs => by simp [Vals.shift, Vals.memberTypes, toMir_shift k v, memberTypes_shift k vs]
theorem fieldTypes_shift (k : Nat) : ∀ (fs : VFields), (fs.shift k).memberTypes = fs.memberTypes
  | .nil => by simp [VFields.shift, VFields.memberTypes]
  | .cons n v fs => by simp [VFields.shift, VFields.memberTypes, toMir_shift k v, fieldTypes_shift k fs]
end

theorem child_shift (k : Nat) (v : Val) : (v.shift k).child = v.child.map (sh k) := by
  cases v <;> simp [Val.shift, Val.child]

theorem mkLiteral_run (base : Base) (v : LitVal) (s : St) :
    (mkLiteral base v).run.run s =
      (.ok (.scalar ⟨.const, base⟩ (some (s.counter + 1)) (some v)),
       { counter := s.counter + 1,
         ops := (s.counter + 1, .literal v.str (litStep s.lits (litKey v ⟨.const, base⟩)).1 (.scalar (STy.mirName ⟨.const, base⟩))) :: s.ops,
         lits := (litStep s.lits (litKey v ⟨.const, base⟩)).2 }) := by
  have hl := litIndex_run (litKey v ⟨.const, base⟩) { s with counter := s.counter + 1 }
  simp only [ExceptT.run, StateT.run] at hl
  simp only [mkLiteral, alloc, put, modify, modifyGet, MonadStateOf.modifyGet, ExceptT.run, StateT.run, Bind.bind, ExceptT.bind,
    ExceptT.mk, StateT.bind, ExceptT.bindCont, get, getThe, MonadStateOf.get, liftM, monadLift, MonadLift.monadLift, ExceptT.lift,
    StateT.get, Pure.pure, StateT.pure, set, MonadStateOf.set, StateT.set, Functor.map, StateT.map, ExceptT.pure, StateT.modifyGet, hl]

theorem mkLiteral_sim (base : Base) (v : LitVal) :
    Sim (Rel k hist) (fun a b => b = a.shift k) (mkLiteral base v) (mkLiteral base v) := by
  intro s t hR
  unfold SimAt
  rw [mkLiteral_run, mkLiteral_run]
  refine ⟨by simp [Val.shift, hR.counter, sh]; exact Nat.add_right_comm _ _ _, ⟨by simp only [hR.counter]; omega, ?_, ?_, ?_, ?_⟩⟩
  · have hm := map_renE_stable (k := k) s.ops s.lits t.lits (litKey v ⟨.const, base⟩) hR.sub hR.inv
    simp only [List.map_cons, List.cons_append]
    rw [hm, hR.ops]
    simp only [renE, AstOp.ren, shiftRen, mkLit_new, hR.counter, sh]
    congr 2
    exact Nat.add_right_comm _ _ _
  · rcases litStep_cases s.lits (litKey v ⟨.const, base⟩) with h | ⟨hn, h⟩ <;> rw [h]
    · exact hR.nodup
    · exact List.nodup_append.mpr ⟨hR.nodup, by simp,
        fun a ha b hb => by simp only [List.mem_singleton] at hb; subst hb; exact fun e => hn (e ▸ ha)⟩
  · intro key hk
    rcases litStep_cases s.lits (litKey v ⟨.const, base⟩) with h | ⟨_, h⟩ <;> rw [h] at hk
    · rcases litStep_cases t.lits (litKey v ⟨.const, base⟩) with h2 | ⟨_, h2⟩ <;> rw [h2]
      · exact hR.sub _ hk
      · exact List.mem_append_left _ (hR.sub _ hk)
    · rcases List.mem_append.mp hk with hk | hk
      · rcases litStep_cases t.lits (litKey v ⟨.const, base⟩) with h2 | ⟨_, h2⟩ <;> rw [h2]
        · exact hR.sub _ hk
        · exact List.mem_append_left _ (hR.sub _ hk)
      · simp only [List.mem_singleton] at hk
        subst hk
        exact litStep_mem _ _
  · intro e he v' n ty heq
    simp only [List.mem_cons] at he
    rcases he with rfl | he
    · simp only [AstOp.literal.injEq] at heq
      obtain ⟨_, rfl, _⟩ := heq
      exact litStep_lt _ _
    · have := hR.inv e he v' n ty heq
      rcases litStep_cases s.lits (litKey v ⟨.const, base⟩) with h | ⟨_, h⟩ <;> rw [h]
      · exact this
      · simp only [List.length_append, List.length_singleton]; omega

end NadaVerif.Lemmas

namespace NadaVerif.Lemmas
open NadaVerif

variable {k : Nat} {hist : List (Id × AstOp)}

theorem scalarResult_sim (out : Out) (foldE : Option (Py.PyExpr × Base)) (l r : Option LitVal) (mkOp mkOp' : MTy → AstOp)
    (hmk : ∀ ty, (mkOp' ty).eraseIdx = ((mkOp ty).shift k).eraseIdx) (hnl : ∀ ty, (mkOp ty).isLit = false) :
    Sim (Rel k hist) (fun a b => b = a.shift k) (scalarResult out foldE l r mkOp) (scalarResult out foldE l r mkOp') := by
  unfold scalarResult
  cases out with
  | reject => exact Sim.throw _
  | ok t folded =>
    cases folded with
    | true =>
      simp only
      split
      · split
        · exact Sim.throw _
        · split
          · exact mkLiteral_sim _ _
          · exact Sim.throw _
      · exact Sim.throw _
    | false =>
      simp only
      refine Sim.bind Sim.alloc (fun a b hab => ?_)
      subst hab
      refine Sim.bind (Sim.put rfl (hmk _) (hnl _)) (fun _ _ _ => ?_)
      exact Sim.pure (by simp [Val.shift])

def shiftRegs (k : Nat) (regs : List RVal) : List RVal := regs.map (RVal.shift k)
def shiftFrames (k : Nat) (fs : List Frame) : List Frame := fs.map (Frame.shift k)

theorem shiftRegs_get (k : Nat) (regs : List RVal) (r : Nat) : (shiftRegs k regs)[r]? = (regs[r]?).map (RVal.shift k) := by
  simp [shiftRegs]

theorem getVal_sim {R : St → St → Prop} (regs : List RVal) (r : Reg) :
    Sim R (fun a b => b = a.shift k) (getVal regs r) (getVal (shiftRegs k regs) r) := by
  unfold getVal
  rw [shiftRegs_get]
  cases h : regs[r]? with
  | none => exact Sim.throw _
  | some x =>
    cases x <;> simp only [Option.map, RVal.shift]
    · exact Sim.pure rfl
    · exact Sim.throw _
    · exact Sim.throw _
    · exact Sim.throw _
    · exact Sim.throw _

theorem getScalar_sim {R : St → St → Prop} (regs : List RVal) (r : Reg) :
    Sim R (fun a b => b = (a.1, sh k a.2.1, a.2.2)) (getScalar regs r) (getScalar (shiftRegs k regs) r) := by
  unfold getScalar
  refine Sim.bind (getVal_sim regs r) (fun a b hab => ?_)
  subst hab
  cases a with
  | scalar t c l =>
    cases c with
    | none => exact Sim.throw _
    | some c => exact Sim.pure rfl
  | _ => exact Sim.throw _

end NadaVerif.Lemmas

namespace NadaVerif.Lemmas
open NadaVerif

variable {k : Nat} {hist : List (Id × AstOp)}

def ResRel (k : Nat) (a b : List RVal × List Frame) : Prop := b = (shiftRegs k a.1, shiftFrames k a.2)

abbrev ExecSim (k : Nat) (hist : List (Id × AstOp)) (regs : List RVal) (frames : List Frame) (c : Cmd) : Prop :=
  Sim (Rel k hist) (ResRel k) (exec regs frames c) (exec (shiftRegs k regs) (shiftFrames k frames) c)

theorem one_sim {R : St → St → Prop} (frames : List Frame) (v : Val) :
    Sim R (ResRel k) (Pure.pure ([RVal.val v], frames) : M _) (Pure.pure ([RVal.val (v.shift k)], shiftFrames k frames) : M _) :=
  Sim.pure (by simp [ResRel, shiftRegs, RVal.shift])

theorem es_bin (regs : List RVal) (frames : List Frame) (op a b) : ExecSim k hist regs frames (.bin op a b) := by
  unfold ExecSim exec
  simp only
  refine Sim.bind (getScalar_sim regs a) (fun x y hxy => ?_)
  subst hxy
  obtain ⟨ta, ca, la⟩ := x
  refine Sim.bind (getScalar_sim regs b) (fun x y hxy => ?_)
  subst hxy
  obtain ⟨tb, cb, lb⟩ := x
  simp only
  refine Sim.bind (scalarResult_sim _ _ _ _ _ _ (by intro ty; simp [AstOp.shift]) (by intro ty; rfl)) (fun v w hvw => ?_)
  subst hvw
  exact one_sim frames v

end NadaVerif.Lemmas

namespace NadaVerif.Lemmas
open NadaVerif

variable {k : Nat} {hist : List (Id × AstOp)}

syntax "sim_scalar " term:max term:max : tactic
macro_rules
  | `(tactic| sim_scalar $regs $a) =>
    `(tactic| (refine Sim.bind (getScalar_sim $regs $a) (fun x y hxy => ?_); subst hxy; obtain ⟨_, _, _⟩ := x; simp only))

syntax "sim_result" : tactic
macro_rules
  | `(tactic| sim_result) =>
    `(tactic| (refine Sim.bind (scalarResult_sim _ _ _ _ _ _ (by intro ty; simp [AstOp.shift]) (by intro ty; rfl)) (fun v w hvw => ?_); subst hvw;
               exact one_sim _ v))

theorem es_nop (regs : List RVal) (frames : List Frame) : ExecSim k hist regs frames .nop := by
  unfold ExecSim exec; exact Sim.throw _

theorem es_party (regs : List RVal) (frames : List Frame) (n) : ExecSim k hist regs frames (.party n) := by
  unfold ExecSim exec; exact Sim.pure (by simp [ResRel, shiftRegs, RVal.shift])

theorem es_invert (regs : List RVal) (frames : List Frame) (a) : ExecSim k hist regs frames (.invert a) := by
  unfold ExecSim exec
  simp only
  sim_scalar regs a
  sim_result

theorem es_truncPr (regs : List RVal) (frames : List Frame) (a b) : ExecSim k hist regs frames (.truncPr a b) := by
  unfold ExecSim exec
  simp only
  sim_scalar regs a
  sim_scalar regs b
  sim_result

theorem es_publicEquals (regs : List RVal) (frames : List Frame) (a b) : ExecSim k hist regs frames (.publicEquals a b) := by
  unfold ExecSim exec
  simp only
  sim_scalar regs a
  sim_scalar regs b
  sim_result

theorem es_ifElse (regs : List RVal) (frames : List Frame) (c a b) : ExecSim k hist regs frames (.ifElse c a b) := by
  unfold ExecSim exec
  simp only
  sim_scalar regs c
  sim_scalar regs a
  sim_scalar regs b
  sim_result

theorem es_random (regs : List RVal) (frames : List Frame) (t) : ExecSim k hist regs frames (.random t) := by
  unfold ExecSim exec
  simp only
  sim_result

theorem es_reveal (regs : List RVal) (frames : List Frame) (a) : ExecSim k hist regs frames (.reveal a) := by
  unfold ExecSim exec
  simp only
  sim_scalar regs a
  split
  · exact Sim.pure (by simp [ResRel, shiftRegs, RVal.shift, Val.shift])
  · sim_result

end NadaVerif.Lemmas

namespace NadaVerif.Lemmas
open NadaVerif

variable {k : Nat} {hist : List (Id × AstOp)}

theorem es_lit (regs : List RVal) (frames : List Frame) (base v) : ExecSim k hist regs frames (.lit base v) := by
  unfold ExecSim exec
  simp only
  split
  all_goals first
    | exact Sim.throw _
    | (refine Sim.bind (mkLiteral_sim _ _) (fun v w hvw => ?_); subst hvw; exact one_sim _ v)

theorem es_radd (regs : List RVal) (frames : List Frame) (n a) : ExecSim k hist regs frames (.radd n a) := by
  unfold ExecSim exec
  simp only
  sim_scalar regs a
  split
  · exact Sim.throw _
  · refine Sim.bind (mkLiteral_sim _ _) (fun v w hvw => ?_)
    subst hvw
    cases v with
    | scalar tl cl ll =>
      cases cl with
      | none => exact Sim.throw _
      | some cl =>
        simp only [Val.shift, Option.map]
        sim_result
    | _ => exact Sim.throw _

theorem es_inputObj (regs : List RVal) (frames : List Frame) (name doc p) : ExecSim k hist regs frames (.inputObj name doc p) := by
  unfold ExecSim exec
  simp only
  rw [shiftRegs_get]
  cases h : regs[p]? with
  | none => exact Sim.throw _
  | some x =>
    cases x <;> simp only [Option.map, RVal.shift]
    case party pn =>
      refine Sim.bind Sim.alloc (fun a b hab => ?_)
      subst hab
      exact Sim.pure (by simp [ResRel, shiftRegs, RVal.shift])
    all_goals exact Sim.throw _

theorem es_wrap (regs : List RVal) (frames : List Frame) (t r) : ExecSim k hist regs frames (.wrap t r) := by
  unfold ExecSim exec
  simp only
  rw [shiftRegs_get]
  cases h : regs[r]? with
  | none => exact Sim.throw _
  | some x =>
    cases x <;> simp only [Option.map, RVal.shift]
    case input id name pn doc =>
      split
      · exact Sim.throw _
      · refine Sim.bind (Sim.put rfl (by simp [AstOp.shift])) (fun _ _ _ => ?_)
        exact Sim.pure (by simp [ResRel, shiftRegs, RVal.shift, Val.shift])
    all_goals exact Sim.throw _

end NadaVerif.Lemmas

namespace NadaVerif.Lemmas
open NadaVerif

variable {k : Nat} {hist : List (Id × AstOp)}

theorem mapM_cons_M {α β} (f : α → M β) (x : α) (xs : List α) :
    (x :: xs).mapM f = (do let b ← f x; let bs ← xs.mapM f; pure (b :: bs)) := by
  simp [List.mapM_cons]

theorem mapM_getVal_sim {R : St → St → Prop} (regs : List RVal) : ∀ (xs : List Reg),
    Sim R (fun a b => b = a.map (Val.shift k)) (xs.mapM (getVal regs)) (xs.mapM (getVal (shiftRegs k regs)))
  | [] => by simpa using Sim.pure (by simp)
  | x :: xs => by
    rw [mapM_cons_M, mapM_cons_M]
    refine Sim.bind (getVal_sim regs x) (fun a b hab => ?_)
    subst hab
    refine Sim.bind (mapM_getVal_sim regs xs) (fun as bs h => ?_)
    subst h
    exact Sim.pure (by simp)

theorem childOf_sim {R : St → St → Prop} (v : Val) :
    Sim R (fun a b => b = sh k a) (childOf v) (childOf (v.shift k)) := by
  unfold childOf
  rw [child_shift]
  cases v.child with
  | none => exact Sim.throw _
  | some c => exact Sim.pure rfl

theorem childIds_sim {R : St → St → Prop} : ∀ (vs : List Val),
    Sim R (fun a b => b = a.map (sh k)) (childIds vs) (childIds (vs.map (Val.shift k)))
  | [] => by simpa [childIds] using Sim.pure (by simp)
  | v :: vs => by
    unfold childIds
    rw [List.map_cons, mapM_cons_M, mapM_cons_M]
    refine Sim.bind (childOf_sim v) (fun a b hab => ?_)
    subst hab
    refine Sim.bind (childIds_sim vs) (fun as bs h => ?_)
    subst h
    exact Sim.pure (by simp)

theorem mapM_toMir_sim {R : St → St → Prop} : ∀ (vs : List Val),
    Sim R (fun a b => b = a) (vs.mapM (fun v => liftE v.toMir)) ((vs.map (Val.shift k)).mapM (fun v => liftE v.toMir))
  | [] => by simpa using Sim.pure (by simp)
  | v :: vs => by
    rw [List.map_cons, mapM_cons_M, mapM_cons_M, toMir_shift]
    refine Sim.bind (Sim.liftE _) (fun a b hab => ?_)
    subst hab
    refine Sim.bind (mapM_toMir_sim vs) (fun as bs h => ?_)
    subst h
    exact Sim.pure rfl

theorem sameClass_shift (a b : Val) : sameClass (a.shift k) (b.shift k) = sameClass a b := by
  cases a <;> cases b <;> simp [Val.shift, sameClass]

theorem ofList_shift : ∀ (vs : List Val), Vals.ofList (vs.map (Val.shift k)) = (Vals.ofList vs).shift k
  | [] => by simp [Vals.ofList, Vals.shift]
  | v :: vs => by simp [Vals.ofList, Vals.shift, ofList_shift vs]

theorem toList_shift : ∀ (vs : Vals), (vs.shift k).toList = vs.toList.map (Val.shift k)
  | .nil => by simp [Vals.toList, Vals.shift]
  | .cons v vs => by simp [Vals.toList, Vals.shift, toList_shift vs]

theorem fofList_shift : ∀ (fs : List (String × Val)),
    VFields.ofList (fs.map fun p => (p.1, p.2.shift k)) = (VFields.ofList fs).shift k
  | [] => by simp [VFields.ofList, VFields.shift]
  | (n, v) :: fs => by simp [VFields.ofList, VFields.shift, fofList_shift fs]

theorem ftoList_shift : ∀ (fs : VFields), (fs.shift k).toList = fs.toList.map fun p => (p.1, p.2.shift k)
  | .nil => by simp [VFields.toList, VFields.shift]
  | .cons n v fs => by simp [VFields.toList, VFields.shift, ftoList_shift fs]

theorem withChild_shift (v : Val) (c : Id) : (v.shift k).withChild (sh k c) = (v.withChild c).shift k := by
  cases v <;> simp [Val.shift, Val.withChild]

theorem isLiteralScalar_shift (v : Val) : isLiteralScalar (v.shift k) = isLiteralScalar v := by
  cases v <;> simp [Val.shift, isLiteralScalar]

theorem scalarClass_shift (e : Elem) : (e.shift k).scalarClass = e.scalarClass := by
  cases e with
  | inst v => cases v <;> simp [Elem.shift, Val.shift, Elem.scalarClass]
  | _ => simp [Elem.shift, Elem.scalarClass]

end NadaVerif.Lemmas

namespace NadaVerif.Lemmas
open NadaVerif

variable {k : Nat} {hist : List (Id × AstOp)}

theorem Sim.ite {α β} {R : St → St → Prop} {Q : α → β → Prop} {c : Prop} [Decidable c] {x y : M α} {x' y' : M β}
    (h1 : Sim R Q x x') (h2 : Sim R Q y y') : Sim R Q (if c then x else y) (if c then x' else y') := by
  split <;> assumption

theorem toMir_array_inst (v : Val) (n : Option Int) (c c' : Option Id) :
    (Val.array (.inst (v.shift k)) n c').toMir = (Val.array (.inst v) n c).toMir := by
  simp [Val.toMir, Elem.innerType, toMir_shift]

theorem es_arrayNew (regs : List RVal) (frames : List Frame) (xs) : ExecSim k hist regs frames (.arrayNew xs) := by
  unfold ExecSim exec
  simp only
  refine Sim.bind (mapM_getVal_sim regs xs) (fun vs ws h => ?_)
  subst h
  cases vs with
  | nil => exact Sim.throw _
  | cons first rest =>
    simp only [List.map_cons]
    rw [toMir_shift]
    refine Sim.bind (Sim.liftE _) (fun fty fty' h => ?_)
    subst h
    have hm := mapM_toMir_sim (R := Rel k hist) (k := k) (first :: rest)
    simp only [List.map_cons] at hm
    refine Sim.bind hm (fun tys tys' h => ?_)
    subst h
    simp only [List.all_cons, List.all_map, sameClass_shift, Function.comp_def, List.length_cons, List.length_map]
    refine Sim.ite (Sim.throw _) ?_
    · refine Sim.bind Sim.alloc (fun a b hab => ?_)
      subst hab
      rw [toMir_array_inst first _ (some a)]
      refine Sim.bind (Sim.liftE _) (fun ty ty' h => ?_)
      subst h
      have hc := childIds_sim (R := Rel k hist) (k := k) (first :: rest)
      simp only [List.map_cons] at hc
      refine Sim.bind hc (fun ids ids' h => ?_)
      subst h
      refine Sim.bind (Sim.put rfl (by simp [AstOp.shift])) (fun _ _ _ => ?_)
      exact Sim.pure (by simp [ResRel, shiftRegs, RVal.shift, Val.shift, Elem.shift])

end NadaVerif.Lemmas

namespace NadaVerif.Lemmas
open NadaVerif

variable {k : Nat} {hist : List (Id × AstOp)}

syntax "sim_val " term:max term:max : tactic
macro_rules
  | `(tactic| sim_val $regs $a) =>
    `(tactic| (refine Sim.bind (getVal_sim $regs $a) (fun x y hxy => ?_); subst hxy))

syntax "sim_alloc" : tactic
macro_rules
  | `(tactic| sim_alloc) => `(tactic| (refine Sim.bind Sim.alloc (fun a b hab => ?_); subst hab))

syntax "sim_liftE" : tactic
macro_rules
  | `(tactic| sim_liftE) => `(tactic| (refine Sim.bind (Sim.liftE _) (fun ty ty' hty => ?_); subst hty))

syntax "sim_put" : tactic
macro_rules
  | `(tactic| sim_put) => `(tactic| (refine Sim.bind (Sim.put rfl (by simp [AstOp.shift])) (fun _ _ _ => ?_)))

syntax "sim_done" : tactic
macro_rules
  | `(tactic| sim_done) => `(tactic| exact Sim.pure (by simp [ResRel, shiftRegs, RVal.shift, Val.shift, Elem.shift]))

theorem toMir_tuple_inst (a b : Val) (c c' : Option Id) :
    (Val.tuple (.inst (a.shift k)) (.inst (b.shift k)) c').toMir = (Val.tuple (.inst a) (.inst b) c).toMir := by
  simp [Val.toMir, Elem.sideType, toMir_shift]

theorem es_tupleNew (regs : List RVal) (frames : List Frame) (a b) : ExecSim k hist regs frames (.tupleNew a b) := by
  unfold ExecSim exec
  simp only
  sim_val regs a
  rename_i va
  sim_val regs b
  rename_i vb
  sim_alloc
  rename_i id
  rw [toMir_tuple_inst va vb (some id)]
  sim_liftE
  have hc := childIds_sim (R := Rel k hist) (k := k) [va, vb]
  simp only [List.map_cons, List.map_nil] at hc
  refine Sim.bind hc (fun ids ids' h => ?_)
  subst h
  sim_put
  sim_done

theorem toMir_ntuple_ofList (vs : List Val) (c c' : Option Id) :
    (Val.ntuple (Vals.ofList (vs.map (Val.shift k))) c').toMir = (Val.ntuple (Vals.ofList vs) c).toMir := by
  simp [Val.toMir, ofList_shift, memberTypes_shift]

theorem es_ntupleNew (regs : List RVal) (frames : List Frame) (xs) : ExecSim k hist regs frames (.ntupleNew xs) := by
  unfold ExecSim exec
  simp only
  refine Sim.bind (mapM_getVal_sim regs xs) (fun vs ws h => ?_)
  subst h
  sim_alloc
  rename_i id
  rw [toMir_ntuple_ofList vs (some id)]
  sim_liftE
  refine Sim.bind (childIds_sim vs) (fun ids ids' h => ?_)
  subst h
  sim_put
  exact Sim.pure (by simp [ResRel, shiftRegs, RVal.shift, Val.shift, ofList_shift])

end NadaVerif.Lemmas

namespace NadaVerif.Lemmas
open NadaVerif

variable {k : Nat} {hist : List (Id × AstOp)}

theorem mapM_fields_sim {R : St → St → Prop} (regs : List RVal) : ∀ (fs : List (String × Reg)),
    Sim R (fun a b => b = a.map fun p => (p.1, p.2.shift k))
      (fs.mapM (fun (x : String × Reg) => do let v ← getVal regs x.2; pure (x.1, v)))
      (fs.mapM (fun (x : String × Reg) => do let v ← getVal (shiftRegs k regs) x.2; pure (x.1, v)))
  | [] => by simpa using Sim.pure (by simp)
  | (n, r) :: fs => by
    rw [mapM_cons_M, mapM_cons_M]
    have h1 : Sim R (fun (a b : String × Val) => b = (a.1, a.2.shift k)) (do let v ← getVal regs r; pure (n, v))
        (do let v ← getVal (shiftRegs k regs) r; pure (n, v)) :=
      Sim.bind (getVal_sim regs r) (fun a b hab => Sim.pure (by subst hab; rfl))
    refine Sim.bind h1 (fun a b hab => ?_)
    subst hab
    refine Sim.bind (mapM_fields_sim regs fs) (fun as bs h => ?_)
    subst h
    exact Sim.pure (by simp)

theorem toMir_object_ofList (vs : List (String × Val)) (c c' : Option Id) :
    (Val.object (VFields.ofList (vs.map fun p => (p.1, p.2.shift k))) c').toMir = (Val.object (VFields.ofList vs) c).toMir := by
  simp [Val.toMir, fofList_shift, fieldTypes_shift]

theorem es_objectNew (regs : List RVal) (frames : List Frame) (fs) : ExecSim k hist regs frames (.objectNew fs) := by
  unfold ExecSim exec
  simp only
  refine Sim.bind (mapM_fields_sim regs fs) (fun vs ws h => ?_)
  subst h
  simp only [List.map_map, Function.comp_def, List.length_map]
  refine Sim.ite (Sim.throw _) ?_
  sim_alloc
  rename_i id
  rw [toMir_object_ofList vs (some id)]
  sim_liftE
  have hc := childIds_sim (R := Rel k hist) (k := k) (vs.map (·.2))
  simp only [List.map_map, Function.comp_def] at hc
  refine Sim.bind hc (fun ids ids' h => ?_)
  subst h
  sim_put
  exact Sim.pure (by simp [ResRel, shiftRegs, RVal.shift, Val.shift, fofList_shift])

end NadaVerif.Lemmas

namespace NadaVerif.Lemmas
open NadaVerif

variable {k : Nat} {hist : List (Id × AstOp)}

theorem genAccessor_sim (m : Val) (id : Id) (mk mk' : MTy → AstOp)
    (hmk : ∀ ty, (mk' ty).eraseIdx = ((mk ty).shift k).eraseIdx) (hnl : ∀ ty, (mk ty).isLit = false) :
    Sim (Rel k hist) (fun a b => b = a.shift k) (genAccessor m id mk) (genAccessor (m.shift k) (sh k id) mk') := by
  cases m with
  | scalar t c l =>
    simp only [genAccessor, Val.shift]
    refine Sim.ite (Sim.pure (by simp [Val.shift])) ?_
    refine Sim.bind (Sim.put rfl (hmk _) (hnl _)) (fun _ _ _ => ?_)
    exact Sim.pure (by simp [Val.shift])
  | tuple l r c => simp only [genAccessor, Val.shift]; exact Sim.throw _
  | array e n c =>
    simp only [genAccessor, Val.shift]
    have := withChild_shift (k := k) (.array e n c) id
    simp only [Val.shift] at this
    rw [this, toMir_shift]
    sim_liftE
    refine Sim.bind (Sim.put rfl (hmk _) (hnl _)) (fun _ _ _ => ?_)
    exact Sim.pure rfl
  | ntuple vs c =>
    simp only [genAccessor, Val.shift]
    have := withChild_shift (k := k) (.ntuple vs c) id
    simp only [Val.shift] at this
    rw [this, toMir_shift]
    sim_liftE
    refine Sim.bind (Sim.put rfl (hmk _) (hnl _)) (fun _ _ _ => ?_)
    exact Sim.pure rfl
  | object fs c =>
    simp only [genAccessor, Val.shift]
    have := withChild_shift (k := k) (.object fs c) id
    simp only [Val.shift] at this
    rw [this, toMir_shift]
    sim_liftE
    refine Sim.bind (Sim.put rfl (hmk _) (hnl _)) (fun _ _ _ => ?_)
    exact Sim.pure rfl

end NadaVerif.Lemmas

namespace NadaVerif.Lemmas
open NadaVerif

variable {k : Nat} {hist : List (Id × AstOp)}

theorem es_ntupleGet (regs : List RVal) (frames : List Frame) (r i) : ExecSim k hist regs frames (.ntupleGet r i) := by
  unfold ExecSim exec
  simp only
  sim_val regs r
  rename_i v
  cases v with
  | ntuple vs c =>
    cases c with
    | none => exact Sim.throw _
    | some src =>
      simp only [Val.shift, Option.map, toList_shift, List.length_map]
      refine Sim.ite (Sim.throw _) ?_
      sim_alloc
      rw [List.getElem?_map]
      cases vs.toList[(if i < 0 then i + ↑vs.toList.length else i).toNat]? with
      | none => exact Sim.throw _
      | some m =>
        simp only [Option.map]
        refine Sim.bind (genAccessor_sim m _ _ _ (by intro ty; simp [AstOp.shift]) (by intro ty; rfl)) (fun v w hvw => ?_)
        subst hvw
        exact one_sim _ v
  | _ => exact Sim.throw _

theorem es_objectGet (regs : List RVal) (frames : List Frame) (r key) : ExecSim k hist regs frames (.objectGet r key) := by
  unfold ExecSim exec
  simp only
  sim_val regs r
  rename_i v
  cases v with
  | object fs c =>
    cases c with
    | none => exact Sim.throw _
    | some src =>
      simp only [Val.shift, Option.map, ftoList_shift]
      refine Sim.ite (Sim.throw _) ?_
      rw [List.find?_map]
      simp only [Function.comp_def]
      cases fs.toList.find? (fun x => x.1 == key) with
      | none => exact Sim.throw _
      | some p =>
        obtain ⟨n, m⟩ := p
        simp only [Option.map]
        sim_alloc
        refine Sim.bind (genAccessor_sim m _ _ _ (by intro ty; simp [AstOp.shift]) (by intro ty; rfl)) (fun v w hvw => ?_)
        subst hvw
        exact one_sim _ v
  | _ => exact Sim.throw _

end NadaVerif.Lemmas

namespace NadaVerif.Lemmas
open NadaVerif

variable {k : Nat} {hist : List (Id × AstOp)}

theorem toMir_zip (ea eb : Elem) (n : Option Int) (c c' : Option Id) :
    (Val.array (.inst (.tuple (ea.shift k) (eb.shift k) none)) n c').toMir =
      (Val.array (.inst (.tuple ea eb none)) n c).toMir := by
  simp [Val.toMir, Elem.innerType, sideType_shift]

theorem es_zip (regs : List RVal) (frames : List Frame) (a b) : ExecSim k hist regs frames (.zip a b) := by
  unfold ExecSim exec
  simp only
  sim_val regs a
  rename_i va
  sim_val regs b
  rename_i vb
  cases va with
  | array ea na ca =>
    cases ca with
    | none => cases vb <;> exact Sim.throw _
    | some ca =>
      cases vb with
      | array eb nb cb =>
        cases cb with
        | none => exact Sim.throw _
        | some cb =>
          simp only [Val.shift, Option.map]
          refine Sim.ite (Sim.throw _) ?_
          sim_alloc
          rename_i id
          rw [toMir_zip ea eb na (some id)]
          sim_liftE
          sim_put
          sim_done
      | _ => exact Sim.throw _
  | _ => cases vb <;> exact Sim.throw _

end NadaVerif.Lemmas

namespace NadaVerif.Lemmas
open NadaVerif

variable {k : Nat} {hist : List (Id × AstOp)}

theorem toMir_unzip (l r : Elem) (n : Option Int) (c c' : Option Id) :
    (Val.tuple (.arrayType (l.shift k) n) (.arrayType (r.shift k) n) c').toMir =
      (Val.tuple (.arrayType l n) (.arrayType r n) c).toMir := by
  simp [Val.toMir, Elem.sideType, asInstance_shift]

theorem es_unzip (regs : List RVal) (frames : List Frame) (a) : ExecSim k hist regs frames (.unzip a) := by
  unfold ExecSim exec
  simp only
  sim_val regs a
  rename_i va
  cases va with
  | array e n c =>
    cases c with
    | none => cases e <;> first | exact Sim.throw _ | (rename_i w; cases w <;> exact Sim.throw _)
    | some ca =>
      cases e with
      | inst w =>
        cases w with
        | tuple l r c2 =>
          simp only [Val.shift, Elem.shift, Option.map]
          sim_alloc
          rename_i id
          rw [toMir_unzip l r n (some id)]
          sim_liftE
          sim_put
          sim_done
        | _ => exact Sim.throw _
      | _ => exact Sim.throw _
  | _ => exact Sim.throw _

theorem es_map (regs : List RVal) (frames : List Frame) (a f) : ExecSim k hist regs frames (.map a f) := by
  unfold ExecSim exec
  simp only
  sim_val regs a
  rename_i va
  rw [shiftRegs_get]
  cases hf : regs[f]? with
  | none => cases va <;> first | exact Sim.throw _ | (rename_i c; cases c <;> exact Sim.throw _)
  | some rf =>
    cases rf with
    | fn fid ret ps =>
      cases va with
      | array e n c =>
        cases c with
        | none => exact Sim.throw _
        | some ca =>
          simp only [Val.shift, Option.map, RVal.shift]
          sim_alloc
          have ht : ∀ (c c' : Option Id), (Val.array (.cls ret) n c').toMir = (Val.array (.cls ret) n c).toMir := by
            intro c c'; simp [Val.toMir]
          sim_liftE
          sim_put
          sim_done
      | _ => exact Sim.throw _
    | dead => cases va <;> first | exact Sim.throw _ | (rename_i c; cases c <;> exact Sim.throw _)
    | _ => cases va <;> first | exact Sim.throw _ | (rename_i c; cases c <;> exact Sim.throw _)

end NadaVerif.Lemmas

namespace NadaVerif.Lemmas
open NadaVerif

variable {k : Nat} {hist : List (Id × AstOp)}

theorem es_reduce (regs : List RVal) (frames : List Frame) (a f init) : ExecSim k hist regs frames (.reduce a f init) := by
  unfold ExecSim exec
  simp only
  sim_val regs a
  rename_i va
  sim_val regs init
  rename_i vi
  rw [shiftRegs_get]
  cases hf : regs[f]? with
  | none => cases va <;> first | exact Sim.throw _ | (rename_i c; cases c <;> exact Sim.throw _)
  | some rf =>
    cases rf with
    | fn fid ret ps =>
      cases va with
      | array e n c =>
        cases c with
        | none => exact Sim.throw _
        | some ca =>
          simp only [Val.shift, Option.map, RVal.shift]
          refine Sim.bind (childOf_sim vi) (fun ci ci' h => ?_)
          subst h
          sim_alloc
          sim_put
          sim_done
      | _ => exact Sim.throw _
    | dead => cases va <;> first | exact Sim.throw _ | (rename_i c; cases c <;> exact Sim.throw _)
    | _ => cases va <;> first | exact Sim.throw _ | (rename_i c; cases c <;> exact Sim.throw _)

theorem es_innerProduct (regs : List RVal) (frames : List Frame) (a b) : ExecSim k hist regs frames (.innerProduct a b) := by
  unfold ExecSim exec
  simp only
  sim_val regs a
  rename_i va
  sim_val regs b
  rename_i vb
  cases va with
  | array ea na ca =>
    cases ca with
    | none => cases vb <;> exact Sim.throw _
    | some ca =>
      cases vb with
      | array eb nb cb =>
        cases cb with
        | none => exact Sim.throw _
        | some cb =>
          simp only [Val.shift, Option.map, innerType_shift, scalarClass_shift]
          refine Sim.ite (Sim.throw _) ?_
          sim_liftE
          sim_liftE
          refine Sim.ite (Sim.throw _) ?_
          cases ea.scalarClass with
          | none => exact Sim.throw _
          | some tl =>
            cases eb.scalarClass with
            | none => exact Sim.throw _
            | some tr =>
              simp only
              refine Sim.ite (Sim.throw _) ?_
              refine Sim.ite (Sim.throw _) ?_
              sim_alloc
              sim_put
              sim_done
      | _ => exact Sim.throw _
  | _ => cases vb <;> exact Sim.throw _

end NadaVerif.Lemmas

namespace NadaVerif.Lemmas
open NadaVerif

variable {k : Nat} {hist : List (Id × AstOp)}

theorem template_sim : ∀ (ann : Ann), Sim (Rel k hist) (fun a b => b = a.shift k) (template ann) (template ann)
  | .scalar t => by
    unfold template
    refine Sim.ite (mkLiteral_sim _ _) (Sim.pure (by simp [Val.shift]))
  | .array inner => by
    unfold template
    refine Sim.bind (template_sim inner) (fun a b hab => ?_)
    subst hab
    exact Sim.pure (by simp [Val.shift, Elem.shift])
  | .bareArray => by
    unfold template
    exact Sim.throw _

theorem bindParams_sim (fid : Id) : ∀ (ps : List (String × Ann)),
    Sim (Rel k hist) (fun a b => b = (a.1.map (fun p => (sh k p.1, p.2.shift k)), shiftRegs k a.2))
      (bindParams fid ps) (bindParams (sh k fid) ps)
  | [] => by
    unfold bindParams
    exact Sim.pure (by simp [shiftRegs])
  | (pname, ann) :: rest => by
    unfold bindParams
    refine Sim.bind (template_sim ann) (fun a b hab => ?_)
    subst hab
    sim_alloc
    rw [toMir_shift]
    sim_liftE
    sim_put
    refine Sim.bind (bindParams_sim fid rest) (fun x y hxy => ?_)
    subst hxy
    obtain ⟨ps, bound⟩ := x
    exact Sim.pure (by simp [shiftRegs, RVal.shift, withChild_shift])

theorem es_beginFn (regs : List RVal) (frames : List Frame) (name params) : ExecSim k hist regs frames (.beginFn name params) := by
  unfold ExecSim exec
  simp only
  sim_alloc
  refine Sim.bind (bindParams_sim _ params) (fun x y hxy => ?_)
  subst hxy
  obtain ⟨ps, bound⟩ := x
  exact Sim.pure (by simp [ResRel, shiftFrames, Frame.shift])

end NadaVerif.Lemmas

namespace NadaVerif.Lemmas
open NadaVerif

variable {k : Nat} {hist : List (Id × AstOp)}

theorem es_endFn (regs : List RVal) (frames : List Frame) (ret retAnn) : ExecSim k hist regs frames (.endFn ret retAnn) := by
  unfold ExecSim exec
  simp only
  cases frames with
  | nil => exact Sim.throw _
  | cons fr rest =>
    simp only [shiftFrames, List.map_cons]
    rw [shiftRegs_get]
    cases h : regs[ret]? with
    | none => exact Sim.throw _
    | some x =>
      cases x <;> simp only [Option.map, RVal.shift]
      case val v =>
        refine Sim.ite (Sim.throw _) ?_
        have hall : (Frame.shift k fr).params.all (fun p => isLiteralScalar p.2) = fr.params.all (fun p => isLiteralScalar p.2) := by
          simp [Frame.shift, List.all_map, Function.comp_def, isLiteralScalar_shift]
        rw [hall]
        refine Sim.ite (Sim.throw _) ?_
        cases v with
        | scalar t c l =>
          cases c with
          | none => exact Sim.throw _
          | some c =>
            simp only [Val.shift, Option.map]
            refine Sim.ite (Sim.throw _) ?_
            refine Sim.bind (Sim.put (by simp [Frame.shift]) (by simp [AstOp.shift, Frame.shift, Function.comp_def])) (fun _ _ _ => ?_)
            exact Sim.pure (by simp [ResRel, shiftRegs, shiftFrames, RVal.shift, Frame.shift])
        | _ => exact Sim.throw _
      all_goals exact Sim.throw _

theorem es_call (regs : List RVal) (frames : List Frame) (f args kws) : ExecSim k hist regs frames (.call f args kws) := by
  unfold ExecSim exec
  simp only
  rw [shiftRegs_get]
  cases h : regs[f]? with
  | none => exact Sim.throw _
  | some x =>
    cases x <;> simp only [Option.map, RVal.shift]
    case fn fid ret names =>
      refine Sim.ite (Sim.throw _) ?_
      split
      · exact Sim.throw _
      · rename_i kwRegs _
        refine Sim.ite (Sim.throw _) ?_
        refine Sim.bind (mapM_getVal_sim regs _) (fun vs ws h => ?_)
        subst h
        sim_alloc
        refine Sim.bind (childIds_sim vs) (fun ids ids' h => ?_)
        subst h
        sim_put
        sim_done
    all_goals exact Sim.throw _

end NadaVerif.Lemmas

namespace NadaVerif.Lemmas
open NadaVerif

variable {k : Nat} {hist : List (Id × AstOp)}

theorem sh_inj {k a b : Nat} : sh k a = sh k b ↔ a = b := by
  unfold sh; omega

/-- a record the unshifted store holds is found, renamed, in the related store — whatever the history holds -/
theorem lookup_rel {s t : St} (hR : Rel k hist s t) (c : Id) (op : AstOp) (hs : s.lookup c = some op) :
    t.lookup (sh k c) = some (op.ren (shiftRen k s.lits t.lits)) := by
  have hinj := shiftRen_inj (k := k) s.lits t.lits hR.nodup hR.sub
  have h1 := lookup_ren hinj s c
  rw [hs] at h1
  simp only [St.lookup, St.ren, Option.map, shiftRen] at h1 ⊢
  rw [hR.ops, List.find?_append]
  simp only [shiftRen]
  cases hf : List.find? (fun x => x.1 == sh k c) (List.map (renE ⟨sh k, mkLit s.lits t.lits⟩) s.ops) with
  | none => rw [hf] at h1; simp at h1
  | some e => rw [hf] at h1; simpa using h1

theorem Sim.get {R : St → St → Prop} : Sim R (fun a b => R a b) (get : M St) (get : M St) := by
  intro s t hR
  simpa [SimAt, ExceptT.run, StateT.run, get, getThe, MonadStateOf.get, liftM, monadLift, MonadLift.monadLift, ExceptT.lift, StateT.get,
    Functor.map, StateT.map, ExceptT.mk, Pure.pure, StateT.pure, Bind.bind, StateT.bind] using ⟨hR, hR⟩

theorem has_lookup_st {ops : List (Id × AstOp)} {c : Id} (h : Has ops c) (cnt : Nat) (l : List String) :
    ∃ op, (St.mk cnt ops l).lookup c = some op := by
  obtain ⟨op, hm⟩ := h
  cases hf : ops.find? (·.1 == c) with
  | none =>
    have := List.find?_eq_none.mp hf (c, op) hm
    simp at this
  | some e => exact ⟨e.2, by simp [St.lookup, hf]⟩

theorem lookup_input {s t : St} (hR : Rel k hist s t) (c : Id) (hc : Has s.ops c) (n p d ty) :
    s.lookup c = some (.input n p d ty) ↔ t.lookup (sh k c) = some (.input n p d ty) := by
  obtain ⟨op, hs⟩ := has_lookup_st hc s.counter s.lits
  have hs : s.lookup c = some op := hs
  have h := lookup_rel hR c op hs
  rw [h, hs]
  constructor
  · intro he
    simp only [Option.some.injEq] at he
    subst he
    rfl
  · intro he
    simp only [Option.some.injEq] at he
    cases op <;> simp_all [AstOp.ren]

/-- the relation for the one command that reads the store: the registers' ids are stored on the unshifted side -/
def RelS (k : Nat) (hist : List (Id × AstOp)) (regs : List RVal) (s t : St) : Prop :=
  Rel k hist s t ∧ RegsSto s.ops regs

theorem putS_sim {regs : List RVal} {i j : Id} {op op' : AstOp} (hi : j = sh k i) (hop : op'.eraseIdx = (op.shift k).eraseIdx)
    (hnl : op.isLit = false) :
    Sim (RelS k hist regs) (fun _ _ => True) (put i op) (put j op') := by
  intro s t hR
  have := Sim.put (hist := hist) hi hop hnl s t hR.1
  simp only [SimAt, put, modify, modifyGet, MonadStateOf.modifyGet, ExceptT.run, StateT.run, liftM, monadLift, MonadLift.monadLift,
    ExceptT.lift, StateT.modifyGet, Functor.map, StateT.map, Pure.pure, StateT.pure, ExceptT.mk, Bind.bind, StateT.bind] at this ⊢
  refine ⟨trivial, this.2, ?_⟩
  exact hR.2.mono (fun x hx => by obtain ⟨o, ho⟩ := hx; exact ⟨o, List.mem_cons_of_mem _ ho⟩)

theorem toMir_arrayOf (v : Val) (n : Option Int) (c c' : Option Id) :
    (Val.array (.inst (v.shift k)) n c').toMir = (Val.array (.inst v) n c).toMir := toMir_array_inst v n c c'

/-- `Array(value, size=…)` re-types the input record of its operand: the one command that reads the store -/
theorem es_arrayOf (regs : List RVal) (frames : List Frame) (r size) :
    Sim (RelS k hist regs) (ResRel k) (exec regs frames (.arrayOf r size))
      (exec (shiftRegs k regs) (shiftFrames k frames) (.arrayOf r size)) := by
  unfold exec
  simp only
  refine Sim.ite (Sim.throw _) ?_
  unfold getVal
  rw [shiftRegs_get]
  cases hreg : regs[r]? with
  | none => exact Sim.bind (Sim.throw (Q := fun (a b : Val) => False) _) (fun _ _ h => h.elim)
  | some x =>
    cases x <;> simp only [Option.map, RVal.shift]
    case val v =>
      simp only [pure_bind]
      unfold childOf
      rw [child_shift]
      cases hch : v.child with
      | none => exact Sim.bind (Sim.throw (Q := fun (a b : Id) => False) _) (fun _ _ h => h.elim)
      | some c =>
        simp only [Option.map, pure_bind]
        rw [toMir_arrayOf v size (some c)]
        sim_liftE
        refine Sim.bind Sim.get (fun s t hR => ?_)
        have hhas : Has s.ops c := sreg_child hR.2 hreg hch
        split
        · rename_i name pn doc ty0 hs
          rw [(lookup_input hR.1 c hhas name pn doc ty0).mp hs]
          simp only
          refine Sim.bind (putS_sim rfl (by simp [AstOp.shift]) rfl) (fun _ _ _ => ?_)
          sim_done
        · rename_i hno
          split
          · rename_i name pn doc ty0 ht
            exact (hno name pn doc ty0 ((lookup_input hR.1 c hhas name pn doc ty0).mpr ht)).elim
          · exact Sim.throw _
    all_goals exact Sim.bind (Sim.throw (Q := fun (a b : Val) => False) _) (fun _ _ h => h.elim)

end NadaVerif.Lemmas

namespace NadaVerif.Lemmas
open NadaVerif

variable {k : Nat} {hist : List (Id × AstOp)}

/-- every command that does not read the store is equivariant under the shift from any related states -/
theorem exec_sim (regs : List RVal) (frames : List Frame) (c : Cmd) (hc : ∀ r size, c ≠ .arrayOf r size) :
    ExecSim k hist regs frames c := by
  cases c with
  | party n => exact es_party regs frames n
  | inputObj name doc p => exact es_inputObj regs frames name doc p
  | wrap t r => exact es_wrap regs frames t r
  | arrayOf r size => exact (hc r size rfl).elim
  | lit base v => exact es_lit regs frames base v
  | bin op a b => exact es_bin regs frames op a b
  | invert a => exact es_invert regs frames a
  | reveal a => exact es_reveal regs frames a
  | truncPr a b => exact es_truncPr regs frames a b
  | publicEquals a b => exact es_publicEquals regs frames a b
  | ifElse c a b => exact es_ifElse regs frames c a b
  | random t => exact es_random regs frames t
  | radd n a => exact es_radd regs frames n a
  | arrayNew xs => exact es_arrayNew regs frames xs
  | tupleNew a b => exact es_tupleNew regs frames a b
  | ntupleNew xs => exact es_ntupleNew regs frames xs
  | objectNew fs => exact es_objectNew regs frames fs
  | ntupleGet r i => exact es_ntupleGet regs frames r i
  | objectGet r key => exact es_objectGet regs frames r key
  | zip a b => exact es_zip regs frames a b
  | unzip a => exact es_unzip regs frames a
  | map a f => exact es_map regs frames a f
  | reduce a f init => exact es_reduce regs frames a f init
  | innerProduct a b => exact es_innerProduct regs frames a b
  | beginFn name params => exact es_beginFn regs frames name params
  | endFn ret retAnn => exact es_endFn regs frames ret retAnn
  | call f args kws => exact es_call regs frames f args kws
  | nop => exact es_nop regs frames

/-- **every command** is equivariant under the shift, from related states whose unshifted side stores the ids its
registers mention (true of every reachable machine: `trace_stored`) -/
theorem exec_sim_at (regs : List RVal) (frames : List Frame) (c : Cmd) (s t : St) (hR : Rel k hist s t)
    (hs : RegsSto s.ops regs) :
    SimAt (Rel k hist) (ResRel k) (exec regs frames c) (exec (shiftRegs k regs) (shiftFrames k frames) c) s t := by
  by_cases hc : ∀ r size, c ≠ .arrayOf r size
  · exact exec_sim regs frames c hc s t hR
  · have : ∃ r size, c = .arrayOf r size := by
      cases c <;> simp_all
    obtain ⟨r, size, rfl⟩ := this
    exact (es_arrayOf (k := k) (hist := hist) regs frames r size s t ⟨hR, hs⟩).mono (fun _ _ h => h.1)

/-- machine `m'` is machine `m` shifted by `k` on top of `hist` -/
structure MRel (k : Nat) (hist : List (Id × AstOp)) (m m' : Mach) : Prop where
  st : Rel k hist m.st m'.st
  regs : m'.regs = shiftRegs k m.regs
  frames : m'.frames = shiftFrames k m.frames

theorem shiftRegs_append (a b : List RVal) : shiftRegs k (a ++ b) = shiftRegs k a ++ shiftRegs k b := by
  simp [shiftRegs]

theorem shiftRegs_dead (n : Nat) : shiftRegs k (List.replicate n RVal.dead) = List.replicate n RVal.dead := by
  simp [shiftRegs, RVal.shift]

theorem step_sim {m m' : Mach} (h : MRel k hist m m') (hm : MachSto m) (c : Cmd) :
    MRel k hist (step m c).1 (step m' c).1 ∧ (step m c).2 = (step m' c).2 := by
  have hs := exec_sim_at (k := k) (hist := hist) m.regs m.frames c m.st m'.st h.st hm.2.1
  unfold step
  rw [h.regs, h.frames]
  unfold SimAt at hs
  generalize (exec m.regs m.frames c).run.run m.st = r1 at hs ⊢
  generalize (exec (shiftRegs k m.regs) (shiftFrames k m.frames) c).run.run m'.st = r2 at hs ⊢
  obtain ⟨e1, s1⟩ := r1
  obtain ⟨e2, s2⟩ := r2
  cases e1 with
  | ok a =>
    cases e2 with
    | ok b =>
      obtain ⟨hq, hr⟩ := hs
      obtain ⟨v1, f1⟩ := a
      obtain ⟨v2, f2⟩ := b
      simp only [ResRel, Prod.mk.injEq] at hq
      obtain ⟨rfl, rfl⟩ := hq
      exact ⟨⟨hr, by simp [shiftRegs_append], rfl⟩, rfl⟩
    | error e => exact hs.elim
  | error e =>
    cases e2 with
    | ok b => exact hs.elim
    | error e' =>
      obtain ⟨rfl, hr⟩ := hs
      refine ⟨⟨hr, by simp [shiftRegs_append, shiftRegs_dead], ?_⟩, rfl⟩
      cases c <;> simp [shiftFrames]

theorem runCmds_sim : ∀ (cs : List Cmd) {m m' : Mach}, MRel k hist m m' → MachSto m →
    MRel k hist (runCmds m cs).1 (runCmds m' cs).1 ∧ (runCmds m cs).2 = (runCmds m' cs).2
  | [], _, _, h, _ => ⟨h, rfl⟩
  | c :: cs, m, m', h, hm => by
    have h1 := step_sim h hm c
    have h2 := runCmds_sim cs h1.1 (step_sto m c hm)
    simp only [runCmds]
    exact ⟨h2.1, by rw [h1.2, h2.2]⟩

end NadaVerif.Lemmas
