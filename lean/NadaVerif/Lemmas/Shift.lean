/-
C08 — tracing is equivariant under the id shift an earlier history induces.

`Val.shift k`, `RVal.shift k`, `Frame.shift k`, `AstOp.shift k`: add `k` to every operation id.  `AstOp.eraseIdx` forgets the
position of a literal in the process-wide literal table (the "literal name": C08 compares MIRs up to literal renaming).
`Rel k hist s t`: state `t` is state `s` with every id shifted by `k`, on top of the records `hist` of an earlier history,
up to literal names (the literal tables themselves are unrelated).
`Sim R Q x y`: from related states the two computations fail alike (same error class) or succeed with `Q`-related results,
in related states.
-/
import NadaVerif.Trace

namespace NadaVerif

mutual
def Val.shift (k : Nat) : Val → Val
  | .scalar t c l => .scalar t (c.map (· + k)) l
  | .array e n c => .array (Elem.shift k e) n (c.map (· + k))
  | .tuple l r c => .tuple (Elem.shift k l) (Elem.shift k r) (c.map (· + k))
  | .ntuple vs c => .ntuple (Vals.shift k vs) (c.map (· + k))
  | .object fs c => .object (VFields.shift k fs) (c.map (· + k))
def Elem.shift (k : Nat) : Elem → Elem
  | .cls t => .cls t
  | .inst v => .inst (Val.shift k v)
  | .typeVar => .typeVar
  | .arrayType e n => .arrayType (Elem.shift k e) n
def Vals.shift (k : Nat) : Vals → Vals
  | .nil => .nil
  | .cons v vs => .cons (Val.shift k v) (Vals.shift k vs)
def VFields.shift (k : Nat) : VFields → VFields
  | .nil => .nil
  | .cons n v fs => .cons n (Val.shift k v) (VFields.shift k fs)
end

def RVal.shift (k : Nat) : RVal → RVal
  | .val v => .val (v.shift k)
  | .fn id ret ps => .fn (id + k) ret ps
  | .party n => .party n
  | .input id n p d => .input (id + k) n p d
  | .dead => .dead

def Frame.shift (k : Nat) (f : Frame) : Frame :=
  { f with fid := f.fid + k, params := f.params.map fun p => (p.1 + k, p.2.shift k) }

def AstOp.shift (k : Nat) : AstOp → AstOp
  | .binary n l r ty => .binary n (l + k) (r + k) ty
  | .unary n c ty => .unary n (c + k) ty
  | .ifElse c a b ty => .ifElse (c + k) (a + k) (b + k) ty
  | .random ty => .random ty
  | .input n p d ty => .input n p d ty
  | .literal v i ty => .literal v i ty
  | .reduce c f i ty => .reduce (c + k) (f + k) (i + k) ty
  | .map c f ty => .map (c + k) (f + k) ty
  | .new n es ty => .new n (es.map (· + k)) ty
  | .call as f ty => .call (as.map (· + k)) (f + k) ty
  | .argRef n f ty => .argRef n (f + k) ty
  | .function n args c ty => .function n (args.map (· + k)) (c + k) ty
  | .ntupleAcc i s ty => .ntupleAcc i (s + k) ty
  | .objectAcc key s ty => .objectAcc key (s + k) ty

/-- forget the literal's position in the process-wide table -/
def AstOp.eraseIdx : AstOp → AstOp
  | .literal v _ ty => .literal v 0 ty
  | op => op

end NadaVerif

namespace NadaVerif.Lemmas
open NadaVerif

def eraseE (e : Id × AstOp) : Id × AstOp := (e.1, e.2.eraseIdx)
def shiftEraseE (k : Nat) (e : Id × AstOp) : Id × AstOp := (e.1 + k, (e.2.shift k).eraseIdx)

/-- `t` is `s` shifted by `k` on top of `hist`, up to literal names -/
structure Rel (k : Nat) (hist : List (Id × AstOp)) (s t : St) : Prop where
  counter : t.counter = s.counter + k
  ops : t.ops.map eraseE = s.ops.map (shiftEraseE k) ++ hist.map eraseE

/-- the two computations behave alike from related states -/
def Sim {α β : Type} (R : St → St → Prop) (Q : α → β → Prop) (x : M α) (y : M β) : Prop :=
  ∀ s t, R s t →
    match x.run.run s, y.run.run t with
    | (.ok a, s'), (.ok b, t') => Q a b ∧ R s' t'
    | (.error e, s'), (.error e', t') => e = e' ∧ R s' t'
    | _, _ => False

theorem Sim.pure {α β} {R : St → St → Prop} {Q : α → β → Prop} {a : α} {b : β} (h : Q a b) :
    Sim R Q (Pure.pure a : M α) (Pure.pure b : M β) := by
  intro s t hR
  simpa [ExceptT.run, StateT.run, Pure.pure, ExceptT.pure, ExceptT.mk, StateT.pure] using ⟨h, hR⟩

theorem Sim.throw {α β} {R : St → St → Prop} {Q : α → β → Prop} (e : Err) :
    Sim R Q (throw e : M α) (throw e : M β) := by
  intro s t hR
  simpa [ExceptT.run, StateT.run, MonadExcept.throw, throw, throwThe, MonadExceptOf.throw, ExceptT.mk, Pure.pure, StateT.pure] using hR

theorem Sim.bind {α β γ δ} {R : St → St → Prop} {Q : α → β → Prop} {Q' : γ → δ → Prop}
    {x : M α} {y : M β} {f : α → M γ} {g : β → M δ}
    (h1 : Sim R Q x y) (h2 : ∀ a b, Q a b → Sim R Q' (f a) (g b)) : Sim R Q' (x >>= f) (y >>= g) := by
  intro s t hR
  have := h1 s t hR
  simp only [ExceptT.run, StateT.run, Bind.bind, ExceptT.bind, ExceptT.mk, StateT.bind, ExceptT.bindCont] at this ⊢
  generalize hx : x s = rx at this ⊢
  generalize hy : y t = ry at this ⊢
  obtain ⟨ex, s'⟩ := rx
  obtain ⟨ey, t'⟩ := ry
  cases ex with
  | error e =>
    cases ey with
    | error e' => simpa [Pure.pure, StateT.pure] using this
    | ok b => exact this.elim
  | ok a =>
    cases ey with
    | error e' => exact this.elim
    | ok b => exact h2 a b this.1 s' t' this.2

end NadaVerif.Lemmas

namespace NadaVerif.Lemmas
open NadaVerif

variable {k : Nat} {hist : List (Id × AstOp)}

theorem Sim.alloc : Sim (Rel k hist) (fun a b => b = a + k) alloc alloc := by
  intro s t hR
  simp only [alloc, ExceptT.run, StateT.run, Bind.bind, ExceptT.bind, ExceptT.mk, StateT.bind, ExceptT.bindCont, get, getThe,
    MonadStateOf.get, liftM, monadLift, MonadLift.monadLift, ExceptT.lift, StateT.get, Pure.pure, StateT.pure, set, MonadStateOf.set,
    StateT.set, Functor.map, StateT.map, ExceptT.pure]
  refine ⟨?_, ⟨?_, hR.ops⟩⟩
  · rw [hR.counter]; omega
  · simp only [hR.counter]; omega

theorem Sim.put {i j : Id} {op op' : AstOp} (hi : j = i + k) (hop : op'.eraseIdx = (op.shift k).eraseIdx) :
    Sim (Rel k hist) (fun _ _ => True) (put i op) (put j op') := by
  intro s t hR
  subst hi
  simp only [put, modify, modifyGet, MonadStateOf.modifyGet, ExceptT.run, StateT.run, liftM, monadLift, MonadLift.monadLift,
    ExceptT.lift, StateT.modifyGet, Functor.map, StateT.map, Pure.pure, StateT.pure, ExceptT.mk, Bind.bind, StateT.bind]
  refine ⟨trivial, ⟨hR.counter, ?_⟩⟩
  simp only [List.map_cons, List.cons_append, hR.ops, eraseE, shiftEraseE, hop]

theorem litIndex_run (key : String) (s : St) :
    ∃ i l, (litIndex key).run.run s = (.ok i, { s with lits := l }) := by
  unfold litIndex
  cases hs : s.lits.idxOf? key with
  | some i =>
    exact ⟨i, s.lits, by
      simp [ExceptT.run, StateT.run, bind, ExceptT.bind, ExceptT.mk, StateT.bind, ExceptT.bindCont, get, getThe, MonadStateOf.get,
        liftM, monadLift, MonadLift.monadLift, ExceptT.lift, StateT.get, pure, StateT.pure, ExceptT.pure, Functor.map, StateT.map, hs]⟩
  | none =>
    exact ⟨s.lits.length, s.lits ++ [key], by
      simp [ExceptT.run, StateT.run, bind, ExceptT.bind, ExceptT.mk, StateT.bind, ExceptT.bindCont, get, getThe, MonadStateOf.get,
        liftM, monadLift, MonadLift.monadLift, ExceptT.lift, StateT.get, pure, StateT.pure, ExceptT.pure, Functor.map, StateT.map, hs,
        set, MonadStateOf.set, StateT.set]⟩

theorem Sim.litIndex (key : String) : Sim (Rel k hist) (fun _ _ => True) (litIndex key) (litIndex key) := by
  intro s t hR
  obtain ⟨i, l, hs⟩ := litIndex_run key s
  obtain ⟨j, l', ht⟩ := litIndex_run key t
  rw [hs, ht]
  exact ⟨trivial, ⟨hR.counter, hR.ops⟩⟩

theorem Sim.liftE {α} {R : St → St → Prop} (e : Except Err α) : Sim R (fun a b => b = a) (liftE e) (liftE e) := by
  cases e with
  | ok a => exact Sim.pure rfl
  | error e => exact Sim.throw e

end NadaVerif.Lemmas

namespace NadaVerif.Lemmas
open NadaVerif

variable {k : Nat} {hist : List (Id × AstOp)}

mutual
theorem toMir_shift (k : Nat) : ∀ (v : Val), (v.shift k).toMir = v.toMir
  | .scalar t c l => by simp [Val.shift, Val.toMir]
  | .array e n c => by simp [Val.shift, Val.toMir, innerType_shift k e]
  | .tuple l r c => by simp [Val.shift, Val.toMir, sideType_shift k l, sideType_shift k r]
  | .ntuple vs c => by simp [Val.shift, Val.toMir, memberTypes_shift k vs]
  | .object fs c => by simp [Val.shift, Val.toMir, fieldTypes_shift k fs]
theorem innerType_shift (k : Nat) : ∀ (e : Elem), (e.shift k).innerType = e.innerType
  | .cls t => by simp [Elem.shift, Elem.innerType]
  | .inst v => by simp [Elem.shift, Elem.innerType, toMir_shift k v]
  | .typeVar => by simp [Elem.shift, Elem.innerType]
  | .arrayType e n => by simp [Elem.shift, Elem.innerType, asInstance_shift k e]
theorem sideType_shift (k : Nat) : ∀ (e : Elem), (e.shift k).sideType = e.sideType
  | .cls t => by simp [Elem.shift, Elem.sideType]
  | .inst v => by simp [Elem.shift, Elem.sideType, toMir_shift k v]
  | .typeVar => by simp [Elem.shift, Elem.sideType]
  | .arrayType e n => by simp [Elem.shift, Elem.sideType, asInstance_shift k e]
theorem asInstance_shift (k : Nat) : ∀ (e : Elem), (e.shift k).asInstanceToMir = e.asInstanceToMir
  | .cls t => by simp [Elem.shift, Elem.asInstanceToMir]
  | .inst v => by simp [Elem.shift, Elem.asInstanceToMir, toMir_shift k v]
  | .typeVar => by simp [Elem.shift, Elem.asInstanceToMir]
  | .arrayType e n => by simp [Elem.shift, Elem.asInstanceToMir, asInstance_shift k e]
theorem memberTypes_shift (k : Nat) : ∀ (vs : Vals), (vs.shift k).memberTypes = vs.memberTypes
  | .nil => by simp [Vals.shift, Vals.memberTypes]
  | .cons v vs => by simp [Vals.shift, Vals.memberTypes, toMir_shift k v, memberTypes_shift k vs]
theorem fieldTypes_shift (k : Nat) : ∀ (fs : VFields), (fs.shift k).memberTypes = fs.memberTypes
  | .nil => by simp [VFields.shift, VFields.memberTypes]
  | .cons n v fs => by simp [VFields.shift, VFields.memberTypes, toMir_shift k v, fieldTypes_shift k fs]
end

theorem child_shift (k : Nat) (v : Val) : (v.shift k).child = v.child.map (· + k) := by
  cases v <;> simp [Val.shift, Val.child]

theorem mkLiteral_sim (base : Base) (v : LitVal) :
    Sim (Rel k hist) (fun a b => b = a.shift k) (mkLiteral base v) (mkLiteral base v) := by
  unfold mkLiteral
  refine Sim.bind Sim.alloc (fun a b hab => ?_)
  subst hab
  refine Sim.bind (Sim.litIndex _) (fun i j _ => ?_)
  refine Sim.bind (Sim.put rfl (by simp [AstOp.shift, AstOp.eraseIdx])) (fun _ _ _ => ?_)
  exact Sim.pure (by simp [Val.shift])

end NadaVerif.Lemmas

namespace NadaVerif.Lemmas
open NadaVerif

variable {k : Nat} {hist : List (Id × AstOp)}

theorem scalarResult_sim (out : Out) (foldE : Option (Py.PyExpr × Base)) (l r : Option LitVal) (mkOp mkOp' : MTy → AstOp)
    (hmk : ∀ ty, (mkOp' ty).eraseIdx = ((mkOp ty).shift k).eraseIdx) :
    Sim (Rel k hist) (fun a b => b = a.shift k) (scalarResult out foldE l r mkOp) (scalarResult out foldE l r mkOp') := by
  unfold scalarResult
  cases out with
  | reject => exact Sim.throw _
  | ok t folded =>
    cases folded with
    | true =>
      simp only
      split
      · split
        · exact Sim.throw _
        · split
          · exact mkLiteral_sim _ _
          · exact Sim.throw _
      · exact Sim.throw _
    | false =>
      simp only
      refine Sim.bind Sim.alloc (fun a b hab => ?_)
      subst hab
      refine Sim.bind (Sim.put rfl (hmk _)) (fun _ _ _ => ?_)
      exact Sim.pure (by simp [Val.shift])

def shiftRegs (k : Nat) (regs : List RVal) : List RVal := regs.map (RVal.shift k)
def shiftFrames (k : Nat) (fs : List Frame) : List Frame := fs.map (Frame.shift k)

theorem shiftRegs_get (k : Nat) (regs : List RVal) (r : Nat) : (shiftRegs k regs)[r]? = (regs[r]?).map (RVal.shift k) := by
  simp [shiftRegs]

theorem getVal_sim {R : St → St → Prop} (regs : List RVal) (r : Reg) :
    Sim R (fun a b => b = a.shift k) (getVal regs r) (getVal (shiftRegs k regs) r) := by
  unfold getVal
  rw [shiftRegs_get]
  cases h : regs[r]? with
  | none => exact Sim.throw _
  | some x =>
    cases x <;> simp only [Option.map, RVal.shift]
    · exact Sim.pure rfl
    · exact Sim.throw _
    · exact Sim.throw _
    · exact Sim.throw _
    · exact Sim.throw _

theorem getScalar_sim {R : St → St → Prop} (regs : List RVal) (r : Reg) :
    Sim R (fun a b => b = (a.1, a.2.1 + k, a.2.2)) (getScalar regs r) (getScalar (shiftRegs k regs) r) := by
  unfold getScalar
  refine Sim.bind (getVal_sim regs r) (fun a b hab => ?_)
  subst hab
  cases a with
  | scalar t c l =>
    cases c with
    | none => exact Sim.throw _
    | some c => exact Sim.pure rfl
  | _ => exact Sim.throw _

end NadaVerif.Lemmas

namespace NadaVerif.Lemmas
open NadaVerif

variable {k : Nat} {hist : List (Id × AstOp)}

def ResRel (k : Nat) (a b : List RVal × List Frame) : Prop := b = (shiftRegs k a.1, shiftFrames k a.2)

abbrev ExecSim (k : Nat) (hist : List (Id × AstOp)) (regs : List RVal) (frames : List Frame) (c : Cmd) : Prop :=
  Sim (Rel k hist) (ResRel k) (exec regs frames c) (exec (shiftRegs k regs) (shiftFrames k frames) c)

theorem one_sim {R : St → St → Prop} (frames : List Frame) (v : Val) :
    Sim R (ResRel k) (Pure.pure ([RVal.val v], frames) : M _) (Pure.pure ([RVal.val (v.shift k)], shiftFrames k frames) : M _) :=
  Sim.pure (by simp [ResRel, shiftRegs, RVal.shift])

theorem es_bin (regs : List RVal) (frames : List Frame) (op a b) : ExecSim k hist regs frames (.bin op a b) := by
  unfold ExecSim exec
  simp only
  refine Sim.bind (getScalar_sim regs a) (fun x y hxy => ?_)
  subst hxy
  obtain ⟨ta, ca, la⟩ := x
  refine Sim.bind (getScalar_sim regs b) (fun x y hxy => ?_)
  subst hxy
  obtain ⟨tb, cb, lb⟩ := x
  simp only
  refine Sim.bind (scalarResult_sim _ _ _ _ _ _ (by intro ty; simp [AstOp.shift])) (fun v w hvw => ?_)
  subst hvw
  exact one_sim frames v

end NadaVerif.Lemmas
