/-
Function references resolve to exactly one emitted function (C01, C09, C11) — for every store and
every output list.

`FnCov t K`: every `fn` / `function_id` reference of table `t` names an id of `K`.
Through `traverse` (new references are known or reported as extra), `compileOutputs` (extras are
merged after each output) and the worklist `emitFunctions` (a known function is either emitted or
still on the stack, never both, never twice) this gives `compile_fn_resolve`: in every MIR the
compile model emits, each function reference of the program table and of every function table names
exactly one element of `functions`, and no function id is listed twice.
-/
import NadaVerif.Lemmas.CompileClosed

namespace NadaVerif.Lemmas
open NadaVerif NadaVerif.Spec

def FnCov (t : Table) (K : List Id) : Prop := ∀ e ∈ t, ∀ f, e.2.fnRef = some f → f ∈ K

theorem FnCov.mono {t : Table} {K K' : List Id} (h : FnCov t K) (hk : ∀ k ∈ K, k ∈ K') : FnCov t K' :=
  fun e he f hf => hk f (h e he f hf)

theorem FnCov.nil (K : List Id) : FnCov [] K := by intro e he; simp at he

theorem any_key_iff (t : Table) (k : Id) : (t.any (·.1 = k)) = true ↔ k ∈ keys t := by
  simp [keys, List.any_eq_true]

theorem keys_upsertFn (f : Id × AstOp) (extra : Table) :
    keys (upsertFn f extra) = if f.1 ∈ keys extra then keys extra else keys extra ++ [f.1] := by
  induction extra with
  | nil => simp [upsertFn, keys]
  | cons g gs ih =>
    simp only [upsertFn]
    by_cases hg : g.1 = f.1
    · simp [hg, keys]
    · simp only [hg, if_false, keys, List.map_cons, List.mem_cons]
      simp only [keys] at ih
      rw [ih]
      have : ¬ f.1 = g.1 := fun h => hg h.symm
      by_cases hm : f.1 ∈ List.map (·.1) gs <;> simp [hm, this]

/-- what `process_operation` reports: a referenced function that is not yet known -/
theorem processOp_fn (st : St) (k : Id) (op : AstOp) (functions : Table) (acc acc' : CAcc) (ex : Option (Id × AstOp))
    (h : processOp st k op functions acc = .ok (acc', ex)) :
    (∀ f, op.fnRef = some f → f ∈ keys functions ∨ ∃ p, ex = some p ∧ p.1 = f) ∧
    (∀ p, ex = some p → p.1 ∉ keys functions) := by
  cases op <;> simp only [processOp, AstOp.fnRef] at h ⊢
  case input name party doc ty =>
    simp only [bind, Except.bind] at h
    split at h
    · simp at h
    · simp at h; obtain ⟨_, rfl⟩ := h; simp
  case literal v i ty => simp at h; obtain ⟨_, rfl⟩ := h; simp
  case map c fn ty =>
    split at h
    · rename_i hk; simp at h; obtain ⟨_, rfl⟩ := h
      exact ⟨fun f hf => by simp at hf; subst hf; exact .inl ((any_key_iff _ _).1 hk), by simp⟩
    · rename_i hk
      split at h
      · simp at h; obtain ⟨_, rfl⟩ := h
        refine ⟨fun f hf => by simp at hf; subst hf; exact .inr ⟨_, rfl, rfl⟩, ?_⟩
        intro p hp; simp at hp; subst hp
        exact fun hc => hk ((any_key_iff _ _).2 hc)
      · simp at h
  case reduce c fn i ty =>
    split at h
    · rename_i hk; simp at h; obtain ⟨_, rfl⟩ := h
      exact ⟨fun f hf => by simp at hf; subst hf; exact .inl ((any_key_iff _ _).1 hk), by simp⟩
    · rename_i hk
      split at h
      · simp at h; obtain ⟨_, rfl⟩ := h
        refine ⟨fun f hf => by simp at hf; subst hf; exact .inr ⟨_, rfl, rfl⟩, ?_⟩
        intro p hp; simp at hp; subst hp
        exact fun hc => hk ((any_key_iff _ _).2 hc)
      · simp at h
  case call as fn ty =>
    split at h
    · rename_i hk; simp at h; obtain ⟨_, rfl⟩ := h
      exact ⟨fun f hf => by simp at hf; subst hf; exact .inl ((any_key_iff _ _).1 hk), by simp⟩
    · rename_i hk
      split at h
      · simp at h; obtain ⟨_, rfl⟩ := h
        refine ⟨fun f hf => by simp at hf; subst hf; exact .inr ⟨_, rfl, rfl⟩, ?_⟩
        intro p hp; simp at hp; subst hp
        exact fun hc => hk ((any_key_iff _ _).2 hc)
      · simp at h
  case function name args child ty =>
    split at h
    · simp at h; obtain ⟨_, rfl⟩ := h; simp
    · rename_i hk
      simp at h; obtain ⟨_, rfl⟩ := h
      refine ⟨by simp, ?_⟩
      intro p hp; simp at hp; subst hp
      exact fun hc => hk ((any_key_iff _ _).2 hc)
  all_goals (simp at h; obtain ⟨_, rfl⟩ := h; simp)

theorem traverse_fn (st : St) (functions : Table) :
    ∀ (fuel : Nat) (stack : List Id) (table extra : Table) (acc : CAcc) (table' extra' : Table) (acc' : CAcc),
    traverse st functions fuel stack table extra acc = .ok (table', extra', acc') →
    FnCov table (keys functions ++ keys extra) → (keys extra).Nodup → (∀ k ∈ keys extra, k ∉ keys functions) →
      FnCov table' (keys functions ++ keys extra') ∧ (keys extra').Nodup ∧
      (∀ k ∈ keys extra', k ∉ keys functions) := by
  intro fuel
  induction fuel with
  | zero =>
    intro stack table extra acc table' extra' acc' h hc hn hd
    cases stack with
    | nil => simp [traverse] at h; obtain ⟨rfl, rfl, _⟩ := h; exact ⟨hc, hn, hd⟩
    | cons k s => simp [traverse] at h
  | succ fuel ih =>
    intro stack table extra acc table' extra' acc' h hc hn hd
    cases stack with
    | nil => simp [traverse] at h; obtain ⟨rfl, rfl, _⟩ := h; exact ⟨hc, hn, hd⟩
    | cons k s =>
      simp only [traverse] at h
      split at h
      · exact ih s table extra acc _ _ _ h hc hn hd
      · split at h
        · simp at h
        · rename_i op hop
          split at h
          · simp at h
          · rename_i acc1 ex hproc
            obtain ⟨hp1, hp2⟩ := processOp_fn st k op functions acc acc1 ex hproc
            -- the new extra list
            cases ex with
            | none =>
              apply ih _ _ _ _ _ _ _ h _ hn hd
              intro e he f hf
              rcases List.mem_append.1 he with he | he
              · exact hc e he f hf
              · simp at he; subst he
                rcases hp1 f hf with h1 | ⟨p, hp, _⟩
                · exact List.mem_append_left _ h1
                · cases hp
            | some p =>
              have hpk : p.1 ∉ keys functions := hp2 p rfl
              have hkeys := keys_upsertFn p extra
              have hn' : (keys (upsertFn p extra)).Nodup := by
                rw [hkeys]; split
                · exact hn
                · rename_i hm
                  exact List.nodup_append.2 ⟨hn, by simp, by
                    intro a ha b hb; simp at hb; subst hb; intro hab; subst hab; exact hm ha⟩
              have hd' : ∀ k' ∈ keys (upsertFn p extra), k' ∉ keys functions := by
                rw [hkeys]; split
                · exact hd
                · intro k' hk'
                  rcases List.mem_append.1 hk' with h1 | h1
                  · exact hd k' h1
                  · simp at h1; subst h1; exact hpk
              have hsub : ∀ k' ∈ keys extra, k' ∈ keys (upsertFn p extra) := by
                rw [hkeys]; split
                · exact fun _ h => h
                · exact fun _ h => List.mem_append_left _ h
              have hpin : p.1 ∈ keys (upsertFn p extra) := by
                rw [hkeys]; split
                · assumption
                · simp
              apply ih _ _ _ _ _ _ _ h _ hn' hd'
              intro e he f hf
              rcases List.mem_append.1 he with he | he
              · rcases List.mem_append.1 (hc e he f hf) with h1 | h1
                · exact List.mem_append_left _ h1
                · exact List.mem_append_right _ (hsub f h1)
              · simp at he; subst he
                rcases hp1 f hf with h1 | ⟨q, hq, hqf⟩
                · exact List.mem_append_left _ h1
                · cases hq; subst hqf; exact List.mem_append_right _ hpin

theorem keys_mergeFns (extra : Table) : ∀ (fs : Table), (keys extra).Nodup → (∀ k ∈ keys extra, k ∉ keys fs) →
    keys (mergeFns fs extra) = keys fs ++ keys extra := by
  induction extra with
  | nil => intro fs _ _; simp [mergeFns, keys]
  | cons g gs ih =>
    intro fs hn hd
    simp only [mergeFns, List.foldl_cons]
    have hg : g.1 ∉ keys fs := hd g.1 (by simp [keys])
    have hk : keys (upsertFn g fs) = keys fs ++ [g.1] := by rw [keys_upsertFn]; simp [hg]
    have hn' : (keys gs).Nodup := by simp [keys] at hn ⊢; exact hn.2
    have hgn : g.1 ∉ keys gs := by simp [keys] at hn ⊢; exact hn.1
    have := ih (upsertFn g fs) hn' (by
      intro k hk' hc
      rw [hk] at hc
      rcases List.mem_append.1 hc with h1 | h1
      · exact hd k (by simp [keys] at hk' ⊢; exact .inr hk') h1
      · simp at h1; subst h1; exact hgn hk')
    simp only [mergeFns] at this
    rw [this, hk]; simp [keys]

/-- after the outputs: every function reference of the program table is a known function; known ids are distinct -/
theorem compileOutputs_fn (st : St) :
    ∀ (outs : List OutDecl) (table functions : Table) (mouts : List MirOutput) (acc : CAcc)
      (table' functions' : Table) (mouts' : List MirOutput) (acc' : CAcc),
    compileOutputs st outs table functions mouts acc = .ok (table', functions', mouts', acc') →
    FnCov table (keys functions) → (keys functions).Nodup →
    FnCov table' (keys functions') ∧ (keys functions').Nodup := by
  intro outs
  induction outs with
  | nil =>
    intro table functions mouts acc table' functions' mouts' acc' h hc hn
    simp [compileOutputs] at h
    obtain ⟨rfl, rfl, _, _⟩ := h
    exact ⟨hc, hn⟩
  | cons o os ih =>
    intro table functions mouts acc table' functions' mouts' acc' h hc hn
    simp only [compileOutputs] at h
    split at h
    · simp at h
    · rename_i t1 ex1 acc1 htr
      split at h
      · simp at h
      · obtain ⟨a, b, c⟩ := traverse_fn st functions _ _ _ _ _ _ _ _ htr
          (by simpa [keys] using hc) (by simp [keys]) (by simp [keys])
        have hk := keys_mergeFns ex1 functions b c
        apply ih _ _ _ _ _ _ _ _ h
        · rw [hk]; exact a
        · rw [hk]
          exact List.nodup_append.2 ⟨hn, b, fun x hx y hy hxy => c y hy (hxy ▸ hx)⟩

theorem nodup_insert_block (A X E : List Id) (k : Id) (h : (A ++ k :: X).Nodup) (hE : E.Nodup)
    (hd : ∀ y ∈ E, y ∉ A ∧ y ≠ k ∧ y ∉ X) : (A ++ [k] ++ (E.reverse ++ X)).Nodup := by
  have hp : (A ++ [k] ++ (E.reverse ++ X)).Perm ((A ++ k :: X) ++ E) := by
    have h1 : (E.reverse ++ X).Perm (X ++ E) := (List.reverse_perm E).append_right X |>.trans List.perm_append_comm
    have h2 : (A ++ [k] ++ (E.reverse ++ X)).Perm (A ++ [k] ++ (X ++ E)) := h1.append_left _
    simpa [List.append_assoc] using h2
  refine List.Perm.nodup hp.symm ?_
  rw [List.nodup_append]
  refine ⟨h, hE, ?_⟩
  intro a ha b hb hab
  subst hab
  have := hd a hb
  simp only [List.mem_append, List.mem_cons] at ha
  rcases ha with ha | ha | ha
  · exact this.1 ha
  · exact this.2.1 ha
  · exact this.2.2 ha

/-- the worklist invariant -/
structure WL (prog : Table) (stack functions : Table) (out : List MirFn) : Prop where
  nodup : (out.map (·.id) ++ keys stack).Nodup
  known : ∀ k, k ∈ keys functions ↔ (k ∈ out.map (·.id) ∨ k ∈ keys stack)
  cov : FnCov prog (keys functions)
  covOut : ∀ f ∈ out, FnCov f.ops (keys functions)

theorem emitFunctions_fn (st : St) (prog : Table) :
    ∀ (fuel : Nat) (stack functions : Table) (out : List MirFn) (acc : CAcc) (out' : List MirFn) (acc' : CAcc),
    emitFunctions st fuel stack functions out acc = .ok (out', acc') →
    WL prog stack functions out →
    (out'.map (·.id)).Nodup ∧ FnCov prog (out'.map (·.id)) ∧ ∀ f ∈ out', FnCov f.ops (out'.map (·.id)) := by
  intro fuel
  induction fuel with
  | zero =>
    intro stack functions out acc out' acc' h w
    cases stack with
    | nil =>
      simp [emitFunctions] at h; obtain ⟨rfl, _⟩ := h
      have hk : ∀ k ∈ keys functions, k ∈ out.map (·.id) := fun k hk => by
        rcases (w.known k).1 hk with h1 | h1
        · exact h1
        · simp [keys] at h1
      exact ⟨by simpa [keys] using w.nodup, w.cov.mono hk, fun f hf => (w.covOut f hf).mono hk⟩
    | cons x xs => simp [emitFunctions] at h
  | succ fuel ih =>
    intro stack functions out acc out' acc' h w
    cases stack with
    | nil =>
      simp [emitFunctions] at h; obtain ⟨rfl, _⟩ := h
      have hk : ∀ k ∈ keys functions, k ∈ out.map (·.id) := fun k hk => by
        rcases (w.known k).1 hk with h1 | h1
        · exact h1
        · simp [keys] at h1
      exact ⟨by simpa [keys] using w.nodup, w.cov.mono hk, fun f hf => (w.covOut f hf).mono hk⟩
    | cons x xs =>
      obtain ⟨k, f⟩ := x
      simp only [emitFunctions] at h
      split at h
      · rename_i name args child ty
        split at h
        · simp at h
        · rename_i t1 ex1 acc1 htr
          split at h
          · simp at h
          · rename_i mf hmf
            have hmf' : mf.ops = t1 ∧ mf.id = k := by
              simp only [fnToMir, bind, Except.bind] at hmf
              split at hmf
              · simp at hmf
              · simp at hmf; subst hmf; exact ⟨rfl, rfl⟩
            obtain ⟨a, b, c⟩ := traverse_fn st functions _ _ _ _ _ _ _ _ htr
              (FnCov.nil _) (by simp [keys]) (by simp [keys])
            have hk := keys_mergeFns ex1 functions b c
            apply ih _ _ _ _ _ _ h
            have hkx : ∀ y ∈ keys ex1, y ∉ out.map (·.id) ∧ y ≠ k ∧ y ∉ keys xs := by
              intro y hy
              have hny := c y hy
              refine ⟨fun h1 => hny ((w.known y).2 (.inl h1)), ?_, fun h1 => hny ((w.known y).2 (.inr (by simp [keys] at h1 ⊢; exact .inr h1)))⟩
              rintro rfl
              exact hny ((w.known y).2 (.inr (by simp [keys])))
            constructor
            · -- nodup
              have hnd := w.nodup
              simp only [keys, List.map_cons] at hnd
              have := nodup_insert_block (out.map (·.id)) (keys xs) (keys ex1) k hnd b hkx
              simpa [keys, List.map_append, List.map_reverse, hmf'.2, List.append_assoc] using this
            · intro y
              rw [hk]
              simp only [keys, List.map_append, List.map_cons, List.map_nil, List.mem_append, List.mem_cons,
                List.map_reverse, List.mem_reverse, List.not_mem_nil, or_false, hmf'.2]
              have := w.known y
              simp only [keys, List.map_cons, List.mem_cons] at this
              constructor
              · rintro (h1 | h1)
                · rcases this.1 h1 with h2 | h2 | h2
                  · exact .inl (.inl h2)
                  · exact .inl (.inr h2)
                  · exact .inr (.inr h2)
                · exact .inr (.inl h1)
              · rintro ((h1 | h1) | h1 | h1)
                · exact .inl (this.2 (.inl h1))
                · exact .inl (this.2 (.inr (.inl h1)))
                · exact .inr h1
                · exact .inl (this.2 (.inr (.inr h1)))
            · exact w.cov.mono (fun y hy => by rw [hk]; exact List.mem_append_left _ hy)
            · intro g hg
              rcases List.mem_append.1 hg with hg | hg
              · exact (w.covOut g hg).mono (fun y hy => by rw [hk]; exact List.mem_append_left _ hy)
              · simp at hg; subst hg; rw [hmf'.1, hk]; exact a
      all_goals simp at h

theorem count_eq_one_of_nodup {x : Id} {l : List Id} (hn : l.Nodup) (hm : x ∈ l) : count x l = 1 := by
  induction l with
  | nil => simp at hm
  | cons y ys ih =>
    simp only [List.nodup_cons] at hn
    simp only [count, List.filter_cons]
    by_cases hxy : y = x
    · subst hxy
      have : ys.filter (· = y) = [] := by
        simp only [List.filter_eq_nil_iff, decide_eq_true_eq]
        intro a ha hay; subst hay; exact hn.1 ha
      simp [this]
    · have hm' : x ∈ ys := by
        rcases List.mem_cons.1 hm with h | h
        · exact absurd h.symm hxy
        · exact h
      simp only [hxy, decide_false, Bool.false_eq_true, if_false]
      exact ih hn.2 hm'

/-- **In every MIR the compile model emits, each function reference — of the program table and of every
function's own table — names exactly one element of `functions`, and no function is listed twice.** -/
theorem compile_fn_resolve (st : St) (outs : List OutDecl) (m : MirProg) (h : compile st outs = .ok m) :
    (m.functions.map (·.id)).Nodup ∧
    ∀ t ∈ allTables m, ∀ e ∈ t, ∀ f, e.2.fnRef = some f → count f (m.functions.map (·.id)) = 1 := by
  simp only [compile, bind, Except.bind] at h
  split at h
  · simp at h
  · rename_i r hco
    obtain ⟨table, functions, mouts, acc⟩ := r
    simp only at h
    split at h
    · simp at h
    · rename_i r2 hef
      obtain ⟨fns, acc2⟩ := r2
      injection h with h
      subst h
      obtain ⟨hc, hn⟩ := compileOutputs_fn st outs [] [] [] {} _ _ _ _ hco (FnCov.nil _) (by simp [keys])
      have w : WL table functions.reverse functions [] := by
        refine ⟨?_, ?_, hc, by simp⟩
        · simp only [List.map_nil, List.nil_append, keys, List.map_reverse]
          exact List.Perm.nodup (List.reverse_perm _).symm hn
        · intro k; simp [keys, List.map_reverse]
      obtain ⟨a, b, c⟩ := emitFunctions_fn st table _ _ _ _ _ _ _ hef w
      refine ⟨a, ?_⟩
      intro t ht e he f hf
      simp only [allTables, List.mem_cons, List.mem_map] at ht
      rcases ht with rfl | ⟨g, hg, rfl⟩
      · exact count_eq_one_of_nodup a (b e he f hf)
      · exact count_eq_one_of_nodup a (c g hg e he f hf)

end NadaVerif.Lemmas
