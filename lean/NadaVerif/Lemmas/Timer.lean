/-
The timers of a process are balanced: whatever a compilation does — succeed, fail while the program is
loaded, inside `nada_main`, in the middle of the outputs, or with a `TimerError` of its own — the set of
running timers afterwards is the set before.  By induction over the outputs of a program and over the
history of compilations; no bound on either.
-/
import NadaVerif.Runtime.Timer

namespace NadaVerif.Runtime

/-- run a computation from a state -/
abbrev exec {α} (x : TM α) (s : TState) : Except TErr α × TState := x.run.run s

/-- the computation leaves the set of running timers as it found it, whatever its outcome -/
def Bal {α} (x : TM α) : Prop := ∀ s, (exec x s).2.running = s.running

theorem exec_pure {α} (a : α) (s : TState) : exec (pure a : TM α) s = (.ok a, s) := rfl

theorem exec_throw {α} (e : TErr) (s : TState) : exec (throw e : TM α) s = (.error e, s) := rfl

theorem exec_bind {α β} (x : TM α) (f : α → TM β) (s : TState) :
    exec (x >>= f) s = match exec x s with
      | (.ok a, s1) => exec (f a) s1
      | (.error e, s1) => (.error e, s1) := by
  simp only [exec, bind, ExceptT.bind, ExceptT.mk, ExceptT.bindCont, ExceptT.run, StateT.run, StateT.bind]
  cases h : x s with
  | mk r s1 => cases r <;> rfl

theorem exec_tstart (n : TName) (s : TState) :
    exec (tstart n) s = if n ∈ s.running then (.error .timer, { s with log := s.log ++ [(true, n)] })
      else (.ok (), { running := n :: s.running, log := s.log ++ [(true, n)] }) := by
  by_cases h : n ∈ s.running <;>
    simp [exec, tstart, h, ExceptT.run, StateT.run, bind, ExceptT.bind, ExceptT.mk, ExceptT.bindCont, StateT.bind, get, getThe,
      MonadStateOf.get, liftM, monadLift, MonadLift.monadLift, ExceptT.lift, StateT.get, set, StateT.set, Functor.map, StateT.map,
      pure, StateT.pure, ExceptT.pure, throw, throwThe, MonadExceptOf.throw, modify, modifyGet, MonadStateOf.modifyGet, StateT.modifyGet]

theorem exec_tstop (n : TName) (s : TState) :
    exec (tstop n) s = if n ∈ s.running then (.ok (), { running := s.running.erase n, log := s.log ++ [(false, n)] })
      else (.error .timer, { s with log := s.log ++ [(false, n)] }) := by
  by_cases h : n ∈ s.running <;>
    simp [exec, tstop, h, ExceptT.run, StateT.run, bind, ExceptT.bind, ExceptT.mk, ExceptT.bindCont, StateT.bind, get, getThe,
      MonadStateOf.get, liftM, monadLift, MonadLift.monadLift, ExceptT.lift, StateT.get, set, StateT.set, Functor.map, StateT.map,
      pure, StateT.pure, ExceptT.pure, throw, throwThe, MonadExceptOf.throw, modify, modifyGet, MonadStateOf.modifyGet, StateT.modifyGet]

theorem exec_finallyDo {α} (body : TM α) (fin : TM Unit) (s : TState) :
    exec (finallyDo body fin) s = match exec body s with
      | (r, s1) => match exec fin s1 with
        | (.error e, s2) => (.error e, s2)
        | (.ok _, s2) => (r, s2) := rfl

theorem exec_timed {α} (n : TName) (body : TM α) (s : TState) :
    exec (timed n body) s =
      if n ∈ s.running then (.error .timer, { s with log := s.log ++ [(true, n)] })
      else match exec body { running := n :: s.running, log := s.log ++ [(true, n)] } with
        | (r, s1) => match exec (tstop n) s1 with
          | (.error e, s2) => (.error e, s2)
          | (.ok _, s2) => (r, s2) := by
  unfold timed
  rw [exec_bind, exec_tstart]
  by_cases h : n ∈ s.running
  · simp [h]
  · simp only [h, if_false, exec_finallyDo]

theorem bal_pure {α} (a : α) : Bal (pure a : TM α) := fun _ => rfl
theorem bal_throw {α} (e : TErr) : Bal (throw e : TM α) := fun _ => rfl

theorem bal_failIf (b : Bool) : Bal (failIf b) := by
  cases b
  · exact bal_pure ()
  · exact bal_throw _

theorem bal_bind {α β} {x : TM α} {f : α → TM β} (hx : Bal x) (hf : ∀ a, Bal (f a)) : Bal (x >>= f) := by
  intro s
  rw [exec_bind]
  have := hx s
  cases h : exec x s with
  | mk r s1 =>
    rw [h] at this
    cases r with
    | error e => simpa using this
    | ok a => simp only; rw [hf a s1]; simpa using this

/-- `start n; try: body finally: stop n` restores the running set, whatever the body does and whether or not `n` was
running already (then the `start` raises and nothing was changed). -/
theorem bal_timed {α} (n : TName) {body : TM α} (hb : Bal body) : Bal (timed n body) := by
  intro s
  rw [exec_timed]
  by_cases h : n ∈ s.running
  · simp [h]
  · simp only [h, if_false]
    have := hb { running := n :: s.running, log := s.log ++ [(true, n)] }
    cases hbody : exec body { running := n :: s.running, log := s.log ++ [(true, n)] } with
    | mk r s1 =>
      rw [hbody] at this
      simp only at this
      have hin : n ∈ s1.running := by rw [this]; simp
      simp [exec_tstop, this]

theorem bal_frontend : ∀ outs, Bal (frontend outs)
  | [] => bal_pure ()
  | (n, fails) :: rest => by
    unfold frontend
    exact bal_bind (bal_timed _ (bal_failIf fails)) (fun _ => bal_frontend rest)

theorem bal_compileScript (p : Prog) : Bal (tCompileScript p) := by
  unfold tCompileScript
  exact bal_timed _ (bal_bind (bal_timed _ (bal_failIf _)) fun _ => bal_bind (bal_failIf _) fun _ => bal_frontend _)

theorem bal_compileString (p : Prog) : Bal (tCompileString p) := by
  unfold tCompileString
  exact bal_timed _ (bal_bind (bal_failIf _) fun _ => bal_bind (bal_failIf _) fun _ => bal_frontend _)

theorem bal_compileVia (v : Bool) (p : Prog) : Bal (compileVia v p) := by
  cases v
  · exact bal_compileScript p
  · exact bal_compileString p

/-- **After any history the clock is where it was**: no compilation, successful or not, leaves a timer running. -/
theorem runHistory_running : ∀ (h : List (Bool × Prog)) (s : TState), (runHistory s h).2.running = s.running
  | [], s => rfl
  | (v, p) :: rest, s => by
    simp only [runHistory]
    cases hx : (compileVia v p).run.run s with
    | mk r s1 =>
      simp only
      rw [runHistory_running rest s1]
      have := bal_compileVia v p s
      simp only [exec, hx] at this
      exact this

/-- a computation that cannot end with a `TimerError` from a state in which the timers named by `P` are not running -/
def NoTE {α} (P : TName → Prop) (x : TM α) : Prop :=
  ∀ s, (∀ n, P n → n ∉ s.running) → (exec x s).1 ≠ .error .timer

theorem note_failIf (P) (b : Bool) : NoTE P (failIf b) := by
  intro s _
  cases b <;> simp [failIf, exec_pure, exec_throw]

theorem note_bind {α β} {P} {x : TM α} {f : α → TM β} (hx : NoTE P x) (hbx : Bal x) (hf : ∀ a, NoTE P (f a)) : NoTE P (x >>= f) := by
  intro s hs
  rw [exec_bind]
  have h1 := hx s hs
  have h2 := hbx s
  cases h : exec x s with
  | mk r s1 =>
    rw [h] at h1 h2
    cases r with
    | error e => simpa using h1
    | ok a => exact hf a s1 (by intro n hn; rw [h2]; exact hs n hn)

/-- a timed section whose own name is among the names that are not running, around a body that cannot raise a `TimerError`
once that name *is* running -/
theorem note_timed {α} {P : TName → Prop} (n : TName) (hn : P n) {body : TM α} (hbal : Bal body)
    (hb : NoTE (fun m => P m ∧ m ≠ n) body) : NoTE P (timed n body) := by
  intro s hs
  rw [exec_timed]
  have hnot := hs n hn
  simp only [hnot, if_false]
  have h1 := hb { running := n :: s.running, log := s.log ++ [(true, n)] }
    (by intro m hm; simp only [List.mem_cons, not_or]; exact ⟨hm.2, hs m hm.1⟩)
  have h2 := hbal { running := n :: s.running, log := s.log ++ [(true, n)] }
  cases hbody : exec body { running := n :: s.running, log := s.log ++ [(true, n)] } with
  | mk r s1 =>
    rw [hbody] at h1 h2
    simp only at h2
    have hin : n ∈ s1.running := by rw [h2]; simp
    simp only [exec_tstop, hin, if_true]
    exact h1

theorem note_frontend (P : TName → Prop) (hP : ∀ n, P (.output n)) : ∀ outs, NoTE P (frontend outs)
  | [] => by intro s _; simp [frontend, exec_pure]
  | (n, fails) :: rest => by
    unfold frontend
    exact note_bind (note_timed _ (hP n) (bal_failIf _) (note_failIf _ _)) (bal_timed _ (bal_failIf _)) (fun _ => note_frontend P hP rest)

/-- from a clock on which none of the package's timers is running, a compilation never ends with a `TimerError` -/
theorem note_compileVia (v : Bool) (p : Prog) : NoTE (fun _ => True) (compileVia v p) := by
  cases v
  · unfold compileVia tCompileScript
    simp only [Bool.false_eq_true, if_false]
    refine note_timed _ trivial (bal_bind (bal_timed _ (bal_failIf _)) fun _ => bal_bind (bal_failIf _) fun _ => bal_frontend _) ?_
    refine note_bind (note_timed _ ⟨trivial, by decide⟩ (bal_failIf _) (note_failIf _ _)) (bal_timed _ (bal_failIf _)) fun _ => ?_
    refine note_bind (note_failIf _ _) (bal_failIf _) fun _ => ?_
    exact note_frontend _ (fun n => ⟨trivial, by simp⟩) _
  · unfold compileVia tCompileString
    simp only [if_true]
    refine note_timed _ trivial (bal_bind (bal_failIf _) fun _ => bal_bind (bal_failIf _) fun _ => bal_frontend _) ?_
    refine note_bind (note_failIf _ _) (bal_failIf _) fun _ => ?_
    refine note_bind (note_failIf _ _) (bal_failIf _) fun _ => ?_
    exact note_frontend _ (fun n => ⟨trivial, by simp⟩) _

/-- a computation that succeeds from every state in which the timers named by `P` are not running -/
def OkOn (P : TName → Prop) (x : TM Unit) : Prop :=
  ∀ s, (∀ n, P n → n ∉ s.running) → (exec x s).1 = .ok ()

theorem okOn_bind {P} {x : TM Unit} {f : Unit → TM Unit} (hx : OkOn P x) (hbx : Bal x) (hf : OkOn P (f ())) : OkOn P (x >>= f) := by
  intro s hs
  rw [exec_bind]
  have h1 := hx s hs
  have h2 := hbx s
  cases h : exec x s with
  | mk r s1 =>
    rw [h] at h1 h2
    simp only at h1
    subst h1
    exact hf s1 (by intro n hn; rw [h2]; exact hs n hn)

theorem okOn_timed {P : TName → Prop} (n : TName) (hn : P n) {body : TM Unit} (hbal : Bal body)
    (hb : OkOn (fun m => P m ∧ m ≠ n) body) : OkOn P (timed n body) := by
  intro s hs
  rw [exec_timed]
  have hnot := hs n hn
  simp only [hnot, if_false]
  have h1 := hb { running := n :: s.running, log := s.log ++ [(true, n)] }
    (by intro m hm; simp only [List.mem_cons, not_or]; exact ⟨hm.2, hs m hm.1⟩)
  have h2 := hbal { running := n :: s.running, log := s.log ++ [(true, n)] }
  cases hbody : exec body { running := n :: s.running, log := s.log ++ [(true, n)] } with
  | mk r s1 =>
    rw [hbody] at h1 h2
    simp only at h2 h1
    have hin : n ∈ s1.running := by rw [h2]; simp
    simp only [exec_tstop, hin, if_true]
    exact h1

theorem okOn_pure (P) : OkOn P (pure ()) := fun _ _ => rfl

theorem okOn_frontend (P : TName → Prop) (hP : ∀ n, P (.output n)) :
    ∀ outs : List (String × Bool), (∀ o ∈ outs, o.2 = false) → OkOn P (frontend outs)
  | [], _ => okOn_pure P
  | (n, fails) :: rest, h => by
    unfold frontend
    have hf : fails = false := h (n, fails) (by simp)
    subst hf
    exact okOn_bind (okOn_timed _ (hP n) (bal_failIf _) (okOn_pure _)) (bal_timed _ (bal_failIf _))
      (okOn_frontend P hP rest (fun o ho => h o (by simp [ho])))

/-- a program that fails nowhere -/
def Prog.good (p : Prog) : Prop := p.importFails = false ∧ p.mainFails = false ∧ ∀ o ∈ p.outputs, o.2 = false

theorem okOn_compileVia (v : Bool) (p : Prog) (hg : p.good) : OkOn (fun _ => True) (compileVia v p) := by
  obtain ⟨h1, h2, h3⟩ := hg
  cases v
  · unfold compileVia tCompileScript
    simp only [Bool.false_eq_true, if_false, h1, h2]
    refine okOn_timed _ trivial (bal_bind (bal_timed _ (bal_failIf _)) fun _ => bal_bind (bal_failIf _) fun _ => bal_frontend _) ?_
    refine okOn_bind (okOn_timed _ ⟨trivial, by decide⟩ (bal_failIf _) (okOn_pure _)) (bal_timed _ (bal_failIf _)) ?_
    refine okOn_bind (okOn_pure _) (bal_failIf false) ?_
    exact okOn_frontend _ (fun n => ⟨trivial, by simp⟩) _ h3
  · unfold compileVia tCompileString
    simp only [if_true, h1, h2]
    refine okOn_timed _ trivial (bal_bind (bal_failIf _) fun _ => bal_bind (bal_failIf _) fun _ => bal_frontend _) ?_
    refine okOn_bind (okOn_pure _) (bal_failIf false) ?_
    refine okOn_bind (okOn_pure _) (bal_failIf false) ?_
    exact okOn_frontend _ (fun n => ⟨trivial, by simp⟩) _ h3

end NadaVerif.Runtime
