/-
Lemmas about `traverse` (the iterative DFS of `traverse_and_process_operations`), for every store,
every fuel, every stack: closure under operand references, no duplicate keys, entries are store
entries, the initial table is kept, everything on the stack gets filed.
-/
import NadaVerif.Spec.Graph

namespace NadaVerif.Lemmas
open NadaVerif NadaVerif.Spec

/-- key membership as a proposition -/
def HasKey (t : Table) (k : Id) : Prop := ∃ e ∈ t, e.1 = k

theorem has_iff (t : Table) (k : Id) : Table.has t k = true ↔ HasKey t k := by
  simp [Table.has, HasKey, List.any_eq_true]

/-- the loop invariant: every operand of a filed node is filed or still on the stack -/
def Inv (t : Table) (stack : List Id) : Prop :=
  ∀ e ∈ t, ∀ c ∈ e.2.children, HasKey t c ∨ c ∈ stack

def FromStore (st : St) (t : Table) : Prop := ∀ e ∈ t, st.lookup e.1 = some e.2

theorem hasKey_append_left {t : Table} {k : Id} (x : Id × AstOp) (h : HasKey t k) : HasKey (t ++ [x]) k := by
  obtain ⟨e, he, hk⟩ := h
  exact ⟨e, List.mem_append_left _ he, hk⟩

theorem traverse_spec (st : St) (functions : List (Id × AstOp)) :
    ∀ (fuel : Nat) (stack : List Id) (table extra : Table) (acc : CAcc) (table' extra' : Table) (acc' : CAcc),
    traverse st functions fuel stack table extra acc = .ok (table', extra', acc') →
    Inv table stack → (keys table).Nodup → FromStore st table →
      Inv table' [] ∧ (keys table').Nodup ∧ FromStore st table' ∧
      (∀ e ∈ table, e ∈ table') ∧ (∀ k ∈ stack, HasKey table' k) := by
  intro fuel
  induction fuel with
  | zero =>
    intro stack table extra acc table' extra' acc' h hinv hnd hfs
    cases stack with
    | nil =>
      simp [traverse] at h
      obtain ⟨rfl, _, _⟩ := h
      exact ⟨hinv, hnd, hfs, fun e he => he, by simp⟩
    | cons k s => simp [traverse] at h
  | succ fuel ih =>
    intro stack table extra acc table' extra' acc' h hinv hnd hfs
    cases stack with
    | nil =>
      simp [traverse] at h
      obtain ⟨rfl, _, _⟩ := h
      exact ⟨hinv, hnd, hfs, fun e he => he, by simp⟩
    | cons k s =>
      simp only [traverse] at h
      split at h
      · -- k already filed
        rename_i hk
        have hk' : HasKey table k := (has_iff table k).1 (by simpa [Table.has] using hk)
        have hinv' : Inv table s := by
          intro e he c hc
          rcases hinv e he c hc with h1 | h1
          · exact .inl h1
          · rcases List.mem_cons.1 h1 with rfl | h2
            · exact .inl hk'
            · exact .inr h2
        obtain ⟨a, b, c, d, e⟩ := ih s table extra acc table' extra' acc' h hinv' hnd hfs
        refine ⟨a, b, c, d, ?_⟩
        intro k' hk''
        rcases List.mem_cons.1 hk'' with rfl | h2
        · obtain ⟨e0, he0, hk0⟩ := hk'
          exact ⟨e0, d e0 he0, hk0⟩
        · exact e k' h2
      · rename_i hk
        split at h
        · simp at h
        · rename_i op hop
          split at h
          · simp at h
          · rename_i acc1 ex hproc
            have hnk : ¬ HasKey table k := by
              intro hc
              have := (has_iff table k).2 hc
              exact hk (by simpa [Table.has] using this)
            have hinv' : Inv (table ++ [(k, op)]) (op.children.reverse ++ s) := by
              intro e he c hc
              rcases List.mem_append.1 he with he | he
              · rcases hinv e he c hc with h1 | h1
                · exact .inl (hasKey_append_left _ h1)
                · rcases List.mem_cons.1 h1 with rfl | h2
                  · exact .inl ⟨(c, op), by simp, rfl⟩
                  · exact .inr (List.mem_append_right _ h2)
              · simp at he
                subst he
                exact .inr (List.mem_append_left _ (List.mem_reverse.2 hc))
            have hnd' : (keys (table ++ [(k, op)])).Nodup := by
              simp only [keys, List.map_append, List.map_cons, List.map_nil]
              refine List.nodup_append.2 ⟨hnd, by simp, ?_⟩
              intro a ha b hb
              simp at hb
              subst hb
              intro hab
              subst hab
              obtain ⟨e0, he0, hk0⟩ := List.mem_map.1 ha
              exact hnk ⟨e0, he0, hk0⟩
            have hfs' : FromStore st (table ++ [(k, op)]) := by
              intro e he
              rcases List.mem_append.1 he with he | he
              · exact hfs e he
              · simp at he
                subst he
                exact hop
            obtain ⟨a, b, c, d, e⟩ := ih _ _ _ _ table' extra' acc' h hinv' hnd' hfs'
            refine ⟨a, b, c, fun e0 he0 => d e0 (List.mem_append_left _ he0), ?_⟩
            intro k' hk''
            rcases List.mem_cons.1 hk'' with rfl | h2
            · exact ⟨(k', op), d _ (by simp), rfl⟩
            · exact e k' (List.mem_append_right _ h2)

/-- closure as the Bool spec states it -/
theorem closed_of_inv {t : Table} (h : Inv t []) : tableClosed t = true := by
  simp only [tableClosed, List.all_eq_true]
  intro e he c hc
  rcases h e he c hc with h1 | h1
  · exact (has_iff t c).2 h1
  · simp at h1

end NadaVerif.Lemmas
