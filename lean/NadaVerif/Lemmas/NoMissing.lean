/-
Compiling a closed store never looks up a missing id.

`Closed st` (every record found in the store mentions only ids the store holds) is what `trace_stored`
establishes for every traced program; under it, and when every output designates a stored operation, none of
the lookups of `compile` — operands during the traversals, applied functions, parameters of emitted functions,
output roots — can fail: `compile st outs ≠ .error .key`.
-/
import NadaVerif.Lemmas.TraceStored
import NadaVerif.Lemmas.Traverse

namespace NadaVerif.Lemmas
open NadaVerif NadaVerif.Spec

def Stored (st : St) (k : Id) : Prop := ∃ o, st.lookup k = some o

theorem stored_iff_has (st : St) (k : Id) : Stored st k ↔ Has st.ops k := by
  unfold Stored Has St.lookup
  constructor
  · rintro ⟨o, h⟩
    simp only [Option.map_eq_some_iff] at h
    obtain ⟨e, he, rfl⟩ := h
    have h1 := List.find?_some he
    have h2 := List.mem_of_find?_eq_some he
    simp at h1
    exact ⟨e.2, by rw [← h1]; exact h2⟩
  · rintro ⟨o, h⟩
    cases hf : st.ops.find? (·.1 == k) with
    | none =>
      have := List.find?_eq_none.1 hf (k, o) h
      simp at this
    | some e => exact ⟨e.2, by simp⟩

def Closed (st : St) : Prop := ∀ k op, st.lookup k = some op → ∀ c ∈ op.mentions, Stored st c

theorem lookup_mem' (st : St) (k : Id) (op : AstOp) (h : st.lookup k = some op) : (k, op) ∈ st.ops := by
  simp only [St.lookup, Option.map_eq_some_iff] at h
  obtain ⟨e, he, rfl⟩ := h
  have := List.find?_some he
  have hm := List.mem_of_find?_eq_some he
  simp at this
  subst this
  exact hm

theorem closed_of_stoL (st : St) (h : StoL st.ops) : Closed st := by
  intro k op hl c hc
  exact (stored_iff_has st c).2 (StoL.closed h (k, op) (lookup_mem' st k op hl) c hc)

/-- the result is not the missing-key failure -/
def NK {α} (r : Except Err α) : Prop := r ≠ .error .key

theorem children_sub_mentions (op : AstOp) : ∀ c ∈ op.children, c ∈ op.mentions := by
  intro c hc; simp [AstOp.mentions, hc]
theorem fnRef_mem_mentions (op : AstOp) (f : Id) (h : op.fnRef = some f) : f ∈ op.mentions := by
  simp [AstOp.mentions, h]

theorem addInput_nk (acc : CAcc) (i : MirInput) : NK (addInput acc i) := by
  unfold addInput NK
  simp only
  split <;> simp

theorem processOp_nk (st : St) (hc : Closed st) (k : Id) (op : AstOp) (hl : st.lookup k = some op)
    (functions : Table) (acc : CAcc) :
    (∀ e, processOp st k op functions acc = .error e → e ≠ .key) ∧
    (∀ a f, processOp st k op functions acc = .ok (a, some f) → st.lookup f.1 = some f.2) := by
  have hfn : ∀ f, op.fnRef = some f → Stored st f := fun f hf => hc k op hl f (fnRef_mem_mentions op f hf)
  cases op <;> simp only [processOp]
  case input name party doc ty =>
    have := addInput_nk acc { name := name, ty := ty, party := party, doc := doc, id := k }
    cases h : addInput acc { name := name, ty := ty, party := party, doc := doc, id := k } with
    | error e =>
      simp only [bind, Except.bind, Except.error.injEq, reduceCtorEq, false_implies, implies_true, and_true]
      intro e' he; subst he; intro hk; subst hk; exact this h
    | ok a => simp [bind, Except.bind]
  case map c fn ty =>
    obtain ⟨o, ho⟩ := hfn fn rfl
    split <;> simp_all
  case reduce c fn i ty =>
    obtain ⟨o, ho⟩ := hfn fn rfl
    split <;> simp_all
  case call as fn ty =>
    obtain ⟨o, ho⟩ := hfn fn rfl
    split <;> simp_all
  case function n a c ty =>
    split <;> simp_all
  all_goals simp

theorem fromStore_upsertFn (st : St) (f : Id × AstOp) (hf : st.lookup f.1 = some f.2) :
    ∀ (t : Table), FromStore st t → FromStore st (upsertFn f t)
  | [], _ => by intro e he; simp [upsertFn] at he; subst he; exact hf
  | g :: gs, h => by
    unfold upsertFn
    split
    · intro e he
      rcases List.mem_cons.1 he with rfl | he
      · exact hf
      · exact h e (List.mem_cons_of_mem _ he)
    · intro e he
      rcases List.mem_cons.1 he with rfl | he
      · exact h _ (List.mem_cons_self ..)
      · exact fromStore_upsertFn st f hf gs (fun e he => h e (List.mem_cons_of_mem _ he)) e he

theorem fromStore_mergeFns (st : St) : ∀ (extra fs : Table), FromStore st extra → FromStore st fs →
    FromStore st (mergeFns fs extra)
  | [], fs, _, h => by simpa [mergeFns] using h
  | e :: es, fs, he, h => by
    simp only [mergeFns, List.foldl_cons]
    exact fromStore_mergeFns st es _ (fun x hx => he x (List.mem_cons_of_mem _ hx))
      (fromStore_upsertFn st e (he e (List.mem_cons_self ..)) fs h)

theorem traverse_nk (st : St) (hc : Closed st) (functions : Table) :
    ∀ (fuel : Nat) (stack : List Id) (table extra : Table) (acc : CAcc),
    (∀ k ∈ stack, Stored st k) → FromStore st extra →
    (∀ e, traverse st functions fuel stack table extra acc = .error e → e ≠ .key) ∧
    (∀ t ex a, traverse st functions fuel stack table extra acc = .ok (t, ex, a) → FromStore st ex) := by
  intro fuel
  induction fuel with
  | zero =>
    intro stack table extra acc hs he
    cases stack <;> simp [traverse]
    exact he
  | succ fuel ih =>
    intro stack table extra acc hs he
    cases stack with
    | nil => simp [traverse]; exact he
    | cons k s =>
      simp only [traverse]
      have hs' : ∀ k ∈ s, Stored st k := fun x hx => hs x (List.mem_cons_of_mem _ hx)
      split
      · exact ih s table extra acc hs' he
      · obtain ⟨op, hl⟩ := hs k (List.mem_cons_self ..)
        simp only [hl]
        have hp := processOp_nk st hc k op hl functions acc
        cases hpo : processOp st k op functions acc with
        | error e =>
          simp only [Except.error.injEq, reduceCtorEq, false_implies, implies_true, and_true]
          intro e' he'; subst he'; exact hp.1 e hpo
        | ok r =>
          obtain ⟨acc', ex⟩ := r
          simp only
          apply ih
          · intro x hx
            rcases List.mem_append.1 hx with h | h
            · exact hc k op hl x (children_sub_mentions op x (List.mem_reverse.1 h))
            · exact hs' x h
          · cases ex with
            | none => exact he
            | some f => exact fromStore_upsertFn st f (hp.2 acc' f hpo) extra he

theorem mapM_argOf_nk (st : St) : ∀ (args : List Id), (∀ a ∈ args, Stored st a) → NK (args.mapM (argOf st))
  | [], _ => by simp [NK, List.mapM_nil, pure, Except.pure]
  | a :: as, h => by
    obtain ⟨o, ho⟩ := h a (List.mem_cons_self ..)
    have ih := mapM_argOf_nk st as (fun x hx => h x (List.mem_cons_of_mem _ hx))
    simp only [List.mapM_cons, NK, bind, Except.bind]
    cases ha : argOf st a with
    | error e =>
      simp only [ne_eq, Except.error.injEq]
      intro he; subst he
      unfold argOf at ha; rw [ho] at ha
      cases o <;> simp at ha
    | ok v =>
      simp only
      cases hm : as.mapM (argOf st) with
      | error e => simp only [ne_eq, Except.error.injEq]; intro he; subst he; exact ih hm
      | ok vs => simp [pure, Except.pure]

theorem fnToMir_nk (st : St) (k : Id) (f : AstOp) (table : Table)
    (h : ∀ n args c ty, f = .function n args c ty → ∀ a ∈ args, Stored st a) : NK (fnToMir st k f table) := by
  cases f <;> simp only [fnToMir, NK] <;> try simp
  case function n args c ty =>
    have := mapM_argOf_nk st args (h n args c ty rfl)
    cases hm : args.mapM (argOf st) with
    | error e => simp only [bind, Except.bind]; intro he; cases he; exact this hm
    | ok v => simp [bind, Except.bind]

theorem emitFunctions_nk (st : St) (hc : Closed st) :
    ∀ (fuel : Nat) (stack functions : Table) (out : List MirFn) (acc : CAcc),
    FromStore st stack → FromStore st functions → NK (emitFunctions st fuel stack functions out acc) := by
  intro fuel
  induction fuel with
  | zero => intro stack functions out acc hs hf; cases stack <;> simp [emitFunctions, NK]
  | succ fuel ih =>
    intro stack functions out acc hs hf
    cases stack with
    | nil => simp [emitFunctions, NK]
    | cons e s =>
      obtain ⟨k, f⟩ := e
      have hl : st.lookup k = some f := hs (k, f) (List.mem_cons_self ..)
      have hs' : FromStore st s := fun x hx => hs x (List.mem_cons_of_mem _ hx)
      cases f <;> simp only [emitFunctions] <;> try (simp [NK]; done)
      case function n args c ty =>
        have hm := hc k _ hl
        have hchild : Stored st c := hm c (by simp [mentions_function])
        have hargs : ∀ a ∈ args, Stored st a := fun a ha => hm a (by simp [mentions_function, ha])
        have ht := traverse_nk st hc functions st.fuel [c] [] [] acc
          (by intro x hx; simp at hx; subst hx; exact hchild) (by intro e he; simp at he)
        cases htr : traverse st functions st.fuel [c] [] [] acc with
        | error e => simp only [NK, ne_eq, Except.error.injEq]; exact ht.1 e htr
        | ok r =>
          obtain ⟨table, extra, acc'⟩ := r
          replace ht : FromStore st extra := ht.2 _ _ _ htr
          simp only
          have hfm := fnToMir_nk st k (.function n args c ty) table
            (by intro n' a' c' t' he; cases he; exact hargs)
          cases hfn : fnToMir st k (.function n args c ty) table with
          | error e => simp only [NK, ne_eq, Except.error.injEq]; intro he; subst he; exact hfm hfn
          | ok mf =>
            simp only
            apply ih
            · intro x hx
              rcases List.mem_append.1 hx with h | h
              · exact ht x (List.mem_reverse.1 h)
              · exact hs' x h
            · exact fromStore_mergeFns st extra functions ht hf

theorem compileOutputs_nk (st : St) (hc : Closed st) :
    ∀ (outs : List OutDecl) (table functions : Table) (mouts : List MirOutput) (acc : CAcc),
    (∀ o ∈ outs, Stored st o.root) → FromStore st functions →
    (∀ e, compileOutputs st outs table functions mouts acc = .error e → e ≠ .key) ∧
    (∀ t fs mo a, compileOutputs st outs table functions mouts acc = .ok (t, fs, mo, a) → FromStore st fs) := by
  intro outs
  induction outs with
  | nil => intro table functions mouts acc _ hf; simp [compileOutputs]; rintro _ _ _ _ _ rfl _ _; exact hf
  | cons o os ih =>
    intro table functions mouts acc ho hf
    simp only [compileOutputs]
    have hroot := ho o (List.mem_cons_self ..)
    have ht := traverse_nk st hc functions st.fuel [o.root] table [] acc
      (by intro x hx; simp at hx; subst hx; exact hroot) (by intro e he; simp at he)
    cases htr : traverse st functions st.fuel [o.root] table [] acc with
    | error e => simp only [Except.error.injEq, reduceCtorEq, false_implies, implies_true, and_true]; intro e' he; subst he; exact ht.1 e htr
    | ok r =>
      obtain ⟨table', extra, acc'⟩ := r
      replace ht : FromStore st extra := ht.2 _ _ _ htr
      obtain ⟨op, hop⟩ := hroot
      simp only [hop]
      exact ih _ _ _ _ (fun x hx => ho x (List.mem_cons_of_mem _ hx)) (fromStore_mergeFns st extra functions ht hf)

/-- **No lookup of `compile` can miss** in a closed store whose outputs designate stored operations. -/
theorem compile_nk (st : St) (hc : Closed st) (outs : List OutDecl) (ho : ∀ o ∈ outs, Stored st o.root) :
    compile st outs ≠ .error .key := by
  have h1 := compileOutputs_nk st hc outs [] [] [] {} ho (by intro e he; simp at he)
  unfold compile
  cases hco : compileOutputs st outs [] [] [] {} with
  | error e => simp only [bind, Except.bind, ne_eq, Except.error.injEq]; exact h1.1 e hco
  | ok r =>
    obtain ⟨table, functions, mouts, acc⟩ := r
    replace h1 : FromStore st functions := h1.2 _ _ _ _ hco
    simp only [bind, Except.bind]
    have h2 := emitFunctions_nk st hc (st.ops.length + 1) functions.reverse functions [] acc
      (fun x hx => h1 x (List.mem_reverse.1 hx)) h1
    cases hem : emitFunctions st (st.ops.length + 1) functions.reverse functions [] acc with
    | error e => simp only [ne_eq, Except.error.injEq]; intro he; subst he; exact h2 hem
    | ok r2 => obtain ⟨fns, acc2⟩ := r2; simp

end NadaVerif.Lemmas
