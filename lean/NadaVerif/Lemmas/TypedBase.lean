/-
Typed store — pure part.  Lookup after a store, congruence of `edgeOK` in the lookups it makes, `to_mir()` facts the
per-command proofs need (no state here).
-/
import NadaVerif.Spec.Edge
import NadaVerif.Lemmas.TraceStored

namespace NadaVerif.Lemmas
open NadaVerif NadaVerif.Edge

/-! ### lookup -/

theorem lookup_cons (c : Nat) (ops : List (Id × AstOp)) (l : List String) (k : Id) (op : AstOp) (k' : Id) :
    (St.mk c ((k, op) :: ops) l).lookup k' = if k' = k then some op else (St.mk c ops l).lookup k' := by
  simp only [St.lookup, List.find?_cons]
  by_cases h : k' = k
  · subst h; simp
  · have : (k == k') = false := by simpa using fun e => h e.symm
    simp [this, h]

theorem lookup_eq_of_ops (s t : St) (h : s.ops = t.ops) (k : Id) : s.lookup k = t.lookup k := by
  simp [St.lookup, h]

theorem lookup_some_has (s : St) (k : Id) (op : AstOp) (h : s.lookup k = some op) : Has s.ops k := by
  simp only [St.lookup, Option.map_eq_some_iff] at h
  obtain ⟨e, he, rfl⟩ := h
  have hm := List.mem_of_find?_eq_some he
  have hk := List.find?_some he
  simp at hk
  exact ⟨e.2, by rw [← hk]; exact hm⟩

theorem lookup_none_of_not_has (s : St) (k : Id) (h : ¬ Has s.ops k) : s.lookup k = none := by
  cases hl : s.lookup k with
  | none => rfl
  | some op => exact absurd (lookup_some_has s k op hl) h

theorem has_lookup (s : St) (k : Id) (h : Has s.ops k) : ∃ op, s.lookup k = some op := by
  obtain ⟨op, hm⟩ := h
  cases hl : s.lookup k with
  | some o => exact ⟨o, rfl⟩
  | none =>
    simp only [St.lookup, Option.map_eq_none_iff, List.find?_eq_none] at hl
    have := hl _ hm
    simp at this

/-! ### `to_mir()` facts -/

theorem toMir_withChild (v : Val) (k : Id) : (v.withChild k).toMir = v.toMir := by
  cases v <;> simp [Val.withChild, Val.toMir]

theorem child_withChild (v : Val) (k : Id) : (v.withChild k).child = some k := by
  cases v <;> simp [Val.withChild, Val.child]

/-- `sideType` and `innerType` agree wherever the former succeeds -/
theorem sideType_eq_innerType (e : Elem) (t : MTy) (h : e.sideType = .ok t) : e.innerType = .ok t := by
  cases e with
  | typeVar => simp [Elem.sideType] at h
  | cls s => simpa [Elem.sideType, Elem.innerType] using h
  | inst v => simpa [Elem.sideType, Elem.innerType] using h
  | arrayType e n => simpa [Elem.sideType, Elem.innerType] using h

theorem asInstance_eq_sideType (e : Elem) (t : MTy) (h : e.asInstanceToMir = .ok t) : e.sideType = .ok t := by
  cases e with
  | typeVar => simp [Elem.asInstanceToMir] at h
  | cls s => simp [Elem.asInstanceToMir] at h
  | inst v => simpa [Elem.sideType, Elem.asInstanceToMir] using h
  | arrayType e n => simpa [Elem.sideType, Elem.asInstanceToMir] using h

theorem STy.mem_all (t : STy) : t ∈ STy.all := by
  obtain ⟨m, b⟩ := t; cases m <;> cases b <;> simp [STy.all]

theorem BinOp.mem_all (op : BinOp) : op ∈ BinOp.all := by
  cases op <;> simp [BinOp.all]

theorem mem_scalarOf (s : STy) : s ∈ scalarOf (.scalar s.mirName) := by
  simp [scalarOf, STy.mem_all]

/-! ### scalar rules: the closed form's accepted, unfolded results satisfy the erased edge relation -/

theorem binEdge_table :
    (BinOp.all.all fun op => STy.all.all fun a => STy.all.all fun b =>
      match typeBin op a b with
      | .ok t false => binEdge op.mirName a b (.scalar t.mirName)
      | _ => true) = true := by decide +kernel

theorem binEdge_of_typeBin (op : BinOp) (a b t : STy) (h : typeBin op a b = .ok t false) :
    binEdge op.mirName a b (.scalar t.mirName) = true := by
  have := binEdge_table
  simp only [List.all_eq_true] at this
  have := this op (BinOp.mem_all op) a (STy.mem_all a) b (STy.mem_all b)
  simpa [h] using this

theorem truncEdge_table :
    (STy.all.all fun a => STy.all.all fun b =>
      (match typeTruncPr a b with
       | .ok t false => binEdge "TruncPr" a b (.scalar t.mirName)
       | _ => true) &&
      (match typePublicEquals a b with
       | .ok t false => binEdge "PublicOutputEquality" a b (.scalar t.mirName)
       | _ => true)) = true := by decide +kernel

theorem binEdge_of_truncPr (a b t : STy) (h : typeTruncPr a b = .ok t false) :
    binEdge "TruncPr" a b (.scalar t.mirName) = true := by
  have := truncEdge_table
  simp only [List.all_eq_true, Bool.and_eq_true] at this
  have := (this a (STy.mem_all a) b (STy.mem_all b)).1
  simpa [h] using this

theorem binEdge_of_publicEquals (a b t : STy) (h : typePublicEquals a b = .ok t false) :
    binEdge "PublicOutputEquality" a b (.scalar t.mirName) = true := by
  have := truncEdge_table
  simp only [List.all_eq_true, Bool.and_eq_true] at this
  have := (this a (STy.mem_all a) b (STy.mem_all b)).2
  simpa [h] using this

theorem ifElse_table :
    (STy.all.all fun c => STy.all.all fun a => STy.all.all fun b =>
      match typeIfElse c a b with
      | .ok t false => a.base == b.base &&
          (MTy.scalar t.mirName == .scalar (STy.mk (emode (STy.isSec c || STy.isSec a || STy.isSec b)) a.base).mirName)
      | _ => true) = true := by decide +kernel

theorem ifElse_edge (c a b t : STy) (h : typeIfElse c a b = .ok t false) :
    (a.base == b.base &&
      (MTy.scalar t.mirName == .scalar (STy.mk (emode (STy.isSec c || STy.isSec a || STy.isSec b)) a.base).mirName)) = true := by
  have := ifElse_table
  simp only [List.all_eq_true] at this
  have := this c (STy.mem_all c) a (STy.mem_all a) b (STy.mem_all b)
  simpa [h] using this

theorem unary_table :
    (STy.all.all fun a =>
      (match typeInvert a with
       | .ok t false => t == a
       | _ => true) &&
      (match typeReveal a with
       | .ok t false => MTy.scalar t.mirName == .scalar (STy.mk .pub a.base).mirName
       | _ => true)) = true := by decide +kernel

theorem invert_edge (a t : STy) (h : typeInvert a = .ok t false) : t = a := by
  have := unary_table
  simp only [List.all_eq_true, Bool.and_eq_true] at this
  have := (this a (STy.mem_all a)).1
  simpa [h] using this

theorem reveal_edge (a t : STy) (h : typeReveal a = .ok t false) :
    MTy.scalar t.mirName = .scalar (STy.mk .pub a.base).mirName := by
  have := unary_table
  simp only [List.all_eq_true, Bool.and_eq_true] at this
  have := (this a (STy.mem_all a)).2
  simpa [h] using this

end NadaVerif.Lemmas
