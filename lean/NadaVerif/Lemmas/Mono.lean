/-
Monotonicity of the compile model in the store (used for C08): if every record that `st` holds is
also what `st'` returns for that id (st' may hold anything else: operations of earlier programs,
of aborted traces, of later traces) and `st'` gives at least as much fuel, then every successful
compilation from `st` is reproduced verbatim from `st'`.
-/
import NadaVerif.Compile

namespace NadaVerif.Lemmas
open NadaVerif

/-- `st'` knows everything `st` knows -/
def Extends (st st' : St) : Prop := ∀ k op, st.lookup k = some op → st'.lookup k = some op

theorem processOp_mono {st st' : St} (h : Extends st st') (k : Id) (op : AstOp) (fs : List (Id × AstOp))
    (acc : CAcc) (r : CAcc × Option (Id × AstOp)) (hr : processOp st k op fs acc = .ok r) :
    processOp st' k op fs acc = .ok r := by
  cases op <;> simp only [processOp] at hr ⊢ <;> try exact hr
  all_goals
    split at hr
    · rename_i hc; simp only [hc, if_true]; exact hr
    · rename_i hc
      simp only [hc]
      split at hr
      · rename_i f hf; rw [h _ _ hf]; exact hr
      · simp at hr

theorem traverse_mono {st st' : St} (h : Extends st st') (functions : List (Id × AstOp)) :
    ∀ (fuel : Nat) (stack : List Id) (table extra : List (Id × AstOp)) (acc : CAcc) r,
    traverse st functions fuel stack table extra acc = .ok r →
    ∀ extraFuel, traverse st' functions (fuel + extraFuel) stack table extra acc = .ok r := by
  intro fuel
  induction fuel with
  | zero =>
    intro stack table extra acc r hr n
    cases stack with
    | nil => cases n <;> simpa [traverse] using hr
    | cons k s => simp [traverse] at hr
  | succ fuel ih =>
    intro stack table extra acc r hr n
    cases stack with
    | nil => rw [Nat.add_right_comm]; simpa [traverse] using hr
    | cons k s =>
      rw [Nat.add_right_comm]
      simp only [traverse] at hr ⊢
      split at hr
      · rename_i hk; simp only [hk, if_true]; exact ih _ _ _ _ _ hr n
      · rename_i hk
        simp only [hk]
        split at hr
        · simp at hr
        · rename_i op hop
          rw [h _ _ hop]
          simp only
          split at hr
          · simp at hr
          · rename_i acc1 ex hproc
            rw [processOp_mono h _ _ _ _ _ hproc]
            exact ih _ _ _ _ _ hr n

end NadaVerif.Lemmas

namespace NadaVerif.Lemmas
open NadaVerif

theorem compileOutputs_mono {st st' : St} (h : Extends st st') (hf : st.fuel ≤ st'.fuel) :
    ∀ (outs : List OutDecl) (table functions : List (Id × AstOp)) (mouts : List MirOutput) (acc : CAcc) r,
    compileOutputs st outs table functions mouts acc = .ok r →
    compileOutputs st' outs table functions mouts acc = .ok r := by
  intro outs
  induction outs with
  | nil => intro table functions mouts acc r hr; simpa [compileOutputs] using hr
  | cons o os ih =>
    intro table functions mouts acc r hr
    simp only [compileOutputs] at hr ⊢
    split at hr
    · simp at hr
    · rename_i t1 ex1 acc1 htr
      have := traverse_mono h functions _ _ _ _ _ _ htr (st'.fuel - st.fuel)
      rw [Nat.add_sub_cancel' hf] at this
      rw [this]
      simp only
      split at hr
      · simp at hr
      · rename_i op hop
        rw [h _ _ hop]
        exact ih _ _ _ _ _ hr

theorem fnToMir_mono {st st' : St} (h : Extends st st') (k : Id) (f : AstOp) (table : List (Id × AstOp))
    (mf : MirFn) (hr : fnToMir st k f table = .ok mf) : fnToMir st' k f table = .ok mf := by
  cases f <;> simp only [fnToMir] at hr ⊢ <;> try exact hr
  rename_i name args child ty
  have one : ∀ a x, argOf st a = .ok x → argOf st' a = .ok x := by
    intro a x hx
    unfold argOf at hx ⊢
    cases hl : st.lookup a with
    | none => simp [hl] at hx
    | some op => rw [h _ _ hl]; simpa [hl] using hx
  have key : ∀ (as : List Id) (r : List (String × MTy)),
      as.mapM (argOf st) = .ok r → as.mapM (argOf st') = .ok r := by
    intro as
    induction as with
    | nil => intro r hr; simpa using hr
    | cons a as ih =>
      intro r hr
      simp only [List.mapM_cons, bind, Except.bind] at hr ⊢
      split at hr
      · simp at hr
      · rename_i x hx
        rw [one _ _ hx]
        simp only
        split at hr
        · simp at hr
        · rename_i xs hxs
          rw [ih _ hxs]
          exact hr
  simp only [bind, Except.bind] at hr ⊢
  split at hr
  · simp at hr
  · rename_i as has
    rw [key _ _ has]
    exact hr

theorem emitFunctions_mono {st st' : St} (h : Extends st st') (hf : st.fuel ≤ st'.fuel) :
    ∀ (fuel : Nat) (stack functions : List (Id × AstOp)) (out : List MirFn) (acc : CAcc) r,
    emitFunctions st fuel stack functions out acc = .ok r →
    ∀ extra, emitFunctions st' (fuel + extra) stack functions out acc = .ok r := by
  intro fuel
  induction fuel with
  | zero =>
    intro stack functions out acc r hr n
    cases stack with
    | nil => cases n <;> simpa [emitFunctions] using hr
    | cons x xs => simp [emitFunctions] at hr
  | succ fuel ih =>
    intro stack functions out acc r hr n
    cases stack with
    | nil => rw [Nat.add_right_comm]; simpa [emitFunctions] using hr
    | cons x xs =>
      obtain ⟨k, f⟩ := x
      rw [Nat.add_right_comm]
      simp only [emitFunctions] at hr ⊢
      split at hr
      · rename_i name args child ty
        split at hr
        · simp at hr
        · rename_i t1 ex1 acc1 htr
          have := traverse_mono h functions _ _ _ _ _ _ htr (st'.fuel - st.fuel)
          rw [Nat.add_sub_cancel' hf] at this
          rw [this]
          simp only
          split at hr
          · simp at hr
          · rename_i mf hmf
            rw [fnToMir_mono h _ _ _ _ hmf]
            exact ih _ _ _ _ _ hr n
      all_goals simp at hr

/-- **Store monotonicity of compilation.** -/
theorem compile_mono {st st' : St} (h : Extends st st') (hf : st.fuel ≤ st'.fuel)
    (hl : st.ops.length ≤ st'.ops.length) (outs : List OutDecl) (m : MirProg)
    (hc : compile st outs = .ok m) : compile st' outs = .ok m := by
  simp only [compile, bind, Except.bind] at hc ⊢
  split at hc
  · simp at hc
  · rename_i r hco
    rw [compileOutputs_mono h hf _ _ _ _ _ _ hco]
    obtain ⟨table, functions, mouts, acc⟩ := r
    simp only at hc ⊢
    split at hc
    · simp at hc
    · rename_i r2 hef
      have := emitFunctions_mono h hf _ _ _ _ _ _ hef (st'.ops.length - st.ops.length)
      have e : st.ops.length + 1 + (st'.ops.length - st.ops.length) = st'.ops.length + 1 := by omega
      rw [e] at this
      rw [this]
      exact hc

end NadaVerif.Lemmas
