/-
Whatever was compiled before and whatever was edited in between: the helper modules a program runs
against are modules of its own directory, loaded from the files that are on disk now.
-/
import NadaVerif.Runtime.Helpers

namespace NadaVerif.Runtime

theorem enter_fresh (disk : Disk) (dir : String) (r : Registry) : Fresh disk dir (enter disk dir r) := by
  unfold enter
  split
  · intro h hh; simp at hh
  · rename_i hany
    intro h hh
    have : ¬ (h.owner != dir || !h.current disk) = true := by
      intro hc
      exact hany (List.any_eq_true.mpr ⟨h, hh, hc⟩)
    simp only [Bool.or_eq_true, bne_iff_ne, ne_eq, Bool.not_eq_true', not_or, Decidable.not_not, Bool.not_eq_false] at this
    exact this

theorem importMod_fresh (disk : Disk) (dir : String) (r : Registry) (name : String) (h : Fresh disk dir r) :
    Fresh disk dir (importMod disk dir r name).1 := by
  unfold importMod
  split
  · exact h
  · split
    · rename_i st hst
      intro x hx
      rcases List.mem_append.mp hx with hx | hx
      · exact h x hx
      · simp only [List.mem_singleton] at hx
        subst hx
        exact ⟨rfl, by simp [Helper.current, hst]⟩
    · exact h

theorem foldl_fresh (disk : Disk) (dir : String) : ∀ (names : List String) (acc : Registry × List String),
    Fresh disk dir acc.1 →
    Fresh disk dir (names.foldl (fun (acc : Registry × List String) n =>
      let p := importMod disk dir acc.1 n
      (p.1, if p.2 then acc.2 ++ [n] else acc.2)) acc).1
  | [], acc, h => h
  | n :: rest, acc, h => by
    simp only [List.foldl_cons]
    exact foldl_fresh disk dir rest _ (importMod_fresh disk dir acc.1 n h)

/-- **During and after a compilation every loaded helper is the program's own and current**, whatever the registry held before. -/
theorem compileFrom_fresh (disk : Disk) (dir : String) (names : List String) (r : Registry) :
    Fresh disk dir (compileFrom disk dir names r).1 :=
  foldl_fresh disk dir names _ (enter_fresh disk dir r)

/-- a module that the program imports and that has a file in the program's directory is loaded afterwards … -/
theorem importMod_loaded (disk : Disk) (dir : String) (r : Registry) (name : String) (st : Nat) (hd : disk dir name = some st) :
    ∃ h ∈ (importMod disk dir r name).1, h.name = name := by
  unfold importMod
  split
  · rename_i hany
    obtain ⟨h, hh, hn⟩ := List.any_eq_true.mp hany
    exact ⟨h, hh, by simpa using hn⟩
  · simp only [hd]
    exact ⟨⟨name, dir, st⟩, by simp, rfl⟩

/-- … and, by `compileFrom_fresh`, from the file that is on disk now: the stamp recorded for it is the disk's.  Stated for the
last history step: after any history, the helper `name` the last program imported first carries today's stamp. -/
theorem helper_is_current_after_history (hist : List Step) (s : Step) (name : String) (rest : List String) (st : Nat)
    (hn : s.names = name :: rest) (hd : s.disk s.dir name = some st) :
    ∀ h ∈ (compileFrom s.disk s.dir s.names (runSteps [] hist)).1, h.name = name → h.owner = s.dir ∧ h.stamp = st := by
  intro h hh hname
  have hf := compileFrom_fresh s.disk s.dir s.names (runSteps [] hist) h hh
  refine ⟨hf.1, ?_⟩
  have hc := hf.2
  simp only [Helper.current, beq_iff_eq] at hc
  rw [hf.1, hname, hd] at hc
  exact (Option.some.inj hc).symm

theorem enter_of_fresh (disk : Disk) (dir : String) (r : Registry) (h : Fresh disk dir r) : enter disk dir r = r := by
  unfold enter
  split
  · rename_i hany
    obtain ⟨x, hx, hc⟩ := List.any_eq_true.mp hany
    have := h x hx
    simp [this.1, this.2] at hc
  · rfl

theorem foldl_noexec (disk : Disk) (dir : String) (r : Registry) : ∀ (names : List String) (done : List String),
    (∀ n ∈ names, r.any (·.name == n) = true) →
    names.foldl (fun (acc : Registry × List String) n =>
      let p := importMod disk dir acc.1 n
      (p.1, if p.2 then acc.2 ++ [n] else acc.2)) (r, done) = (r, done)
  | [], _, _ => rfl
  | n :: rest, done, h => by
    have hn : r.any (·.name == n) = true := h n (by simp)
    simp only [List.foldl_cons, importMod, hn, if_true, Bool.false_eq_true, if_false]
    exact foldl_noexec disk dir r rest done (fun m hm => h m (by simp [hm]))

/-- **Nothing is loaded twice while nothing changes**: a program of the same directory whose helpers are all loaded, from files that
are still the ones on disk, executes none of them again (helper modules of one directory are imported once — what the entry-point
composition K10 relies on, and what makes module-level state of a helper persist between programs of its directory by design). -/
theorem compileFrom_noexec (disk : Disk) (dir : String) (names : List String) (r : Registry)
    (hf : Fresh disk dir r) (hl : ∀ n ∈ names, r.any (·.name == n) = true) :
    compileFrom disk dir names r = (r, []) := by
  unfold compileFrom
  rw [enter_of_fresh disk dir r hf]
  exact foldl_noexec disk dir r names [] hl

/-- Sensitivity: forgetting only the helper whose own file changed (the behaviour before repair `0dc3edb`) leaves a registry that
is not fresh for a second helper loaded from a file that changed as well … the invariant is about *every* loaded helper. -/
example : ¬ Fresh (fun _ n => if n = "inner" then some 2 else some 1) "d" [⟨"outer", "d", 1⟩, ⟨"inner", "d", 1⟩] := by
  intro h
  have := (h ⟨"inner", "d", 1⟩ (by simp)).2
  simp [Helper.current] at this

example : (compileFrom (fun _ n => if n = "inner" then some 2 else some 1) "d" ["outer", "inner"] [⟨"outer", "d", 1⟩, ⟨"inner", "d", 1⟩]) =
    ([⟨"outer", "d", 1⟩, ⟨"inner", "d", 2⟩], ["outer", "inner"]) := by decide

end NadaVerif.Runtime
