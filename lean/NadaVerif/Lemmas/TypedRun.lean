/-
Typed store — from single commands to every clean run.

`CleanStep m c`: the registers the command reads still agree with the store (no wrapper of an `Input` is used after
the input record was re-typed), and a command that re-types an input record (`T(Input)` on an already wrapped input,
`Array(T(Input), size)`) does so only while no stored operation refers to that record.  These are the two ways in
which the DSL lets one `Input` object carry two types (finding F-C03-2); outside them:

`trace_edges_ok`: after **any** command list run cleanly from the initial state, every visible record of the store is
edge-consistent (`Edge.edgeOK`) — the type recorded for an operation is the one its operands' recorded types determine.
-/
import NadaVerif.Lemmas.Typed

namespace NadaVerif.Lemmas
open Std.Do NadaVerif NadaVerif.Spec NadaVerif.Edge

set_option maxHeartbeats 1000000

/-- every command that only stores under fresh ids -/
theorem exec_typed_std (regs : List RVal) (frames : List Frame) (s0 : St)
    (hS : StoreInv s0) (hcl : StoL s0.ops) (hsto : RegsSto s0.ops regs) (hT : RegsTyped s0 regs) (c : Cmd)
    (hw : ∀ t r, c ≠ .wrap t r) (ha : ∀ r n, c ≠ .arrayOf r n) (he : ∀ r t, c ≠ .endFn r t) :
    GoalT regs frames s0 c := by
  cases c with
  | party nm => exact tx_party regs frames s0 hS hcl hsto hT nm
  | inputObj a b p => exact tx_inputObj regs frames s0 hS hcl hsto hT a b p
  | wrap t r => exact absurd rfl (hw t r)
  | arrayOf r sz => exact absurd rfl (ha r sz)
  | lit b v => exact tx_lit regs frames s0 hS hcl hsto hT b v
  | bin op a b => exact tx_bin regs frames s0 hS hcl hsto hT op a b
  | invert a => exact tx_invert regs frames s0 hS hcl hsto hT a
  | reveal a => exact tx_reveal regs frames s0 hS hcl hsto hT a
  | truncPr a b => exact tx_truncPr regs frames s0 hS hcl hsto hT a b
  | publicEquals a b => exact tx_publicEquals regs frames s0 hS hcl hsto hT a b
  | ifElse c a b => exact tx_ifElse regs frames s0 hS hcl hsto hT c a b
  | random t => exact tx_random regs frames s0 hS hcl hsto hT t
  | radd k a => exact tx_radd regs frames s0 hS hcl hsto hT k a
  | arrayNew xs => exact tx_arrayNew regs frames s0 hS hcl hsto hT xs
  | tupleNew a b => exact tx_tupleNew regs frames s0 hS hcl hsto hT a b
  | ntupleNew xs => exact tx_ntupleNew regs frames s0 hS hcl hsto hT xs
  | objectNew fs => exact tx_objectNew regs frames s0 hS hcl hsto hT fs
  | ntupleGet t i => exact tx_ntupleGet regs frames s0 hS hcl hsto hT t i
  | objectGet o key => exact tx_objectGet regs frames s0 hS hcl hsto hT o key
  | zip a b => exact tx_zip regs frames s0 hS hcl hsto hT a b
  | unzip a => exact tx_unzip regs frames s0 hS hcl hsto hT a
  | map a f => exact tx_map regs frames s0 hS hcl hsto hT a f
  | reduce a f init => exact tx_reduce regs frames s0 hS hcl hsto hT a f init
  | innerProduct a b => exact tx_innerProduct regs frames s0 hS hcl hsto hT a b
  | beginFn name params => exact tx_beginFn regs frames s0 hS hcl hsto hT name params
  | endFn ret retAnn => exact absurd rfl (he ret retAnn)
  | call f args kws => exact tx_call regs frames s0 hS hcl hsto hT f args kws
  | nop => exact tx_nop regs frames s0 hS hcl hsto hT

/-- the hypothesis on one step (see the file header) -/
def CleanStep (m : Mach) (c : Cmd) : Prop :=
  ReadsAgree m.regs m.st c ∧
  (match c with
   | .wrap _ r => ∀ k n p d, m.regs[r]? = some (.input k n p d) → Unref m.st k
   | .arrayOf r _ => ∀ v c', m.regs[r]? = some (.val v) → v.child = some c' → Unref m.st c'
   | _ => True)

def CleanRun (m : Mach) : List Cmd → Prop
  | [] => True
  | c :: cs => CleanStep m c ∧ CleanRun (step m c).1 cs

/-- the typed-store invariant of the machine -/
structure J (m : Mach) : Prop where
  store : StoreInv m.st
  regs : RegsTyped m.st m.regs
  free : ∀ fr ∈ m.frames, m.st.lookup fr.fid = none ∧ (fr.fid : Nat) ≤ m.st.counter
  disj : ∀ k n p d, RVal.input k n p d ∈ m.regs → ∀ fr ∈ m.frames, k ≠ fr.fid
  nodup : (m.frames.map (·.fid)).Nodup

theorem J_init : J {} :=
  ⟨⟨by simp [IdsLe], by intro k op h; simp [St.lookup] at h⟩, by simp [RegsTyped], by simp, by simp, by simp⟩

/-- a register's typing survives a step that leaves old lookups alone -/
theorem regTyped_frame {s0 s : St} {r : RVal} (hS : StoreInv s0) (hf : FrameRel s0 s)
    (hle : ∀ x ∈ r.ids, x ≤ s0.counter) (h : RegTyped s0 r) : RegTyped s r := by
  cases r with
  | val v => exact fun w hw => (h w hw).frame hS.1 hf
  | fn fid ret ns =>
    obtain ⟨n, a, c, hl⟩ := h
    exact ⟨n, a, c, by rw [hf.2 fid (hS.1.lookup_le hl)]; exact hl⟩
  | input k n p d =>
    have hk : k ≤ s0.counter := hle k (by simp [RVal.ids])
    simp only [RegTyped] at h ⊢
    rw [hf.2 k hk]; exact h
  | party _ => trivial
  | dead => trivial

theorem J_of_step (m : Mach) (s : St) (vals : List RVal) (frames' : List Frame)
    (hJ : J m) (hok : MachOK m) (hst : Step m.st s)
    (hv : ∀ x ∈ vals, RegNew m.st s x) (hfr : FramesNew m.frames m.st s frames')
    (hnd : (frames'.map (·.fid)).Nodup)
    (hsh : (∀ fr ∈ frames', fr ∈ m.frames) ∨ ∀ x ∈ vals, ∀ k n p d, x ≠ RVal.input k n p d) :
    J ⟨s, m.regs ++ vals, frames'⟩ := by
  refine ⟨hst.1, ?_, ?_, ?_, hnd⟩
  · intro r hr
    rcases List.mem_append.1 hr with hr | hr
    · exact regTyped_frame hJ.store hst.2.2 (hok.2 r hr) (hJ.regs r hr)
    · exact (hv r hr).1
  · intro fr hfr'
    rcases hfr fr hfr' with h | h
    · have := hJ.free fr h
      exact ⟨by rw [hst.2.2.2 _ this.2]; exact this.1, Nat.le_trans this.2 hst.2.2.1⟩
    · exact ⟨h.2.2, h.2.1⟩
  · intro k n p d hk fr hfr'
    simp only at hk hfr'
    rcases List.mem_append.1 hk with hk | hk
    · rcases hfr fr hfr' with h | h
      · exact hJ.disj k n p d hk fr h
      · have hkle : k ≤ m.st.counter := hok.2 _ hk k (by simp [RVal.ids])
        intro e; rw [e] at hkle; exact absurd hkle (Nat.not_le.2 h.1)
    · have hkgt := (hv _ hk).2 k n p d rfl
      rcases hsh with h | h
      · have := (hJ.free fr (h fr hfr')).2
        intro e; rw [e] at hkgt; exact absurd this (Nat.not_le.2 hkgt)
      · exact absurd rfl (h _ hk k n p d)

theorem shape_of_post {frames : List Frame} {s0 : St} {r : List RVal × List Frame} (h : PostShape frames s0 r) :
    (∀ fr ∈ r.2, fr ∈ frames) ∨ ∀ x ∈ r.1, ∀ k n p d, x ≠ RVal.input k n p d := by
  rcases h with h | h
  · exact .inl (by rw [h]; exact fun _ h => h)
  · exact .inr (by intro x hx k n p d e; obtain ⟨v, hv⟩ := h.2 x hx; rw [hv] at e; cases e)

theorem nodup_of_post {m : Mach} {r : List RVal × List Frame} (hJ : J m) (h : PostShape m.frames m.st r) :
    (r.2.map (·.fid)).Nodup := by
  rcases h with h | h
  · rw [h]; exact hJ.nodup
  · obtain ⟨fr, hr, hgt⟩ := h.1
    rw [hr]
    simp only [List.map_cons, List.nodup_cons]
    refine ⟨?_, hJ.nodup⟩
    intro hm
    obtain ⟨fr', hfr', he⟩ := List.mem_map.1 hm
    have := (hJ.free fr' hfr').2
    rw [he] at this
    exact absurd this (Nat.not_le.2 hgt)

theorem nodup_sub {l l' : List Frame} (h : (l.map (·.fid)).Nodup) (hs : l'.Sublist l) : (l'.map (·.fid)).Nodup :=
  (hs.map _).nodup h

/-- the error branch: old registers only, frames possibly popped -/
theorem J_of_err (m : Mach) (s : St) (n : Nat) (frames' : List Frame)
    (hJ : J m) (hok : MachOK m) (hst : Step m.st s) (hsub : frames'.Sublist m.frames) :
    J ⟨s, m.regs ++ List.replicate n .dead, frames'⟩ := by
  have := J_of_step m s (List.replicate n .dead) frames' hJ hok hst
    (by intro x hx; have := List.eq_of_mem_replicate hx; subst this
        exact ⟨trivial, by intro k n p d h; cases h⟩)
    (fun fr hfr => .inl (hsub.subset hfr)) (nodup_sub hJ.nodup hsub)
    (.inl (fun fr hfr => hsub.subset hfr))
  exact this

end NadaVerif.Lemmas

namespace NadaVerif.Lemmas
open Std.Do NadaVerif NadaVerif.Spec NadaVerif.Edge

theorem regTyped_except {s0 s : St} {r : RVal} {k : Nat} (hS : StoreInv s0)
    (hsame : ∀ x, x ≤ s0.counter → x ≠ k → s.lookup x = s0.lookup x)
    (hle : ∀ x ∈ r.ids, x ≤ s0.counter)
    (hval : ∀ c op, s0.lookup c = some op → c = k → ∃ op', s.lookup k = some op' ∧ op'.isInput = true)
    (hfn : ∀ n a c ty, s0.lookup k ≠ some (.function n a c ty))
    (hin : ∀ n p d, r = .input k n p d → s.lookup k = none ∨ ∃ op, s.lookup k = some op ∧ op.isInput = true)
    (h : RegTyped s0 r) : RegTyped s r := by
  cases r with
  | val v =>
    intro w hw c hc
    obtain ⟨op, h1, h2⟩ := h w hw c hc
    by_cases hck : c = k
    · obtain ⟨op', h3, h4⟩ := hval c op h1 hck
      exact ⟨op', hck ▸ h3, .inl h4⟩
    · exact ⟨op, by rw [hsame c (hS.1.lookup_le h1) hck]; exact h1, h2⟩
  | fn fid ret ns =>
    obtain ⟨n, a, c, hl⟩ := h
    have hne : fid ≠ k := by intro e; subst e; exact hfn _ _ _ _ hl
    exact ⟨n, a, c, by rw [hsame fid (hS.1.lookup_le hl) hne]; exact hl⟩
  | input k' n p d =>
    have hk : k' ≤ s0.counter := hle k' (by simp [RVal.ids])
    by_cases hkk : k' = k
    · subst hkk; exact hin n p d rfl
    · simp only [RegTyped] at h ⊢
      rw [hsame k' hk hkk]; exact h
  | party _ => trivial
  | dead => trivial

theorem J_of_stepAt (m : Mach) (s : St) (k : Nat) (v : Val)
    (hJ : J m) (hok : MachOK m) (hst : StepAt k m.st s)
    (hk0 : m.st.lookup k = none ∨ ∃ op, m.st.lookup k = some op ∧ op.isInput = true)
    (hkf : ∀ fr ∈ m.frames, (fr.fid : Nat) ≠ k)
    (hv : ∀ w ∈ v.live, Weak s w) :
    J ⟨s, m.regs ++ [.val v], m.frames⟩ := by
  obtain ⟨hS', _, hcnt, hsame, opk, hopk, hopin⟩ := hst
  refine ⟨hS', ?_, ?_, ?_, hJ.nodup⟩
  · intro r hr
    rcases List.mem_append.1 hr with hr | hr
    · refine regTyped_except hJ.store hsame (hok.2 r hr) (fun c op _ _ => ⟨opk, hopk, hopin⟩) ?_
        (fun _ _ _ _ => .inr ⟨opk, hopk, hopin⟩) (hJ.regs r hr)
      intro n a c ty hl
      rcases hk0 with h | ⟨op, h1, h2⟩
      · rw [h] at hl; cases hl
      · rw [h1] at hl; cases hl; simp [AstOp.isInput] at h2
    · simp only [List.mem_singleton] at hr; subst hr; exact hv
  · intro fr hfr
    have := hJ.free fr hfr
    exact ⟨by rw [hsame _ this.2 (hkf fr hfr)]; exact this.1, Nat.le_trans this.2 hcnt⟩
  · intro k' n p d hk' fr hfr
    simp only at hk' hfr
    rcases List.mem_append.1 hk' with hk' | hk'
    · exact hJ.disj k' n p d hk' fr hfr
    · simp at hk'

theorem J_of_stepFn (m : Mach) (s : St) (fr : Frame) (rest : List Frame) (ret : STy)
    (hJ : J m) (hok : MachOK m) (hfr : m.frames = fr :: rest) (hst : StepFn fr.fid (.scalar ret.mirName) m.st s) :
    J ⟨s, m.regs ++ [.fn fr.fid ret fr.pnames], rest⟩ := by
  obtain ⟨hS', _, hcnt, hsame, n, a, c, hl⟩ := hst
  have hfree := hJ.free fr (by rw [hfr]; simp)
  have hnd := hJ.nodup
  rw [hfr] at hnd
  simp only [List.map_cons, List.nodup_cons] at hnd
  refine ⟨hS', ?_, ?_, ?_, hnd.2⟩
  · intro r hr
    rcases List.mem_append.1 hr with hr | hr
    · refine regTyped_except (k := fr.fid) hJ.store hsame (hok.2 r hr) ?_ ?_ ?_ (hJ.regs r hr)
      · intro c' op h1 h2; subst h2; rw [hfree.1] at h1; cases h1
      · intro n a c ty h1; rw [hfree.1] at h1; cases h1
      · intro n' p d he
        subst he
        exact absurd rfl (hJ.disj fr.fid n' p d hr fr (by rw [hfr]; simp))
    · simp only [List.mem_singleton] at hr; subst hr
      exact ⟨n, a, c, hl⟩
  · intro fr' hfr'
    have hmem : fr' ∈ m.frames := by rw [hfr]; exact List.mem_cons_of_mem _ hfr'
    have := hJ.free fr' hmem
    have hne : (fr'.fid : Nat) ≠ fr.fid := by
      intro e; exact hnd.1 (List.mem_map.2 ⟨fr', hfr', e⟩)
    exact ⟨by rw [hsame _ this.2 hne]; exact this.1, Nat.le_trans this.2 hcnt⟩
  · intro k' n' p d hk' fr' hfr'
    simp only at hk' hfr'
    have hmem : fr' ∈ m.frames := by rw [hfr]; exact List.mem_cons_of_mem _ hfr'
    rcases List.mem_append.1 hk' with hk' | hk'
    · exact hJ.disj k' n' p d hk' fr' hmem
    · simp at hk'

theorem step_frames_sub (m : Mach) (c : Cmd) : ((match c with | .endFn .. => m.frames.drop 1 | _ => m.frames) : List Frame).Sublist m.frames := by
  cases c <;> first | exact List.Sublist.refl _ | exact List.drop_sublist _ _

theorem step_typed (m : Mach) (c : Cmd) (hok : MachOK m) (hsto : MachSto m) (hJ : J m) (hc : CleanStep m c) :
    J (step m c).1 := by
  by_cases hstd : (∀ t r, c ≠ .wrap t r) ∧ (∀ r n, c ≠ .arrayOf r n) ∧ (∀ r t, c ≠ .endFn r t)
  · have hx := triple_run _ m.st _ _
      (exec_typed_std m.regs m.frames m.st hJ.store hsto.1 hsto.2.1 hJ.regs c hstd.1 hstd.2.1 hstd.2.2 hc.1)
    unfold step
    generalize hrun : (exec m.regs m.frames c).run.run m.st = r at hx ⊢
    obtain ⟨e, s'⟩ := r
    cases e with
    | ok v =>
      obtain ⟨vals, frames'⟩ := v
      simp only at hx ⊢
      exact J_of_step m s' vals frames' hJ hok hx.1 hx.2.1 hx.2.2.1 (nodup_of_post hJ hx.2.2.2) (shape_of_post hx.2.2.2)
    | error err =>
      simp only at hx ⊢
      exact J_of_err m s' _ _ hJ hok hx (step_frames_sub m c)
  · cases c with
    | wrap t r =>
      have hx := triple_run _ m.st _ _
        (tx_wrap m.regs m.frames m.st hJ.store hsto.1 hsto.2.1 hJ.regs t r hok.2 hc.2)
      unfold step
      generalize hrun : (exec m.regs m.frames (.wrap t r)).run.run m.st = res at hx ⊢
      obtain ⟨e, s'⟩ := res
      cases e with
      | ok v =>
        obtain ⟨vals, frames'⟩ := v
        simp only at hx ⊢
        obtain ⟨k, n, p, d, hr, hst, hfr, v, hv, hag, hsc⟩ := hx
        subst hfr; subst hv
        have hmem := List.mem_of_getElem? hr
        refine J_of_stepAt m s' k v hJ hok hst (hJ.regs _ hmem) (fun fr hfr e => hJ.disj k n p d hmem fr hfr e.symm) ?_
        obtain ⟨t', c', l', rfl⟩ := hsc
        intro w hw
        simp only [Val.live, List.mem_singleton] at hw
        subst hw; exact hag.weak
      | error err =>
        simp only at hx ⊢
        exact J_of_err m s' _ _ hJ hok hx (List.Sublist.refl _)
    | arrayOf r sz =>
      have hx := triple_run _ m.st _ _
        (tx_arrayOf m.regs m.frames m.st hJ.store hsto.1 hsto.2.1 hJ.regs r sz hc.2 hc.1)
      unfold step
      generalize hrun : (exec m.regs m.frames (.arrayOf r sz)).run.run m.st = res at hx ⊢
      obtain ⟨e, s'⟩ := res
      cases e with
      | ok v =>
        obtain ⟨vals, frames'⟩ := v
        simp only at hx ⊢
        obtain ⟨k, hst, ⟨op, hop, hin⟩, hfr, v, hv, hag, hlive⟩ := hx
        subst hfr; subst hv
        refine J_of_stepAt m s' k v hJ hok hst (.inr ⟨op, hop, hin⟩) ?_ ?_
        · intro fr hfr e
          have := (hJ.free fr hfr).1
          rw [e, hop] at this; cases this
        · intro w hw
          rw [hlive] at hw
          simp only [List.mem_singleton] at hw
          subst hw; exact hag.weak
      | error err =>
        simp only at hx ⊢
        exact J_of_err m s' _ _ hJ hok hx (List.Sublist.refl _)
    | endFn ret retAnn =>
      have hx := triple_run _ m.st _ _
        (tx_endFn m.regs m.frames m.st hJ.store hsto.1 hsto.2.1 hJ.regs ret retAnn hJ.free hsto.2.2 hc.1)
      unfold step
      generalize hrun : (exec m.regs m.frames (.endFn ret retAnn)).run.run m.st = res at hx ⊢
      obtain ⟨e, s'⟩ := res
      cases e with
      | ok v =>
        obtain ⟨vals, frames'⟩ := v
        simp only at hx ⊢
        obtain ⟨fr, rest', hfr, hres, hst⟩ := hx
        have h1 := congrArg Prod.fst hres
        have h2 := congrArg Prod.snd hres
        simp only at h1 h2
        subst h1; subst h2
        exact J_of_stepFn m s' fr _ retAnn hJ hok hfr hst
      | error err =>
        simp only at hx ⊢
        exact J_of_err m s' _ _ hJ hok hx (List.drop_sublist _ _)
    | _ =>
      apply absurd _ hstd
      refine ⟨?_, ?_, ?_⟩ <;> (intro _ _ h; cases h)

theorem runCmds_typed (cs : List Cmd) : ∀ (m : Mach), MachOK m → MachSto m → J m → CleanRun m cs → J (runCmds m cs).1 := by
  induction cs with
  | nil => intro m _ _ h _; exact h
  | cons c cs ih =>
    intro m hok hsto hJ hc
    simp only [runCmds]
    exact ih _ (step_ok m c hok) (step_sto m c hsto) (step_typed m c hok hsto hJ hc.1) hc.2

theorem storeEdgesOK_iff (s : St) : storeEdgesOK s = true ↔ EdgesOK s := by
  simp only [storeEdgesOK, List.all_eq_true, Bool.or_eq_true, bne_iff_ne, ne_eq, EdgesOK]
  constructor
  · intro h k op hl
    have hm := lookup_mem' s k op hl
    rcases h (k, op) hm with h | h
    · exact absurd hl h
    · exact h
  · intro h e _
    by_cases hl : s.lookup e.1 = some e.2
    · exact .inr (h e.1 e.2 hl)
    · exact .inl hl

/-- **Every clean run** — any command list, accepted or rejected commands, function bodies, any nesting of
collections — leaves a store in which the type recorded for each visible operation is the one its operands' recorded
types determine. -/
theorem trace_edges_ok (cs : List Cmd) (h : CleanRun {} cs) : storeEdgesOK (runCmds {} cs).1.st = true := by
  have hJ := runCmds_typed cs {} ⟨by simp [WFops], by simp [RegsLe]⟩ machSto_init J_init h
  exact (storeEdgesOK_iff _).2 hJ.store.2

theorem agreeB_sound {s : St} {w : Val} (h : agreeB s w = true) : Agree s w := by
  intro c hc
  simp only [agreeB, hc] at h
  split at h
  · rename_i op t hl ht
    exact ⟨op, hl, by rw [ht]; simp at h; rw [h]⟩
  · cases h

theorem unrefB_sound {s : St} {k : Id} (h : unrefB s k = true) : Unref s k := by
  intro e he hk
  simp only [unrefB, List.all_eq_true, Bool.not_eq_true'] at h
  have := h e he
  simp only [AstOp.mentions] at hk
  rw [List.contains_eq_mem] at this
  simp only [decide_eq_false_iff_not] at this
  exact this hk

theorem cleanStepB_sound {m : Mach} {c : Cmd} (h : cleanStepB m c = true) : CleanStep m c := by
  simp only [cleanStepB, Bool.and_eq_true, List.all_eq_true] at h
  refine ⟨?_, ?_⟩
  · intro r hr v hv w hw
    have := h.1 r hr
    simp only [hv, List.all_eq_true] at this
    exact agreeB_sound (this w hw)
  · cases c <;> try trivial
    · rename_i t r
      intro k n p d hr
      have := h.2
      simp only [hr] at this
      exact unrefB_sound this
    · rename_i r sz
      intro v c' hr hc
      have := h.2
      simp only [hr, hc] at this
      exact unrefB_sound this

theorem cleanRunB_sound : ∀ (cs : List Cmd) (m : Mach), cleanRunB m cs = true → CleanRun m cs
  | [], _, _ => trivial
  | c :: cs, m, h => by
    simp only [cleanRunB, Bool.and_eq_true] at h
    exact ⟨cleanStepB_sound h.1, cleanRunB_sound cs _ h.2⟩

/-- the executable form: the hypothesis is a `Bool` the driver evaluates on every generated program -/
theorem trace_edges_okB (cs : List Cmd) (h : cleanRunB {} cs = true) : storeEdgesOK (runCmds {} cs).1.st = true :=
  trace_edges_ok cs (cleanRunB_sound cs {} h)

end NadaVerif.Lemmas
