/-
Lifting `traverse_spec` through `compileOutputs`, `emitFunctions` and `compile`: every emitted
table (program and functions) is closed under operand references, has no duplicate key, consists
of store entries; outputs and return operations designate entries of the right table.
-/
import NadaVerif.Lemmas.Traverse

namespace NadaVerif.Lemmas
open NadaVerif NadaVerif.Spec

/-- a well-formed emitted table -/
def GoodTable (st : St) (t : Table) : Prop := Inv t [] ∧ (keys t).Nodup ∧ FromStore st t

theorem inv_weaken {t : Table} {s : List Id} (h : Inv t []) : Inv t s := by
  intro e he c hc
  rcases h e he c hc with h1 | h1
  · exact .inl h1
  · simp at h1

theorem goodTable_nil (st : St) : GoodTable st [] := by
  refine ⟨?_, by simp [keys], ?_⟩ <;> intro e he <;> simp at he

theorem compileOutputs_spec (st : St) :
    ∀ (outs : List OutDecl) (table functions : Table) (mouts : List MirOutput) (acc : CAcc)
      (table' functions' : Table) (mouts' : List MirOutput) (acc' : CAcc),
    compileOutputs st outs table functions mouts acc = .ok (table', functions', mouts', acc') →
    GoodTable st table → (∀ o ∈ mouts, HasKey table o.opId) →
    GoodTable st table' ∧ (∀ o ∈ mouts', HasKey table' o.opId) ∧
      mouts'.map (·.opId) = mouts.map (·.opId) ++ outs.map (·.root) := by
  intro outs
  induction outs with
  | nil =>
    intro table functions mouts acc table' functions' mouts' acc' h hg ho
    simp [compileOutputs] at h
    obtain ⟨rfl, _, rfl, _⟩ := h
    exact ⟨hg, ho, by simp⟩
  | cons o os ih =>
    intro table functions mouts acc table' functions' mouts' acc' h hg ho
    simp only [compileOutputs] at h
    split at h
    · simp at h
    · rename_i t1 ex1 acc1 htr
      split at h
      · simp at h
      · rename_i op hop
        obtain ⟨hinv, hnd, hfs⟩ := hg
        obtain ⟨a, b, c, d, e⟩ := traverse_spec st functions _ _ _ _ _ _ _ _ htr (inv_weaken hinv) hnd hfs
        have hroot : HasKey t1 o.root := e o.root (by simp)
        have ho' : ∀ x ∈ mouts ++ [({ opId := o.root, name := o.name, party := o.party, ty := op.ty } : MirOutput)],
            HasKey t1 x.opId := by
          intro x hx
          rcases List.mem_append.1 hx with hx | hx
          · obtain ⟨e0, he0, hk0⟩ := ho x hx
            exact ⟨e0, d e0 he0, hk0⟩
          · simp at hx; subst hx; exact hroot
        obtain ⟨g, h2, h3⟩ := ih _ _ _ _ _ _ _ _ h ⟨a, b, c⟩ ho'
        exact ⟨g, h2, by simp [h3]⟩

/-- what holds of every emitted function -/
def GoodFn (st : St) (f : MirFn) : Prop := GoodTable st f.ops ∧ HasKey f.ops f.returnOp

theorem emitFunctions_spec (st : St) :
    ∀ (fuel : Nat) (stack functions : Table) (out : List MirFn) (acc : CAcc) (out' : List MirFn) (acc' : CAcc),
    emitFunctions st fuel stack functions out acc = .ok (out', acc') →
    (∀ f ∈ out, GoodFn st f) → ∀ f ∈ out', GoodFn st f := by
  intro fuel
  induction fuel with
  | zero =>
    intro stack functions out acc out' acc' h hg
    cases stack with
    | nil => simp [emitFunctions] at h; obtain ⟨rfl, _⟩ := h; exact hg
    | cons x xs => simp [emitFunctions] at h
  | succ fuel ih =>
    intro stack functions out acc out' acc' h hg
    cases stack with
    | nil => simp [emitFunctions] at h; obtain ⟨rfl, _⟩ := h; exact hg
    | cons x xs =>
      obtain ⟨k, f⟩ := x
      simp only [emitFunctions] at h
      split at h
      · rename_i name args child ty
        split at h
        · simp at h
        · rename_i t1 ex1 acc1 htr
          split at h
          · simp at h
          · rename_i mf hmf
            obtain ⟨a, b, c, _, e⟩ := traverse_spec st functions _ _ _ _ _ _ _ _ htr
              (by intro e he; simp at he) (by simp [keys]) (by intro e he; simp at he)
            have hmf' : mf.ops = t1 ∧ mf.returnOp = child := by
              simp only [fnToMir, bind, Except.bind] at hmf
              split at hmf
              · simp at hmf
              · simp at hmf; subst hmf; exact ⟨rfl, rfl⟩
            apply ih _ _ _ _ _ _ h
            intro g hgm
            rcases List.mem_append.1 hgm with hgm | hgm
            · exact hg g hgm
            · simp at hgm; subst hgm
              refine ⟨?_, ?_⟩
              · rw [hmf'.1]; exact ⟨a, b, c⟩
              · rw [hmf'.1, hmf'.2]; exact e child (by simp)
      all_goals simp at h

/-- **All tables of every MIR the compile model emits are closed, duplicate-free and made of
store entries; outputs / return operations designate entries** — for every store and output list. -/
theorem compile_good (st : St) (outs : List OutDecl) (m : MirProg) (h : compile st outs = .ok m) :
    GoodTable st m.operations ∧ (∀ o ∈ m.outputs, HasKey m.operations o.opId) ∧
    (∀ f ∈ m.functions, GoodFn st f) ∧ m.outputs.map (·.opId) = outs.map (·.root) := by
  simp only [compile, bind, Except.bind] at h
  split at h
  · simp at h
  · rename_i r hco
    obtain ⟨table, functions, mouts, acc⟩ := r
    simp only at h
    split at h
    · simp at h
    · rename_i r2 hef
      obtain ⟨fns, acc2⟩ := r2
      injection h with h
      subst h
      obtain ⟨g, ho, hm⟩ := compileOutputs_spec st outs [] [] [] {} _ _ _ _ hco (goodTable_nil st) (by simp)
      refine ⟨g, ho, ?_, by simpa using hm⟩
      exact emitFunctions_spec st _ _ _ _ _ _ _ hef (by simp)

end NadaVerif.Lemmas
