/-
Layer S — MIR types and the records of `ast_util.AST_OPERATIONS` as data.
-/
import NadaVerif.Scalar

namespace NadaVerif

abbrev Id := Nat

/-- The `size` entry of an array type as the code can emit it: the key may be omitted
(`Array.to_mir` when the size is falsy), be `null` (`ArrayType.to_mir` of a size-less template) or
an integer. -/
inductive Size where
  | omitted | null | n (v : Int)
  deriving DecidableEq, Repr, Inhabited

mutual
/-- MIR type representations (`NadaTypeRepr`): a string or a nested dictionary. `bare` stands for
the incomplete strings the code can emit (`"Array"`, `"NTuple"`, `"T"` …). -/
inductive MTy where
  | scalar (name : String)
  | array (inner : MTy) (size : Size)
  | tuple (l r : MTy)
  | ntuple (ts : MTys)
  | object (fs : MFields)
  | bare (name : String)
  deriving DecidableEq, Repr
inductive MTys where
  | nil | cons (t : MTy) (ts : MTys)
  deriving DecidableEq, Repr
inductive MFields where
  | nil | cons (k : String) (t : MTy) (fs : MFields)
  deriving DecidableEq, Repr
end

instance : Inhabited MTy := ⟨.bare "?"⟩

def MTys.toList : MTys → List MTy
  | .nil => [] | .cons t ts => t :: ts.toList
def MTys.ofList : List MTy → MTys
  | [] => .nil | t :: ts => .cons t (MTys.ofList ts)
def MFields.toList : MFields → List (String × MTy)
  | .nil => [] | .cons k t fs => (k, t) :: fs.toList
def MFields.ofList : List (String × MTy) → MFields
  | [] => .nil | (k, t) :: fs => .cons k t (MFields.ofList fs)

/-- One record of `AST_OPERATIONS` (a `*ASTOperation` instance) without its source reference. -/
inductive AstOp where
  | binary (name : String) (left right : Id) (ty : MTy)
  | unary (name : String) (child : Id) (ty : MTy)
  | ifElse (cond tb fb : Id) (ty : MTy)
  | random (ty : MTy)
  | input (name party doc : String) (ty : MTy)
  | literal (value : String) (index : Nat) (ty : MTy)
  | reduce (child fn initial : Id) (ty : MTy)
  | map (child fn : Id) (ty : MTy)
  | new (name : String) (elements : List Id) (ty : MTy)
  | call (args : List Id) (fn : Id) (ty : MTy)
  | argRef (name : String) (fn : Id) (ty : MTy)
  | function (name : String) (args : List Id) (child : Id) (ty : MTy)
  | ntupleAcc (index : Int) (source : Id) (ty : MTy)
  | objectAcc (key : String) (source : Id) (ty : MTy)
  deriving DecidableEq, Repr

instance : Inhabited AstOp := ⟨.random default⟩

def AstOp.ty : AstOp → MTy
  | .binary _ _ _ t | .unary _ _ t | .ifElse _ _ _ t | .random t | .input _ _ _ t | .literal _ _ t
  | .reduce _ _ _ t | .map _ _ t | .new _ _ t | .call _ _ t | .argRef _ _ t | .function _ _ _ t
  | .ntupleAcc _ _ t | .objectAcc _ _ t => t

/-- `child_operations()` of each `*ASTOperation` class (checked against the regenerated
`Generated.AstSchema` in `Props/C01.lean`). -/
def AstOp.children : AstOp → List Id
  | .binary _ l r _ => [l, r]
  | .unary _ c _ => [c]
  | .ifElse c t f _ => [c, t, f]
  | .reduce c _ i _ => [c, i]
  | .map c _ _ => [c]
  | .new _ es _ => es
  | .call as _ _ => as
  | .ntupleAcc _ s _ | .objectAcc _ s _ => [s]
  | .random _ | .input .. | .literal .. | .argRef .. | .function .. => []

/-- The function id referenced by `Map`/`Reduce`/`NadaFunctionCall`. -/
def AstOp.fnRef : AstOp → Option Id
  | .reduce _ f _ _ | .map _ f _ | .call _ f _ => some f
  | _ => none

/-- Name of the Python class, for the schema tables. -/
def AstOp.kind : AstOp → String
  | .binary .. => "BinaryASTOperation" | .unary .. => "UnaryASTOperation"
  | .ifElse .. => "IfElseASTOperation" | .random .. => "RandomASTOperation"
  | .input .. => "InputASTOperation" | .literal .. => "LiteralASTOperation"
  | .reduce .. => "ReduceASTOperation" | .map .. => "MapASTOperation"
  | .new .. => "NewASTOperation" | .call .. => "NadaFunctionCallASTOperation"
  | .argRef .. => "NadaFunctionArgASTOperation" | .function .. => "NadaFunctionASTOperation"
  | .ntupleAcc .. => "NTupleAccessorASTOperation" | .objectAcc .. => "ObjectAccessorASTOperation"

end NadaVerif
