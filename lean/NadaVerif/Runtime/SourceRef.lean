/-
Layer R — `source_ref.py`: line/offset arithmetic of `try_get_line_info`, interning of
`to_index`, and the frame walk of `back_frame` (repaired: first frame outside the package).
Texts are lists of characters; the embedded source text is the lines joined by "\n".
-/
namespace NadaVerif.Runtime

/-- `"\n".join(lines)` -/
def joinLines {α} (sep : α) : List (List α) → List α
  | [] => []
  | [l] => l
  | l :: ls => l ++ sep :: joinLines sep ls

/-- `try_get_line_info`: offset and length of line `lineno` (1-based) of `src.split("\n")`;
`(0, 0)` when the line does not exist. -/
def lineInfo {α} (lines : List (List α)) (lineno : Nat) : Nat × Nat :=
  if 1 ≤ lineno ∧ lineno ≤ lines.length then
    (((lines.take (lineno - 1)).map fun l => l.length + 1).sum, (lines.getD (lineno - 1) []).length)
  else (0, 0)

/-- `src[offset : offset + length]` -/
def slice {α} (src : List α) (off len : Nat) : List α := (src.drop off).take len

/-- A source reference as `to_key()` builds it. -/
structure Ref where
  lineno : Nat
  offset : Nat
  file : String
  length : Nat
  deriving DecidableEq, Repr

/-- `to_index`: the index of an equal entry of `REFS`, appended if new. -/
def intern (refs : List Ref) (r : Ref) : Nat × List Ref :=
  match refs.idxOf? r with
  | some i => (i, refs)
  | none => (refs.length, refs ++ [r])

/-- One compilation: `to_index` called for the references of the MIR's elements, in the order the
compiler reaches them, starting from the table `refs` (`start_compilation` makes that the empty
table).  Returns the indices written into the elements and the final table (`source_refs`). -/
def internAll (refs : List Ref) : List Ref → List Nat × List Ref
  | [] => ([], refs)
  | r :: rs =>
    let p := intern refs r
    let q := internAll p.2 rs
    (p.1 :: q.1, q.2)

/-- `get_sources()`: the files named by the table, each with its text (`texts` is `USED_SOURCES`). -/
def sourcesOf (texts : List (String × String)) (table : List Ref) : List (String × String) :=
  texts.filter fun ft => table.any fun r => r.file == ft.1

/-- A stack frame as `back_frame` sees it. -/
structure Frame where
  file : String
  line : Nat
  isDsl : Bool
  deriving DecidableEq, Repr

/-- `back_frame()`: start two frames up (`back_frame` itself and its caller are dropped by the
caller of this function) and walk outwards while the frame belongs to the nada_dsl package and has
a caller. `stack` is innermost first, starting at `currentframe().f_back.f_back`. -/
def resolve : List Frame → Option Frame
  | [] => none
  | [f] => some f
  | f :: g :: rest => if f.isDsl then resolve (g :: rest) else some f

end NadaVerif.Runtime
