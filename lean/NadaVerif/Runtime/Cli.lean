/-
Layer R — the command-line entry point (`python -m nada_dsl.compile …`, the `__main__` block of
compile.py) as a function from the argument list and the two compile entry points to the lines it
prints.  A compile entry point either returns the MIR string or raises (the message is kept).
-/
namespace NadaVerif.Runtime

/-- one printed line: `json.dumps({"result": "Success", "mir": …})` or
`json.dumps({"result": "Failure", "reason": …, "traceback": …})` -/
inductive Line where
  | success (mir : String)
  | failure (reason : String)
  deriving DecidableEq, Repr

def lineOf : Except String String → Line
  | .ok m => .success m
  | .error e => .failure e

/-- `argv` includes the program name (`sys.argv`). -/
def cliMain (argv : List String) (compileScript compileString : String → Except String String) : List Line :=
  match argv with
  | [] | [_] => [.failure "expected program as argument"]
  | [_, path] => [lineOf (compileScript path)]
  | [_, flag, arg] =>
    if flag = "-s" then [lineOf (compileString arg)]
    else [.failure "expected '<program path>' or '-s <base64 program>' as arguments"]
  | _ => [.failure "expected '<program path>' or '-s <base64 program>' as arguments"]

/-- Both compile entry points run `nada_main()` of the program text and pass its outputs to the same
`nada_compile`; they differ only in how the text is obtained (file at `path` / base64 argument). -/
def compileScript (readFile : String → Option String) (runProgram : String → Except String String)
    (path : String) : Except String String :=
  match readFile path with
  | none => .error "cannot load program"
  | some src => runProgram src

def compileString (decode : String → Option String) (runProgram : String → Except String String)
    (b64 : String) : Except String String :=
  match decode b64 with
  | none => .error "invalid base64"
  | some src => runProgram src

end NadaVerif.Runtime
