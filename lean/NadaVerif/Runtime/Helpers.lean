/-
Layer R — `compile._program_imports`: the helper modules a program imported from its own directory
stay loaded for the next program of that directory; all of them are forgotten before a program from
another directory runs and when the file of one of them has changed on disk.  State machine over
the registry `_PROGRAM_HELPERS` (which mirrors the helper entries of `sys.modules`).

A file on disk is identified by (directory, module name) and has a stamp (modification time, size);
`Disk` gives the current stamp, `none` when there is no such file.
-/
namespace NadaVerif.Runtime

abbrev Disk := String → String → Option Nat

/-- one loaded helper module: its name, the directory it was imported from, the stamp of its file then -/
structure Helper where
  name : String
  owner : String
  stamp : Nat
  deriving DecidableEq, Repr

abbrev Registry := List Helper

/-- the file the module was loaded from is still the one on disk -/
def Helper.current (disk : Disk) (h : Helper) : Bool := disk h.owner h.name == some h.stamp

/-- entering `_program_imports(dir)`: if some loaded helper belongs to another directory or its file changed, all are forgotten -/
def enter (disk : Disk) (dir : String) (r : Registry) : Registry :=
  if r.any (fun h => h.owner != dir || !h.current disk) then [] else r

/-- `import name` executed by a program of directory `dir` (or by one of its helpers): a loaded module is reused, otherwise the
file of the program's directory is executed and registered; a name without a file there is not a helper (a library module, or
an ImportError) -/
def importMod (disk : Disk) (dir : String) (r : Registry) (name : String) : Registry × Bool :=
  if r.any (·.name == name) then (r, false)
  else match disk dir name with
    | some st => (r ++ [⟨name, dir, st⟩], true)
    | none => (r, false)

/-- a compilation of a program of `dir` that imports `names` in this order; returns the registry afterwards and the modules whose
files were executed -/
def compileFrom (disk : Disk) (dir : String) (names : List String) (r : Registry) : Registry × List String :=
  names.foldl (fun (acc : Registry × List String) n =>
    let p := importMod disk dir acc.1 n
    (p.1, if p.2 then acc.2 ++ [n] else acc.2)) (enter disk dir r, [])

/-- every loaded helper is a helper of `dir` whose file is the one on disk -/
def Fresh (disk : Disk) (dir : String) (r : Registry) : Prop :=
  ∀ h ∈ r, h.owner = dir ∧ h.current disk = true

/-- a history: the disk as it is at each compilation, the directory and the imports of the program -/
structure Step where
  disk : Disk
  dir : String
  names : List String

def runSteps (r : Registry) : List Step → Registry
  | [] => r
  | s :: rest => runSteps (compileFrom s.disk s.dir s.names r).1 rest

end NadaVerif.Runtime
