/-
Layer R — `timer.py` and the places that start and stop timers (`add_timer`, `compile_script`,
`compile_string`, `nada_dsl_to_nada_mir`), as a state machine over the set of running timers of the
`DefaultClock`.  A compilation is abstracted to the points at which it can fail: while the program
is loaded, inside `nada_main`, while one output is traversed.

`start n` raises `TimerError` when `n` is running, `stop n` when it is not; every site has the
shape `start n; try: body finally: stop n`.
-/
namespace NadaVerif.Runtime

/-- timer names used by the package -/
inductive TName where
  | compileScript            -- "nada_dsl.compile.compile"
  | compileString            -- "nada_dsl.compile.compile_string"
  | importProgram            -- "nada_dsl.compile.compile.__import__"
  | output (name : String)   -- "nada_dsl.compiler_frontend.nada_dsl_to_nada_mir.<name>.process_operation"
  deriving DecidableEq, Repr

/-- what a compilation ends with -/
inductive TErr where
  | timer            -- TimerError
  | program          -- any exception of the program / the compiler
  deriving DecidableEq, Repr

/-- `DefaultClock.running` (the keys) -/
abbrev Clock := List TName

/-- outcome as a number (0 = returned, 1 = `TimerError`, 2 = another exception), for the line protocol and for `decide` -/
def TErr.code {α} : Except TErr α → Nat
  | .ok _ => 0
  | .error .timer => 1
  | .error .program => 2

/-- a computation that may raise, over the clock; the log records every `start` / `stop` that was *attempted* -/
structure TState where
  running : Clock := []
  log : List (Bool × TName) := []      -- (true = start, false = stop), oldest first
  deriving DecidableEq, Repr

abbrev TM := ExceptT TErr (StateM TState)

def tstart (n : TName) : TM Unit := do
  let s ← get
  set { s with log := s.log ++ [(true, n)] }
  if n ∈ s.running then throw .timer
  else modify fun s => { s with running := n :: s.running }

def tstop (n : TName) : TM Unit := do
  let s ← get
  set { s with log := s.log ++ [(false, n)] }
  if n ∈ s.running then modify fun s => { s with running := s.running.erase n }
  else throw .timer

/-- `try: body finally: fin` — `fin` runs whatever `body` did; if `fin` raises, that is what propagates -/
def finallyDo {α} (body : TM α) (fin : TM Unit) : TM α :=
  ExceptT.mk fun s =>
    match body.run.run s with
    | (r, s1) =>
      match fin.run.run s1 with
      | (.error e, s2) => (.error e, s2)
      | (.ok _, s2) => (r, s2)

/-- `start n; try: body finally: stop n` (the `add_timer` wrapper and the three inline sites) -/
def timed {α} (n : TName) (body : TM α) : TM α := do
  tstart n
  finallyDo body (tstop n)

/-- a compilation, abstracted to where it can fail -/
structure Prog where
  importFails : Bool := false                 -- the program raises while it is loaded (syntax error, missing module, exception at module level)
  mainFails : Bool := false                   -- `nada_main` is missing or raises
  outputs : List (String × Bool) := []        -- per output, in order: its name and whether its traversal raises
  deriving DecidableEq, Repr

def failIf (b : Bool) : TM Unit := if b then throw .program else pure ()

/-- `nada_dsl_to_nada_mir`: one timer per output, named after the output -/
def frontend : List (String × Bool) → TM Unit
  | [] => pure ()
  | (n, fails) :: rest => do
    timed (.output n) (failIf fails)
    frontend rest

def tCompileScript (p : Prog) : TM Unit :=
  timed .compileScript do
    timed .importProgram (failIf p.importFails)
    failIf p.mainFails
    frontend p.outputs

def tCompileString (p : Prog) : TM Unit :=
  timed .compileString do
    failIf p.importFails
    failIf p.mainFails
    frontend p.outputs

/-- one entry of a history: which entry point compiled which program -/
def compileVia (viaString : Bool) (p : Prog) : TM Unit := if viaString then tCompileString p else tCompileScript p

/-- a history of compilations in one process: each outcome is caught by the caller (the next one runs whatever happened) -/
def runHistory (s : TState) : List (Bool × Prog) → List (Except TErr Unit) × TState
  | [] => ([], s)
  | (v, p) :: rest =>
    match (compileVia v p).run.run s with
    | (r, s1) => let q := runHistory s1 rest; (r :: q.1, q.2)

/-- the variant without `finally` around the import (what a "cleanup" of `compile_script` would write) -/
def tCompileScriptNoFinally (p : Prog) : TM Unit :=
  timed .compileScript do
    tstart .importProgram
    failIf p.importFails
    tstop .importProgram
    failIf p.mainFails
    frontend p.outputs

end NadaVerif.Runtime
