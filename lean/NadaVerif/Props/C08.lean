/-
C08 — a compilation is independent of earlier traces and failures in the process.

In the model the compiler keeps no state between compilations (all four per-compilation tables
start empty, as the repaired code clears them), so what persists is the trace store: records of
earlier programs, of aborted commands (ids drawn, records stored before the exception), and the
literal-index table.  Proved here, for all stores:

* `compile_mono` — if the store returns, for every id the compilation of a program looks up, the
  record that program traced, then whatever *else* the store holds (earlier programs, partial
  effects of failed commands, later traces) does not change the emitted MIR in any way;
* `earlier_history_irrelevant` — the special case "program B traced after history A";
* `later_traces_irrelevant` — records stored under fresh ids afterwards do not disturb it either;
* nothing of the earlier program can appear: emitted tables hold only records reachable from the
  outputs (`C09.no_dead_ops`).
* `trace_shift_equivariant` / `after_any_history` — **the trace itself**: whatever state an earlier history left
  (counter `n`, any records, any literal table), tracing a program there goes exactly as tracing it in a fresh
  process with every id shifted by `n`, on top of the old records, up to the names of literals: the same commands
  are accepted and rejected with the same errors, the registers and open function brackets hold the shifted
  values, and every record the program stores is the shifted record (`shifted_lookup`).  Proved by a relational
  simulation of all 28 commands (`Lemmas/Shift.lean`); the one command that reads the store (`Array(value, size)`)
  needs that the ids in the registers are stored, which holds of every reachable machine (`trace_stored`).
Not proved (decided by the K3 metamorphic run on the real code): that the *compiler walk* commutes with the id
shift and the literal renaming (the walk is a pure function of the records it looks up, `compile_mono`).
-/
import NadaVerif.Lemmas.Mono
import NadaVerif.Lemmas.Shift
import NadaVerif.Lemmas.Exact
import NadaVerif.Props.C01

namespace NadaVerif.C08
open NadaVerif NadaVerif.Lemmas

theorem compile_mono {st st' : St} (h : Extends st st') (hf : st.fuel ≤ st'.fuel)
    (hl : st.ops.length ≤ st'.ops.length) (outs : List OutDecl) (m : MirProg)
    (hc : compile st outs = .ok m) : compile st' outs = .ok m :=
  Lemmas.compile_mono h hf hl outs m hc

theorem lookup_append (opsB opsA : List (Id × AstOp)) (c c' : Nat) (l l' : List String) :
    Extends ⟨c, opsB, l⟩ ⟨c', opsB ++ opsA, l'⟩ := by
  intro k op h
  simp only [St.lookup, Option.map_eq_some_iff] at h ⊢
  obtain ⟨e, he, rfl⟩ := h
  exact ⟨e, by rw [List.find?_append, he]; rfl, rfl⟩

theorem fuel_append (opsB opsA : List (Id × AstOp)) (c c' : Nat) (l l' : List String) :
    (St.mk c opsB l).fuel ≤ (St.mk c' (opsB ++ opsA) l').fuel := by
  simp only [St.fuel, List.map_append, List.sum_append]; omega

/-- Program B compiles to the same MIR whether or not the records of an earlier history A (complete
programs, aborted traces, whatever) are still in the store, and whatever the counter and the
literal table have become. -/
theorem earlier_history_irrelevant (opsB opsA : List (Id × AstOp)) (c c' : Nat) (l l' : List String)
    (outs : List OutDecl) (m : MirProg) (hc : compile ⟨c, opsB, l⟩ outs = .ok m) :
    compile ⟨c', opsB ++ opsA, l'⟩ outs = .ok m :=
  compile_mono (lookup_append opsB opsA c c' l l') (fuel_append opsB opsA c c' l l')
    (by simp) outs m hc

/-- Records stored later under ids the program does not use do not change its MIR. -/
theorem later_traces_irrelevant (st : St) (k : Id) (op : AstOp) (c : Nat) (l : List String)
    (hfresh : st.lookup k = none) (outs : List OutDecl) (m : MirProg) (hc : compile st outs = .ok m) :
    compile ⟨c, (k, op) :: st.ops, l⟩ outs = .ok m := by
  apply compile_mono _ _ _ outs m hc
  · intro k' op' h
    have hne : k ≠ k' := by intro e; subst e; rw [hfresh] at h; cases h
    simp only [St.lookup, Option.map_eq_some_iff] at h ⊢
    obtain ⟨e, he, rfl⟩ := h
    refine ⟨e, ?_, rfl⟩
    simp [hne, he]
  · simp only [St.fuel, List.map_cons, List.sum_cons]; omega
  · simp

/-- Nothing belonging to an earlier program appears: every emitted record is reachable from the
outputs of the program being compiled. -/
theorem only_reachable_emitted (st : St) (outs : List OutDecl) (m : MirProg) (h : compile st outs = .ok m) :
    (∀ e ∈ m.operations, Reach st (outs.map (·.root)) e.1) ∧
    (∀ f ∈ m.functions, ∀ e ∈ f.ops, Reach st [f.returnOp] e.1) :=
  compile_no_dead_ops st outs m h

/-- **Nothing the later program needs is missing**, whatever was traced, compiled or failed before it in the
process: after any history `cs` continued by any program `more` (rejected commands and aborted function bodies
included), compiling values the registers hold never looks up an id the store lacks. -/
theorem later_program_nothing_missing (cs more : List Cmd) (outs : List OutDecl)
    (ho : C01.OutsFromRegs (runCmds (runCmds {} cs).1 more).1.regs outs) :
    compile (runCmds (runCmds {} cs).1 more).1.st outs ≠ .error .key :=
  C01.history_compile_no_missing cs more outs ho

/-- **The trace of a program does not depend on what the process traced before**, up to the id shift and literal
names: from the state `⟨n, hist, lits⟩` any history left — with no assumption on it at all — the same commands are
accepted and rejected, with the same errors; the counter, the registers, the open function brackets and the records
stored are those of a fresh process shifted by `n`, the old records lying behind them. -/
theorem trace_shift_equivariant (n : Nat) (hist : List (Id × AstOp)) (lits : List String) (cs : List Cmd) :
    (runCmds { st := ⟨n, hist, lits⟩ } cs).2 = (runCmds {} cs).2 ∧
    (runCmds { st := ⟨n, hist, lits⟩ } cs).1.st.counter = (runCmds {} cs).1.st.counter + n ∧
    (runCmds { st := ⟨n, hist, lits⟩ } cs).1.st.ops.map eraseE =
      (runCmds {} cs).1.st.ops.map (shiftEraseE n) ++ hist.map eraseE ∧
    (runCmds { st := ⟨n, hist, lits⟩ } cs).1.regs = shiftRegs n (runCmds {} cs).1.regs ∧
    (runCmds { st := ⟨n, hist, lits⟩ } cs).1.frames = shiftFrames n (runCmds {} cs).1.frames := by
  have h0 : MRel n hist ({} : Mach) { st := ⟨n, hist, lits⟩ } :=
    ⟨⟨by simp, by simp⟩, by simp [shiftRegs], by simp [shiftFrames]⟩
  have h := runCmds_sim cs h0 machSto_init
  exact ⟨h.2.symm, h.1.st.counter, h.1.st.ops, h.1.regs, h.1.frames⟩

/-- the special case the property names: the earlier history is itself a trace — complete programs, rejected
commands, aborted function bodies, whatever `cs0` is -/
theorem after_any_history (cs0 cs : List Cmd) :
    let h := (runCmds {} cs0).1.st
    (runCmds { st := h } cs).2 = (runCmds {} cs).2 ∧
    (runCmds { st := h } cs).1.st.ops.map eraseE =
      (runCmds {} cs).1.st.ops.map (shiftEraseE h.counter) ++ h.ops.map eraseE ∧
    (runCmds { st := h } cs).1.regs = shiftRegs h.counter (runCmds {} cs).1.regs := by
  intro h
  have := trace_shift_equivariant h.counter h.ops h.lits cs
  exact ⟨this.1, this.2.2.1, this.2.2.2.1⟩

/-- every record the later program stored is found under the shifted id, shifted, up to the literal's name — the
old records never shadow it -/
theorem shifted_lookup (n : Nat) (hist : List (Id × AstOp)) (lits : List String) (cs : List Cmd) (c : Id) (op : AstOp)
    (h : (runCmds {} cs).1.st.lookup c = some op) :
    ((runCmds { st := ⟨n, hist, lits⟩ } cs).1.st.lookup (c + n)).map AstOp.eraseIdx = some (op.shift n).eraseIdx := by
  have h0 : MRel n hist ({} : Mach) { st := ⟨n, hist, lits⟩ } :=
    ⟨⟨by simp, by simp⟩, by simp [shiftRegs], by simp [shiftFrames]⟩
  exact lookup_rel (runCmds_sim cs h0 machSto_init).1.st c op h

/-- Non-vacuity: a store with an earlier program's records (ids 1–3) behind program B (ids 4–6). -/
def opsB : List (Id × AstOp) :=
  [(6, .binary "Addition" 4 5 (.scalar "SecretInteger")),
   (5, .input "b" "P" "" (.scalar "SecretInteger")), (4, .input "a" "P" "" (.scalar "SecretInteger"))]
def opsA : List (Id × AstOp) :=
  [(3, .binary "Multiplication" 1 2 (.scalar "Integer")),
   (2, .input "y" "Q" "" (.scalar "Integer")), (1, .input "x" "Q" "" (.scalar "Integer"))]
example : (compile ⟨6, opsB ++ opsA, []⟩ [OutDecl.mk 6 "o" "P"]).toOption =
      (compile ⟨6, opsB, []⟩ [OutDecl.mk 6 "o" "P"]).toOption ∧
    (compile ⟨6, opsB, []⟩ [OutDecl.mk 6 "o" "P"]).toOption.isSome = true := by decide

/-- Non-vacuity of the shift theorem: an earlier program left 3 records; the later program (two inputs, a sum, a
literal, a rejected command) stores the same records under ids shifted by 3, the literal under another name. -/
def laterProg : List Cmd :=
  [.party "P", .inputObj "a" "" 0, .wrap ⟨.sec, .int⟩ 1, .lit .int (.int 7), .bin .add 2 3, .bin .add 0 2]
example :
    (runCmds {} laterProg).2 = [none, none, none, none, none, some .unsupported] ∧
    (runCmds { st := ⟨3, opsA, ["1Integer", "7Integer"]⟩ } laterProg).2 = (runCmds {} laterProg).2 ∧
    (runCmds {} laterProg).1.st.lookup 2 = some (.literal "7" 0 (.scalar "Integer")) ∧
    (runCmds { st := ⟨3, opsA, ["1Integer", "7Integer"]⟩ } laterProg).1.st.lookup 5 = some (.literal "7" 1 (.scalar "Integer")) ∧
    (runCmds { st := ⟨3, opsA, ["1Integer", "7Integer"]⟩ } laterProg).1.st.lookup 6 =
      some (.binary "Addition" 4 5 (.scalar "SecretInteger")) := by
  decide +kernel

end NadaVerif.C08
