/-
C08 — a compilation is independent of earlier traces and failures in the process.

In the model the compiler keeps no state between compilations (all four per-compilation tables
start empty, as the repaired code clears them), so what persists is the trace store: records of
earlier programs, of aborted commands (ids drawn, records stored before the exception), and the
literal-index table.  Proved here, for all stores:

* `compile_mono` — if the store returns, for every id the compilation of a program looks up, the
  record that program traced, then whatever *else* the store holds (earlier programs, partial
  effects of failed commands, later traces) does not change the emitted MIR in any way;
* `earlier_history_irrelevant` — the special case "program B traced after history A";
* `later_traces_irrelevant` — records stored under fresh ids afterwards do not disturb it either;
* nothing of the earlier program can appear: emitted tables hold only records reachable from the
  outputs (`C09.no_dead_ops`).
* `trace_shift_equivariant` / `after_any_history` — **the trace itself**: whatever state an earlier history left
  (counter `n`, any records, any literal table), tracing a program there goes exactly as tracing it in a fresh
  process under an injective renaming (`histRen`: every id shifted by `n`, every literal renamed to the index its key
  has in the later table), on top of the old records: the same commands are accepted and rejected with the same errors,
  the registers and open function brackets hold the shifted values, and every record the program stores is the renamed
  record (`shifted_lookup`).  Proved by a relational simulation of all 28 commands (`Lemmas/Shift.lean`); the one
  command that reads the store (`Array(value, size)`) needs that the ids in the registers are stored, which holds of
  every reachable machine (`trace_stored`).
* `compile_after_history` — **the MIR**: if the program compiles to `m` in a fresh process, then after any history it
  compiles to `m` renamed (`Lemmas/Rename.lean`: the compiler walk commutes with any injective renaming of ids and
  literal names — `compile_ren`, by induction over the traversal, the output list and the function worklist).
* `compile_after_history_fails` / `after_history_fails_alike` — **failing compilations**: a compilation that fails in a fresh
  process (duplicate input names, a record of the wrong kind, …) fails with the same error after any history
  (`Lemmas/MonoErr.lean`: monotonicity of failing compilations in the store; `Lemmas/Fuel.lean`: the model's fuel never runs
  out, on any store); `after_history_same_answer` puts both directions together.
-/
import NadaVerif.Lemmas.Mono
import NadaVerif.Lemmas.Shift
import NadaVerif.Lemmas.MonoErr
import NadaVerif.Lemmas.Fuel
import NadaVerif.Lemmas.Exact
import NadaVerif.Props.C01
import NadaVerif.Lemmas.Helpers

namespace NadaVerif.C08
open NadaVerif NadaVerif.Lemmas

theorem compile_mono {st st' : St} (h : Extends st st') (hf : st.fuel ≤ st'.fuel)
    (hl : st.ops.length ≤ st'.ops.length) (outs : List OutDecl) (m : MirProg)
    (hc : compile st outs = .ok m) : compile st' outs = .ok m :=
  Lemmas.compile_mono h hf hl outs m hc

theorem lookup_append (opsB opsA : List (Id × AstOp)) (c c' : Nat) (l l' : List String) :
    Extends ⟨c, opsB, l⟩ ⟨c', opsB ++ opsA, l'⟩ := by
  intro k op h
  simp only [St.lookup, Option.map_eq_some_iff] at h ⊢
  obtain ⟨e, he, rfl⟩ := h
  exact ⟨e, by rw [List.find?_append, he]; rfl, rfl⟩

theorem fuel_append (opsB opsA : List (Id × AstOp)) (c c' : Nat) (l l' : List String) :
    (St.mk c opsB l).fuel ≤ (St.mk c' (opsB ++ opsA) l').fuel := by
  simp only [St.fuel, List.map_append, List.sum_append]; omega

/-- Program B compiles to the same MIR whether or not the records of an earlier history A (complete
programs, aborted traces, whatever) are still in the store, and whatever the counter and the
literal table have become. -/
theorem earlier_history_irrelevant (opsB opsA : List (Id × AstOp)) (c c' : Nat) (l l' : List String)
    (outs : List OutDecl) (m : MirProg) (hc : compile ⟨c, opsB, l⟩ outs = .ok m) :
    compile ⟨c', opsB ++ opsA, l'⟩ outs = .ok m :=
  compile_mono (lookup_append opsB opsA c c' l l') (fuel_append opsB opsA c c' l l')
    (by simp) outs m hc

/-- Records stored later under ids the program does not use do not change its MIR. -/
theorem later_traces_irrelevant (st : St) (k : Id) (op : AstOp) (c : Nat) (l : List String)
    (hfresh : st.lookup k = none) (outs : List OutDecl) (m : MirProg) (hc : compile st outs = .ok m) :
    compile ⟨c, (k, op) :: st.ops, l⟩ outs = .ok m := by
  apply compile_mono _ _ _ outs m hc
  · intro k' op' h
    have hne : k ≠ k' := by intro e; subst e; rw [hfresh] at h; cases h
    simp only [St.lookup, Option.map_eq_some_iff] at h ⊢
    obtain ⟨e, he, rfl⟩ := h
    refine ⟨e, ?_, rfl⟩
    simp [hne, he]
  · simp only [St.fuel, List.map_cons, List.sum_cons]; omega
  · simp

/-- Nothing belonging to an earlier program appears: every emitted record is reachable from the
outputs of the program being compiled. -/
theorem only_reachable_emitted (st : St) (outs : List OutDecl) (m : MirProg) (h : compile st outs = .ok m) :
    (∀ e ∈ m.operations, Reach st (outs.map (·.root)) e.1) ∧
    (∀ f ∈ m.functions, ∀ e ∈ f.ops, Reach st [f.returnOp] e.1) :=
  compile_no_dead_ops st outs m h

/-- **Nothing the later program needs is missing**, whatever was traced, compiled or failed before it in the
process: after any history `cs` continued by any program `more` (rejected commands and aborted function bodies
included), compiling values the registers hold never looks up an id the store lacks. -/
theorem later_program_nothing_missing (cs more : List Cmd) (outs : List OutDecl)
    (ho : C01.OutsFromRegs (runCmds (runCmds {} cs).1 more).1.regs outs) :
    compile (runCmds (runCmds {} cs).1 more).1.st outs ≠ .error .key :=
  C01.history_compile_no_missing cs more outs ho

/-- the renaming of operation ids and literal names that the history `⟨n, hist, lits⟩` induces on the program `cs`:
ids are shifted by `n`; a literal goes to the name its key (value and type) has in the later process's table -/
def histRen (n : Nat) (hist : List (Id × AstOp)) (lits : List String) (cs : List Cmd) : Ren :=
  shiftRen n (runCmds {} cs).1.st.lits (runCmds { st := ⟨n, hist, lits⟩ } cs).1.st.lits

theorem related_after (n : Nat) (hist : List (Id × AstOp)) (lits : List String) (cs : List Cmd) :
    MRel n hist (runCmds {} cs).1 (runCmds { st := ⟨n, hist, lits⟩ } cs).1 ∧
    (runCmds {} cs).2 = (runCmds { st := ⟨n, hist, lits⟩ } cs).2 := by
  have h0 : MRel n hist ({} : Mach) { st := ⟨n, hist, lits⟩ } :=
    ⟨⟨by simp, by simp, by simp, by simp, by simp⟩, by simp [shiftRegs], by simp [shiftFrames]⟩
  exact runCmds_sim cs h0 machSto_init

/-- **The trace of a program does not depend on what the process traced before**, up to the renaming of ids and
literal names: from the state `⟨n, hist, lits⟩` any history left — with no assumption on it at all — the same commands
are accepted and rejected, with the same errors; the counter, the registers, the open function brackets and the records
stored are those of a fresh process renamed (ids shifted by `n`, literals renamed by key), the old records lying behind
them; the renaming is injective. -/
theorem trace_shift_equivariant (n : Nat) (hist : List (Id × AstOp)) (lits : List String) (cs : List Cmd) :
    (runCmds { st := ⟨n, hist, lits⟩ } cs).2 = (runCmds {} cs).2 ∧
    (runCmds { st := ⟨n, hist, lits⟩ } cs).1.st.counter = (runCmds {} cs).1.st.counter + n ∧
    (runCmds { st := ⟨n, hist, lits⟩ } cs).1.st.ops =
      (runCmds {} cs).1.st.ops.map (renE (histRen n hist lits cs)) ++ hist ∧
    (runCmds { st := ⟨n, hist, lits⟩ } cs).1.regs = shiftRegs n (runCmds {} cs).1.regs ∧
    (runCmds { st := ⟨n, hist, lits⟩ } cs).1.frames = shiftFrames n (runCmds {} cs).1.frames ∧
    Ren.Inj (histRen n hist lits cs) := by
  have h := related_after n hist lits cs
  exact ⟨h.2.symm, h.1.st.counter, h.1.st.ops, h.1.regs, h.1.frames, shiftRen_inj _ _ h.1.st.nodup h.1.st.sub⟩

/-- the special case the property names: the earlier history is itself a trace — complete programs, rejected
commands, aborted function bodies, whatever `cs0` is -/
theorem after_any_history (cs0 cs : List Cmd) :
    let h := (runCmds {} cs0).1.st
    (runCmds { st := h } cs).2 = (runCmds {} cs).2 ∧
    (runCmds { st := h } cs).1.st.ops =
      (runCmds {} cs).1.st.ops.map (renE (histRen h.counter h.ops h.lits cs)) ++ h.ops ∧
    (runCmds { st := h } cs).1.regs = shiftRegs h.counter (runCmds {} cs).1.regs := by
  intro h
  have := trace_shift_equivariant h.counter h.ops h.lits cs
  exact ⟨this.1, this.2.2.1, this.2.2.2.1⟩

/-- every record the later program stored is found under the shifted id, renamed — the old records never shadow it -/
theorem shifted_lookup (n : Nat) (hist : List (Id × AstOp)) (lits : List String) (cs : List Cmd) (c : Id) (op : AstOp)
    (h : (runCmds {} cs).1.st.lookup c = some op) :
    (runCmds { st := ⟨n, hist, lits⟩ } cs).1.st.lookup (c + n) = some (op.ren (histRen n hist lits cs)) :=
  lookup_rel (related_after n hist lits cs).1.st c op h

/-- **The MIR of a program compiled after any history is the MIR of the program compiled in a fresh process, up to
the renaming of operation ids and literal names** (`MirProg.ren`: every table, the function list, the inputs, the
literal table and the outputs renamed; parties untouched): tracing is equivariant (`trace_shift_equivariant`), the
compiler walk commutes with an injective renaming (`compile_ren`), and the records the history left behind are never
looked at (`earlier_history_irrelevant`). -/
theorem compile_after_history (n : Nat) (hist : List (Id × AstOp)) (lits : List String) (cs : List Cmd)
    (outs : List OutDecl) (m : MirProg) (hc : compile (runCmds {} cs).1.st outs = .ok m) :
    compile (runCmds { st := ⟨n, hist, lits⟩ } cs).1.st (outs.map (OutDecl.ren (histRen n hist lits cs))) =
      .ok (m.ren (histRen n hist lits cs)) := by
  obtain ⟨_, _, hops, _, _, hinj⟩ := trace_shift_equivariant n hist lits cs
  have h1 := compile_ren hinj (runCmds {} cs).1.st outs
  rw [hc] at h1
  have h2 := earlier_history_irrelevant ((runCmds {} cs).1.st.ops.map (renE (histRen n hist lits cs))) hist
    (runCmds {} cs).1.st.counter (runCmds { st := ⟨n, hist, lits⟩ } cs).1.st.counter
    (runCmds {} cs).1.st.lits (runCmds { st := ⟨n, hist, lits⟩ } cs).1.st.lits
    (outs.map (OutDecl.ren (histRen n hist lits cs))) (m.ren (histRen n hist lits cs)) h1
  rw [← hops] at h2
  exact h2

/-- … and a compilation that **fails** in a fresh process fails with the same error after any history — for every error
but "an id is missing" and "out of fuel", the two a larger store could turn into something else.  (For outputs taken from the
program's registers the first cannot occur: `after_history_fails_alike`.) -/
theorem compile_after_history_fails (n : Nat) (hist : List (Id × AstOp)) (lits : List String) (cs : List Cmd)
    (outs : List OutDecl) (e : Err) (hc : compile (runCmds {} cs).1.st outs = .error e) (hk : e ≠ .key) (hu : e ≠ .unsupported) :
    compile (runCmds { st := ⟨n, hist, lits⟩ } cs).1.st (outs.map (OutDecl.ren (histRen n hist lits cs))) = .error e := by
  obtain ⟨_, _, hops, _, _, hinj⟩ := trace_shift_equivariant n hist lits cs
  have h1 := compile_ren hinj (runCmds {} cs).1.st outs
  rw [hc] at h1
  have h2 := compile_mono_err
    (lookup_append ((runCmds {} cs).1.st.ops.map (renE (histRen n hist lits cs))) hist
      (runCmds {} cs).1.st.counter (runCmds { st := ⟨n, hist, lits⟩ } cs).1.st.counter
      (runCmds {} cs).1.st.lits (runCmds { st := ⟨n, hist, lits⟩ } cs).1.st.lits)
    (fuel_append _ hist _ _ _ _) (by simp) (outs.map (OutDecl.ren (histRen n hist lits cs))) e h1 hk hu
  rw [← hops] at h2
  exact h2

/-- for outputs declared on the program's own registers: whatever the fresh compilation answers — a MIR or an error — the
compilation after the history answers the same, renamed (the model's fuel never runs out: `compile_ne_unsupported`; an id
is never missing: `C01.trace_compile_no_missing`) -/
theorem after_history_fails_alike (n : Nat) (hist : List (Id × AstOp)) (lits : List String) (cs : List Cmd)
    (outs : List OutDecl) (ho : C01.OutsFromRegs (runCmds {} cs).1.regs outs) (e : Err)
    (hc : compile (runCmds {} cs).1.st outs = .error e) :
    compile (runCmds { st := ⟨n, hist, lits⟩ } cs).1.st (outs.map (OutDecl.ren (histRen n hist lits cs))) = .error e :=
  compile_after_history_fails n hist lits cs outs e hc
    (fun hk => C01.trace_compile_no_missing cs outs ho (hk ▸ hc))
    (fun hu => compile_ne_unsupported _ outs (hu ▸ hc))

/-- **Whatever the fresh compilation answers, the compilation after any history answers the same, renamed.** -/
theorem after_history_same_answer (n : Nat) (hist : List (Id × AstOp)) (lits : List String) (cs : List Cmd)
    (outs : List OutDecl) (ho : C01.OutsFromRegs (runCmds {} cs).1.regs outs) :
    compile (runCmds { st := ⟨n, hist, lits⟩ } cs).1.st (outs.map (OutDecl.ren (histRen n hist lits cs))) =
      (compile (runCmds {} cs).1.st outs).map (MirProg.ren (histRen n hist lits cs)) := by
  cases hc : compile (runCmds {} cs).1.st outs with
  | ok m => exact compile_after_history n hist lits cs outs m hc
  | error e => exact after_history_fails_alike n hist lits cs outs ho e hc

/-- the outputs of the later compilation are the same registers: an output declared on register `r` of the fresh run
is declared, after the history, on the same register, whose value carries the shifted id -/
theorem outputs_follow_registers (n : Nat) (hist : List (Id × AstOp)) (lits : List String) (cs : List Cmd) (o : OutDecl) :
    (o.ren (histRen n hist lits cs)).root = o.root + n ∧ (o.ren (histRen n hist lits cs)).name = o.name ∧
    (o.ren (histRen n hist lits cs)).party = o.party := ⟨rfl, rfl, rfl⟩

/-- Non-vacuity: a store with an earlier program's records (ids 1–3) behind program B (ids 4–6). -/
def opsB : List (Id × AstOp) :=
  [(6, .binary "Addition" 4 5 (.scalar "SecretInteger")),
   (5, .input "b" "P" "" (.scalar "SecretInteger")), (4, .input "a" "P" "" (.scalar "SecretInteger"))]
def opsA : List (Id × AstOp) :=
  [(3, .binary "Multiplication" 1 2 (.scalar "Integer")),
   (2, .input "y" "Q" "" (.scalar "Integer")), (1, .input "x" "Q" "" (.scalar "Integer"))]
example : (compile ⟨6, opsB ++ opsA, []⟩ [OutDecl.mk 6 "o" "P"]).toOption =
      (compile ⟨6, opsB, []⟩ [OutDecl.mk 6 "o" "P"]).toOption ∧
    (compile ⟨6, opsB, []⟩ [OutDecl.mk 6 "o" "P"]).toOption.isSome = true := by decide

/-- Non-vacuity of the shift theorem: an earlier program left 3 records; the later program (two inputs, a sum, a
literal, a rejected command) stores the same records under ids shifted by 3, the literal under another name. -/
def laterProg : List Cmd :=
  [.party "P", .inputObj "a" "" 0, .wrap ⟨.sec, .int⟩ 1, .lit .int (.int 7), .bin .add 2 3, .bin .add 0 2]
example :
    (runCmds {} laterProg).2 = [none, none, none, none, none, some .unsupported] ∧
    (runCmds { st := ⟨3, opsA, ["1Integer", "7Integer"]⟩ } laterProg).2 = (runCmds {} laterProg).2 ∧
    (runCmds {} laterProg).1.st.lookup 2 = some (.literal "7" 0 (.scalar "Integer")) ∧
    (runCmds { st := ⟨3, opsA, ["1Integer", "7Integer"]⟩ } laterProg).1.st.lookup 5 = some (.literal "7" 1 (.scalar "Integer")) ∧
    (runCmds { st := ⟨3, opsA, ["1Integer", "7Integer"]⟩ } laterProg).1.st.lookup 6 =
      some (.binary "Addition" 4 5 (.scalar "SecretInteger")) := by
  decide +kernel

/-- **The helper modules a program runs against are its own and current.**  After any history of compilations (programs of any
directories, importing any helpers) and any edits of the files in between, every helper module loaded while the next program is
compiled was imported from that program's directory, from the file as it is on disk now (`Runtime/Helpers.lean`: the registry of
`compile._program_imports` as a state machine; the three repairs of the campaign — helpers of another directory, a changed helper,
a helper that imports a changed one — are what makes `enter` establish this). -/
theorem helpers_current_after_history (hist : List Runtime.Step) (s : Runtime.Step) :
    Runtime.Fresh s.disk s.dir (Runtime.compileFrom s.disk s.dir s.names (Runtime.runSteps [] hist)).1 :=
  Runtime.compileFrom_fresh s.disk s.dir s.names _

/-- … and while nothing changes nothing is loaded again: the same directory, every helper loaded and current ⇒ no helper file is executed. -/
theorem helpers_reused_when_unchanged (disk : Runtime.Disk) (dir : String) (names : List String) (r : Runtime.Registry)
    (hf : Runtime.Fresh disk dir r) (hl : ∀ n ∈ names, r.any (·.name == n) = true) :
    Runtime.compileFrom disk dir names r = (r, []) :=
  Runtime.compileFrom_noexec disk dir names r hf hl

end NadaVerif.C08
