/-
C08 — a compilation is independent of earlier traces and failures in the process.

In the model the compiler keeps no state between compilations (all four per-compilation tables
start empty, as the repaired code clears them), so what persists is the trace store: records of
earlier programs, of aborted commands (ids drawn, records stored before the exception), and the
literal-index table.  Proved here, for all stores:

* `compile_mono` — if the store returns, for every id the compilation of a program looks up, the
  record that program traced, then whatever *else* the store holds (earlier programs, partial
  effects of failed commands, later traces) does not change the emitted MIR in any way;
* `earlier_history_irrelevant` — the special case "program B traced after history A";
* `later_traces_irrelevant` — records stored under fresh ids afterwards do not disturb it either;
* nothing of the earlier program can appear: emitted tables hold only records reachable from the
  outputs (`C09.no_dead_ops`).
Not proved (decided by the K3 metamorphic run on the real code): invariance under the id shift and
the literal renaming that an earlier history induces.
-/
import NadaVerif.Lemmas.Mono
import NadaVerif.Lemmas.Exact
import NadaVerif.Props.C01

namespace NadaVerif.C08
open NadaVerif NadaVerif.Lemmas

theorem compile_mono {st st' : St} (h : Extends st st') (hf : st.fuel ≤ st'.fuel)
    (hl : st.ops.length ≤ st'.ops.length) (outs : List OutDecl) (m : MirProg)
    (hc : compile st outs = .ok m) : compile st' outs = .ok m :=
  Lemmas.compile_mono h hf hl outs m hc

theorem lookup_append (opsB opsA : List (Id × AstOp)) (c c' : Nat) (l l' : List String) :
    Extends ⟨c, opsB, l⟩ ⟨c', opsB ++ opsA, l'⟩ := by
  intro k op h
  simp only [St.lookup, Option.map_eq_some_iff] at h ⊢
  obtain ⟨e, he, rfl⟩ := h
  exact ⟨e, by rw [List.find?_append, he]; rfl, rfl⟩

theorem fuel_append (opsB opsA : List (Id × AstOp)) (c c' : Nat) (l l' : List String) :
    (St.mk c opsB l).fuel ≤ (St.mk c' (opsB ++ opsA) l').fuel := by
  simp only [St.fuel, List.map_append, List.sum_append]; omega

/-- Program B compiles to the same MIR whether or not the records of an earlier history A (complete
programs, aborted traces, whatever) are still in the store, and whatever the counter and the
literal table have become. -/
theorem earlier_history_irrelevant (opsB opsA : List (Id × AstOp)) (c c' : Nat) (l l' : List String)
    (outs : List OutDecl) (m : MirProg) (hc : compile ⟨c, opsB, l⟩ outs = .ok m) :
    compile ⟨c', opsB ++ opsA, l'⟩ outs = .ok m :=
  compile_mono (lookup_append opsB opsA c c' l l') (fuel_append opsB opsA c c' l l')
    (by simp) outs m hc

/-- Records stored later under ids the program does not use do not change its MIR. -/
theorem later_traces_irrelevant (st : St) (k : Id) (op : AstOp) (c : Nat) (l : List String)
    (hfresh : st.lookup k = none) (outs : List OutDecl) (m : MirProg) (hc : compile st outs = .ok m) :
    compile ⟨c, (k, op) :: st.ops, l⟩ outs = .ok m := by
  apply compile_mono _ _ _ outs m hc
  · intro k' op' h
    have hne : k ≠ k' := by intro e; subst e; rw [hfresh] at h; cases h
    simp only [St.lookup, Option.map_eq_some_iff] at h ⊢
    obtain ⟨e, he, rfl⟩ := h
    refine ⟨e, ?_, rfl⟩
    simp [hne, he]
  · simp only [St.fuel, List.map_cons, List.sum_cons]; omega
  · simp

/-- Nothing belonging to an earlier program appears: every emitted record is reachable from the
outputs of the program being compiled. -/
theorem only_reachable_emitted (st : St) (outs : List OutDecl) (m : MirProg) (h : compile st outs = .ok m) :
    (∀ e ∈ m.operations, Reach st (outs.map (·.root)) e.1) ∧
    (∀ f ∈ m.functions, ∀ e ∈ f.ops, Reach st [f.returnOp] e.1) :=
  compile_no_dead_ops st outs m h

/-- **Nothing the later program needs is missing**, whatever was traced, compiled or failed before it in the
process: after any history `cs` continued by any program `more` (rejected commands and aborted function bodies
included), compiling values the registers hold never looks up an id the store lacks. -/
theorem later_program_nothing_missing (cs more : List Cmd) (outs : List OutDecl)
    (ho : C01.OutsFromRegs (runCmds (runCmds {} cs).1 more).1.regs outs) :
    compile (runCmds (runCmds {} cs).1 more).1.st outs ≠ .error .key :=
  C01.history_compile_no_missing cs more outs ho

/-- Non-vacuity: a store with an earlier program's records (ids 1–3) behind program B (ids 4–6). -/
def opsB : List (Id × AstOp) :=
  [(6, .binary "Addition" 4 5 (.scalar "SecretInteger")),
   (5, .input "b" "P" "" (.scalar "SecretInteger")), (4, .input "a" "P" "" (.scalar "SecretInteger"))]
def opsA : List (Id × AstOp) :=
  [(3, .binary "Multiplication" 1 2 (.scalar "Integer")),
   (2, .input "y" "Q" "" (.scalar "Integer")), (1, .input "x" "Q" "" (.scalar "Integer"))]
example : (compile ⟨6, opsB ++ opsA, []⟩ [OutDecl.mk 6 "o" "P"]).toOption =
      (compile ⟨6, opsB, []⟩ [OutDecl.mk 6 "o" "P"]).toOption ∧
    (compile ⟨6, opsB, []⟩ [OutDecl.mk 6 "o" "P"]).toOption.isSome = true := by decide

end NadaVerif.C08
