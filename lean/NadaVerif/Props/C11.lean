/-
C11 — Nada functions keep their signature, their bindings and their restrictions.
Theorems about `exec` for all register files and states, plus the regenerated store/AST schemas.
-/
import NadaVerif.Props.C12
import NadaVerif.Spec.Schema
import NadaVerif.Lemmas.FnExact

namespace NadaVerif.C11
open NadaVerif NadaVerif.Spec NadaVerif.Generated

variable (regs : List RVal) (frames : List Frame) (s : St)

/-- T6∘T7: what the program wrote reaches the MIR key it belongs to (function → `fn`/`function_id`,
call arguments → `args` in call order, parameter name → `refers_to`, …). -/
theorem schema_roundtrip :
    ((storeSchema.map fun w => (w.1, roundtrip w)) == expectedRoundtrip) = true := by decide +kernel

/-- every `store_in_ast` is straight-line code (one sentinel evaluation determines the mapping) -/
theorem store_straight_line : storeSchema.all (fun w => w.2.2.2) = true := by decide +kernel

/-- A call records the function that was passed and the arguments' ids in call order. -/
theorem call_binding (f x y : Reg) (fid : Id) (ret : STy) (px py : String) (vx vy : Val) (cx cy : Id)
    (hf : regs[f]? = some (.fn fid ret [px, py])) (hx : regs[x]? = some (.val vx)) (hy : regs[y]? = some (.val vy))
    (hcx : vx.child = some cx) (hcy : vy.child = some cy) :
    (exec regs frames (.call f [x, y])).run.run s =
      (.ok ([.val (.scalar ret (some (s.counter + 1)) none)], frames),
       { s with counter := s.counter + 1,
                ops := (s.counter + 1, .call [cx, cy] fid (.scalar ret.mirName)) :: s.ops }) := by
  simp_exec [hf, hx, hy, hcx, hcy, List.mapM_cons, List.mapM_nil, childIds]

/-- Keyword arguments are bound to the declared parameters **by name, in declaration order**,
whatever order they are written in: `f(py=y, px=x)` records `[x, y]`. -/
theorem call_keyword_binding (f x y : Reg) (fid : Id) (ret : STy) (px py : String) (hne : px ≠ py)
    (vx vy : Val) (cx cy : Id)
    (hf : regs[f]? = some (.fn fid ret [px, py])) (hx : regs[x]? = some (.val vx)) (hy : regs[y]? = some (.val vy))
    (hcx : vx.child = some cx) (hcy : vy.child = some cy) :
    (exec regs frames (.call f [] [(py, y), (px, x)])).run.run s =
      (.ok ([.val (.scalar ret (some (s.counter + 1)) none)], frames),
       { s with counter := s.counter + 1,
                ops := (s.counter + 1, .call [cx, cy] fid (.scalar ret.mirName)) :: s.ops }) := by
  have h1 : (py == px) = false := by simpa using fun h => hne h.symm
  simp_exec [hf, hx, hy, hcx, hcy, List.mapM_cons, List.mapM_nil, childIds, List.find?, h1, hne, Ne.symm hne]

/-- … and a positional argument followed by the remaining parameter by keyword. -/
theorem call_mixed_binding (f x y : Reg) (fid : Id) (ret : STy) (px py : String)
    (vx vy : Val) (cx cy : Id)
    (hf : regs[f]? = some (.fn fid ret [px, py])) (hx : regs[x]? = some (.val vx)) (hy : regs[y]? = some (.val vy))
    (hcx : vx.child = some cx) (hcy : vy.child = some cy) :
    (exec regs frames (.call f [x] [(py, y)])).run.run s =
      (.ok ([.val (.scalar ret (some (s.counter + 1)) none)], frames),
       { s with counter := s.counter + 1,
                ops := (s.counter + 1, .call [cx, cy] fid (.scalar ret.mirName)) :: s.ops }) := by
  simp_exec [hf, hx, hy, hcx, hcy, List.mapM_cons, List.mapM_nil, childIds, List.find?]

/-- A keyword that names no remaining parameter (unknown, or already given positionally) is rejected. -/
theorem call_unexpected_keyword_rejected (f x : Reg) (fid : Id) (ret : STy) (px bad : String)
    (hf : regs[f]? = some (.fn fid ret [px])) :
    (exec regs frames (.call f [x] [(bad, x)])).run.run s = (.error .T, s) := by
  simp_exec [hf, List.mapM_nil]

/-- A call with the wrong number of arguments is rejected and changes nothing. -/
theorem call_arity_rejected (f : Reg) (args : List Reg) (fid : Id) (ret : STy) (names : List String)
    (hf : regs[f]? = some (.fn fid ret names)) (hne : args.length ≠ names.length) :
    (exec regs frames (.call f args)).run.run s = (.error .T, s) := by
  by_cases hgt : args.length > names.length
  · simp_exec [hf, hgt]
  · -- too few positional arguments and no keywords: the first missing parameter is not found
    have hlt : args.length < names.length := by omega
    have : names.drop args.length ≠ [] := by
      intro h; have := congrArg List.length h; simp at this; omega
    cases hd : names.drop args.length with
    | nil => exact absurd hd this
    | cons n rest => simp_exec [hf, hgt, hd, List.mapM_cons]

/-- `reduce` is bound to the function passed, the array and the initial value. -/
theorem reduce_binding (a f i : Reg) (e : Elem) (n : Option Int) (ca fid ci : Id) (ret : STy) (np : List String) (vi : Val)
    (ha : regs[a]? = some (.val (.array e n (some ca)))) (hf : regs[f]? = some (.fn fid ret np))
    (hi : regs[i]? = some (.val vi)) (hci : vi.child = some ci) :
    (exec regs frames (.reduce a f i)).run.run s =
      (.ok ([.val (.scalar ret (some (s.counter + 1)) none)], frames),
       { s with counter := s.counter + 1,
                ops := (s.counter + 1, .reduce ca fid ci (.scalar ret.mirName)) :: s.ops }) := by
  simp_exec [ha, hf, hi, hci]

/-- A function whose declared return type is a literal type is rejected (nothing is stored). -/
theorem literal_return_rejected (fr : Frame) (rest : List Frame) (ret : Reg) (v : Val) (ann : STy)
    (hr : regs[ret]? = some (.val v)) (hlit : ann.mode = .const) :
    (exec regs (fr :: rest) (.endFn ret ann)).run.run s = (.error .notAllowed, s) := by
  simp_exec [hr, hlit]

/-- A function all of whose parameters have literal types is rejected (nothing is stored). -/
theorem all_literal_params_rejected (fr : Frame) (rest : List Frame) (ret : Reg) (v : Val) (ann : STy)
    (hr : regs[ret]? = some (.val v)) (hnl : ann.mode ≠ .const)
    (hall : fr.params.all (fun p => isLiteralScalar p.2) = true) :
    (exec regs (fr :: rest) (.endFn ret ann)).run.run s = (.error .notAllowed, s) := by
  simp_exec [hr, hnl, hall]

/-- An accepted definition stores the function under its own id with its name, its parameter ids in
declaration order, the body's result as return operation, and the declared return type. -/
theorem fn_record (fr : Frame) (rest : List Frame) (ret : Reg) (ann : STy) (c : Id) (l : Option LitVal)
    (hr : regs[ret]? = some (.val (.scalar ann (some c) l))) (hnl : ann.mode ≠ .const)
    (hall : fr.params.all (fun p => isLiteralScalar p.2) = false) :
    (exec regs (fr :: rest) (.endFn ret ann)).run.run s =
      (.ok ([.fn fr.fid ann fr.pnames], rest),
       { s with ops := (fr.fid, .function fr.name (fr.params.map (·.1)) c (.scalar ann.mirName)) :: s.ops }) := by
  simp_exec [hr, hnl, hall]

/-- Each function is emitted exactly once, however many map / reduce / call sites (in the program or in other
function bodies) use it, and every site is bound to an emitted function — for every store and output list. -/
theorem fn_emitted_once (st : St) (outs : List OutDecl) (m : MirProg) (h : compile st outs = .ok m) :
    (m.functions.map (·.id)).Nodup ∧
    ∀ t ∈ allTables m, ∀ e ∈ t, ∀ f, e.2.fnRef = some f → count f (m.functions.map (·.id)) = 1 :=
  Lemmas.compile_fn_resolve st outs m h

end NadaVerif.C11
