/-
C12 — collection operations enforce their preconditions and size/element rules.

Theorems about `exec` (the layer-B model of the DSL operations), for all register files, all
states, all sizes (`Option Int`), all element types and all indices / keys.
-/
import NadaVerif.Trace

namespace NadaVerif.C12
open NadaVerif

/-- unfold one `exec` clause down to the state-and-exception monad -/
macro "simp_exec" "[" ts:Lean.Parser.Tactic.simpLemma,* "]" : tactic =>
  `(tactic| simp [exec, getVal, childOf, liftE, alloc, put, bind, ExceptT.bind, ExceptT.mk, ExceptT.bindCont,
      throw, throwThe, MonadExceptOf.throw, ExceptT.run, StateT.run, pure, ExceptT.pure, StateT.pure,
      StateT.bind, get, getThe, MonadStateOf.get, StateT.get, set, MonadStateOf.set, StateT.set,
      modify, modifyGet, MonadStateOf.modifyGet, StateT.modifyGet, ExceptT.lift, liftM, monadLift,
      MonadLift.monadLift, Functor.map, StateT.map, ExceptT.map, Except.bind, Except.pure, Except.map, $ts,*] <;> try rfl)

variable (regs : List RVal) (frames : List Frame) (s : St)

/-- Zipping arrays of different sizes is rejected and changes nothing. -/
theorem zip_size_mismatch_rejected (a b : Reg) (ea eb : Elem) (na nb : Option Int) (ca cb : Id)
    (ha : regs[a]? = some (.val (.array ea na (some ca))))
    (hb : regs[b]? = some (.val (.array eb nb (some cb)))) (hne : na ≠ nb) :
    (exec regs frames (.zip a b)).run.run s = (.error .incompatible, s) := by
  simp_exec [ha, hb, hne]

/-- Inner product of arrays of different sizes is rejected and changes nothing. -/
theorem inner_size_mismatch_rejected (a b : Reg) (ea eb : Elem) (na nb : Option Int) (ca cb : Id)
    (ha : regs[a]? = some (.val (.array ea na (some ca))))
    (hb : regs[b]? = some (.val (.array eb nb (some cb)))) (hne : na ≠ nb) :
    (exec regs frames (.innerProduct a b)).run.run s = (.error .incompatible, s) := by
  simp_exec [ha, hb, hne]

/-- Inner product over non-integer elements (here: any scalar element class whose MIR name is not
an integer type, on either side) is rejected and changes nothing. -/
theorem inner_nonint_rejected (a b : Reg) (ta tb : STy) (n : Option Int) (ca cb : Id)
    (ha : regs[a]? = some (.val (.array (.cls ta) n (some ca))))
    (hb : regs[b]? = some (.val (.array (.cls tb) n (some cb))))
    (hni : ta.base = .bool ∨ tb.base = .bool) :
    (exec regs frames (.innerProduct a b)).run.run s = (.error .invalidType, s) := by
  obtain ⟨ma, ba⟩ := ta; obtain ⟨mb, bb⟩ := tb
  rcases hni with h | h <;> simp at h <;> subst h <;>
    cases ma <;> cases mb <;> (try cases ba) <;> (try cases bb) <;>
    simp_exec [ha, hb, Elem.innerType, isIntegerTy, STy.mirName]

/-- Building an array from no values is rejected and changes nothing. -/
theorem arrayNew_empty_rejected :
    (exec regs frames (.arrayNew [])).run.run s = (.error .value, s) := by
  simp_exec [List.mapM_nil]

/-- Building an array from values of two different scalar classes is rejected, nothing changes. -/
theorem arrayNew_mixed_rejected (x y : Reg) (tx ty : STy) (cx cy : Option Id) (lx ly : Option LitVal)
    (hx : regs[x]? = some (.val (.scalar tx cx lx))) (hy : regs[y]? = some (.val (.scalar ty cy ly)))
    (hne : tx ≠ ty) :
    (exec regs frames (.arrayNew [x, y])).run.run s = (.error .T, s) := by
  simp_exec [hx, hy, List.mapM_cons, List.mapM_nil, Val.toMir, sameClass, hne]

/-- Indexing an n-tuple at a position that does not exist is rejected and changes nothing. -/
theorem ntupleGet_out_of_range_rejected (r : Reg) (vs : Vals) (src : Id) (i : Int)
    (hr : regs[r]? = some (.val (.ntuple vs (some src))))
    (hout : i ≥ (vs.toList.length : Int) ∨ i < -(vs.toList.length : Int)) :
    (exec regs frames (.ntupleGet r i)).run.run s = (.error .index, s) := by
  have : (if i < 0 then i + (vs.toList.length : Int) else i) < 0 ∨
      (if i < 0 then i + (vs.toList.length : Int) else i) ≥ (vs.toList.length : Int) := by
    split <;> omega
  simp_exec [hr, this]

/-- Reading an undeclared object field is rejected and changes nothing. -/
theorem objectGet_missing_rejected (r : Reg) (fs : VFields) (src : Id) (key : String)
    (hr : regs[r]? = some (.val (.object fs (some src))))
    (hres : key ∉ reservedKeys) (hmiss : fs.toList.find? (·.1 == key) = none) :
    (exec regs frames (.objectGet r key)).run.run s = (.error .T, s) := by
  simp_exec [hr, hres, hmiss]

/-- An accepted n-tuple index is recorded as a position `0 ≤ j < n` (also for negative `i`). -/
theorem ntupleGet_index_in_range (r : Reg) (vs : Vals) (src : Id) (i : Int) (t : STy) (c : Option Id)
    (hr : regs[r]? = some (.val (.ntuple vs (some src))))
    (hin : -(vs.toList.length : Int) ≤ i ∧ i < (vs.toList.length : Int))
    (hm : vs.toList[(if i < 0 then i + (vs.toList.length : Int) else i).toNat]? = some (.scalar t c none))
    (hnc : t.mode ≠ .const) :
    ∃ j : Int, 0 ≤ j ∧ j < (vs.toList.length : Int) ∧
      (exec regs frames (.ntupleGet r i)).run.run s =
        (.ok ([.val (.scalar t (some (s.counter + 1)) none)], frames),
         { s with counter := s.counter + 1,
                  ops := (s.counter + 1, .ntupleAcc j src (.scalar t.mirName)) :: s.ops }) := by
  refine ⟨if i < 0 then i + (vs.toList.length : Int) else i, by split <;> omega, by split <;> omega, ?_⟩
  have h1 : ¬ ((if i < 0 then i + (vs.toList.length : Int) else i) < 0 ∨
      (if i < 0 then i + (vs.toList.length : Int) else i) ≥ (vs.toList.length : Int)) := by
    split <;> omega
  simp_exec [hr, h1, hm, genAccessor, hnc]

/-- `zip` pairs the element types and keeps the size. -/
theorem zip_type (a b : Reg) (ea eb : Elem) (n : Option Int) (ca cb : Id) (ty : MTy)
    (ha : regs[a]? = some (.val (.array ea n (some ca))))
    (hb : regs[b]? = some (.val (.array eb n (some cb))))
    (hty : (Val.array (.inst (.tuple ea eb none)) n (some (s.counter + 1))).toMir = .ok ty) :
    (exec regs frames (.zip a b)).run.run s =
      (.ok ([.val (.array (.inst (.tuple ea eb none)) n (some (s.counter + 1)))], frames),
       { s with counter := s.counter + 1, ops := (s.counter + 1, .binary "Zip" ca cb ty) :: s.ops }) := by
  simp_exec [ha, hb, hty]

/-- the MIR type `zip` records: `Array[Tuple[left element, right element]]` of the common size -/
theorem zip_mir_type (ea eb : Elem) (n : Option Int) (c : Option Id) (tl tr : MTy)
    (hl : ea.sideType = .ok tl) (hr : eb.sideType = .ok tr) :
    (Val.array (.inst (.tuple ea eb none)) n c).toMir = .ok (.array (.tuple tl tr) (sizeOfArray n)) := by
  simp [Val.toMir, Elem.innerType, hl, hr, bind, Except.bind]

/-- `unzip` splits the element types back in the same order and keeps the size on both sides. -/
theorem unzip_mir_type (l r : Elem) (n : Option Int) (c : Option Id) (tl tr : MTy)
    (hl : l.asInstanceToMir = .ok tl) (hr : r.asInstanceToMir = .ok tr) :
    (Val.tuple (.arrayType l n) (.arrayType r n) c).toMir =
      .ok (.tuple (.array tl (sizeOfArrayType n)) (.array tr (sizeOfArrayType n))) := by
  simp [Val.toMir, Elem.sideType, hl, hr, bind, Except.bind]

/-- `map` keeps the size and takes the element type from the function's return type. -/
theorem map_type (a f : Reg) (e : Elem) (n : Option Int) (ca fid : Id) (ret : STy) (np : List String)
    (ha : regs[a]? = some (.val (.array e n (some ca)))) (hf : regs[f]? = some (.fn fid ret np)) :
    (exec regs frames (.map a f)).run.run s =
      (.ok ([.val (.array (.cls ret) n (some (s.counter + 1)))], frames),
       { s with counter := s.counter + 1,
                ops := (s.counter + 1, .map ca fid (.array (.scalar ret.mirName) (sizeOfArray n))) :: s.ops }) := by
  simp_exec [ha, hf, Val.toMir, Elem.innerType]

/-- `Array.new` of two values of one scalar class counts its elements. -/
theorem arrayNew_type (x y : Reg) (t : STy) (cx cy : Id) (lx ly : Option LitVal)
    (hx : regs[x]? = some (.val (.scalar t (some cx) lx))) (hy : regs[y]? = some (.val (.scalar t (some cy) ly))) :
    (exec regs frames (.arrayNew [x, y])).run.run s =
      (.ok ([.val (.array (.inst (.scalar t (some cx) lx)) (some 2) (some (s.counter + 1)))], frames),
       { s with counter := s.counter + 1,
                ops := (s.counter + 1, .new "ArrayNew" [cx, cy] (.array (.scalar t.mirName) (.n 2))) :: s.ops }) := by
  simp_exec [hx, hy, List.mapM_cons, List.mapM_nil, Val.toMir, sameClass, Elem.innerType, sizeOfArray, childIds, Val.child]

end NadaVerif.C12
