/-
C17 — the audit report reproduces the source and shows the inferred types (partial).

Proved for the model of `richreports.report` (`Audit/Report.lean`), for every source text and
**every** sequence of delimiter pushes (hence every sequence of `enrich` calls with any ranges,
with or without whitespace skipping and intermediate lines): removing the inserted markup from the
rendered report gives back the source exactly, line for line.
Decided by the oracle on every real report (not proved): proper nesting of the markup, the
displayed type of every audited node, display of every restriction, marking of skipped lines.
-/
import NadaVerif.Audit.Report

namespace NadaVerif.C17
open NadaVerif.Audit

theorem erase_append (a b : List Tok) : erase (a ++ b) = erase a ++ erase b := by
  simp [erase, List.filter_append]

theorem erase_delims (ds : List String) : erase (ds.map Tok.delim) = [] := by
  induction ds with
  | nil => rfl
  | cons d ds ih => simpa [erase] using ih

/-- erasing the rendering of a cell leaves just its character, whatever is on its stacks -/
theorem erase_renderCell (x : Cell) :
    erase (renderCell x) = (match x.c with | some ch => [.ch ch] | none => []) := by
  unfold renderCell
  rw [erase_append, erase_append, erase_delims, erase_delims]
  cases x.c <;> simp [erase]

theorem pushCell_c (p : Push) (x : Cell) : (pushCell p x).c = x.c := by
  unfold pushCell; split <;> rfl

theorem erase_pushCell (p : Push) (x : Cell) : erase (renderCell (pushCell p x)) = erase (renderCell x) := by
  rw [erase_renderCell, erase_renderCell, pushCell_c]

theorem erase_renderLine_modify (f : Cell → Cell) (hf : ∀ x, erase (renderCell (f x)) = erase (renderCell x)) :
    ∀ (n : Nat) (l : List Cell), erase (renderLine (modifyAt f n l)) = erase (renderLine l) := by
  intro n l
  induction l generalizing n with
  | nil => cases n <;> rfl
  | cons x xs ih =>
    cases n with
    | zero => simp only [modifyAt, renderLine, List.flatMap_cons, erase_append, hf]
    | succ n =>
      simp only [modifyAt, renderLine, List.flatMap_cons, erase_append]
      have := ih n
      simp only [renderLine] at this
      rw [this]

theorem erase_render_cons (l : List Cell) (ls : Report) (h : ls ≠ []) :
    erase (render (l :: ls)) = erase (renderLine l) ++ .newline :: erase (render ls) := by
  cases ls with
  | nil => exact absurd rfl h
  | cons a as => simp [render, erase_append, erase]

theorem modifyAt_ne_nil {α} (f : α → α) (n : Nat) (l : List α) (h : l ≠ []) : modifyAt f n l ≠ [] := by
  cases l with
  | nil => exact absurd rfl h
  | cons x xs => cases n <;> simp [modifyAt]

/-- modifying one line in a way that keeps its erased rendering keeps the erased rendering of the report -/
theorem erase_render_modify (g : List Cell → List Cell) (hg : ∀ l, erase (renderLine (g l)) = erase (renderLine l)) :
    ∀ (n : Nat) (r : Report), erase (render (modifyAt g n r)) = erase (render r) := by
  intro n r
  induction r generalizing n with
  | nil => cases n <;> rfl
  | cons l ls ih =>
    cases n with
    | zero =>
      simp only [modifyAt]
      cases ls with
      | nil => simpa [render] using hg l
      | cons a as => rw [erase_render_cons (g l) (a :: as) (by simp), erase_render_cons l (a :: as) (by simp), hg]
    | succ n =>
      simp only [modifyAt]
      cases ls with
      | nil => cases n <;> rfl
      | cons a as =>
        rw [erase_render_cons l _ (modifyAt_ne_nil g n (a :: as) (by simp)), erase_render_cons l (a :: as) (by simp), ih n]

/-- one push never changes the erased rendering -/
theorem erase_render_push (r : Report) (p : Push) : erase (render (applyPush r p)) = erase (render r) := by
  unfold applyPush
  exact erase_render_modify _ (fun l => erase_renderLine_modify _ (erase_pushCell p) p.col l) p.line r

theorem erase_renderLine_mk (l : List Char) : erase (renderLine (mkLine l)) = l.map .ch := by
  unfold mkLine renderLine
  rw [List.flatMap_append]
  rw [erase_append]
  have h1 : ∀ (cs : List Char), erase ((cs.map fun ch => (⟨[], some ch, []⟩ : Cell)).flatMap renderCell) = cs.map .ch := by
    intro cs
    induction cs with
    | nil => rfl
    | cons c cs ih => simp only [List.map_cons, List.flatMap_cons, erase_append, ih]; simp [renderCell, erase]
  rw [h1]
  simp [renderCell, erase]

/-- the freshly built report renders (after erasure: and before) to the source text -/
theorem erase_render_mk (lines : List (List Char)) : erase (render (mkReport lines)) = plain lines := by
  induction lines with
  | nil => rfl
  | cons l ls ih =>
    cases ls with
    | nil => simpa [mkReport, render, plain] using erase_renderLine_mk l
    | cons a as =>
      have : mkReport (l :: a :: as) = mkLine l :: mkReport (a :: as) := rfl
      rw [this, erase_render_cons _ _ (by simp [mkReport]), erase_renderLine_mk, ih]
      rfl

/-- **Text preservation**: for every source and every sequence of delimiter pushes, removing the
inserted markup from the rendered report gives back the source, line for line. -/
theorem render_erase (lines : List (List Char)) (ps : List Push) :
    erase (render (ps.foldl applyPush (mkReport lines))) = plain lines := by
  have : ∀ (r : Report), erase (render (ps.foldl applyPush r)) = erase (render r) := by
    induction ps with
    | nil => intro r; rfl
    | cons p ps ih => intro r; simp only [List.foldl_cons]; rw [ih, erase_render_push]
  rw [this, erase_render_mk]

/-- the number of lines is preserved -/
theorem render_lines (lines : List (List Char)) (ps : List Push) :
    (erase (render (ps.foldl applyPush (mkReport lines)))).count .newline = (plain lines).count .newline := by
  rw [render_erase]

example : erase (render (applyPush (mkReport ["ab".toList]) ⟨0, 1, false, "<b>"⟩)) = [.ch 'a', .ch 'b'] := by decide

end NadaVerif.C17
