/-
C05 — every type in the MIR is well formed and consistent along every edge.

* `toMir_complete`: for every (arbitrarily nested) DSL value whose array sizes are positive and which
  contains no TypeVar, `to_mir()` succeeds only with a complete Nada type — by mutual structural
  induction over values, element types and member lists.
* scalar edges: the recorded type name of every scalar operation is the name of the ruled type
  (regenerated table, `C02.scalarTable_ok`) and the closed form used by the graph layer equals the
  table (`scalarTable_eq_model`).
* collection edges: `C12.zip_mir_type`, `unzip_mir_type`, `map_type`, `arrayNew_type`.
* outputs carry the type of the operation they name (`output_type_is_op_type`).
-/
import NadaVerif.Spec.C05
import NadaVerif.Spec.C02
import NadaVerif.Lemmas.CompileClosed
import NadaVerif.Props.C12

namespace NadaVerif.C05
open NadaVerif NadaVerif.Generated

theorem mirName_complete (t : STy) : scalarNames.contains t.mirName = true := by
  obtain ⟨m, b⟩ := t; cases m <;> cases b <;> decide

mutual
theorem toMir_complete : ∀ (v : Val) (t : MTy), v.sized = true → v.toMir = .ok t → complete false t = true
  | .scalar s _ _, t, _, h => by
      simp [Val.toMir] at h; subst h; simpa [complete] using mirName_complete s
  | .array e n _, t, hs, h => by
      simp only [Val.sized, Bool.and_eq_true] at hs
      simp only [Val.toMir, bind, Except.bind] at h
      split at h
      · simp at h
      · rename_i inner hin
        simp at h; subst h
        have := innerType_complete e inner hs.1 hin
        cases n with
        | none => simp at hs
        | some v =>
          have hv : 0 < v := by simpa using hs.2
          have hne : v ≠ 0 := by omega
          simp [complete, this, sizeOfArray, hne, hv]
  | .tuple l r _, t, hs, h => by
      simp only [Val.sized, Bool.and_eq_true] at hs
      simp only [Val.toMir, bind, Except.bind] at h
      split at h
      · simp at h
      · rename_i lt hl
        split at h
        · simp at h
        · rename_i rt hr
          simp at h; subst h
          simp [complete, sideType_complete l lt hs.1 hl, sideType_complete r rt hs.2 hr]
  | .ntuple vs _, t, hs, h => by
      simp only [Val.sized] at hs
      simp only [Val.toMir, bind, Except.bind] at h
      split at h
      · simp at h
      · rename_i ts hts
        simp at h; subst h
        simpa [complete] using memberTypes_complete vs ts hs hts
  | .object fs _, t, hs, h => by
      simp only [Val.sized] at hs
      simp only [Val.toMir, bind, Except.bind] at h
      split at h
      · simp at h
      · rename_i ts hts
        simp at h; subst h
        simpa [complete] using fieldTypes_complete fs ts hs hts
theorem innerType_complete : ∀ (e : Elem) (t : MTy), e.sized = true → e.innerType = .ok t → complete false t = true
  | .typeVar, _, hs, _ => by simp [Elem.sized] at hs
  | .cls s, t, _, h => by simp [Elem.innerType] at h; subst h; simpa [complete] using mirName_complete s
  | .inst v, t, hs, h => toMir_complete v t (by simpa [Elem.sized] using hs) (by simpa [Elem.innerType] using h)
  | .arrayType e n, t, hs, h => by
      simp only [Elem.sized, Bool.and_eq_true] at hs
      simp only [Elem.innerType, bind, Except.bind] at h
      split at h
      · simp at h
      · rename_i inner hin
        simp at h; subst h
        have := asInstance_complete e inner hs.1 hin
        cases n with
        | none => simp at hs
        | some v => have hv : 0 < v := by simpa using hs.2
                    simp [complete, this, sizeOfArrayType, hv]
theorem sideType_complete : ∀ (e : Elem) (t : MTy), e.sized = true → e.sideType = .ok t → complete false t = true
  | .typeVar, _, hs, _ => by simp [Elem.sized] at hs
  | .cls s, t, _, h => by simp [Elem.sideType] at h; subst h; simpa [complete] using mirName_complete s
  | .inst v, t, hs, h => toMir_complete v t (by simpa [Elem.sized] using hs) (by simpa [Elem.sideType] using h)
  | .arrayType e n, t, hs, h => by
      simp only [Elem.sized, Bool.and_eq_true] at hs
      simp only [Elem.sideType, bind, Except.bind] at h
      split at h
      · simp at h
      · rename_i inner hin
        simp at h; subst h
        have := asInstance_complete e inner hs.1 hin
        cases n with
        | none => simp at hs
        | some v => have hv : 0 < v := by simpa using hs.2
                    simp [complete, this, sizeOfArrayType, hv]
theorem asInstance_complete : ∀ (e : Elem) (t : MTy), e.sizedInst = true → e.asInstanceToMir = .ok t → complete false t = true
  | .typeVar, _, hs, _ => by simp [Elem.sizedInst] at hs
  | .cls _, _, hs, _ => by simp [Elem.sizedInst] at hs
  | .inst v, t, hs, h => toMir_complete v t (by simpa [Elem.sizedInst] using hs) (by simpa [Elem.asInstanceToMir] using h)
  | .arrayType e n, t, hs, h => by
      simp only [Elem.sizedInst, Bool.and_eq_true] at hs
      simp only [Elem.asInstanceToMir, bind, Except.bind] at h
      split at h
      · simp at h
      · rename_i inner hin
        simp at h; subst h
        have := asInstance_complete e inner hs.1 hin
        cases n with
        | none => simp at hs
        | some v => have hv : 0 < v := by simpa using hs.2
                    simp [complete, this, sizeOfArrayType, hv]
theorem memberTypes_complete : ∀ (vs : Vals) (ts : MTys), vs.sized = true → vs.memberTypes = .ok ts → completeList false ts = true
  | .nil, ts, _, h => by simp [Vals.memberTypes] at h; subst h; simp [completeList]
  | .cons v vs, ts, hs, h => by
      simp only [Vals.sized, Bool.and_eq_true] at hs
      simp only [Vals.memberTypes, bind, Except.bind] at h
      split at h
      · simp at h
      · rename_i t ht
        split at h
        · simp at h
        · rename_i ts' hts
          simp at h; subst h
          simp [completeList, toMir_complete v t hs.1 ht, memberTypes_complete vs ts' hs.2 hts]
theorem fieldTypes_complete : ∀ (fs : VFields) (ts : MFields), fs.sized = true → fs.memberTypes = .ok ts → completeFields false ts = true
  | .nil, ts, _, h => by simp [VFields.memberTypes] at h; subst h; simp [completeFields]
  | .cons k v fs, ts, hs, h => by
      simp only [VFields.sized, Bool.and_eq_true] at hs
      simp only [VFields.memberTypes, bind, Except.bind] at h
      split at h
      · simp at h
      · rename_i t ht
        split at h
        · simp at h
        · rename_i ts' hts
          simp at h; subst h
          simp [completeFields, toMir_complete v t hs.1 ht, fieldTypes_complete fs ts' hs.2 hts]
end

/-- Model tie of the scalar edges: the closed form `typeBin …` the graph layer types scalar
operations with equals the table regenerated from the running classes on every cell. -/
theorem scalarTable_eq_model :
    scalarTables.all (·.all fun r => C02.eraseOut r.2.2 = some (C02.modelOut r.1 r.2.1)) = true := by
  decide +kernel

/-- Each output carries the type recorded for the operation it names. -/
theorem output_type_is_op_type (st : St) :
    ∀ (outs : List OutDecl) (table functions : Spec.Table) (mouts : List MirOutput) (acc : CAcc)
      (table' functions' : Spec.Table) (mouts' : List MirOutput) (acc' : CAcc),
    compileOutputs st outs table functions mouts acc = .ok (table', functions', mouts', acc') →
    (∀ o ∈ mouts, ∃ op, st.lookup o.opId = some op ∧ o.ty = op.ty) →
    ∀ o ∈ mouts', ∃ op, st.lookup o.opId = some op ∧ o.ty = op.ty := by
  intro outs
  induction outs with
  | nil =>
    intro table functions mouts acc table' functions' mouts' acc' h ho
    simp [compileOutputs] at h
    obtain ⟨_, _, rfl, _⟩ := h
    exact ho
  | cons o os ih =>
    intro table functions mouts acc table' functions' mouts' acc' h ho
    simp only [compileOutputs] at h
    split at h
    · simp at h
    · split at h
      · simp at h
      · rename_i op hop
        apply ih _ _ _ _ _ _ _ _ h
        intro x hx
        rcases List.mem_append.1 hx with hx | hx
        · exact ho x hx
        · simp at hx; subst hx; exact ⟨op, hop, rfl⟩

example : (Val.array (.inst (.tuple (.cls ⟨.sec, .int⟩) (.inst (.scalar ⟨.pub, .bool⟩ none none)) none)) (some 3) (some 7)).sized = true := by decide

end NadaVerif.C05
