/-
C06 — literal-only expressions fold to the exact integer or boolean result.

The theorems are about `Generated.foldExpr`, the term regenerated (translator T2) from the
lambdas / helper CONSTANT-cases / literal constructors of `scalar_types.py`, evaluated with
the Python semantics of `Py/Int.lean`, for **all** `Int` operands and both booleans.
Which applications fold (exactly the literal-only ones) is proved over the regenerated T1 table.
-/
import NadaVerif.Spec.C06

namespace NadaVerif.C06
open NadaVerif NadaVerif.Py NadaVerif.Generated

section numeric
variable (b : Base) (hb : b.isNumeric = true) (x y : Int)

theorem numeric_cases (hb : b.isNumeric = true) : b = .int ∨ b = .uint := by
  cases b <;> simp_all [Base.isNumeric]

include hb

theorem fold_add_exact : foldVal .add b (.int x) (.int y) = .ok (.int (x + y)) := by
  rcases numeric_cases b hb with rfl | rfl <;> rfl
theorem fold_sub_exact : foldVal .sub b (.int x) (.int y) = .ok (.int (x - y)) := by
  rcases numeric_cases b hb with rfl | rfl <;> rfl
theorem fold_mul_exact : foldVal .mul b (.int x) (.int y) = .ok (.int (x * y)) := by
  rcases numeric_cases b hb with rfl | rfl <;> rfl

theorem fold_pow_exact (he : 0 ≤ y) : foldVal .pow b (.int x) (.int y) = .ok (.int (x ^ y.toNat)) := by
  rcases numeric_cases b hb with rfl | rfl <;>
    simp [foldVal, foldExpr, ctorNorm, eval, eval3, evalBin, asInt, pyInt, bind, Except.bind, he]

theorem fold_shl_exact (hn : 0 ≤ y) : foldVal .shl b (.int x) (.int y) = .ok (.int (x * 2 ^ y.toNat)) := by
  have h0 : ¬ y < 0 := by omega
  rcases numeric_cases b hb with rfl | rfl <;>
    simp [foldVal, foldExpr, ctorNorm, eval, eval3, evalBin, asInt, pyInt, bind, Except.bind, h0]

/-- `>>` is the floor of the quotient by `2^n` (also for negative `x`). -/
theorem fold_shr_exact (hn : 0 ≤ y) :
    foldVal .shr b (.int x) (.int y) = .ok (.int (x / ((2 : Int) ^ y.toNat))) := by
  have h0 : ¬ y < 0 := by omega
  rcases numeric_cases b hb with rfl | rfl <;>
    (simp [foldVal, foldExpr, ctorNorm, eval, eval3, evalBin, asInt, pyInt, bind, Except.bind, h0]
     exact Int.shiftRight_eq_div_pow _ _)

/-- Quotient and remainder: integers `q`, `r` with `x = q*y + r` and `|r| < |y|`. -/
theorem fold_divmod_law (hy : y ≠ 0) :
    ∃ q r : Int, foldVal .div b (.int x) (.int y) = .ok (.int q) ∧
      foldVal .mod b (.int x) (.int y) = .ok (.int r) ∧ x = q * y + r ∧ r.natAbs < y.natAbs := by
  refine ⟨Int.fdiv x y, Int.fmod x y, ?_, ?_, ?_, ?_⟩
  · rcases numeric_cases b hb with rfl | rfl <;>
      simp [foldVal, foldExpr, ctorNorm, eval, eval3, evalBin, asInt, pyInt, bind, Except.bind, hy]
  · rcases numeric_cases b hb with rfl | rfl <;>
      simp [foldVal, foldExpr, ctorNorm, eval, eval3, evalBin, asInt, pyInt, bind, Except.bind, hy]
  · have := Int.fdiv_mul_add_fmod x y; omega
  · rcases Int.lt_or_gt_of_ne hy with h | h
    · -- negative divisor: the remainder has the sign of the divisor
      have h1 := @Int.fmod_eq_emod x y
      have h2 := Int.emod_nonneg x hy
      have h3 := Int.emod_lt_of_neg x h
      by_cases hd : y ∣ x
      · have : x % y = 0 := Int.emod_eq_zero_of_dvd hd
        simp [hd] at h1; omega
      · have : x % y ≠ 0 := fun h0 => hd (Int.dvd_of_emod_eq_zero h0)
        have hn : ¬ (0 ≤ y) := by omega
        simp [hd, hn] at h1; omega
    · have h1 := Int.fmod_nonneg_of_pos x h
      have h2 := Int.fmod_lt_of_pos x h
      omega

theorem fold_div_zero : foldVal .div b (.int x) (.int 0) = .error .zeroDiv ∧
    foldVal .mod b (.int x) (.int 0) = .error .zeroDiv := by
  rcases numeric_cases b hb with rfl | rfl <;> exact ⟨rfl, rfl⟩

omit hb in
theorem fold_cmp_exact :
    foldVal .lt b (.int x) (.int y) = .ok (.bool (decide (x < y))) ∧
    foldVal .gt b (.int x) (.int y) = .ok (.bool (decide (x > y))) ∧
    foldVal .le b (.int x) (.int y) = .ok (.bool (decide (x ≤ y))) ∧
    foldVal .ge b (.int x) (.int y) = .ok (.bool (decide (x ≥ y))) ∧
    foldVal .eq b (.int x) (.int y) = .ok (.bool (decide (x = y))) ∧
    foldVal .ne b (.int x) (.int y) = .ok (.bool (decide (x ≠ y))) := by
  refine ⟨?_, ?_, ?_, ?_, ?_, ?_⟩ <;>
    simp [foldVal, foldExpr, ctorNorm, eval, eval3, evalCmp, asInt, truth, bind, Except.bind]

end numeric

theorem fold_logic_exact (p q : Bool) :
    foldVal .and .bool (.bool p) (.bool q) = .ok (.bool (p && q)) ∧
    foldVal .or .bool (.bool p) (.bool q) = .ok (.bool (p || q)) ∧
    foldVal .xor .bool (.bool p) (.bool q) = .ok (.bool (p != q)) ∧
    foldVal .eq .bool (.bool p) (.bool q) = .ok (.bool (p == q)) ∧
    foldVal .ne .bool (.bool p) (.bool q) = .ok (.bool (p != q)) ∧
    eval invertExpr (.bool p) (.bool p) = .ok (.bool (!p)) := by
  cases p <;> cases q <;> exact ⟨rfl, rfl, rfl, rfl, rfl, rfl⟩

/-- The base type of the folded literal is the operands' base (boolean for comparisons). -/
theorem fold_result_base (op : BinOp) (b : Base) :
    foldBase op b = (match op.cls with | .rel | .eqop | .logic => .bool | _ => b) := by
  cases op <;> rfl

theorem table_folds_exactly_literals : scalarTables.all (·.all foldedIffLiteral) = true := by
  decide +kernel

/-! Non-vacuity: concrete instances, including magnitudes beyond 2^53 and 2^64. -/
example : foldVal .div .int (.int (-7)) (.int 2) = .ok (.int (-4)) := by rfl
example : foldVal .mod .int (.int (-7)) (.int 2) = .ok (.int 1) := by rfl
example : foldVal .div .int (.int (2^60+1)) (.int 1) = .ok (.int (2^60+1)) := by rfl
example : foldVal .shr .int (.int (-5)) (.int 1) = .ok (.int (-3)) := by rfl

end NadaVerif.C06
