/-
C04 — the operation graph is a faithful image of the expression the program wrote.

* `schema_roundtrip` (regenerated T6∘T7 tables): every operand a wrapper holds reaches the MIR key
  it belongs to — left→left, right→right, this/arg_0/arg_1 of `if_else`, child→inner, initial,
  fn→fn/function_id, call arguments and `New` elements in order, index, key, source.
* per-command theorems about `exec` (for all register files and states): a binary operation
  records its operands in the written order, `if_else` its condition and branches in order,
  a `k + x` with a Python int records `x + Integer(k)`; one node per executed operation (fresh id).
* `records_persist` / `bin_node_survives` (whole programs, induction over the command list on top of the typed-store
  invariant): along every clean run — the hypothesis of the typed-store layer, evaluated by the driver on every generated
  program — a record, once stored, is what the store returns for its id for ever after (an input record may be re-typed
  in place, it stays that input); so the node an executed operation left is the node the compiler reads, whatever is traced,
  rejected or aborted afterwards.
* the term-level statement (`unfold (compile P) o = fold (src P o)` with sharing) is decided by the oracle `oracle/term.py`
  on every real MIR.
-/
import NadaVerif.Props.C12
import NadaVerif.Spec.Schema
import NadaVerif.Lemmas.Persist

namespace NadaVerif.C04
open NadaVerif NadaVerif.Spec NadaVerif.Generated

variable (regs : List RVal) (frames : List Frame) (s : St)

theorem schema_roundtrip :
    ((storeSchema.map fun w => (w.1, roundtrip w)) == expectedRoundtrip) = true := by decide +kernel

/-- A non-folded binary operation is recorded as one new node with the operands in written order. -/
theorem bin_operand_order (op : BinOp) (a b : Reg) (ta tb t : STy) (ca cb : Id) (la lb : Option LitVal)
    (ha : regs[a]? = some (.val (.scalar ta (some ca) la))) (hb : regs[b]? = some (.val (.scalar tb (some cb) lb)))
    (ht : typeBin op ta tb = .ok t false) :
    (exec regs frames (.bin op a b)).run.run s =
      (.ok ([.val (.scalar t (some (s.counter + 1)) none)], frames),
       { s with counter := s.counter + 1,
                ops := (s.counter + 1, .binary op.mirName ca cb (.scalar t.mirName)) :: s.ops }) := by
  simp_exec [ha, hb, ht, getScalar, scalarResult]

/-- `c.if_else(x, y)` records condition, true branch, false branch in that order. -/
theorem ifElse_operand_order (c a b : Reg) (tc ta tb t : STy) (cc ca cb : Id) (lc la lb : Option LitVal)
    (hc : regs[c]? = some (.val (.scalar tc (some cc) lc))) (ha : regs[a]? = some (.val (.scalar ta (some ca) la)))
    (hb : regs[b]? = some (.val (.scalar tb (some cb) lb))) (ht : typeIfElse tc ta tb = .ok t false) :
    (exec regs frames (.ifElse c a b)).run.run s =
      (.ok ([.val (.scalar t (some (s.counter + 1)) none)], frames),
       { s with counter := s.counter + 1,
                ops := (s.counter + 1, .ifElse cc ca cb (.scalar t.mirName)) :: s.ops }) := by
  simp_exec [hc, ha, hb, ht, getScalar, scalarResult]

/-- A rejected operation leaves the trace untouched (nothing is dropped, duplicated or substituted
by a failed attempt). -/
theorem rejected_bin_changes_nothing (op : BinOp) (a b : Reg) (ta tb : STy) (ca cb : Id) (la lb : Option LitVal)
    (ha : regs[a]? = some (.val (.scalar ta (some ca) la))) (hb : regs[b]? = some (.val (.scalar tb (some cb) lb)))
    (ht : typeBin op ta tb = .reject) :
    (exec regs frames (.bin op a b)).run.run s = (.error .T, s) := by
  simp_exec [ha, hb, ht, getScalar, scalarResult]

/-- A random draw is one new node under a fresh id; two draws are therefore two nodes
(`s.counter + 1` and `s.counter + 2`), never merged. -/
theorem random_is_fresh_node (t : STy) (h : t.mode = .sec) :
    (exec regs frames (.random t)).run.run s =
      (.ok ([.val (.scalar t (some (s.counter + 1)) none)], frames),
       { s with counter := s.counter + 1, ops := (s.counter + 1, .random (.scalar t.mirName)) :: s.ops }) := by
  simp_exec [scalarResult, typeRandom, h]

/-- **What was recorded stays recorded**: after the clean program `cs`, whatever clean continuation `more` is traced
(accepted, rejected and aborted commands alike), every operation record of the store is unchanged and every input record
is still an input record. -/
theorem records_persist (cs more : List Cmd) (h1 : Lemmas.CleanRun {} cs) (h2 : Lemmas.CleanRun (runCmds {} cs).1 more) :
    Lemmas.Persist (runCmds {} cs).1.st (runCmds (runCmds {} cs).1 more).1.st := by
  have hok : Lemmas.MachOK (runCmds {} cs).1 := Lemmas.runCmds_ok cs {} ⟨by simp [Lemmas.WFops], by simp [Lemmas.RegsLe]⟩
  have hsto := Lemmas.trace_stored cs
  have hJ := Lemmas.runCmds_typed cs {} ⟨by simp [Lemmas.WFops], by simp [Lemmas.RegsLe]⟩ Lemmas.machSto_init Lemmas.J_init h1
  exact Lemmas.runCmds_persist more _ hok hsto hJ h2

/-- the executable form of the hypothesis (what the driver evaluates on every generated program) -/
theorem records_persistB (cs more : List Cmd) (h1 : Edge.cleanRunB {} cs = true)
    (h2 : Edge.cleanRunB (runCmds {} cs).1 more = true) :
    Lemmas.Persist (runCmds {} cs).1.st (runCmds (runCmds {} cs).1 more).1.st :=
  records_persist cs more (Lemmas.cleanRunB_sound cs {} h1) (Lemmas.cleanRunB_sound more _ h2)

/-- **The node of an executed operation is the node the compiler reads**: a binary operation executed after the clean
program `cs` leaves `ca op cb` under the next id, with the operands in written order, and that is what the store returns
for this id after any clean continuation. -/
theorem bin_node_survives (cs more : List Cmd) (op : BinOp) (a b : Reg) (ta tb t : STy) (ca cb : Id) (la lb : Option LitVal)
    (h1 : Lemmas.CleanRun {} cs)
    (ha : (runCmds {} cs).1.regs[a]? = some (.val (.scalar ta (some ca) la)))
    (hb : (runCmds {} cs).1.regs[b]? = some (.val (.scalar tb (some cb) lb)))
    (ht : typeBin op ta tb = .ok t false)
    (h2 : Lemmas.CleanRun (runCmds {} cs).1 (.bin op a b :: more)) :
    (runCmds (runCmds {} cs).1 (.bin op a b :: more)).1.st.lookup ((runCmds {} cs).1.st.counter + 1) =
      some (.binary op.mirName ca cb (.scalar t.mirName)) := by
  have hp := records_persist (cs ++ [.bin op a b]) more
  have hrun : ∀ (l1 l2 : List Cmd) (m : Mach), (runCmds m (l1 ++ l2)).1 = (runCmds (runCmds m l1).1 l2).1 := by
    intro l1
    induction l1 with
    | nil => intro l2 m; rfl
    | cons c l1 ih => intro l2 m; simp only [List.cons_append, runCmds]; exact ih l2 _
  have hclean : ∀ (l1 l2 : List Cmd) (m : Mach), Lemmas.CleanRun m l1 → Lemmas.CleanRun (runCmds m l1).1 l2 → Lemmas.CleanRun m (l1 ++ l2) := by
    intro l1
    induction l1 with
    | nil => intro l2 m _ h; exact h
    | cons c l1 ih => intro l2 m h h'; exact ⟨h.1, ih l2 _ h.2 (by simpa only [runCmds] using h')⟩
  have hstep : (runCmds {} (cs ++ [.bin op a b])).1 = (step (runCmds {} cs).1 (.bin op a b)).1 := by
    rw [hrun]; rfl
  have h3 : Lemmas.CleanRun {} (cs ++ [.bin op a b]) := hclean cs [.bin op a b] {} h1 ⟨h2.1, trivial⟩
  have h4 : Lemmas.CleanRun (runCmds {} (cs ++ [.bin op a b])).1 more := by rw [hstep]; exact h2.2
  have hp := hp h3 h4
  have hexec := bin_operand_order (runCmds {} cs).1.regs (runCmds {} cs).1.frames (runCmds {} cs).1.st op a b ta tb t ca cb la lb ha hb ht
  have hlook : (runCmds {} (cs ++ [.bin op a b])).1.st.lookup ((runCmds {} cs).1.st.counter + 1) =
      some (.binary op.mirName ca cb (.scalar t.mirName)) := by
    rw [hstep]
    unfold step
    rw [hexec]
    simp [St.lookup]
  have := (hp _ _ hlook).1 rfl
  rw [hstep] at this
  simpa only [runCmds] using this

/-- Non-vacuity: a clean program (two inputs, a sum), continued by a clean program that re-types an input into an array,
multiplies, and is rejected once: the hypotheses of `bin_node_survives` hold and the sum's node is still there. -/
def firstPart : List Cmd :=
  [.party "P", .inputObj "a" "" 0, .wrap ⟨.sec, .int⟩ 1, .inputObj "b" "" 0, .wrap ⟨.pub, .int⟩ 3]
def laterPart : List Cmd :=
  [.inputObj "c" "" 0, .wrap ⟨.sec, .int⟩ 6, .arrayOf 7 (some 3), .bin .mul 2 4, .bin .add 0 2, .lit .int (.int 5)]
example :
    Edge.cleanRunB {} firstPart = true ∧ Edge.cleanRunB (runCmds {} firstPart).1 (.bin .add 2 4 :: laterPart) = true ∧
    (runCmds (runCmds {} firstPart).1 (.bin .add 2 4 :: laterPart)).1.st.lookup 3 =
      some (.binary "Addition" 1 2 (.scalar "SecretInteger")) := by decide +kernel

end NadaVerif.C04
