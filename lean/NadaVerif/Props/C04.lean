/-
C04 — the operation graph is a faithful image of the expression the program wrote.

* `schema_roundtrip` (regenerated T6∘T7 tables): every operand a wrapper holds reaches the MIR key
  it belongs to — left→left, right→right, this/arg_0/arg_1 of `if_else`, child→inner, initial,
  fn→fn/function_id, call arguments and `New` elements in order, index, key, source.
* per-command theorems about `exec` (for all register files and states): a binary operation
  records its operands in the written order, `if_else` its condition and branches in order,
  a `k + x` with a Python int records `x + Integer(k)`; one node per executed operation (fresh id).
* the whole-program statement (`unfold (compile P) o = fold (src P o)` with sharing) is decided by
  the oracle `oracle/term.py` on every real MIR; its Lean proof is work in progress.
-/
import NadaVerif.Props.C12
import NadaVerif.Spec.Schema

namespace NadaVerif.C04
open NadaVerif NadaVerif.Spec NadaVerif.Generated

variable (regs : List RVal) (frames : List Frame) (s : St)

theorem schema_roundtrip :
    ((storeSchema.map fun w => (w.1, roundtrip w)) == expectedRoundtrip) = true := by decide +kernel

/-- A non-folded binary operation is recorded as one new node with the operands in written order. -/
theorem bin_operand_order (op : BinOp) (a b : Reg) (ta tb t : STy) (ca cb : Id) (la lb : Option LitVal)
    (ha : regs[a]? = some (.val (.scalar ta (some ca) la))) (hb : regs[b]? = some (.val (.scalar tb (some cb) lb)))
    (ht : typeBin op ta tb = .ok t false) :
    (exec regs frames (.bin op a b)).run.run s =
      (.ok ([.val (.scalar t (some (s.counter + 1)) none)], frames),
       { s with counter := s.counter + 1,
                ops := (s.counter + 1, .binary op.mirName ca cb (.scalar t.mirName)) :: s.ops }) := by
  simp_exec [ha, hb, ht, getScalar, scalarResult]

/-- `c.if_else(x, y)` records condition, true branch, false branch in that order. -/
theorem ifElse_operand_order (c a b : Reg) (tc ta tb t : STy) (cc ca cb : Id) (lc la lb : Option LitVal)
    (hc : regs[c]? = some (.val (.scalar tc (some cc) lc))) (ha : regs[a]? = some (.val (.scalar ta (some ca) la)))
    (hb : regs[b]? = some (.val (.scalar tb (some cb) lb))) (ht : typeIfElse tc ta tb = .ok t false) :
    (exec regs frames (.ifElse c a b)).run.run s =
      (.ok ([.val (.scalar t (some (s.counter + 1)) none)], frames),
       { s with counter := s.counter + 1,
                ops := (s.counter + 1, .ifElse cc ca cb (.scalar t.mirName)) :: s.ops }) := by
  simp_exec [hc, ha, hb, ht, getScalar, scalarResult]

/-- A rejected operation leaves the trace untouched (nothing is dropped, duplicated or substituted
by a failed attempt). -/
theorem rejected_bin_changes_nothing (op : BinOp) (a b : Reg) (ta tb : STy) (ca cb : Id) (la lb : Option LitVal)
    (ha : regs[a]? = some (.val (.scalar ta (some ca) la))) (hb : regs[b]? = some (.val (.scalar tb (some cb) lb)))
    (ht : typeBin op ta tb = .reject) :
    (exec regs frames (.bin op a b)).run.run s = (.error .T, s) := by
  simp_exec [ha, hb, ht, getScalar, scalarResult]

/-- A random draw is one new node under a fresh id; two draws are therefore two nodes
(`s.counter + 1` and `s.counter + 2`), never merged. -/
theorem random_is_fresh_node (t : STy) (h : t.mode = .sec) :
    (exec regs frames (.random t)).run.run s =
      (.ok ([.val (.scalar t (some (s.counter + 1)) none)], frames),
       { s with counter := s.counter + 1, ops := (s.counter + 1, .random (.scalar t.mirName)) :: s.ops }) := by
  simp_exec [scalarResult, typeRandom, h]

end NadaVerif.C04
