/-
C18 — the audited signature agrees with the compiled program's interface.

For **every** straight-line program of the common subset (any length, any number of parties, inputs
and outputs, re-wrapped and never-wrapped inputs, duplicate names included) that both
interpreters of `Audit/Signature.lean` accept:

* `outputs_agree` — the outputs are the same, in the same order: name, receiving party, and the
  class of the value (hence its secrecy; the MIR type name is that class with `Public` erased);
* `mir_inputs_in_signature` / `mir_parties_in_signature` — every input / party of the MIR interface
  occurs in the signature with the same name, owning party and type;
* `extra_inputs_exact` / `extra_parties_exact` — the inputs (parties) the signature lists beyond
  those are exactly the ones no output depends on (is delivered to).

The operator typing the two interpreters use comes from two *regenerated* tables (T5:
`abstract.py`; T1 via the closed form `typeBin`, itself tied to the T1 table in `Props/C02`):
`tables_agree` (kernel-decided over every row of the regenerated table) is what makes the value
classes coincide.
-/
import NadaVerif.Audit.Signature

namespace NadaVerif.C18
open NadaVerif NadaVerif.Sig NadaVerif.C15 NadaVerif.Generated

/-! ### the two operator tables agree wherever both accept -/

/-- one row of the table regenerated from `abstract.py`: wherever the abstract interpreter returns a
class and the real typing kernel accepts the same operand classes, the two classes coincide -/
def rowAgrees (r : String × List String × String) : Bool :=
  let (key, args, c) := r
  if c = "reject" ∨ c = "pybool" then true else
  match args with
  | [x, y] =>
    BinOp.all.all fun op => opKey op ≠ key || STy.all.all fun a => a.pyName ≠ x || STy.all.all fun b =>
      b.pyName ≠ y || (match outTy (typeBin op a b) with | some t => c == t.pyName | none => true)
  | [z, x, y] =>
    key ≠ "ifElse" || STy.all.all fun cc => cc.pyName ≠ z || STy.all.all fun a => a.pyName ≠ x ||
      STy.all.all fun b => b.pyName ≠ y ||
        (match outTy (typeIfElse cc a b) with | some t => c == t.pyName | none => true)
  | _ => true

theorem tables_agree : abstractTable.all rowAgrees = true := by decide +kernel

theorem mem_all_op (op : BinOp) : op ∈ BinOp.all := by cases op <;> simp [BinOp.all]
theorem mem_all_sty (t : STy) : t ∈ STy.all := by
  obtain ⟨m, b⟩ := t; cases m <;> cases b <;> simp [STy.all]

/-- a successful lookup is a row of the table -/
theorem absOp_row (key : String) (args : List String) (c : String) (h : absOp key args = some c) :
    (key, args, c) ∈ abstractTable ∧ ¬ (c = "reject" ∨ c = "pybool") := by
  unfold absOp lookupAbs at h
  split at h
  · rename_i c' hc
    split at h
    · cases h
    · rename_i hne
      injection h with h; subst h
      simp only [Option.map_eq_some_iff] at hc
      obtain ⟨row, hf, rfl⟩ := hc
      have hm := List.mem_of_find?_eq_some hf
      have hp := List.find?_some hf
      simp only [decide_eq_true_eq] at hp
      obtain ⟨k, as, c⟩ := row
      simp only at hp
      obtain ⟨rfl, rfl⟩ := hp
      exact ⟨hm, hne⟩
  · cases h

theorem bin_agree (op : BinOp) (a b : STy) (c : String) (t : STy)
    (h1 : absOp (opKey op) [a.pyName, b.pyName] = some c) (h2 : outTy (typeBin op a b) = some t) :
    c = t.pyName := by
  obtain ⟨hm, hne⟩ := absOp_row _ _ _ h1
  have h := tables_agree
  simp only [List.all_eq_true] at h
  have hr := h _ hm
  simp only [rowAgrees, if_neg hne, List.all_eq_true, Bool.or_eq_true, bne_iff_ne, ne_eq,
    decide_eq_true_eq, Bool.not_eq_true'] at hr
  have h3 := hr op (mem_all_op op)
  simp only [not_true_eq_false, decide_false, false_or, Bool.false_eq_true] at h3
  have h4 := h3 a (mem_all_sty a)
  simp only [not_true_eq_false, decide_false, false_or, Bool.false_eq_true] at h4
  have h5 := h4 b (mem_all_sty b)
  simp only [not_true_eq_false, decide_false, false_or, Bool.false_eq_true, h2] at h5
  simpa using h5

theorem ifElse_agree (c a b : STy) (r : String) (t : STy)
    (h1 : absOp "ifElse" [c.pyName, a.pyName, b.pyName] = some r) (h2 : outTy (typeIfElse c a b) = some t) :
    r = t.pyName := by
  obtain ⟨hm, hne⟩ := absOp_row _ _ _ h1
  have h := tables_agree
  simp only [List.all_eq_true] at h
  have hr := h _ hm
  simp only [rowAgrees, if_neg hne, List.all_eq_true, Bool.or_eq_true, bne_iff_ne, ne_eq,
    decide_eq_true_eq, Bool.not_eq_true', not_true_eq_false, decide_false, false_or,
    Bool.false_eq_true] at hr
  have h3 := hr c (mem_all_sty c)
  simp only [not_true_eq_false, decide_false, false_or, Bool.false_eq_true] at h3
  have h4 := h3 a (mem_all_sty a)
  simp only [not_true_eq_false, decide_false, false_or, Bool.false_eq_true] at h4
  have h5 := h4 b (mem_all_sty b)
  simp only [not_true_eq_false, decide_false, false_or, Bool.false_eq_true, h2] at h5
  simpa using h5

/-! ### simulation: the two interpreters walk in lockstep -/

/-- pointwise relation of two lists (core has no `All₂`) -/
inductive All₂ {α β} (R : α → β → Prop) : List α → List β → Prop
  | nil : All₂ R [] []
  | cons {a b l₁ l₂} : R a b → All₂ R l₁ l₂ → All₂ R (a :: l₁) (b :: l₂)

def relV : AV → RV → Prop
  | .party i, .party j => i = j
  | .input i, .input j => i = j
  | .val c, .val t _ _ => c = t.pyName
  | .outObj, .outObj => True
  | _, _ => False

structure Rel (a : ASt) (r : RSt) : Prop where
  regs : All₂ relV a.regs r.regs
  parties : a.parties = r.parties
  inputs : a.inputs = r.inputs
  outputs : a.outputs = r.outputs.map (fun o => (o.name, o.party, o.ty.pyName))

theorem rel_init : Rel {} {} := ⟨.nil, rfl, rfl, rfl⟩

theorem forall₂_get {a : List AV} {r : List RV} (h : All₂ relV a r) (i : Nat) :
    match a[i]?, r[i]? with
    | some x, some y => relV x y
    | none, none => True
    | _, _ => False := by
  induction h generalizing i with
  | nil => simp
  | cons hxy _ ih =>
    cases i with
    | zero => simpa using hxy
    | succ n => simpa using ih n

theorem forall₂_snoc {a : List AV} {r : List RV} (h : All₂ relV a r) {x : AV} {y : RV}
    (hxy : relV x y) : All₂ relV (a ++ [x]) (r ++ [y]) := by
  induction h with
  | nil => exact .cons hxy .nil
  | cons h1 _ ih => exact .cons h1 ih

/-- what `regs[i]?` on one side says about the other side -/
theorem get_party {a : ASt} {r : RSt} (h : Rel a r) (p i : Nat) (ha : a.regs[p]? = some (.party i)) :
    r.regs[p]? = some (.party i) := by
  have := forall₂_get h.regs p
  rw [ha] at this
  split at this
  · rename_i x y hx hy
    injection hx with hx; subst hx
    cases y <;> simp [relV] at this
    subst this; exact hy
  · rename_i hx _; cases hx
  · rename_i hn _ ; simp_all

theorem get_input {a : ASt} {r : RSt} (h : Rel a r) (p i : Nat) (ha : a.regs[p]? = some (.input i)) :
    r.regs[p]? = some (.input i) := by
  have := forall₂_get h.regs p
  rw [ha] at this
  split at this
  · rename_i x y hx hy
    injection hx with hx; subst hx
    cases y <;> simp [relV] at this
    subst this; exact hy
  · rename_i hx _; cases hx
  · rename_i hn _ ; simp_all

theorem get_val {a : ASt} {r : RSt} (h : Rel a r) (p : Nat) (c : String) (ha : a.regs[p]? = some (.val c)) :
    ∃ t d src, r.regs[p]? = some (.val t d src) ∧ c = t.pyName := by
  have := forall₂_get h.regs p
  rw [ha] at this
  split at this
  · rename_i x y hx hy
    injection hx with hx; subst hx
    cases y <;> simp [relV] at this
    rename_i t d src
    exact ⟨t, d, src, hy, this⟩
  · rename_i hx _; cases hx
  · rename_i hn _ ; simp_all

theorem wrap_names (s : Bool) : wrapCls s = (wrapTy s).pyName := by cases s <;> rfl

theorem step_rel {a a' : ASt} {r r' : RSt} (c : Cmd) (h : Rel a r)
    (ha : absStep a c = some a') (hr : realStep r c = some r') : Rel a' r' := by
  cases c with
  | party n =>
    simp only [absStep, realStep, Option.some.injEq] at ha hr
    subst ha hr
    exact ⟨forall₂_snoc h.regs (by simp [relV, h.parties]), by simp [h.parties], h.inputs, h.outputs⟩
  | input n p =>
    simp only [absStep] at ha
    split at ha
    · rename_i i hp
      have hp' := get_party h p i hp
      simp only [realStep, hp'] at hr
      injection ha with ha; injection hr with hr
      subst ha hr
      exact ⟨forall₂_snoc h.regs (by simp [relV, h.inputs]), h.parties, by simp [h.inputs], h.outputs⟩
    · cases ha
  | wrap sec x =>
    simp only [absStep] at ha
    split at ha
    · rename_i i hp
      have hp' := get_input h x i hp
      simp only [realStep, hp'] at hr
      injection ha with ha; injection hr with hr
      subst ha hr
      exact ⟨forall₂_snoc h.regs (by simp [relV, wrap_names]), h.parties, by simp [h.inputs], h.outputs⟩
    · cases ha
  | lit v =>
    simp only [absStep, realStep, Option.some.injEq] at ha hr
    subst ha hr
    exact ⟨forall₂_snoc h.regs (by simp [relV, STy.pyName]), h.parties, h.inputs, h.outputs⟩
  | bin op x y =>
    simp only [absStep] at ha
    split at ha
    · rename_i ca cb hx hy
      obtain ⟨ta, da, _, hx', rfl⟩ := get_val h x ca hx
      obtain ⟨tb, db, _, hy', rfl⟩ := get_val h y cb hy
      simp only [realStep, hx', hy'] at hr
      split at ha
      · rename_i c hc
        split at hr
        · rename_i t ht
          injection ha with ha; injection hr with hr
          subst ha hr
          exact ⟨forall₂_snoc h.regs (by simpa [relV] using bin_agree op ta tb c t hc ht),
                 h.parties, h.inputs, h.outputs⟩
        · cases hr
      · cases ha
    · cases ha
  | ifElse z x y =>
    simp only [absStep] at ha
    split at ha
    · rename_i cc ca cb hz hx hy
      obtain ⟨tc, dc, _, hz', rfl⟩ := get_val h z cc hz
      obtain ⟨ta, da, _, hx', rfl⟩ := get_val h x ca hx
      obtain ⟨tb, db, _, hy', rfl⟩ := get_val h y cb hy
      simp only [realStep, hz', hx', hy'] at hr
      split at ha
      · rename_i c hc
        split at hr
        · rename_i t ht
          injection ha with ha; injection hr with hr
          subst ha hr
          exact ⟨forall₂_snoc h.regs (by simpa [relV] using ifElse_agree tc ta tb c t hc ht),
                 h.parties, h.inputs, h.outputs⟩
        · cases hr
      · cases ha
    · cases ha
  | out v n p =>
    simp only [absStep] at ha
    split at ha
    · rename_i c i hv hp
      obtain ⟨t, d, src, hv', rfl⟩ := get_val h v c hv
      have hp' := get_party h p i hp
      simp only [realStep, hv', hp'] at hr
      split at ha
      · injection ha with ha; injection hr with hr
        subst ha hr
        exact ⟨forall₂_snoc h.regs (by simp [relV]), h.parties, h.inputs, by simp [h.outputs]⟩
      · cases ha
    · cases ha

theorem run_rel (cs : List Cmd) : ∀ {a a' : ASt} {r r' : RSt}, Rel a r →
    absRun a cs = some a' → realRun r cs = some r' → Rel a' r' := by
  induction cs with
  | nil =>
    intro a a' r r' h ha hr
    simp only [absRun, realRun, Option.some.injEq] at ha hr
    subst ha hr; exact h
  | cons c cs ih =>
    intro a a' r r' h ha hr
    simp only [absRun, realRun] at ha hr
    split at ha
    · rename_i a1 ha1
      split at hr
      · rename_i r1 hr1
        exact ih (step_rel c h ha1 hr1) ha hr
      · cases hr
    · cases ha

/-! ### the property -/

variable {cs : List Cmd} {a : ASt} {r : RSt} {m : Iface}

/-- MIR type name of a class: `Public` erased (so the secrecy of an output is the same on both sides). -/
theorem mirName_of_pyName (t : STy) :
    t.mirName = (if t.mode = .sec then t.pyName else ({ t with mode := .const } : STy).pyName) := by
  obtain ⟨mo, b⟩ := t; cases mo <;> cases b <;> rfl

/-- Outputs: same names, same receiving parties, same value classes, same order. -/
theorem outputs_agree (ha : absRun {} cs = some a) (hr : realRun {} cs = some r) :
    (signature a).outputs = r.outputs.map (fun o => (o.name, partyName r.parties o.party, o.ty.pyName)) := by
  have h := run_rel cs rel_init ha hr
  simp only [signature, h.outputs, h.parties, List.map_map]
  rfl

/-- … and the MIR records for each output the MIR name of that class — provided no output hands over
a stale wrapper of a re-wrapped Input (`freshOutputs`, the complement of known finding F-C03-2). -/
theorem mir_outputs (hi : iface r = some m) (hf : r.freshOutputs = true) :
    m.outputs = r.outputs.map (fun o => (o.name, partyName r.parties o.party, o.ty.mirName)) := by
  simp only [iface] at hi
  split at hi
  · cases hi
  · injection hi with hi; subst hi
    simp only [RSt.freshOutputs, List.all_eq_true, beq_iff_eq] at hf
    apply List.map_congr_left
    intro o ho
    rw [hf o ho]

/-- The hypothesis is necessary (F-C03-2 as it shows in this property): an Input wrapped as
`SecretInteger`, then as `PublicInteger`, the first wrapper handed to `Output` — the signature says
`SecretInteger`, the MIR says `Integer`. -/
def staleProg : List Cmd := [.party "P", .input "x" 0, .wrap true 1, .wrap false 1, .out 2 "o" 0]
theorem stale_wrapper_output_differs :
    ((absRun {} staleProg).map fun a => (signature a).outputs) = some [("o", "P", "SecretInteger")] ∧
    ((realRun {} staleProg).bind iface).map (·.outputs) = some [("o", "P", "Integer")] ∧
    ((realRun {} staleProg).map (·.freshOutputs)) = some false := by decide +kernel

/-- Every input of the MIR interface is an Input object of the signature, with the same name,
owning party and wrapper class (`secret`). -/
theorem mir_inputs_in_signature (ha : absRun {} cs = some a) (hr : realRun {} cs = some r)
    (hi : iface r = some m) : ∀ e ∈ m.inputs, (signature a).inputs[e.1]? = some e.2 := by
  have h := run_rel cs rel_init ha hr
  simp only [iface] at hi
  split at hi
  · cases hi
  · injection hi with hi; subst hi
    intro e he
    simp only [List.mem_filterMap, List.mem_filter, Option.map_eq_some_iff] at he
    obtain ⟨i, _, o, ho, rfl⟩ := he
    simpa [signature, h.inputs] using ho

/-- The inputs the signature lists beyond the MIR's are exactly those no output depends on. -/
theorem extra_inputs_exact (ha : absRun {} cs = some a) (hr : realRun {} cs = some r)
    (hi : iface r = some m) (i : Nat) (hlt : i < (signature a).inputs.length) :
    (¬ ∃ e ∈ m.inputs, e.1 = i) ↔ r.reached i = false := by
  have h := run_rel cs rel_init ha hr
  have hlt' : i < r.inputs.length := by simpa [signature, h.inputs] using hlt
  simp only [iface] at hi
  split at hi
  · cases hi
  · injection hi with hi; subst hi
    constructor
    · intro hn
      cases hre : r.reached i with
      | false => rfl
      | true =>
        exfalso; apply hn
        refine ⟨(i, r.inputs[i]), ?_, rfl⟩
        simp only [List.mem_filterMap, List.mem_filter, List.mem_range, Option.map_eq_some_iff]
        exact ⟨i, ⟨hlt', hre⟩, r.inputs[i], by simp [hlt'], rfl⟩
    · intro hre ⟨e, he, hei⟩
      simp only [List.mem_filterMap, List.mem_filter, Option.map_eq_some_iff] at he
      obtain ⟨j, ⟨_, hj⟩, o, _, rfl⟩ := he
      simp only at hei; subst hei
      rw [hre] at hj; cases hj

theorem mem_dedup (x : String) (xs : List String) : x ∈ dedup xs ↔ x ∈ xs := by
  induction xs with
  | nil => simp [dedup]
  | cons y ys ih =>
    simp only [dedup]
    split
    · rename_i hc
      have hy : y ∈ ys := by simpa using hc
      rw [ih]; constructor
      · exact fun hx => List.mem_cons_of_mem _ hx
      · intro hx; rcases List.mem_cons.1 hx with rfl | hx
        · exact hy
        · exact hx
    · simp [ih]

theorem dedup_nodup (xs : List String) : (dedup xs).Nodup := by
  induction xs with
  | nil => simp [dedup]
  | cons y ys ih =>
    simp only [dedup]
    split
    · exact ih
    · rename_i hc
      refine List.nodup_cons.2 ⟨?_, ih⟩
      rw [mem_dedup]; simpa using hc

/-- A party name is in the MIR exactly when it owns a reachable input or receives an output;
each name once. -/
theorem mir_parties_exact (hi : iface r = some m) (q : String) :
    q ∈ m.parties ↔ ((∃ e ∈ m.inputs, partyName r.parties e.2.party = q) ∨
                     (∃ o ∈ r.outputs, partyName r.parties o.party = q)) := by
  simp only [iface] at hi
  split at hi
  · cases hi
  · injection hi with hi; subst hi
    simp only [mem_dedup, List.mem_append, List.mem_map]

theorem mir_parties_nodup (hi : iface r = some m) : m.parties.Nodup := by
  simp only [iface] at hi
  split at hi
  · cases hi
  · injection hi with hi; subst hi; exact dedup_nodup _

/-- registers never point outside the aggregators -/
def RegsOK (r : RSt) : Prop :=
  (∀ v ∈ r.regs, match v with
      | .party i => i < r.parties.length
      | .input i => i < r.inputs.length
      | _ => True) ∧
  (∀ o ∈ r.inputs, o.party < r.parties.length) ∧ (∀ o ∈ r.outputs, o.party < r.parties.length)

theorem setTy_party (xs : List InputObj) (i : Nat) (s : Bool) (n : Nat)
    (h : ∀ o ∈ xs, o.party < n) : ∀ o ∈ setTy xs i s, o.party < n := by
  unfold setTy
  split
  · rename_i o ho
    intro o' ho'
    rcases List.mem_or_eq_of_mem_set ho' with h1 | h1
    · exact h o' h1
    · subst h1; exact h o (List.mem_of_getElem? ho)
  · exact h

theorem setTy_length (xs : List InputObj) (i : Nat) (s : Bool) : (setTy xs i s).length = xs.length := by
  unfold setTy; split <;> simp

theorem mem_of_getElem?_eq {α} {l : List α} {i : Nat} {x : α} (h : l[i]? = some x) : x ∈ l :=
  List.mem_of_getElem? h

theorem step_regsOK {r r' : RSt} (c : Cmd) (h : RegsOK r) (hr : realStep r c = some r') : RegsOK r' := by
  obtain ⟨h1, h2, h3⟩ := h
  have weaken : ∀ {np ni : Nat}, r.parties.length ≤ np → r.inputs.length ≤ ni →
      ∀ v ∈ r.regs, (match v with | .party i => i < np | .input i => i < ni | _ => True) := by
    intro np ni hp hi' v hv
    have := h1 v hv
    cases v <;> simp_all <;> omega
  cases c with
  | party n =>
    simp only [realStep, Option.some.injEq] at hr; subst hr
    refine ⟨?_, ?_, ?_⟩
    · intro v hv
      rcases List.mem_append.1 hv with hv | hv
      · exact weaken (by simp) (Nat.le_refl _) v hv
      · simp at hv; subst hv; simp
    · intro o ho; have := h2 o ho; simp; omega
    · intro o ho; have := h3 o ho; simp; omega
  | input n p =>
    simp only [realStep] at hr
    split at hr
    · rename_i i hp
      injection hr with hr; subst hr
      have hi' : i < r.parties.length := by simpa using h1 _ (mem_of_getElem?_eq hp)
      refine ⟨?_, ?_, h3⟩
      · intro v hv
        rcases List.mem_append.1 hv with hv | hv
        · exact weaken (Nat.le_refl _) (by simp) v hv
        · simp at hv; subst hv; simp
      · intro o ho
        rcases List.mem_append.1 ho with ho | ho
        · exact h2 o ho
        · simp at ho; subst ho; exact hi'
    · cases hr
  | wrap sec x =>
    simp only [realStep] at hr
    split at hr
    · injection hr with hr; subst hr
      refine ⟨?_, setTy_party _ _ _ _ h2, h3⟩
      intro v hv
      rcases List.mem_append.1 hv with hv | hv
      · exact weaken (Nat.le_refl _) (by simp [setTy_length]) v hv
      · simp at hv; subst hv; simp
    · cases hr
  | lit v =>
    simp only [realStep, Option.some.injEq] at hr; subst hr
    refine ⟨?_, h2, h3⟩
    intro v hv
    rcases List.mem_append.1 hv with hv | hv
    · exact h1 v hv
    · simp at hv; subst hv; simp
  | bin op x y =>
    simp only [realStep] at hr
    split at hr
    · split at hr
      · injection hr with hr; subst hr
        refine ⟨?_, h2, h3⟩
        intro v hv
        rcases List.mem_append.1 hv with hv | hv
        · exact h1 v hv
        · simp at hv; subst hv; simp
      · cases hr
    · cases hr
  | ifElse z x y =>
    simp only [realStep] at hr
    split at hr
    · split at hr
      · injection hr with hr; subst hr
        refine ⟨?_, h2, h3⟩
        intro v hv
        rcases List.mem_append.1 hv with hv | hv
        · exact h1 v hv
        · simp at hv; subst hv; simp
      · cases hr
    · cases hr
  | out v n p =>
    simp only [realStep] at hr
    split at hr
    · rename_i t d i hv hp
      injection hr with hr; subst hr
      have hi' : i < r.parties.length := by simpa using h1 _ (mem_of_getElem?_eq hp)
      refine ⟨?_, h2, ?_⟩
      · intro v hv
        rcases List.mem_append.1 hv with hv | hv
        · exact h1 v hv
        · simp at hv; subst hv; simp
      · intro o ho
        rcases List.mem_append.1 ho with ho | ho
        · exact h3 o ho
        · simp at ho; subst ho; exact hi'
    · cases hr

theorem run_regsOK (cs : List Cmd) : ∀ {r r' : RSt}, RegsOK r → realRun r cs = some r' → RegsOK r' := by
  induction cs with
  | nil => intro r r' h hr; simp only [realRun, Option.some.injEq] at hr; subst hr; exact h
  | cons c cs ih =>
    intro r r' h hr
    simp only [realRun] at hr
    split at hr
    · rename_i r1 hr1; exact ih (step_regsOK c h hr1) hr
    · cases hr

theorem regsOK_init : RegsOK {} := ⟨by simp, by simp, by simp⟩

theorem partyName_mem (ps : List String) (i : Nat) (h : i < ps.length) : partyName ps i ∈ ps := by
  simp [partyName, h]

/-- Every party of the MIR interface is one of the signature's parties (same name). -/
theorem mir_parties_in_signature (ha : absRun {} cs = some a) (hr : realRun {} cs = some r)
    (hi : iface r = some m) : ∀ q ∈ m.parties, q ∈ (signature a).parties := by
  have h := run_rel cs rel_init ha hr
  obtain ⟨_, h2, h3⟩ := run_regsOK cs regsOK_init hr
  intro q hq
  rcases (mir_parties_exact hi q).1 hq with ⟨e, he, rfl⟩ | ⟨o, ho, rfl⟩
  · have := mir_inputs_in_signature ha hr hi e he
    simp only [signature, h.inputs] at this
    simp only [signature, h.parties]
    exact partyName_mem _ _ (h2 _ (mem_of_getElem?_eq this))
  · simp only [signature, h.parties]
    exact partyName_mem _ _ (h3 _ ho)

/-- The parties the signature lists beyond the MIR's are exactly the names that own no reachable
input and receive no output. -/
theorem extra_parties_exact (hi : iface r = some m) (q : String) :
    q ∉ m.parties ↔ ((∀ e ∈ m.inputs, partyName r.parties e.2.party ≠ q) ∧
                     (∀ o ∈ r.outputs, partyName r.parties o.party ≠ q)) := by
  rw [mir_parties_exact hi q]
  constructor
  · intro hn
    exact ⟨fun e he heq => hn (.inl ⟨e, he, heq⟩), fun o ho heq => hn (.inr ⟨o, ho, heq⟩)⟩
  · rintro ⟨h1, h2⟩ (⟨e, he, heq⟩ | ⟨o, ho, heq⟩)
    · exact h1 e he heq
    · exact h2 o ho heq

/-! ### non-vacuity: a program both interpreters accept, with an unused input, an unused party,
a re-wrapped input and a public output -/

def exProg : List Cmd := [
  .party "P", .party "Q", .party "Unused",
  .input "a" 0, .input "b" 1, .input "dead" 1,
  .wrap true 3, .wrap false 4, .wrap true 5, .wrap false 5,
  .lit 7, .bin .mul 7 10, .bin .add 6 11, .bin .lt 6 7, .ifElse 13 12 6,
  .out 14 "o1" 1, .out 11 "o2" 0 ]

example :
    ((absRun {} exProg).map fun a => (signature a).outputs) =
      some [("o1", "Q", "SecretInteger"), ("o2", "P", "PublicInteger")] ∧
    ((realRun {} exProg).bind iface).map (fun m => (m.inputs.map (·.1), m.parties, m.outputs)) =
      some ([0, 1], ["Q", "P"], [("o1", "Q", "SecretInteger"), ("o2", "P", "Integer")]) ∧
    ((realRun {} exProg).map (·.freshOutputs)) = some true := by
  decide +kernel

end NadaVerif.C18
