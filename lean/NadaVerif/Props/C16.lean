/-
C16 — the auditor is total: always terminates with a report, runs no audited code (partial).

The fragments of the checker whose termination / exception-freedom is not obvious are modelled as
total Lean functions (`Audit/Strict.lean`; Lean's termination checker accepts them, their result
types have no "raised" or "executed" outcome) and the facts the repaired Python relies on are
proved.  The rest of `types` is structural recursion over the `ast` tree with dictionary lookups;
it — together with `ast.parse`, `parsial`, `asttokens`, `richreports` — is exercised by the K6 run
(every `ast` node class, layout variation, corrupted lines) under a watchdog and an audit hook.
-/
import NadaVerif.Audit.Strict

namespace NadaVerif.C16
open NadaVerif.Audit

/-- Resolving an annotation yields a type or a plain failure — for every annotation expression —
and a successful result is built from the fixed table of type names only (nothing is executed). -/
theorem typesEval_total_no_exec (a : Ann) :
    typesEval a = none ∨ ∃ t, typesEval a = some t ∧ t.hasName = true := by
  induction a with
  | name id =>
    simp only [typesEval]
    split
    · exact .inr ⟨_, rfl, rfl⟩
    · split
      · exact .inr ⟨_, rfl, rfl⟩
      · exact .inl rfl
  | subscript v s _ ihs =>
    cases v with
    | name id =>
      by_cases h : id = "list"
      · subst h
        simp only [typesEval]
        rcases ihs with h | ⟨t, ht, _⟩
        · simp [h]
        · exact .inr ⟨.listOf t, by simp [ht], rfl⟩
      · left
        unfold typesEval
        split <;> simp_all
    | subscript _ _ => exact .inl rfl
    | other => exact .inl rfl
  | other => exact .inl rfl

/-- The subscript loop terminates for every target (structural recursion) and, when it reports no
invalid index, it ends on something that is not an integer-indexed subscript of a variable or
subscript — in particular it cannot spin on `x.y[0] = …` / `f()[0] = …`. -/
theorem subscriptBase_terminates (t : Target) (d : Nat) :
    ∃ d' base bad, subscriptLoop t d = (d', base, bad) ∧ d ≤ d' := by
  induction t generalizing d with
  | name id => exact ⟨d, _, false, rfl, Nat.le_refl _⟩
  | other => exact ⟨d, _, false, rfl, Nat.le_refl _⟩
  | subscript v isInt ih =>
    cases isInt with
    | false => exact ⟨d + 1, _, true, rfl, Nat.le_succ _⟩
    | true =>
      cases v with
      | other => exact ⟨d + 1, _, false, rfl, Nat.le_succ _⟩
      | name id =>
        obtain ⟨d', b, bad, h, hle⟩ := ih (d + 1)
        exact ⟨d', b, bad, by simpa [subscriptLoop] using h, by omega⟩
      | subscript v' i' =>
        obtain ⟨d', b, bad, h, hle⟩ := ih (d + 1)
        exact ⟨d', b, bad, by simpa [subscriptLoop] using h, by omega⟩

/-- Unification never fails on error values: it answers "does not unify". -/
theorem unify_total (a b : Ty) :
    (a.hasName = false ∨ b.hasName = false) → unify a b = none := by
  intro h
  have hn : ¬ (a = b ∧ a.noErr = true) := by
    rintro ⟨rfl, hne⟩
    cases a <;> simp_all [Ty.hasName, Ty.noErr]
  unfold unify
  rw [if_neg hn]
  rcases h with h | h <;> simp [h]

/-- The monomorphism tests are defined on every type term, error values included. -/
theorem monomorphic_total (r : Bool) : listMonomorphic (.err r) = false ∧ listDepth (.err r) = 0 ∧
    listMonomorphic .list = false ∧ listDepth (.listOf (.listOf (.base "int"))) = 2 := by
  simp [listMonomorphic, listDepth]

/-- The range normalisation stops (the line only ever increases towards the last line) and never
leaves the report: the resulting line is at most the number of lines when it started inside. -/
theorem normalise_total (lens : List Nat) :
    ∀ (fuel line col : Nat), line ≤ lens.length → (normaliseStart lens fuel line col).1 ≤ lens.length := by
  intro fuel
  induction fuel with
  | zero => intro line col h; exact h
  | succ n ih =>
    intro line col h
    simp only [normaliseStart]
    split
    · rename_i hc; exact ih (line + 1) 0 (by omega)
    · exact h

example : subscriptLoop (.subscript (.subscript .other true) true) 0 = (2, .subscript .other true, false) := by decide
example : typesEval (.subscript (.name "list") (.subscript (.name "list") (.name "int"))) = some (.listOf (.listOf (.base "int"))) := by decide

end NadaVerif.C16
