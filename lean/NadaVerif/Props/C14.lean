/-
C14 — strict checker is sound: inferred static types equal the types at run time (partial).

Over the tables regenerated from the running checker and abstract interpreter (T5): for every
operator application (+, -, *, comparisons, unary plus and minus, if_else) over every combination of Nada
classes, if the checker infers a class then abstract execution of that application yields exactly
that class (`checker_tables_sound`), and never raises when the checker reports no error
(`checker_tables_progress`).  Whole-program preservation / progress (assignments, loops, lists,
helper functions) is decided by the instrumented run of generated programs: every expression's
inferred type is compared with the class of the value bound at that point under abstract execution.
-/
import NadaVerif.Spec.C15

namespace NadaVerif.C14
open NadaVerif.C15 NadaVerif.Generated

theorem checker_tables_sound : checkerTable.all checkerCellSound = true := by decide +kernel
theorem checker_tables_progress : checkerTable.all checkerCellProgress = true := by decide +kernel

/-- the table is not vacuous: the checker infers a class on the well-typed integer cells -/
theorem checker_table_covers :
    (["add", "sub", "mul"].all fun op => ["Integer", "PublicInteger", "SecretInteger"].all fun a =>
      ["Integer", "PublicInteger", "SecretInteger"].all fun b =>
        (checkerTable.find? (fun r => r.1 = op ∧ r.2.1 = [a, b])).map (·.2.2) = lookupAbs op [a, b]) = true := by
  decide +kernel

example : checkerCellSound ("ifElse", ["SecretBoolean", "PublicInteger", "PublicInteger"], "PublicInteger") = false := by
  decide +kernel

end NadaVerif.C14
