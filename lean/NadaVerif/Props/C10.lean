/-
C10 — the program's inputs, outputs and parties are reproduced exactly.

Theorems about the compile model for every store and output list: outputs appear in declaration
order with their name, party and designated operation; a second, different input with an already
used name is rejected (whatever parties own the two); every party of an output is listed.
-/
import NadaVerif.Lemmas.CompileClosed
import NadaVerif.Lemmas.AccExact

namespace NadaVerif.C10
open NadaVerif NadaVerif.Spec NadaVerif.Lemmas

/-- Outputs are emitted in order, each with the declared name, party and operation. -/
theorem outputs_in_order (st : St) :
    ∀ (outs : List OutDecl) (table functions : Table) (mouts : List MirOutput) (acc : CAcc)
      (table' functions' : Table) (mouts' : List MirOutput) (acc' : CAcc),
    compileOutputs st outs table functions mouts acc = .ok (table', functions', mouts', acc') →
    mouts'.map (fun o => (o.opId, o.name, o.party)) =
      mouts.map (fun o => (o.opId, o.name, o.party)) ++ outs.map (fun o => (o.root, o.name, o.party)) := by
  intro outs
  induction outs with
  | nil =>
    intro table functions mouts acc table' functions' mouts' acc' h
    simp [compileOutputs] at h
    obtain ⟨_, _, rfl, _⟩ := h
    simp
  | cons o os ih =>
    intro table functions mouts acc table' functions' mouts' acc' h
    simp only [compileOutputs] at h
    split at h
    · simp at h
    · split at h
      · simp at h
      · rw [ih _ _ _ _ _ _ _ _ h]; simp

theorem compile_outputs_exact (st : St) (outs : List OutDecl) (m : MirProg) (h : compile st outs = .ok m) :
    m.outputs.map (fun o => (o.opId, o.name, o.party)) = outs.map (fun o => (o.root, o.name, o.party)) := by
  simp only [compile, bind, Except.bind] at h
  split at h
  · simp at h
  · rename_i r hco
    obtain ⟨table, functions, mouts, acc⟩ := r
    simp only at h
    split at h
    · simp at h
    · rename_i r2 hef
      injection h with h
      subst h
      simpa using outputs_in_order st outs [] [] [] {} _ _ _ _ hco

/-- `add_input_to_map`: a second, different input object under a name that is already in use is
rejected — whichever parties own the two inputs. -/
theorem dup_input_rejected (acc : CAcc) (i : MirInput) (p : String) (is : List MirInput) (j : MirInput)
    (hb : (p, is) ∈ insertParty i.party acc.inputs) (hj : j ∈ is) (hn : j.name = i.name) (hid : j.id ≠ i.id) :
    addInput acc i = .error .compiler := by
  simp only [addInput]
  rw [if_pos]
  simp only [List.any_eq_true]
  exact ⟨(p, is), hb, j, hj, by simp [hn, hid]⟩

theorem mem_insertSorted (x y : String) (xs : List String) :
    y ∈ insertSorted x xs ↔ y = x ∨ y ∈ xs := by
  induction xs with
  | nil => simp [insertSorted]
  | cons z zs ih =>
    simp only [insertSorted]
    split
    · rename_i h; subst h; simp
    · split
      · simp
      · simp only [List.mem_cons, ih]
        constructor
        · rintro (h | h | h) <;> simp [h]
        · rintro (h | h | h) <;> simp [h]

/-- Accepting an input lists its party. -/
theorem addInput_lists_party (acc acc' : CAcc) (i : MirInput) (h : addInput acc i = .ok acc') :
    i.party ∈ acc'.parties ∧ ∀ p ∈ acc.parties, p ∈ acc'.parties := by
  simp only [addInput] at h
  split at h
  · simp at h
  · simp at h; subst h
    exact ⟨(mem_insertSorted _ _ _).2 (.inl rfl), fun p hp => (mem_insertSorted _ _ _).2 (.inr hp)⟩

/-- Every input entry of the MIR carries the name, owning party, type and documentation string of the traced input
it stands for (it *is* the store's record of that id); every input an emitted operation refers to is listed, and no
name is listed twice. -/
theorem inputs_as_declared (st : St) (outs : List OutDecl) (m : MirProg) (h : compile st outs = .ok m) :
    (∀ i ∈ m.inputs, st.lookup i.id = some (.input i.name i.party i.doc i.ty)) ∧
    (m.inputs.map (·.name)).Nodup ∧
    ∀ t ∈ allTables m, ∀ e ∈ t, ∀ n p d ty, e.2 = .input n p d ty → (⟨n, ty, p, d, e.1⟩ : MirInput) ∈ m.inputs := by
  obtain ⟨h1, h2, _, hc⟩ := compile_acc st outs m h
  exact ⟨h2, h1, fun t ht e he n p d ty heq => ((hc t ht e he).1 n p d ty heq).1⟩

/-- Every party named by a listed input or by an output is listed. -/
theorem parties_cover (st : St) (outs : List OutDecl) (m : MirProg) (h : compile st outs = .ok m) :
    (∀ i ∈ m.inputs, i.party ∈ m.parties) ∧ (∀ o ∈ m.outputs, o.party ∈ m.parties) :=
  compile_parties_cover st outs m h

example : addInput { inputs := [("P", [⟨"x", .scalar "SecretInteger", "P", "", 1⟩])], parties := ["P"] }
    ⟨"x", .scalar "SecretInteger", "Q", "", 2⟩ = .error .compiler := by rfl

end NadaVerif.C10
