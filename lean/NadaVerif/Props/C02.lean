/-
C02 — scalar operators accept exactly the allowed type pairs and yield the ruled type.

The property is a statement about a finite table; it is proved *directly over the table
regenerated from the running code* (`Generated/ScalarTable.lean`, translator T1), and
separately the table is shown equal to the closed form `typeBin …` that the other layers use.
-/
import NadaVerif.Spec.C02

namespace NadaVerif.C02
open NadaVerif NadaVerif.Generated

/-- Every cell of the regenerated table obeys the typing rules of C02 (and its outcome does not
depend on the provenance of the operands: a cell with two distinct outcomes is not OK). -/
theorem scalarTable_ok : scalarTables.all (·.all cellOK) = true := by decide +kernel

theorem scalarTable_complete :
    (scalarTables.flatten.map fun r => (r.1, r.2.1)) = allKeys := by decide +kernel

/-- Model tie: the hand-written closed form equals the regenerated table on every cell. -/
theorem scalarTable_eq_model :
    scalarTables.all (·.all fun r => eraseOut r.2.2 = some (modelOut r.1 r.2.1)) = true := by
  decide +kernel

/-! Closed-form rules, for all operators and types (the rules as a reader would write them). -/

theorem typeBin_result (op : BinOp) (l r t : STy) (f : Bool) (h : typeBin op l r = .ok t f) :
    t.mode = Mode.max l.mode r.mode ∧
    t.base = (match op.cls with | .rel | .eqop | .logic => .bool | _ => l.base) ∧
    (f = true ↔ (l.mode = .const ∧ r.mode = .const)) := by
  obtain ⟨lm, lb⟩ := l; obtain ⟨rm, rb⟩ := r
  cases op <;> cases lm <;> cases rm <;> cases lb <;> cases rb <;>
    simp_all [typeBin, BinOp.cls, okMax, Mode.max, Mode.rank, Base.isNumeric] <;>
    (obtain ⟨rfl, rfl⟩ := h; simp)

theorem typeBin_reject_mixed (op : BinOp) (l r : STy) (hc : op.cls ≠ .shift) (h : l.base ≠ r.base) :
    typeBin op l r = .reject := by
  obtain ⟨lm, lb⟩ := l; obtain ⟨rm, rb⟩ := r
  cases op <;> cases lb <;> cases rb <;> simp_all [typeBin, BinOp.cls, Base.isNumeric]

theorem ifElse_rules (c a b t : STy) (f : Bool) (h : typeIfElse c a b = .ok t f) :
    c.base = .bool ∧ c.mode ≠ .const ∧ a.base = b.base ∧ a.base ≠ .bool ∧ f = false ∧
    t = ⟨Mode.max c.mode (Mode.max a.mode b.mode), a.base⟩ := by
  unfold typeIfElse at h
  split at h
  · rename_i hc; simp at h; obtain ⟨h1, h2⟩ := h; subst h1; subst h2
    obtain ⟨h1, h2, h3, h4⟩ := hc
    exact ⟨h1, h4, h2, h3, rfl, rfl⟩
  · simp at h

example : cellOK ("add", [⟨.sec, .int⟩, ⟨.pub, .int⟩], [.ok ⟨.sec, .int⟩ false "Addition" "SecretInteger"]) = true := by decide
example : cellOK ("lt", [⟨.sec, .int⟩, ⟨.sec, .int⟩], [.ok ⟨.pub, .bool⟩ false "LessThan" "Boolean"]) = false := by decide

end NadaVerif.C02
