/-
C19 — source references designate the user line that created each MIR element (partial: frame
objects are runtime; the walk over them and the line arithmetic are modelled and proved).

* `lineInfo_exact`: for every text (as a list of lines without the separator) and every existing
  line number, the recorded (offset, length) delimit exactly that line inside the joined text —
  including the last line.
* `intern_*`: `to_index` returns the index of an equal entry and never disturbs earlier indices.
* `resolve_user`: the frame walk returns the innermost frame outside the package whenever the
  stack has one, never a DSL frame.
* `frames_user` (regenerated T4 table): for every DSL entry point exercised by the catalogue,
  the recorded reference names the user file, the user's line, and delimits that line's text.
-/
import NadaVerif.Runtime.SourceRef
import NadaVerif.Generated.FrameTable

namespace NadaVerif.C19
open NadaVerif.Runtime NadaVerif.Generated

theorem joinLines_cons {α} (sep : α) (l : List α) (ls : List (List α)) (h : ls ≠ []) :
    joinLines sep (l :: ls) = l ++ sep :: joinLines sep ls := by
  cases ls with
  | nil => exact absurd rfl h
  | cons a as => rfl

theorem drop_offset {α} (sep : α) : ∀ (lines : List (List α)) (i : Nat), i < lines.length →
    ∃ rest, (joinLines sep lines).drop ((lines.take i).map fun l => l.length + 1).sum =
      lines.getD i [] ++ rest := by
  intro lines
  induction lines with
  | nil => intro i h; simp at h
  | cons l ls ih =>
    intro i h
    cases i with
    | zero =>
      cases ls with
      | nil => exact ⟨[], by simp [joinLines]⟩
      | cons a as => exact ⟨sep :: joinLines sep (a :: as), by simp [joinLines]⟩
    | succ i =>
      have hls : ls ≠ [] := by intro e; subst e; simp at h
      have hi : i < ls.length := by simpa using h
      obtain ⟨rest, hr⟩ := ih i hi
      refine ⟨rest, ?_⟩
      rw [joinLines_cons sep l ls hls]
      simp only [List.take_succ_cons, List.map_cons, List.sum_cons, List.getD_cons_succ]
      rw [← List.drop_drop]
      have : List.drop (l.length + 1) (l ++ sep :: joinLines sep ls) = joinLines sep ls := by
        have e1 : l ++ sep :: joinLines sep ls = (l ++ [sep]) ++ joinLines sep ls := by simp
        have e2 : l.length + 1 = (l ++ [sep]).length := by simp
        rw [e1, e2]; exact List.drop_left
      rw [this]; exact hr

/-- The recorded offset and length delimit exactly line `k` of the joined text. -/
theorem lineInfo_exact {α} (sep : α) (lines : List (List α)) (k : Nat) (h1 : 1 ≤ k) (h2 : k ≤ lines.length) :
    slice (joinLines sep lines) (lineInfo lines k).1 (lineInfo lines k).2 = lines.getD (k - 1) [] := by
  obtain ⟨rest, hr⟩ := drop_offset sep lines (k - 1) (by omega)
  simp only [lineInfo, h1, h2, and_self, if_true, slice, hr]
  simp

/-- A line number beyond the text gives the empty reference (0, 0). -/
theorem lineInfo_missing {α} (lines : List (List α)) (k : Nat) (h : k = 0 ∨ lines.length < k) :
    lineInfo lines k = (0, 0) := by
  unfold lineInfo; split
  · omega
  · rfl

theorem idxOf?_get (refs : List Ref) (r : Ref) (i : Nat) (h : refs.idxOf? r = some i) : refs[i]? = some r := by
  induction refs generalizing i with
  | nil => simp [List.idxOf?] at h
  | cons x xs ih =>
    by_cases hx : x = r
    · subst hx
      have : (x :: xs).idxOf? x = some 0 := by simp [List.idxOf?, List.findIdx?_cons]
      rw [this] at h; cases h; simp
    · have : (x :: xs).idxOf? r = (xs.idxOf? r).map (· + 1) := by
        simp [List.idxOf?, List.findIdx?_cons, hx]
      rw [this] at h
      cases hxs : xs.idxOf? r with
      | none => simp [hxs] at h
      | some j => simp [hxs] at h; subst h; simpa using ih j hxs

theorem intern_get (refs : List Ref) (r : Ref) : (intern refs r).2[(intern refs r).1]? = some r := by
  unfold intern
  split
  · rename_i i hi
    exact idxOf?_get refs r i hi
  · simp

theorem intern_stable (refs : List Ref) (r : Ref) (i : Nat) (hi : i < refs.length) :
    (intern refs r).2[i]? = refs[i]? := by
  unfold intern
  split
  · rfl
  · simp [List.getElem?_append_left hi]

theorem idxOf?_none (refs : List Ref) (r : Ref) (h : refs.idxOf? r = none) : r ∉ refs := by
  induction refs with
  | nil => simp
  | cons x xs ih =>
    by_cases hx : x = r
    · subst hx; simp [List.idxOf?, List.findIdx?_cons] at h
    · have : (x :: xs).idxOf? r = (xs.idxOf? r).map (· + 1) := by simp [List.idxOf?, List.findIdx?_cons, hx]
      rw [this] at h
      cases hxs : xs.idxOf? r with
      | none => simp only [List.mem_cons, not_or]; exact ⟨fun e => hx e.symm, ih hxs⟩
      | some j => simp [hxs] at h

theorem intern_mem (refs : List Ref) (r x : Ref) : x ∈ (intern refs r).2 ↔ x ∈ refs ∨ x = r := by
  unfold intern
  split
  · rename_i i hi
    have : r ∈ refs := List.mem_of_getElem? (idxOf?_get refs r i hi)
    constructor
    · exact Or.inl
    · rintro (h | h)
      · exact h
      · subst h; exact this
  · simp

theorem intern_nodup (refs : List Ref) (r : Ref) (h : refs.Nodup) : (intern refs r).2.Nodup := by
  unfold intern
  split
  · exact h
  · rename_i hn
    have := idxOf?_none refs r hn
    exact List.nodup_append.mpr ⟨h, by simp, by intro a ha b hb; simp at hb; subst hb; intro e; subst e; exact this ha⟩

theorem intern_prefix (refs : List Ref) (r : Ref) : refs <+: (intern refs r).2 := by
  unfold intern
  split
  · exact List.prefix_refl _
  · exact List.prefix_append _ _

theorem intern_lt (refs : List Ref) (r : Ref) : (intern refs r).1 < (intern refs r).2.length := by
  have := intern_get refs r
  exact (List.getElem?_eq_some_iff.mp this).1

/-- The table after a compilation holds what it held before and the references of this compilation,
nothing else. -/
theorem internAll_mem : ∀ (rs refs : List Ref) (x : Ref), x ∈ (internAll refs rs).2 ↔ x ∈ refs ∨ x ∈ rs
  | [], refs, x => by simp [internAll]
  | r :: rs, refs, x => by
    simp only [internAll, internAll_mem rs, intern_mem, List.mem_cons]
    constructor
    · rintro ((h | h) | h)
      · exact Or.inl h
      · exact Or.inr (Or.inl h)
      · exact Or.inr (Or.inr h)
    · rintro (h | h | h)
      · exact Or.inl (Or.inl h)
      · exact Or.inl (Or.inr h)
      · exact Or.inr h

/-- **The table of a compilation is its own** (repaired `start_compilation`): numbered from the empty
table, `source_refs` holds only references of elements of this MIR — whatever was compiled before. -/
theorem internAll_own (rs : List Ref) : ∀ x ∈ (internAll [] rs).2, x ∈ rs := by
  intro x hx
  simpa using (internAll_mem rs [] x).mp hx

/-- … whereas a table that is kept from one compilation to the next carries every earlier entry
along (the behaviour before the repair: an earlier program's references in a later MIR). -/
theorem internAll_prefix : ∀ (rs refs : List Ref), refs <+: (internAll refs rs).2
  | [], refs => by simp [internAll]
  | r :: rs, refs => by
    simp only [internAll]
    exact (intern_prefix refs r).trans (internAll_prefix rs _)

theorem internAll_nodup : ∀ (rs refs : List Ref), refs.Nodup → (internAll refs rs).2.Nodup
  | [], refs, h => by simpa [internAll] using h
  | r :: rs, refs, h => by
    simp only [internAll]
    exact internAll_nodup rs _ (intern_nodup refs r h)

theorem internAll_length : ∀ (rs refs : List Ref), (internAll refs rs).1.length = rs.length
  | [], refs => by simp [internAll]
  | r :: rs, refs => by simp [internAll, internAll_length rs]

/-- Every element's index resolves, in the final table, to the element's own reference. -/
theorem internAll_resolves : ∀ (rs refs : List Ref) (k : Nat) (h : k < rs.length),
    (internAll refs rs).2[(internAll refs rs).1[k]'(by rw [internAll_length]; exact h)]? = some rs[k]
  | r :: rs, refs, 0, _ => by
    simp only [internAll, List.getElem_cons_zero]
    have hp := internAll_prefix rs (intern refs r).2
    have hlt := intern_lt refs r
    obtain ⟨t, ht⟩ := hp
    rw [← ht, List.getElem?_append_left hlt]
    exact intern_get refs r
  | r :: rs, refs, k + 1, h => by
    simp only [internAll, List.getElem_cons_succ]
    exact internAll_resolves rs _ k (by simpa using h)

/-- The embedded files are exactly the files the table names (with the text recorded for them). -/
theorem sourcesOf_mem (texts : List (String × String)) (table : List Ref) (ft : String × String) :
    ft ∈ sourcesOf texts table ↔ ft ∈ texts ∧ ∃ r ∈ table, r.file = ft.1 := by
  simp [sourcesOf, List.mem_filter]

/-- A file that only an earlier compilation referred to is not embedded in a later MIR. -/
theorem sourcesOf_own (texts : List (String × String)) (rs : List Ref) (ft : String × String)
    (h : ft ∈ sourcesOf texts (internAll [] rs).2) : ∃ r ∈ rs, r.file = ft.1 := by
  obtain ⟨_, r, hr, hf⟩ := (sourcesOf_mem _ _ _).mp h
  exact ⟨r, internAll_own rs r hr, hf⟩

example : internAll [] [⟨3, 10, "a.py", 4⟩, ⟨5, 20, "a.py", 2⟩, ⟨3, 10, "a.py", 4⟩] =
    ([0, 1, 0], [⟨3, 10, "a.py", 4⟩, ⟨5, 20, "a.py", 2⟩]) := by decide

/-- The frame walk never returns a DSL frame when a user frame exists, and returns the innermost one. -/
theorem resolve_user : ∀ (stack : List Frame) (pre : List Frame) (u : Frame) (post : List Frame),
    stack = pre ++ u :: post → (∀ f ∈ pre, f.isDsl = true) → u.isDsl = false → resolve stack = some u := by
  intro stack
  induction stack with
  | nil => intro pre u post h; simp at h
  | cons f fs ih =>
    intro pre u post h hpre hu
    cases pre with
    | nil =>
      simp only [List.nil_append, List.cons.injEq] at h
      obtain ⟨hf, hfs⟩ := h
      subst hf
      cases fs with
      | nil => rfl
      | cons g rest => simp [resolve, hu]
    | cons p ps =>
      simp only [List.cons_append, List.cons.injEq] at h
      obtain ⟨hf, hfs⟩ := h
      subst hf
      have hp : f.isDsl = true := hpre f (by simp)
      have := ih ps u post hfs (fun g hg => hpre g (by simp [hg])) hu
      cases fs with
      | nil => simp at hfs
      | cons g rest => simp [resolve, hp, this]

/-- T4: every entry point of the catalogue is attributed to the user's file, line and text. -/
theorem frames_user : frameTable.all (fun r => r.2.1 && r.2.2.1 && r.2.2.2) = true := by decide +kernel

/-- the catalogue reaches every syntactic `back_frame()` call site of the package -/
theorem call_sites_covered : unreachedCallSites = [] := by decide +kernel

example : lineInfo ["ab".toList, "cde".toList, "f".toList] 3 = (7, 1) := by decide

end NadaVerif.C19
