/-
C19 — source references designate the user line that created each MIR element (partial: frame
objects are runtime; the walk over them and the line arithmetic are modelled and proved).

* `lineInfo_exact`: for every text (as a list of lines without the separator) and every existing
  line number, the recorded (offset, length) delimit exactly that line inside the joined text —
  including the last line.
* `intern_*`: `to_index` returns the index of an equal entry and never disturbs earlier indices.
* `resolve_user`: the frame walk returns the innermost frame outside the package whenever the
  stack has one, never a DSL frame.
* `frames_user` (regenerated T4 table): for every DSL entry point exercised by the catalogue,
  the recorded reference names the user file, the user's line, and delimits that line's text.
-/
import NadaVerif.Runtime.SourceRef
import NadaVerif.Generated.FrameTable

namespace NadaVerif.C19
open NadaVerif.Runtime NadaVerif.Generated

theorem joinLines_cons {α} (sep : α) (l : List α) (ls : List (List α)) (h : ls ≠ []) :
    joinLines sep (l :: ls) = l ++ sep :: joinLines sep ls := by
  cases ls with
  | nil => exact absurd rfl h
  | cons a as => rfl

theorem drop_offset {α} (sep : α) : ∀ (lines : List (List α)) (i : Nat), i < lines.length →
    ∃ rest, (joinLines sep lines).drop ((lines.take i).map fun l => l.length + 1).sum =
      lines.getD i [] ++ rest := by
  intro lines
  induction lines with
  | nil => intro i h; simp at h
  | cons l ls ih =>
    intro i h
    cases i with
    | zero =>
      cases ls with
      | nil => exact ⟨[], by simp [joinLines]⟩
      | cons a as => exact ⟨sep :: joinLines sep (a :: as), by simp [joinLines]⟩
    | succ i =>
      have hls : ls ≠ [] := by intro e; subst e; simp at h
      have hi : i < ls.length := by simpa using h
      obtain ⟨rest, hr⟩ := ih i hi
      refine ⟨rest, ?_⟩
      rw [joinLines_cons sep l ls hls]
      simp only [List.take_succ_cons, List.map_cons, List.sum_cons, List.getD_cons_succ]
      rw [← List.drop_drop]
      have : List.drop (l.length + 1) (l ++ sep :: joinLines sep ls) = joinLines sep ls := by
        have e1 : l ++ sep :: joinLines sep ls = (l ++ [sep]) ++ joinLines sep ls := by simp
        have e2 : l.length + 1 = (l ++ [sep]).length := by simp
        rw [e1, e2]; exact List.drop_left
      rw [this]; exact hr

/-- The recorded offset and length delimit exactly line `k` of the joined text. -/
theorem lineInfo_exact {α} (sep : α) (lines : List (List α)) (k : Nat) (h1 : 1 ≤ k) (h2 : k ≤ lines.length) :
    slice (joinLines sep lines) (lineInfo lines k).1 (lineInfo lines k).2 = lines.getD (k - 1) [] := by
  obtain ⟨rest, hr⟩ := drop_offset sep lines (k - 1) (by omega)
  simp only [lineInfo, h1, h2, and_self, if_true, slice, hr]
  simp

/-- A line number beyond the text gives the empty reference (0, 0). -/
theorem lineInfo_missing {α} (lines : List (List α)) (k : Nat) (h : k = 0 ∨ lines.length < k) :
    lineInfo lines k = (0, 0) := by
  unfold lineInfo; split
  · omega
  · rfl

theorem idxOf?_get (refs : List Ref) (r : Ref) (i : Nat) (h : refs.idxOf? r = some i) : refs[i]? = some r := by
  induction refs generalizing i with
  | nil => simp [List.idxOf?] at h
  | cons x xs ih =>
    by_cases hx : x = r
    · subst hx
      have : (x :: xs).idxOf? x = some 0 := by simp [List.idxOf?, List.findIdx?_cons]
      rw [this] at h; cases h; simp
    · have : (x :: xs).idxOf? r = (xs.idxOf? r).map (· + 1) := by
        simp [List.idxOf?, List.findIdx?_cons, hx]
      rw [this] at h
      cases hxs : xs.idxOf? r with
      | none => simp [hxs] at h
      | some j => simp [hxs] at h; subst h; simpa using ih j hxs

theorem intern_get (refs : List Ref) (r : Ref) : (intern refs r).2[(intern refs r).1]? = some r := by
  unfold intern
  split
  · rename_i i hi
    exact idxOf?_get refs r i hi
  · simp

theorem intern_stable (refs : List Ref) (r : Ref) (i : Nat) (hi : i < refs.length) :
    (intern refs r).2[i]? = refs[i]? := by
  unfold intern
  split
  · rfl
  · simp [List.getElem?_append_left hi]

/-- The frame walk never returns a DSL frame when a user frame exists, and returns the innermost one. -/
theorem resolve_user : ∀ (stack : List Frame) (pre : List Frame) (u : Frame) (post : List Frame),
    stack = pre ++ u :: post → (∀ f ∈ pre, f.isDsl = true) → u.isDsl = false → resolve stack = some u := by
  intro stack
  induction stack with
  | nil => intro pre u post h; simp at h
  | cons f fs ih =>
    intro pre u post h hpre hu
    cases pre with
    | nil =>
      simp only [List.nil_append, List.cons.injEq] at h
      obtain ⟨hf, hfs⟩ := h
      subst hf
      cases fs with
      | nil => rfl
      | cons g rest => simp [resolve, hu]
    | cons p ps =>
      simp only [List.cons_append, List.cons.injEq] at h
      obtain ⟨hf, hfs⟩ := h
      subst hf
      have hp : f.isDsl = true := hpre f (by simp)
      have := ih ps u post hfs (fun g hg => hpre g (by simp [hg])) hu
      cases fs with
      | nil => simp at hfs
      | cons g rest => simp [resolve, hp, this]

/-- T4: every entry point of the catalogue is attributed to the user's file, line and text. -/
theorem frames_user : frameTable.all (fun r => r.2.1 && r.2.2.1 && r.2.2.2) = true := by decide +kernel

/-- the catalogue reaches every syntactic `back_frame()` call site of the package -/
theorem call_sites_covered : unreachedCallSites = [] := by decide +kernel

example : lineInfo ["ab".toList, "cde".toList, "f".toList] 3 = (7, 1) := by decide

end NadaVerif.C19
