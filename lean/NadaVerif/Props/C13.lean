/-
C13 — compilation is deterministic and the same through every entry point (partial).

Proved about the model: the command-line entry point prints exactly one line for every argument
list, a Success line carrying the MIR exactly when the program compiled and a Failure line carrying
the reason otherwise; the file entry point and the base64 entry point yield the same result for
the same program text; the compile model is a function of the trace (no set or hash order can
enter: every list of the MIR is built by list operations of the model).
Not provable here and exercised on every run by fresh-process executions (K9): hash-seed
independence of the real process, the import system, stdout, the timers.
-/
import NadaVerif.Runtime.Cli
import NadaVerif.Compile

namespace NadaVerif.C13
open NadaVerif NadaVerif.Runtime

theorem cli_one_line (argv : List String) (cs cstr : String → Except String String) :
    (cliMain argv cs cstr).length = 1 := by
  unfold cliMain
  split <;> try rfl
  split <;> rfl

theorem cli_path_success (prog path mir : String) (cs cstr : String → Except String String)
    (h : cs path = .ok mir) : cliMain [prog, path] cs cstr = [.success mir] := by
  simp [cliMain, lineOf, h]

theorem cli_path_failure (prog path reason : String) (cs cstr : String → Except String String)
    (h : cs path = .error reason) : cliMain [prog, path] cs cstr = [.failure reason] := by
  simp [cliMain, lineOf, h]

theorem cli_string_entry (prog b64 : String) (cs cstr : String → Except String String) :
    cliMain [prog, "-s", b64] cs cstr = [lineOf (cstr b64)] := by
  simp [cliMain]

/-- The two entry points agree on the same program text. -/
theorem entry_points_agree (readFile decode : String → Option String) (run : String → Except String String)
    (path b64 src : String) (hf : readFile path = some src) (hd : decode b64 = some src) :
    compileScript readFile run path = compileString decode run b64 := by
  simp [compileScript, compileString, hf, hd]

/-- Determinism of the model: the MIR is a function of the traced store and the output list. -/
theorem compile_deterministic (st : St) (outs : List OutDecl) (m1 m2 : MirProg)
    (h1 : compile st outs = .ok m1) (h2 : compile st outs = .ok m2) : m1 = m2 := by
  rw [h1] at h2; injection h2

/-- … and the trace is a function of the program: the machine reached after `cs₁ ++ cs₂` is the machine reached by
running `cs₂` from where `cs₁` ended (no hidden state besides the machine). -/
theorem runCmds_append (m : Mach) (cs₁ cs₂ : List Cmd) :
    (runCmds m (cs₁ ++ cs₂)).1 = (runCmds (runCmds m cs₁).1 cs₂).1 := by
  induction cs₁ generalizing m with
  | nil => rfl
  | cons c cs ih => simp only [List.cons_append, runCmds]; exact ih _

example : cliMain ["compile.py", "prog.py"] (fun _ => .ok "{}") (fun _ => .error "x") = [.success "{}"] := by decide

end NadaVerif.C13
