/-
C13 — compilation is deterministic and the same through every entry point (partial).

Proved about the model: the command-line entry point prints exactly one line for every argument
list, a Success line carrying the MIR exactly when the program compiled and a Failure line carrying
the reason otherwise; the file entry point and the base64 entry point yield the same result for
the same program text; the compile model is a function of the trace (no set or hash order can
enter: every list of the MIR is built by list operations of the model).
The compile timers as a state machine (`Runtime/Timer.lean`, session 6): after any history of compilations — successful,
failing while the program is loaded, inside `nada_main`, in the middle of the outputs — no timer is left
running, a later compilation never ends with a `TimerError`, and a program that fails nowhere compiles; the
recorded `start` / `stop` calls of real histories are replayed through the model on every run (K12).
Not provable here and exercised on every run by fresh-process executions (K9): hash-seed
independence of the real process, the import system, stdout.
-/
import NadaVerif.Runtime.Cli
import NadaVerif.Lemmas.Timer
import NadaVerif.Compile

namespace NadaVerif.C13
open NadaVerif NadaVerif.Runtime

theorem cli_one_line (argv : List String) (cs cstr : String → Except String String) :
    (cliMain argv cs cstr).length = 1 := by
  unfold cliMain
  split <;> try rfl
  split <;> rfl

theorem cli_path_success (prog path mir : String) (cs cstr : String → Except String String)
    (h : cs path = .ok mir) : cliMain [prog, path] cs cstr = [.success mir] := by
  simp [cliMain, lineOf, h]

theorem cli_path_failure (prog path reason : String) (cs cstr : String → Except String String)
    (h : cs path = .error reason) : cliMain [prog, path] cs cstr = [.failure reason] := by
  simp [cliMain, lineOf, h]

theorem cli_string_entry (prog b64 : String) (cs cstr : String → Except String String) :
    cliMain [prog, "-s", b64] cs cstr = [lineOf (cstr b64)] := by
  simp [cliMain]

/-- The two entry points agree on the same program text. -/
theorem entry_points_agree (readFile decode : String → Option String) (run : String → Except String String)
    (path b64 src : String) (hf : readFile path = some src) (hd : decode b64 = some src) :
    compileScript readFile run path = compileString decode run b64 := by
  simp [compileScript, compileString, hf, hd]

/-- Determinism of the model: the MIR is a function of the traced store and the output list. -/
theorem compile_deterministic (st : St) (outs : List OutDecl) (m1 m2 : MirProg)
    (h1 : compile st outs = .ok m1) (h2 : compile st outs = .ok m2) : m1 = m2 := by
  rw [h1] at h2; injection h2

/-- … and the trace is a function of the program: the machine reached after `cs₁ ++ cs₂` is the machine reached by
running `cs₂` from where `cs₁` ended (no hidden state besides the machine). -/
theorem runCmds_append (m : Mach) (cs₁ cs₂ : List Cmd) :
    (runCmds m (cs₁ ++ cs₂)).1 = (runCmds (runCmds m cs₁).1 cs₂).1 := by
  induction cs₁ generalizing m with
  | nil => rfl
  | cons c cs ih => simp only [List.cons_append, runCmds]; exact ih _

example : cliMain ["compile.py", "prog.py"] (fun _ => .ok "{}") (fun _ => .error "x") = [.success "{}"] := by decide

/-- **No timer survives a compilation.**  After any history of compilations in one process — through either entry point,
each succeeding or failing at any of its stages — the set of running timers is empty again. -/
theorem timers_balanced_after_history (h : List (Bool × Prog)) : (runHistory {} h).2.running = [] :=
  runHistory_running h {}

/-- … so a compilation that follows any history never ends with a `TimerError`, … -/
theorem no_timer_error_after_history (h : List (Bool × Prog)) (v : Bool) (p : Prog) :
    ((compileVia v p).run.run (runHistory {} h).2).1 ≠ .error .timer :=
  note_compileVia v p _ (by intro n _; rw [timers_balanced_after_history]; simp)

/-- … and a program that fails nowhere compiles with the timers enabled whatever was compiled before it. -/
theorem good_program_compiles_after_history (h : List (Bool × Prog)) (v : Bool) (p : Prog) (hg : p.good) :
    ((compileVia v p).run.run (runHistory {} h).2).1 = .ok () :=
  okOn_compileVia v p hg _ (by intro n _; rw [timers_balanced_after_history]; simp)

/-- Non-vacuity: a history with a program failing while it is loaded, one failing in its second output, one failing in
`nada_main`, then a good program with two outputs of one name. -/
example : (runHistory {} [(false, { importFails := true }), (true, { outputs := [("a", false), ("b", true), ("c", false)] }),
    (false, { mainFails := true }), (false, { outputs := [("o", false), ("o", false)] })]).1.map TErr.code =
    [2, 2, 2, 0] := by decide +kernel

/-- Sensitivity: without the `finally` around the import, a program that fails while it is loaded leaves its timer
running and the next compilation of a correct program ends with a `TimerError`. -/
example : TErr.code ((tCompileScriptNoFinally {}).run.run ((tCompileScriptNoFinally { importFails := true }).run.run {}).2).1 = 1 := by
  decide +kernel

end NadaVerif.C13
