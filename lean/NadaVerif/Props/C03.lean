/-
C03 — no implicit declassification.

(a) Scalar level, over the complete table regenerated from the running classes (T1): every accepted
    application of an operator other than `to_public` / `public_equals` is typed at least as secret
    as each operand; `random()` is secret; the recorded MIR type name is the type's own name.
    Closed-form corollaries for the model used by the graph layer.
(b) Graph level: the taint analysis over whole MIRs is run as an oracle on every real MIR and the
    typing rules of the collection operations that carry secrecy through containers are theorems in
    `Props/C12.lean`; the whole-program theorem `typed_covers_taint` is work in progress.
-/
import NadaVerif.Spec.C03

namespace NadaVerif.C03
open NadaVerif NadaVerif.Generated

theorem table_no_declass : scalarTables.all (·.all noDeclass) = true := by decide +kernel

theorem bin_no_declass (op : BinOp) (l r t : STy) (f : Bool) (h : typeBin op l r = .ok t f) :
    l.mode.rank ≤ t.mode.rank ∧ r.mode.rank ≤ t.mode.rank := by
  obtain ⟨lm, lb⟩ := l; obtain ⟨rm, rb⟩ := r
  cases op <;> cases lm <;> cases rm <;> cases lb <;> cases rb <;>
    simp_all [typeBin, BinOp.cls, okMax, Mode.max, Mode.rank, Base.isNumeric] <;>
    (obtain ⟨rfl, rfl⟩ := h; simp)

theorem ifElse_no_declass (c a b t : STy) (f : Bool) (h : typeIfElse c a b = .ok t f) :
    c.mode.rank ≤ t.mode.rank ∧ a.mode.rank ≤ t.mode.rank ∧ b.mode.rank ≤ t.mode.rank := by
  unfold typeIfElse at h
  split at h
  · simp at h; obtain ⟨rfl, _⟩ := h
    obtain ⟨cm, _⟩ := c; obtain ⟨am, _⟩ := a; obtain ⟨bm, _⟩ := b
    cases cm <;> cases am <;> cases bm <;> simp [Mode.max, Mode.rank]
  · simp at h

theorem truncPr_invert_no_declass (l r t : STy) (f : Bool) :
    (typeTruncPr l r = .ok t f → l.mode.rank ≤ t.mode.rank ∧ r.mode.rank ≤ t.mode.rank) ∧
    (typeInvert l = .ok t f → l.mode.rank ≤ t.mode.rank) := by
  constructor
  · intro h; unfold typeTruncPr at h
    split at h
    · rename_i hc; simp at h; obtain ⟨rfl, _⟩ := h
      obtain ⟨rm, _⟩ := r; obtain ⟨lm, _⟩ := l
      cases rm <;> cases lm <;> simp_all [Mode.rank]
    · simp at h
  · intro h; unfold typeInvert at h
    split at h
    · simp at h; obtain ⟨rfl, _⟩ := h; exact Nat.le_refl _
    · simp at h

theorem random_is_secret (t r : STy) (f : Bool) (h : typeRandom t = .ok r f) : r.mode = .sec := by
  unfold typeRandom at h
  split at h
  · simp at h; obtain ⟨rfl, _⟩ := h; assumption
  · simp at h

/-- The MIR name of a type is a `Secret…` name exactly for secret types (so "typed public" in the
MIR means literal or public in the DSL). -/
theorem mirName_secret_iff (t : STy) :
    (["SecretInteger", "SecretUnsignedInteger", "SecretBoolean"].contains t.mirName) = (t.mode == .sec) := by
  obtain ⟨m, b⟩ := t; cases m <;> cases b <;> decide

example : noDeclass ("lt", [⟨.sec, .int⟩, ⟨.sec, .int⟩], [.ok ⟨.pub, .bool⟩ false "LessThan" "Boolean"]) = false := by decide

end NadaVerif.C03
