/-
C03 — no implicit declassification.

(a) Scalar level, over the complete table regenerated from the running classes (T1): every accepted
    application of an operator other than `to_public` / `public_equals` is typed at least as secret
    as each operand; `random()` is secret; the recorded MIR type name is the type's own name.
    Closed-form corollaries for the model used by the graph layer.
(b) Graph level, **whole programs** (`typed_covers_taint`): after any command list run cleanly (`Edge.cleanRunB`, the run-time
    form of hypothesis `NoRewrap`) in which every `reduce` starts from a value of its function's return type
    (`Taint.reduceInitOK`, the part of `BindingConsistent` the conclusion needs), a leaf of any traced operation that depends
    on a secret — through any chain of operand references, containers and function bodies, anything but `Reveal` /
    `PublicOutputEquality` — is typed secret (`Taint.taintF`, `Taint.secretAt`; proof: `Lemmas/TaintSound.lean`, induction on
    the length of the dependence chain over the edge-consistent store of `C05.trace_edges_consistent`).  Inside a function
    body a parameter counts as a source exactly where its declared type is secret; `call_args_covered` is the matching
    obligation at call sites.  `rewrap_declassifies`: the hypothesis is necessary.  The same analysis runs as a Python oracle
    on every real MIR.
-/
import NadaVerif.Spec.C03
import NadaVerif.Lemmas.TaintSound

namespace NadaVerif.C03
open NadaVerif NadaVerif.Generated

theorem table_no_declass : scalarTables.all (·.all noDeclass) = true := by decide +kernel

theorem bin_no_declass (op : BinOp) (l r t : STy) (f : Bool) (h : typeBin op l r = .ok t f) :
    l.mode.rank ≤ t.mode.rank ∧ r.mode.rank ≤ t.mode.rank := by
  obtain ⟨lm, lb⟩ := l; obtain ⟨rm, rb⟩ := r
  cases op <;> cases lm <;> cases rm <;> cases lb <;> cases rb <;>
    simp_all [typeBin, BinOp.cls, okMax, Mode.max, Mode.rank, Base.isNumeric] <;>
    (obtain ⟨rfl, rfl⟩ := h; simp)

theorem ifElse_no_declass (c a b t : STy) (f : Bool) (h : typeIfElse c a b = .ok t f) :
    c.mode.rank ≤ t.mode.rank ∧ a.mode.rank ≤ t.mode.rank ∧ b.mode.rank ≤ t.mode.rank := by
  unfold typeIfElse at h
  split at h
  · simp at h; obtain ⟨rfl, _⟩ := h
    obtain ⟨cm, _⟩ := c; obtain ⟨am, _⟩ := a; obtain ⟨bm, _⟩ := b
    cases cm <;> cases am <;> cases bm <;> simp [Mode.max, Mode.rank]
  · simp at h

theorem truncPr_invert_no_declass (l r t : STy) (f : Bool) :
    (typeTruncPr l r = .ok t f → l.mode.rank ≤ t.mode.rank ∧ r.mode.rank ≤ t.mode.rank) ∧
    (typeInvert l = .ok t f → l.mode.rank ≤ t.mode.rank) := by
  constructor
  · intro h; unfold typeTruncPr at h
    split at h
    · rename_i hc; simp at h; obtain ⟨rfl, _⟩ := h
      obtain ⟨rm, _⟩ := r; obtain ⟨lm, _⟩ := l
      cases rm <;> cases lm <;> simp_all [Mode.rank]
    · simp at h
  · intro h; unfold typeInvert at h
    split at h
    · simp at h; obtain ⟨rfl, _⟩ := h; exact Nat.le_refl _
    · simp at h

theorem random_is_secret (t r : STy) (f : Bool) (h : typeRandom t = .ok r f) : r.mode = .sec := by
  unfold typeRandom at h
  split at h
  · simp at h; obtain ⟨rfl, _⟩ := h; assumption
  · simp at h

/-- The MIR name of a type is a `Secret…` name exactly for secret types (so "typed public" in the
MIR means literal or public in the DSL). -/
theorem mirName_secret_iff (t : STy) :
    (["SecretInteger", "SecretUnsignedInteger", "SecretBoolean"].contains t.mirName) = (t.mode == .sec) := by
  obtain ⟨m, b⟩ := t; cases m <;> cases b <;> decide

/-- **No implicit declassification, whole programs.** -/
theorem typed_covers_taint (cs : List Cmd) (hc : Edge.cleanRunB {} cs = true)
    (hR : Taint.reduceInitOK (runCmds {} cs).1.st = true) :
    (∀ (fuel : Nat) (k : Id) (π : Taint.Path) (op : AstOp), (runCmds {} cs).1.st.lookup k = some op →
      Taint.taintF (runCmds {} cs).1.st fuel k π = true → Taint.secretAt op.ty π = true) ∧
    Taint.storeTaintOK (runCmds {} cs).1.st = true :=
  ⟨Lemmas.trace_no_declass cs hc hR, Lemmas.trace_taint_ok cs hc hR⟩

theorem call_args_covered (cs : List Cmd) (hc : Edge.cleanRunB {} cs = true)
    (hR : Taint.reduceInitOK (runCmds {} cs).1.st = true) (args : List Id) (ptys : List MTy)
    (hb : Edge.tysOf (Edge.tyAtS (runCmds {} cs).1.st) args = some ptys) :
    ∀ (i : Nat) (arg : Id) (fuel : Nat) (π : Taint.Path), args[i]? = some arg →
      Taint.taintF (runCmds {} cs).1.st fuel arg π = true → ∃ pt, ptys[i]? = some pt ∧ Taint.secretAt pt π = true :=
  Lemmas.call_args_covered _ ((Lemmas.storeEdgesOK_iff _).1 (Lemmas.trace_edges_okB cs hc)) hR args ptys hb

/-- non-vacuity: in this program the second component of the zipped array (operation 3, leaf `elem.right`), the second half
of its unzipping (operation 4, leaf `right.elem`) and the product (operation 7) depend on secret inputs; the first
components, the revealed product (8) and what is computed from it (9) do not; the hypotheses hold -/
def demo : List Cmd :=
  [.party "P", .inputObj "s" "" 0, .wrap ⟨.sec, .int⟩ 1, .arrayOf 2 (some 2), .inputObj "p" "" 0, .wrap ⟨.pub, .int⟩ 4, .arrayOf 5 (some 2),
   .zip 6 3, .unzip 7, .inputObj "q" "" 0, .wrap ⟨.pub, .int⟩ 9, .inputObj "t" "" 0, .wrap ⟨.sec, .int⟩ 11, .bin .mul 10 12,
   .reveal 13, .bin .add 14 10]
example : Edge.cleanRunB {} demo = true ∧ Taint.reduceInitOK (runCmds {} demo).1.st = true ∧
    (runCmds {} demo).2.all (· == none) = true ∧
    Taint.taintF (runCmds {} demo).1.st 20 3 [.elem, .right] = true ∧ Taint.taintF (runCmds {} demo).1.st 20 3 [.elem, .left] = false ∧
    Taint.taintF (runCmds {} demo).1.st 20 4 [.right, .elem] = true ∧ Taint.taintF (runCmds {} demo).1.st 20 4 [.left, .elem] = false ∧
    Taint.taintF (runCmds {} demo).1.st 20 7 [] = true ∧ Taint.taintF (runCmds {} demo).1.st 20 8 [] = false ∧
    Taint.taintF (runCmds {} demo).1.st 20 9 [] = false := by decide +kernel

/-- the hypothesis is necessary: an `Input` wrapped public, added to itself, then wrapped secret — the addition is typed
public and depends on what is now a secret input -/
theorem rewrap_declassifies :
    let cs : List Cmd := [.party "P", .inputObj "x" "" 0, .wrap ⟨.pub, .int⟩ 1, .bin .add 2 2, .wrap ⟨.sec, .int⟩ 1]
    Edge.cleanRunB {} cs = false ∧ Taint.storeTaintOK (runCmds {} cs).1.st = false := by decide +kernel

example : noDeclass ("lt", [⟨.sec, .int⟩, ⟨.sec, .int⟩], [.ok ⟨.pub, .bool⟩ false "LessThan" "Boolean"]) = false := by decide

end NadaVerif.C03
