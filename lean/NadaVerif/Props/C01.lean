/-
C01 — emitted MIR is referentially closed, correctly scoped and acyclic.

(1) over the regenerated AST schema (T6): every operand key that `to_mir` exports is a child the
    traversal follows, and the schema equals the one the model implements;
(2) for **every** store and output list, every table the compile model emits is closed under
    operand references, files each id once, consists of store entries, and contains the outputs'
    / functions' designated operations (`Lemmas/CompileClosed.lean`, induction over the traversal);
(3) for stores in which operand ids are smaller than the referring id, the tables are acyclic;
(4) **every** trace establishes such a store: `trace_storeWF` (`Lemmas/TraceInv.lean`, a Hoare-logic
    proof over the code of `exec`, all 28 commands, accepted or rejected), hence
    `trace_compile_acyclic`: whatever program was traced, every MIR compiled from it is acyclic.
-/
import NadaVerif.Spec.Schema
import NadaVerif.Lemmas.CompileClosed
import NadaVerif.Lemmas.TraceInv
import NadaVerif.Lemmas.FnExact
import NadaVerif.Lemmas.AccExact
import NadaVerif.Lemmas.NoMissing

namespace NadaVerif.C01
open NadaVerif NadaVerif.Spec NadaVerif.Lemmas NadaVerif.Generated

/-- T6: no class exports an operand reference that `child_operations()` omits. -/
theorem schema_refs_subset_children : astSchema.all rowRefsSubsetChildren = true := by decide +kernel

/-- T6 model tie: the regenerated schema is the one `AstOp.children` / `opJson` implement. -/
theorem astSchema_eq_model : (astSchema == modelAstSchema) = true := by decide +kernel

/-- Operand references of every emitted table resolve in that table; no id is filed twice. -/
theorem compile_tables_closed (st : St) (outs : List OutDecl) (m : MirProg)
    (h : compile st outs = .ok m) :
    ∀ t ∈ allTables m, tableClosed t = true ∧ (keys t).Nodup := by
  obtain ⟨hp, _, hf, _⟩ := compile_good st outs m h
  intro t ht
  simp only [allTables, List.mem_cons, List.mem_map] at ht
  rcases ht with rfl | ⟨f, hfm, rfl⟩
  · exact ⟨closed_of_inv hp.1, hp.2.1⟩
  · exact ⟨closed_of_inv (hf f hfm).1.1, (hf f hfm).1.2.1⟩

/-- Every output designates an operation of the program table, in output order, and every
function's return operation is in the function's own table. -/
theorem compile_outputs_resolve (st : St) (outs : List OutDecl) (m : MirProg)
    (h : compile st outs = .ok m) :
    m.outputs.all (fun o => Table.has m.operations o.opId) = true ∧
    m.functions.all (fun f => Table.has f.ops f.returnOp) = true ∧
    m.outputs.map (·.opId) = outs.map (·.root) := by
  obtain ⟨_, ho, hf, hm⟩ := compile_good st outs m h
  refine ⟨?_, ?_, hm⟩
  · simp only [List.all_eq_true]; intro o hom; exact (has_iff _ _).2 (ho o hom)
  · simp only [List.all_eq_true]; intro f hfm; exact (has_iff _ _).2 (hf f hfm).2

/-- Every emitted entry is the store's record for its id ("filed under its own id"). -/
theorem compile_entries_from_store (st : St) (outs : List OutDecl) (m : MirProg)
    (h : compile st outs = .ok m) :
    ∀ t ∈ allTables m, ∀ e ∈ t, st.lookup e.1 = some e.2 := by
  obtain ⟨hp, _, hf, _⟩ := compile_good st outs m h
  intro t ht
  simp only [allTables, List.mem_cons, List.mem_map] at ht
  rcases ht with rfl | ⟨f, hfm, rfl⟩
  · exact hp.2.2
  · exact (hf f hfm).1.2.2

theorem lookup_mem (st : St) (k : Id) (op : AstOp) (h : st.lookup k = some op) : (k, op) ∈ st.ops := by
  simp only [St.lookup, Option.map_eq_some_iff] at h
  obtain ⟨e, he, rfl⟩ := h
  have := List.find?_some he
  have hm := List.mem_of_find?_eq_some he
  simp at this
  subst this
  exact hm

/-- Acyclicity: in a store whose operand ids are smaller than the referring ids (which every trace
establishes: an operation can only mention values that already exist), following operand
references strictly decreases the id, so it never returns to the start. -/
theorem compile_acyclic (st : St) (outs : List OutDecl) (m : MirProg)
    (hwf : storeWF st = true) (h : compile st outs = .ok m) : acyclic m = true := by
  simp only [acyclic, List.all_eq_true]
  intro t ht e he c hc
  have hl := compile_entries_from_store st outs m h t ht e he
  have hm := lookup_mem st e.1 e.2 hl
  simp only [storeWF, List.all_eq_true] at hwf
  exact hwf _ hm c hc

/-- Every `fn` / `function_id` reference — in the program table and in every function's own table — names
**exactly one** element of `functions` (induction over the traversal, the per-output merge and the function
worklist; any store, any outputs). -/
theorem compile_fn_refs_resolve (st : St) (outs : List OutDecl) (m : MirProg) (h : compile st outs = .ok m) :
    ∀ t ∈ allTables m, ∀ e ∈ t, ∀ f, e.2.fnRef = some f → count f (m.functions.map (·.id)) = 1 :=
  (compile_fn_resolve st outs m h).2

/-- Every `InputReference` of every table resolves to **exactly one** entry of `inputs` (by name), every
`LiteralReference` to exactly one entry of `literals` — for every store and output list (the accumulator invariant of
`Lemmas/AccExact.lean`: sorted party buckets, names listed once, entries are store records). -/
theorem compile_input_literal_refs_resolve (st : St) (outs : List OutDecl) (m : MirProg) (h : compile st outs = .ok m) :
    ∀ t ∈ allTables m, ∀ e ∈ t,
      (∀ n p d ty, e.2 = .input n p d ty → count n (m.inputs.map (·.name)) = 1) ∧
      (∀ v i ty, e.2 = .literal v i ty → count (toString i) (m.literals.map (·.name)) = 1) := by
  obtain ⟨_, _, _, hc⟩ := compile_acc st outs m h
  intro t ht e he
  exact ⟨fun n p d ty heq => ((hc t ht e he).1 n p d ty heq).2, (hc t ht e he).2⟩

/-- **Whole pipeline**: trace any command list (any program, any rejected commands in between), compile any
output list from the resulting store — if the compilation succeeds, the MIR is acyclic. -/
theorem trace_compile_acyclic (cs : List Cmd) (outs : List OutDecl) (m : MirProg)
    (h : compile (runCmds {} cs).1.st outs = .ok m) : acyclic m = true :=
  compile_acyclic _ outs m (trace_storeWF cs) h

/-- … and so is every MIR compiled at any later point of a history that continues the trace. -/
theorem history_compile_acyclic (cs more : List Cmd) (outs : List OutDecl) (m : MirProg)
    (h : compile (runCmds (runCmds {} cs).1 more).1.st outs = .ok m) : acyclic m = true := by
  have h0 : MachOK (runCmds {} cs).1 := runCmds_ok cs {} ⟨by simp [WFops], by simp [RegsLe]⟩
  have h1 := runCmds_ok more _ h0
  exact compile_acyclic _ outs m ((storeWF_iff _).2 h1.1) h

/-- an output list as the compiler entry point builds it: each output names the operation of a value some
register holds (`output.child.child.id`) -/
def OutsFromRegs (regs : List RVal) (outs : List OutDecl) : Prop :=
  ∀ o ∈ outs, ∃ v, RVal.val v ∈ regs ∧ v.child = some o.root

theorem outs_stored {m : Mach} (h : MachSto m) {outs : List OutDecl} (ho : OutsFromRegs m.regs outs) :
    ∀ o ∈ outs, Stored m.st o.root := by
  intro o hm
  obtain ⟨v, hv, hc⟩ := ho o hm
  exact (stored_iff_has _ _).2 (h.2.1 _ hv o.root (by simpa [RVal.sids] using child_mem_ids hc))

/-- **Nothing a traced program needs is missing**: trace any command list (accepted and rejected commands,
aborted function bodies), take as outputs any values the registers hold — none of the lookups of the
compilation (operands during the traversals, applied functions, parameters and return operations of emitted
functions, output roots) can miss; every id that is mentioned resolves in the store. -/
theorem trace_compile_no_missing (cs : List Cmd) (outs : List OutDecl)
    (ho : OutsFromRegs (runCmds {} cs).1.regs outs) : compile (runCmds {} cs).1.st outs ≠ .error .key := by
  have h := trace_stored cs
  exact compile_nk _ (closed_of_stoL _ h.1) outs (outs_stored h ho)

/-- … the same at any later point of a history that continues the trace (C08: nothing the later program needs
is missing, whatever was traced, compiled or failed before). -/
theorem history_compile_no_missing (cs more : List Cmd) (outs : List OutDecl)
    (ho : OutsFromRegs (runCmds (runCmds {} cs).1 more).1.regs outs) :
    compile (runCmds (runCmds {} cs).1 more).1.st outs ≠ .error .key := by
  have h := runCmds_sto more _ (trace_stored cs)
  exact compile_nk _ (closed_of_stoL _ h.1) outs (outs_stored h ho)

/-- every record of the traced store mentions only stored ids — operands, applied functions, a function's return
operation and its parameters -/
theorem trace_store_closed (cs : List Cmd) (k : Id) (op : AstOp) (h : (runCmds {} cs).1.st.lookup k = some op) :
    ∀ c ∈ op.mentions, ∃ o, (runCmds {} cs).1.st.lookup c = some o :=
  closed_of_stoL _ (trace_stored cs).1 k op h

/-! Non-vacuity: a concrete store and compilation satisfying the hypotheses. -/
def exSt : St := St.mk 3
  [(3, .binary "Addition" 1 2 (.scalar "SecretInteger")),
   (2, .input "b" "P" "" (.scalar "SecretInteger")), (1, .input "a" "P" "" (.scalar "SecretInteger"))] []
example : storeWF exSt = true ∧
    (compile exSt [OutDecl.mk 3 "o" "P"]).toOption.isSome = true := by decide
/-- a traced program (two inputs, a sum, the sum as output) meeting `OutsFromRegs` -/
def exCmds : List Cmd := [.party "P", .inputObj "a" "" 0, .wrap ⟨.sec, .int⟩ 1, .inputObj "b" "" 0, .wrap ⟨.sec, .int⟩ 3, .bin .add 2 4]
example : (runCmds {} exCmds).1.regs[5]? = some (.val (.scalar ⟨.sec, .int⟩ (some 3) none)) ∧
    (compile (runCmds {} exCmds).1.st [OutDecl.mk 3 "o" "P"]).toOption.isSome = true := by decide

end NadaVerif.C01
