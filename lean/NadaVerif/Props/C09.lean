/-
C09 — MIR tables hold exactly what the outputs need, each entry once.

Proved for every store and output list (induction over the traversal, `Lemmas/Exact.lean`,
`Lemmas/CompileClosed.lean`): no dead operation in the program table or in any function table, no
id filed twice, outputs in declaration order.  The list-level clauses (functions / inputs /
literals / parties exactly the referenced ones, literal entries carry the written value) are
stated as the executable spec `Spec.exact`, evaluated on every model MIR and mirrored by the
Python oracle on every real MIR; their proofs are work in progress (see DESIGN.md).
-/
import NadaVerif.Lemmas.Exact
import NadaVerif.Lemmas.FnExact
import NadaVerif.Lemmas.AccExact
import NadaVerif.Props.C01

namespace NadaVerif.C09
open NadaVerif NadaVerif.Spec NadaVerif.Lemmas

/-- Every entry of the program table is reachable from an output, every entry of a function table
from the function's return operation (nothing dead is emitted). -/
theorem no_dead_ops (st : St) (outs : List OutDecl) (m : MirProg) (h : compile st outs = .ok m) :
    (∀ e ∈ m.operations, Reach st (outs.map (·.root)) e.1) ∧
    (∀ f ∈ m.functions, ∀ e ∈ f.ops, Reach st [f.returnOp] e.1) :=
  compile_no_dead_ops st outs m h

/-- Nothing needed is missing: every table is closed under operand references and contains its
roots (outputs / return operation); no id is listed twice. -/
theorem nothing_missing_nothing_twice (st : St) (outs : List OutDecl) (m : MirProg)
    (h : compile st outs = .ok m) :
    (∀ t ∈ allTables m, tableClosed t = true ∧ (keys t).Nodup) ∧
    (∀ o ∈ m.outputs, HasKey m.operations o.opId) ∧ (∀ f ∈ m.functions, HasKey f.ops f.returnOp) := by
  obtain ⟨hp, ho, hf, _⟩ := compile_good st outs m h
  refine ⟨?_, ho, fun f hfm => (hf f hfm).2⟩
  intro t ht
  simp only [allTables, List.mem_cons, List.mem_map] at ht
  rcases ht with rfl | ⟨f, hfm, rfl⟩
  · exact ⟨closed_of_inv hp.1, hp.2.1⟩
  · exact ⟨closed_of_inv (hf f hfm).1.1, (hf f hfm).1.2.1⟩

/-- Every emitted entry is the store's own record: the MIR says about an operation exactly what
was traced for it (in particular a literal reference carries the index interned for its value). -/
theorem entries_are_store_records (st : St) (outs : List OutDecl) (m : MirProg)
    (h : compile st outs = .ok m) : ∀ t ∈ allTables m, ∀ e ∈ t, st.lookup e.1 = some e.2 := by
  obtain ⟨hp, _, hf, _⟩ := compile_good st outs m h
  intro t ht
  simp only [allTables, List.mem_cons, List.mem_map] at ht
  rcases ht with rfl | ⟨f, hfm, rfl⟩
  · exact hp.2.2
  · exact (hf f hfm).1.2.2

/-- No function is listed twice, and every function reference of every table names a listed function. -/
theorem functions_once_and_present (st : St) (outs : List OutDecl) (m : MirProg) (h : compile st outs = .ok m) :
    (m.functions.map (·.id)).Nodup ∧
    ∀ t ∈ allTables m, ∀ e ∈ t, ∀ f, e.2.fnRef = some f → f ∈ m.functions.map (·.id) := by
  obtain ⟨hn, hc⟩ := compile_fn_resolve st outs m h
  refine ⟨hn, fun t ht e he f hf => ?_⟩
  have := hc t ht e he f hf
  simp only [count] at this
  have hne : (List.filter (fun x => decide (x = f)) (m.functions.map (·.id))) ≠ [] := by
    intro h0; rw [h0] at this; simp at this
  obtain ⟨x, hx⟩ := List.exists_mem_of_ne_nil _ hne
  have := List.mem_filter.1 hx
  simp only [decide_eq_true_eq] at this
  exact this.2 ▸ this.1

/-- No input name and no literal name is listed twice; every input / literal reference of every table has its entry. -/
theorem inputs_literals_once_and_present (st : St) (outs : List OutDecl) (m : MirProg) (h : compile st outs = .ok m) :
    (m.inputs.map (·.name)).Nodup ∧ (m.literals.map (·.name)).Nodup ∧
    ∀ t ∈ allTables m, ∀ e ∈ t,
      (∀ n p d ty, e.2 = .input n p d ty → (⟨n, ty, p, d, e.1⟩ : MirInput) ∈ m.inputs) ∧
      (∀ v i ty, e.2 = .literal v i ty → count (toString i) (m.literals.map (·.name)) = 1) := by
  obtain ⟨h1, _, h3, hc⟩ := compile_acc st outs m h
  exact ⟨h1, h3, fun t ht e he => ⟨fun n p d ty heq => ((hc t ht e he).1 n p d ty heq).1, (hc t ht e he).2⟩⟩

/-- **No entry a traced program refers to is missing from the store the tables are filled from**: compiling any
traced program with outputs taken from its registers never fails on a missing id (so "missing" in
`nothing_missing_nothing_twice` cannot be hidden behind a failed compilation). -/
theorem traced_nothing_missing (cs : List Cmd) (outs : List OutDecl)
    (ho : C01.OutsFromRegs (runCmds {} cs).1.regs outs) : compile (runCmds {} cs).1.st outs ≠ .error .key :=
  C01.trace_compile_no_missing cs outs ho

/-- Non-vacuity and a concrete dead-code example: operation 4 is traced but no output needs it. -/
def exSt : St := St.mk 4
  [(4, .binary "Multiplication" 1 2 (.scalar "SecretInteger")),
   (3, .binary "Addition" 1 2 (.scalar "SecretInteger")),
   (2, .input "b" "P" "" (.scalar "SecretInteger")), (1, .input "a" "P" "" (.scalar "SecretInteger"))] []
example : (compile exSt [OutDecl.mk 3 "o" "P"]).toOption.map (fun m => (keys m.operations, Spec.exact m)) =
    some ([3, 2, 1], true) := by decide

end NadaVerif.C09
