/-
C15 — the abstract interpreter agrees with the real DSL on types and values.

* `abstract_accepts_when_real` (decide +kernel over two regenerated tables — T1 from the real
  classes, T5 from nada_dsl.audit): for every operator the abstract interpreter models and every
  combination of integer / boolean operand classes, if the real DSL accepts, the abstract
  interpreter accepts and returns the class of the same name.
* value exactness, for all `Int` values, of the value-propagation expressions translated
  syntactically from abstract.py (`absValueExpr`): sums, differences, products, negation,
  comparisons, and the conditional.
-/
import NadaVerif.Spec.C15

namespace NadaVerif.C15
open NadaVerif NadaVerif.Generated NadaVerif.Py

theorem abstract_accepts_when_real : scalarTables.all (·.all cellAgrees) = true := by decide +kernel

/-- every modelled operator has rows for the three integer classes (the tables are not vacuous) -/
theorem abstract_table_covers :
    (["add", "sub", "mul", "lt", "le", "gt", "ge", "eq", "ne"].all fun op =>
      ["Integer", "PublicInteger", "SecretInteger"].all fun a =>
        ["Integer", "PublicInteger", "SecretInteger"].all fun b => (lookupAbs op [a, b]).isSome) = true := by
  decide +kernel

theorem abs_arith_exact (x y : Int) :
    eval (absValueExpr "add") (.int x) (.int y) = .ok (.int (x + y)) ∧
    eval (absValueExpr "sub") (.int x) (.int y) = .ok (.int (x - y)) ∧
    eval (absValueExpr "mul") (.int x) (.int y) = .ok (.int (x * y)) ∧
    eval (absValueExpr "neg") (.int x) (.int y) = .ok (.int (-x)) ∧
    eval (absValueExpr "pos") (.int x) (.int y) = .ok (.int x) := by
  refine ⟨rfl, rfl, rfl, rfl, rfl⟩

theorem abs_cmp_exact (x y : Int) :
    eval (absValueExpr "lt") (.int x) (.int y) = .ok (.bool (decide (x < y))) ∧
    eval (absValueExpr "le") (.int x) (.int y) = .ok (.bool (decide (x ≤ y))) ∧
    eval (absValueExpr "gt") (.int x) (.int y) = .ok (.bool (decide (x > y))) ∧
    eval (absValueExpr "ge") (.int x) (.int y) = .ok (.bool (decide (x ≥ y))) ∧
    eval (absValueExpr "eq") (.int x) (.int y) = .ok (.bool (decide (x = y))) ∧
    eval (absValueExpr "ne") (.int x) (.int y) = .ok (.bool (decide (x ≠ y))) := by
  refine ⟨rfl, rfl, rfl, rfl, rfl, rfl⟩

/-- the conditional selects the branch the condition says, for all values (0 included) -/
theorem abs_ifElse_exact (c : Bool) (x y : Int) :
    eval3 (absValueExpr "ifElse") (.int x) (.int y) (.bool c) = .ok (.int (if c then x else y)) := by
  cases c <;> rfl

example : eval3 (absValueExpr "ifElse") (.int 0) (.int 5) (.bool true) = .ok (.int 0) := by rfl

end NadaVerif.C15
