/-
Layer B — `compiler_frontend.nada_dsl_to_nada_mir` statement by statement (DESIGN Appendix B):
per-output iterative DFS into one shared operation table, discovery of functions, the function
worklist of `to_mir_function_list`, and the rendering of the party / input / literal lists.
-/
import NadaVerif.Trace

namespace NadaVerif

/-- An output declaration `Output(value, name, party)` as the compiler sees it. -/
structure OutDecl where
  root : Id            -- `output.child.child.id`
  name : String
  party : String
  deriving Repr, Inhabited, DecidableEq

structure MirInput where
  name : String
  ty : MTy
  party : String
  doc : String
  id : Id
  deriving Repr, Inhabited, DecidableEq

structure MirLiteral where
  name : String        -- the literal index as a string
  value : String
  ty : MTy
  deriving Repr, Inhabited, DecidableEq

structure MirOutput where
  opId : Id
  name : String
  party : String
  ty : MTy
  deriving Repr, Inhabited, DecidableEq

structure MirFn where
  id : Id
  args : List (String × MTy)
  name : String
  returnOp : Id
  ops : List (Id × AstOp)          -- the function's own table, in insertion order
  returnType : MTy
  deriving Repr, Inhabited, DecidableEq

structure MirProg where
  functions : List MirFn
  parties : List String
  inputs : List MirInput
  literals : List MirLiteral
  outputs : List MirOutput
  operations : List (Id × AstOp)   -- the program table, in insertion order
  deriving Repr, Inhabited, DecidableEq

/-- The per-compilation globals `INPUTS` (party ↦ name ↦ input, parties kept sorted), `PARTIES`
(sorted), `LITERALS` (index ↦ (value, type), insertion order). -/
structure CAcc where
  inputs : List (String × List MirInput) := []
  parties : List String := []
  literals : List MirLiteral := []
  deriving Repr, Inhabited

def insertSorted (x : String) : List String → List String
  | [] => [x]
  | y :: ys => if x = y then y :: ys else if x < y then x :: y :: ys else y :: insertSorted x ys

def insertParty (p : String) (xs : List (String × List MirInput)) : List (String × List MirInput) :=
  match xs with
  | [] => [(p, [])]
  | (q, is) :: rest =>
    if p = q then xs else if p < q then (p, []) :: xs else (q, is) :: insertParty p rest

def upsertInput (i : MirInput) : List MirInput → List MirInput
  | [] => [i]
  | j :: js => if j.name = i.name then i :: js else j :: upsertInput i js

def upsertLiteral (l : MirLiteral) : List MirLiteral → List MirLiteral
  | [] => [l]
  | m :: ms => if m.name = l.name then l :: ms else m :: upsertLiteral l ms

/-- `add_input_to_map` (with the repaired duplicate test: any party). -/
def addInput (acc : CAcc) (i : MirInput) : Except Err CAcc :=
  let parties := insertSorted i.party acc.parties
  let inputs := insertParty i.party acc.inputs
  if inputs.any (fun (_, is) => is.any (fun j => j.name = i.name ∧ j.id ≠ i.id)) then .error .compiler
  else
    .ok { acc with parties := parties,
                   inputs := inputs.map (fun (p, is) => if p = i.party then (p, upsertInput i is) else (p, is)) }

def upsertFn (f : Id × AstOp) : List (Id × AstOp) → List (Id × AstOp)
  | [] => [f]
  | g :: gs => if g.1 = f.1 then f :: gs else g :: upsertFn f gs

/-- `process_operation`: side effects on the accumulators and the optional newly discovered function. -/
def processOp (st : St) (k : Id) (op : AstOp) (functions : List (Id × AstOp)) (acc : CAcc) :
    Except Err (CAcc × Option (Id × AstOp)) :=
  match op with
  | .input name party doc ty => do
      let acc ← addInput acc { name := name, ty := ty, party := party, doc := doc, id := k }
      .ok (acc, none)
  | .literal value index ty =>
      .ok ({ acc with literals := upsertLiteral { name := toString index, value := value, ty := ty } acc.literals }, none)
  | .map _ fn _ | .reduce _ fn _ _ | .call _ fn _ =>
      if functions.any (·.1 = fn) then .ok (acc, none)
      else match st.lookup fn with
        | some f => .ok (acc, some (fn, f))
        | none => .error .key
  | .function .. =>
      if functions.any (·.1 = k) then .ok (acc, none) else .ok (acc, some (k, op))
  | _ => .ok (acc, none)

/-- Fuel that always suffices for one traversal (see `Lemmas/Graph.lean`). -/
def St.fuel (st : St) : Nat := 1 + (st.ops.map fun p => 1 + p.2.children.length).sum

/-- `traverse_and_process_operations`: iterative DFS. `stack` head = top of the Python list. -/
def traverse (st : St) (functions : List (Id × AstOp)) :
    Nat → List Id → List (Id × AstOp) → List (Id × AstOp) → CAcc →
    Except Err (List (Id × AstOp) × List (Id × AstOp) × CAcc)
  | _, [], table, extra, acc => .ok (table, extra, acc)
  | 0, _ :: _, _, _, _ => .error .unsupported
  | fuel + 1, k :: stack, table, extra, acc =>
    if table.any (·.1 = k) then traverse st functions fuel stack table extra acc
    else match st.lookup k with
      | none => .error .key
      | some op =>
        match processOp st k op functions acc with
        | .error e => .error e
        | .ok (acc, ex) =>
          let extra := match ex with | some f => upsertFn f extra | none => extra
          traverse st functions fuel (op.children.reverse ++ stack) (table ++ [(k, op)]) extra acc

def mergeFns (fs extra : List (Id × AstOp)) : List (Id × AstOp) := extra.foldl (fun acc f => upsertFn f acc) fs

/-- `AST_OPERATIONS[arg]` for one parameter id: its name and type -/
def argOf (st : St) (a : Id) : Except Err (String × MTy) :=
  match st.lookup a with
  | some (.argRef n _ t) => .ok (n, t)
  | some _ => .error .T
  | none => .error .key

/-- `NadaFunctionASTOperation.to_mir(operations)` -/
def fnToMir (st : St) (k : Id) (f : AstOp) (table : List (Id × AstOp)) : Except Err MirFn :=
  match f with
  | .function name args child ty => do
    let as ← args.mapM (argOf st)
    .ok { id := k, args := as, name := name, returnOp := child, ops := table, returnType := ty }
  | _ => .error .T

/-- `to_mir_function_list`: worklist over the discovered functions (pop from the end). -/
def emitFunctions (st : St) :
    Nat → List (Id × AstOp) → List (Id × AstOp) → List MirFn → CAcc → Except Err (List MirFn × CAcc)
  | _, [], _, out, acc => .ok (out, acc)
  | 0, _ :: _, _, _, _ => .error .unsupported
  | fuel + 1, (k, f) :: stack, functions, out, acc =>
    match f with
    | .function _ _ child _ =>
      match traverse st functions st.fuel [child] [] [] acc with
      | .error e => .error e
      | .ok (table, extra, acc) =>
        match fnToMir st k f table with
        | .error e => .error e
        | .ok mf =>
          -- `stack.extend(extra.values())`: the last discovered is popped first
          emitFunctions st fuel (extra.reverse ++ stack) (mergeFns functions extra) (out ++ [mf]) acc
    | _ => .error .T

def compileOutputs (st : St) :
    List OutDecl → List (Id × AstOp) → List (Id × AstOp) → List MirOutput → CAcc →
    Except Err (List (Id × AstOp) × List (Id × AstOp) × List MirOutput × CAcc)
  | [], table, functions, outs, acc => .ok (table, functions, outs, acc)
  | o :: os, table, functions, outs, acc =>
    match traverse st functions st.fuel [o.root] table [] acc with
    | .error e => .error e
    | .ok (table, extra, acc) =>
      match st.lookup o.root with
      | none => .error .key
      | some op =>
        let acc := { acc with parties := insertSorted o.party acc.parties }
        compileOutputs st os table (mergeFns functions extra)
          (outs ++ [{ opId := o.root, name := o.name, party := o.party, ty := op.ty }]) acc

/-- `nada_dsl_to_nada_mir(outputs)` (all four per-compilation tables start empty). -/
def compile (st : St) (outs : List OutDecl) : Except Err MirProg := do
  let (table, functions, mouts, acc) ← compileOutputs st outs [] [] [] {}
  -- the function worklist starts from `list(FUNCTIONS.values())`, popped from the end
  let (fns, acc) ← emitFunctions st (st.ops.length + 1) functions.reverse functions [] acc
  .ok { functions := fns, parties := acc.parties,
        inputs := acc.inputs.flatMap (·.2),
        literals := acc.literals, outputs := mouts, operations := table }

end NadaVerif
