/-
Layer A — the scalar typing kernel of `nada_dsl/nada_types/scalar_types.py`.

Hand-written closed form of the typing rules.  It is tied to the code by
`Generated/ScalarTable.lean` (translator T1: exhaustive evaluation of the real
classes) through the obligations `scalarTable_eq_model*` in `Props/C02.lean`.
-/

namespace NadaVerif

inductive Mode where
  | const | pub | sec
  deriving DecidableEq, Repr, Inhabited

inductive Base where
  | bool | int | uint
  deriving DecidableEq, Repr, Inhabited

def Mode.rank : Mode → Nat
  | .const => 1 | .pub => 2 | .sec => 3

def Mode.max (a b : Mode) : Mode := if a.rank ≤ b.rank then b else a

def Base.isNumeric : Base → Bool
  | .bool => false | _ => true

structure STy where
  mode : Mode
  base : Base
  deriving DecidableEq, Repr, Inhabited

def STy.all : List STy :=
  [⟨.const, .int⟩, ⟨.const, .uint⟩, ⟨.const, .bool⟩,
   ⟨.pub, .int⟩, ⟨.pub, .uint⟩, ⟨.pub, .bool⟩,
   ⟨.sec, .int⟩, ⟨.sec, .uint⟩, ⟨.sec, .bool⟩]

/-- Python class name. -/
def STy.pyName (t : STy) : String :=
  let m := match t.mode with | .const => "" | .pub => "Public" | .sec => "Secret"
  let b := match t.base with | .bool => "Boolean" | .int => "Integer" | .uint => "UnsignedInteger"
  m ++ b

/-- `NadaType.class_to_mir`: the class name with a leading `Public` removed. -/
def STy.mirName (t : STy) : String :=
  let m := match t.mode with | .const => "" | .pub => "" | .sec => "Secret"
  let b := match t.base with | .bool => "Boolean" | .int => "Integer" | .uint => "UnsignedInteger"
  m ++ b

inductive BinOp where
  | add | sub | mul | div | mod | pow | shl | shr
  | lt | gt | le | ge | eq | ne | and | or | xor
  deriving DecidableEq, Repr, Inhabited

def BinOp.all : List BinOp :=
  [.add, .sub, .mul, .div, .mod, .pow, .shl, .shr, .lt, .gt, .le, .ge, .eq, .ne, .and, .or, .xor]

/-- Name of the operation class recorded in the MIR. -/
def BinOp.mirName : BinOp → String
  | .add => "Addition" | .sub => "Subtraction" | .mul => "Multiplication"
  | .div => "Division" | .mod => "Modulo" | .pow => "Power"
  | .shl => "LeftShift" | .shr => "RightShift"
  | .lt => "LessThan" | .gt => "GreaterThan" | .le => "LessOrEqualThan" | .ge => "GreaterOrEqualThan"
  | .eq => "Equals" | .ne => "NotEquals"
  | .and => "BooleanAnd" | .or => "BooleanOr" | .xor => "BooleanXor"

inductive OpClass where
  | arith | power | shift | rel | eqop | logic
  deriving DecidableEq, Repr

def BinOp.cls : BinOp → OpClass
  | .add | .sub | .mul | .div | .mod => .arith
  | .pow => .power
  | .shl | .shr => .shift
  | .lt | .gt | .le | .ge => .rel
  | .eq | .ne => .eqop
  | .and | .or | .xor => .logic

/-- Outcome of applying an operator: rejected, or a value of type `t`; `folded` says that no
operation node was recorded (the result is a literal computed at trace time), `alias` that the
operand itself was returned (`to_public` on a non-secret). -/
inductive Out where
  | reject
  | ok (t : STy) (folded : Bool)
  deriving DecidableEq, Repr, Inhabited

def Out.accepted : Out → Bool
  | .reject => false | .ok _ _ => true

/-- `Mode(max([left.mode.value, right.mode.value]))`; folding happens iff that is `CONSTANT`. -/
def okMax (m : Mode) (b : Base) : Out := .ok ⟨m, b⟩ (m == .const)

/-- The typing rule of every binary dunder of the scalar classes. -/
def typeBin (op : BinOp) (l r : STy) : Out :=
  let m := Mode.max l.mode r.mode
  match op.cls with
  | .arith => if l.base = r.base ∧ l.base.isNumeric then okMax m l.base else .reject
  | .power =>
      if l.base = r.base ∧ l.base.isNumeric then
        match m with
        | .const => .ok ⟨.const, l.base⟩ true
        | .pub => .ok ⟨.pub, l.base⟩ false
        | .sec => .reject
      else .reject
  | .shift =>
      if l.base.isNumeric ∧ r.base = .uint ∧ r.mode ≠ .sec then okMax m l.base else .reject
  | .rel => if l.base = r.base ∧ l.base.isNumeric then okMax m .bool else .reject
  | .eqop => if l.base = r.base then okMax m .bool else .reject
  | .logic => if l.base = r.base ∧ l.base = .bool then okMax m .bool else .reject

/-- `cond.if_else(a, b)`. -/
def typeIfElse (c a b : STy) : Out :=
  if c.base = .bool ∧ a.base = b.base ∧ a.base ≠ .bool ∧ c.mode ≠ .const then
    .ok ⟨Mode.max c.mode (Mode.max a.mode b.mode), a.base⟩ false
  else .reject

/-- `~x`. -/
def typeInvert (t : STy) : Out :=
  if t.base = .bool then .ok t (t.mode == .const) else .reject

/-- `x.to_public()`: a `Reveal` node for secrets; for non-secrets the operand itself is returned
(no node: reported as `folded = true`). -/
def typeReveal (t : STy) : Out :=
  match t.mode with
  | .sec => .ok ⟨.pub, t.base⟩ false
  | _ => .ok t true

/-- `x.trunc_pr(y)`. -/
def typeTruncPr (l r : STy) : Out :=
  if l.mode = .sec ∧ l.base.isNumeric ∧ r.base = .uint ∧ r.mode ≠ .sec then .ok l false else .reject

/-- `x.public_equals(y)`; the method is absent on literals and on `SecretBoolean`. -/
def typePublicEquals (l r : STy) : Out :=
  if l.mode ≠ .const ∧ ¬ (l.mode = .sec ∧ l.base = .bool) ∧ l.base = r.base ∧ r.mode ≠ .const then
    .ok ⟨.pub, .bool⟩ false
  else .reject

/-- `T.random()`. -/
def typeRandom (t : STy) : Out :=
  if t.mode = .sec then .ok t false else .reject

end NadaVerif
