/-
Layer B — the tracing DSL as a state machine (DESIGN §4 layer B, Appendix A).

A program is a flat list of commands over registers; `@nada_fn` bodies are bracketed by
`beginFn … endFn` because that is how Python executes them (the body is traced in the middle of
the outer trace, ids interleaved).  `exec` allocates ids and stores records in exactly the order
the Python does; on failure the state keeps the partial effects made before the exception.
-/
import NadaVerif.Val
import NadaVerif.Generated.FoldOps

namespace NadaVerif
open NadaVerif.Py NadaVerif.Generated

abbrev Reg := Nat

/-- Parameter annotations accepted by `contained_types`. -/
inductive Ann where
  | scalar (t : STy)
  | array (inner : Ann)
  | bareArray
  deriving DecidableEq, Repr, Inhabited

inductive Cmd where
  | party (name : String)
  | inputObj (name doc : String) (party : Reg)
  | wrap (t : STy) (inp : Reg)                          -- `T(inp)`
  | arrayOf (src : Reg) (size : Option Int)             -- `Array(src, size=…)`
  | lit (base : Base) (v : LitVal)
  | bin (op : BinOp) (a b : Reg)
  | invert (a : Reg) | reveal (a : Reg)
  | truncPr (a b : Reg) | publicEquals (a b : Reg)
  | ifElse (c a b : Reg)
  | random (t : STy)
  | radd (k : Int) (a : Reg)                            -- `k + a` with a Python int on the left
  | arrayNew (xs : List Reg) | tupleNew (a b : Reg) | ntupleNew (xs : List Reg)
  | objectNew (fs : List (String × Reg))
  | ntupleGet (t : Reg) (i : Int) | objectGet (o : Reg) (key : String)
  | zip (a b : Reg) | unzip (a : Reg)
  | map (a f : Reg) | reduce (a f init : Reg) | innerProduct (a b : Reg)
  | beginFn (name : String) (params : List (String × Ann))
  | endFn (ret : Reg) (retAnn : STy)
  | call (f : Reg) (args : List Reg) (kws : List (String × Reg) := [])    -- `f(*args, **kws)`, keywords in written order
  | nop                                                 -- binds a dead register (placeholder of a dropped command)
  deriving Repr, Inhabited

/-- The tracing globals: `OPERATION_ID_COUNTER`, `AST_OPERATIONS` (association list, newest
binding first — assignment overwrites), `ast_util.LITERALS` (keys in insertion order; the index of a
key is its position). -/
structure St where
  counter : Nat := 0
  ops : List (Id × AstOp) := []
  lits : List String := []
  deriving Repr, Inhabited

def St.lookup (s : St) (k : Id) : Option AstOp := (s.ops.find? (·.1 == k)).map (·.2)

structure Frame where
  fid : Id
  name : String
  params : List (Id × Val)      -- NadaFunctionArg id and its type template
  pnames : List String := []    -- parameter names, in declaration order
  deriving Repr, Inhabited

abbrev M := ExceptT Err (StateM St)

def alloc : M Id := do
  let s ← get
  set { s with counter := s.counter + 1 }
  pure (s.counter + 1)

def put (k : Id) (op : AstOp) : M Unit := modify fun s => { s with ops := (k, op) :: s.ops }

/-- `LiteralASTOperation.__init__`: index of the key in `LITERALS`, inserted if new. -/
def litIndex (key : String) : M Nat := do
  let s ← get
  match s.lits.idxOf? key with
  | some i => pure i
  | none =>
    set { s with lits := s.lits ++ [key] }
    pure s.lits.length

def litKey (v : LitVal) (t : STy) : String := v.str ++ t.mirName

/-- `Integer(v)` / `UnsignedInteger(v)` / `Boolean(v)`: draw an id, intern the literal, store it. -/
def mkLiteral (base : Base) (v : LitVal) : M Val := do
  let t : STy := ⟨.const, base⟩
  let k ← alloc
  let i ← litIndex (litKey v t)
  put k (.literal v.str i (.scalar t.mirName))
  pure (.scalar t (some k) (some v))

def liftE {α} (e : Except Err α) : M α :=
  match e with | .ok a => pure a | .error e => throw e

def getVal (regs : List RVal) (r : Reg) : M Val :=
  match regs[r]? with
  | some (.val v) => pure v
  | some .dead | none => throw .dead
  | some _ => throw .unsupported

def getScalar (regs : List RVal) (r : Reg) : M (STy × Id × Option LitVal) := do
  match ← getVal regs r with
  | .scalar t (some c) l => pure (t, c, l)
  | _ => throw .unsupported

def childOf (v : Val) : M Id :=
  match v.child with | some c => pure c | none => throw .unsupported

def toPy : LitVal → PyVal
  | .int v => .int v | .bool b => .bool b

def ofPy (base : Base) : PyVal → Option LitVal
  | .int v => if base = .bool then none else some (.int v)
  | .bool b => if base = .bool then some (.bool b) else none
  | .quot _ _ => none

def pyErr : PyErr → Err
  | .zeroDiv => .zeroDiv | .valueErr => .value | .typeErr => .T | .overflow => .zeroDiv
  | .modelGap => .unsupported

/-- Result of a scalar operation: a folded literal, or a recorded node. -/
def scalarResult (out : Out) (foldE : Option (PyExpr × Base)) (l r : Option LitVal)
    (mkOp : MTy → AstOp) : M Val :=
  match out with
  | .reject => throw .T
  | .ok _ true =>
    match foldE, l, r with
    | some (e, base), some lv, some rv => do
      match eval e (toPy lv) (toPy rv) with
      | .error pe => throw (pyErr pe)
      | .ok pv =>
        match ofPy base pv with
        | some v => mkLiteral base v
        | none => throw .unsupported
    | _, _, _ => throw .unsupported
  | .ok t false => do
    let k ← alloc
    put k (mkOp (.scalar t.mirName))
    pure (.scalar t (some k) none)

/-- `contained_types(ty)`: the template value of a parameter annotation (literal-typed parameters
build a real literal `T(value=0)`, consuming an id). -/
def template : Ann → M Val
  | .scalar t =>
    if t.mode = .const then mkLiteral t.base (if t.base = .bool then .bool false else .int 0)
    else pure (.scalar t none none)
  | .array inner => do
    let v ← template inner
    pure (.array (.inst v) none none)
  | .bareArray => throw .T          -- a bare `Array` annotation is rejected (it would record the type variable "T")

def Val.withChild (v : Val) (c : Id) : Val :=
  match v with
  | .scalar t _ l => .scalar t (some c) l
  | .array e n _ => .array e n (some c)
  | .tuple l r _ => .tuple l r (some c)
  | .ntuple vs _ => .ntuple vs (some c)
  | .object fs _ => .object fs (some c)

def isLiteralScalar : Val → Bool
  | .scalar t _ _ => t.mode = .const
  | _ => false

/-- Same Python class (`isinstance(arg, type(first))`). -/
def sameClass : Val → Val → Bool
  | .scalar a _ _, .scalar b _ _ => a = b
  | .array .., .array .. | .tuple .., .tuple .. | .ntuple .., .ntuple .. | .object .., .object .. => true
  | _, _ => false

def childIds (vs : List Val) : M (List Id) := vs.mapM childOf

/-- `_generate_accessor(value, accessor)` where the accessor drew id `k`. -/
def genAccessor (member : Val) (k : Id) (mk : MTy → AstOp) : M Val :=
  match member with
  | .scalar t _ _ =>
    if t.mode = .const then pure member          -- the member itself; `k` is never stored
    else do put k (mk (.scalar t.mirName)); pure (.scalar t (some k) none)
  | .tuple .. => throw .T                         -- "Unsupported type for accessor"
  | v => do
    let v' := v.withChild k
    let ty ← liftE v'.toMir
    put k (mk ty)
    pure v'

/-- Attribute names that shadow `Object.__getattr__`. -/
def reservedKeys : List String :=
  ["values", "child", "new", "to_mir", "class_to_mir", "retrieve_inner_type", "is_scalar", "is_literal",
   "left_type", "right_type", "contained_type"]

/-- The scalar class held as a `contained_type` (a class or an instance of it). -/
def Elem.scalarClass : Elem → Option STy
  | .cls t | .inst (.scalar t _ _) => some t
  | _ => none

/-- Integer test of `inner_product` after the repair of `is_primitive_integer`. -/
def isIntegerTy : MTy → Bool
  | .scalar n => n ∈ ["Integer", "SecretInteger", "UnsignedInteger", "SecretUnsignedInteger"]
  | _ => false

/-- `nada_fn`: one `NadaFunctionArg` per parameter, left to right — the template (a literal-typed parameter
builds a real literal first), then the argument's id, then its record. Returns the (id, template) pairs
and the values bound to the parameter registers. -/
def bindParams (fid : Id) : List (String × Ann) → M (List (Id × Val) × List RVal)
  | [] => pure ([], [])
  | (pname, ann) :: rest => do
    let tmpl ← template ann
    let p ← alloc
    let ty ← liftE tmpl.toMir
    put p (.argRef pname fid ty)
    let (ps, bound) ← bindParams fid rest
    pure ((p, tmpl) :: ps, .val (tmpl.withChild p) :: bound)

/-- `Array.__init__`: the size must be a positive integer (and is required when an array is built from a value) -/
def sizeRejected : Option Int → Bool
  | some n => decide (n < 1)
  | none => true

/-- Execute one command. Returns the values bound to the new registers and the new frame stack. -/
def exec (regs : List RVal) (frames : List Frame) (c : Cmd) : M (List RVal × List Frame) := do
  let one (v : Val) : M (List RVal × List Frame) := pure ([.val v], frames)
  match c with
  | .nop => throw .dead
  | .party n => pure ([.party n], frames)
  | .inputObj name doc p =>
    match regs[p]? with
    | some (.party pn) => do
      let k ← alloc
      pure ([.input k name pn doc], frames)
    | some .dead | none => throw .dead
    | _ => throw .unsupported
  | .wrap t r =>
    match regs[r]? with
    | some (.input k name pn doc) =>
      if t.mode = .const then throw .unsupported else do
      put k (.input name pn doc (.scalar t.mirName))
      one (.scalar t (some k) none)
    | some .dead | none => throw .dead
    | _ => throw .unsupported
  | .arrayOf r size => do
    -- `Array.__init__`: the size must be a positive integer (and is required on this path)
    if sizeRejected size then throw .value else
    let v ← getVal regs r
    let c ← childOf v
    let arr := Val.array (.inst v) size (some c)
    let ty ← liftE arr.toMir
    let s ← get
    match s.lookup c with
    | some (.input name pn doc _) => do put c (.input name pn doc ty); one arr
    | _ => throw .T                                    -- only an input record can be declared an array (repaired constructor)
  | .lit base v =>
    match base, v with
    | .bool, .bool _ | .int, .int _ | .uint, .int _ => do one (← mkLiteral base v)
    | _, _ => throw .unsupported
  | .bin op a b => do
    let (ta, ca, la) ← getScalar regs a
    let (tb, cb, lb) ← getScalar regs b
    one (← scalarResult (typeBin op ta tb) (some (foldExpr op ta.base, foldBase op ta.base)) la lb
          (fun ty => .binary op.mirName ca cb ty))
  | .invert a => do
    let (ta, ca, la) ← getScalar regs a
    one (← scalarResult (typeInvert ta) (some (invertExpr, .bool)) la la (fun ty => .unary "Not" ca ty))
  | .reveal a => do
    let (ta, ca, la) ← getScalar regs a
    match typeReveal ta with
    | .ok _ true => one (.scalar ta (some ca) la)          -- `to_public` on a non-secret returns `self`
    | out => one (← scalarResult out none none none (fun ty => .unary "Reveal" ca ty))
  | .truncPr a b => do
    let (ta, ca, _) ← getScalar regs a
    let (tb, cb, _) ← getScalar regs b
    one (← scalarResult (typeTruncPr ta tb) none none none (fun ty => .binary "TruncPr" ca cb ty))
  | .publicEquals a b => do
    let (ta, ca, _) ← getScalar regs a
    let (tb, cb, _) ← getScalar regs b
    one (← scalarResult (typePublicEquals ta tb) none none none
          (fun ty => .binary "PublicOutputEquality" ca cb ty))
  | .ifElse c a b => do
    let (tc, cc, _) ← getScalar regs c
    let (ta, ca, _) ← getScalar regs a
    let (tb, cb, _) ← getScalar regs b
    one (← scalarResult (typeIfElse tc ta tb) none none none (fun ty => .ifElse cc ca cb ty))
  | .random t =>
    one (← scalarResult (typeRandom t) none none none (fun ty => .random ty))
  | .radd k a => do
    let (ta, ca, la) ← getScalar regs a
    if !ta.base.isNumeric then throw .unsupported else
    match ← mkLiteral ta.base (.int k) with
    | .scalar tl (some cl) ll =>
      -- `self.__add__(other_type)`: self on the left, the new literal on the right
      one (← scalarResult (typeBin .add ta tl) (some (foldExpr .add ta.base, foldBase .add ta.base)) la ll
            (fun ty => .binary BinOp.add.mirName ca cl ty))
    | _ => throw .unsupported
  | .arrayNew xs => do
    let vs ← xs.mapM (getVal regs)
    match vs with
    | [] => throw .value
    | first :: _ => do
      let fty ← liftE first.toMir
      let tys ← vs.mapM (fun v => liftE v.toMir)
      if !(vs.all (sameClass first ·) && tys.all (· = fty)) then throw .T else
      let k ← alloc
      let arr := Val.array (.inst first) (some vs.length) (some k)
      let ty ← liftE arr.toMir
      let ids ← childIds vs
      put k (.new "ArrayNew" ids ty)
      one arr
  | .tupleNew a b => do
    let va ← getVal regs a
    let vb ← getVal regs b
    let k ← alloc
    let tup := Val.tuple (.inst va) (.inst vb) (some k)
    let ty ← liftE tup.toMir
    let ids ← childIds [va, vb]
    put k (.new "TupleNew" ids ty)
    one tup
  | .ntupleNew xs => do
    let vs ← xs.mapM (getVal regs)
    let k ← alloc
    let nt := Val.ntuple (Vals.ofList vs) (some k)
    let ty ← liftE nt.toMir
    let ids ← childIds vs
    put k (.new "NTupleNew" ids ty)
    one nt
  | .objectNew fs => do
    let vs ← fs.mapM (fun (n, r) => do pure (n, ← getVal regs r))
    if (vs.map (·.1)).eraseDups.length ≠ vs.length then throw .unsupported else do
    let k ← alloc
    let ob := Val.object (VFields.ofList vs) (some k)
    let ty ← liftE ob.toMir
    let ids ← childIds (vs.map (·.2))
    put k (.new "ObjectNew" ids ty)
    one ob
  | .ntupleGet r i => do
    match ← getVal regs r with
    | .ntuple vs (some src) =>
      let members := vs.toList
      let n : Int := members.length
      -- negative indices count from the end (repaired `NTuple.__getitem__`)
      let j := if i < 0 then i + n else i
      if j < 0 ∨ j ≥ n then throw .index else do
      let k ← alloc
      match members[j.toNat]? with
      | some m => one (← genAccessor m k (fun ty => .ntupleAcc j src ty))
      | none => throw .index
    | _ => throw .unsupported
  | .objectGet r key => do
    match ← getVal regs r with
    | .object fs (some src) =>
      if key ∈ reservedKeys then throw .unsupported else
      match fs.toList.find? (·.1 == key) with
      | none => throw .T
      | some (_, m) => do
        let k ← alloc
        one (← genAccessor m k (fun ty => .objectAcc key src ty))
    | _ => throw .unsupported
  | .zip a b => do
    match ← getVal regs a, ← getVal regs b with
    | .array ea na (some ca), .array eb nb (some cb) =>
      if na ≠ nb then throw .incompatible else do
      let k ← alloc
      let arr := Val.array (.inst (.tuple ea eb none)) na (some k)
      let ty ← liftE arr.toMir
      put k (.binary "Zip" ca cb ty)
      one arr
    | _, _ => throw .unsupported
  | .unzip a => do
    match ← getVal regs a with
    | .array (.inst (.tuple l r _)) n (some ca) => do
      let k ← alloc
      let tup := Val.tuple (.arrayType l n) (.arrayType r n) (some k)
      let ty ← liftE tup.toMir
      put k (.unary "Unzip" ca ty)
      one tup
    | .array _ _ (some _) => throw .T             -- no `right_type` on the contained type
    | _ => throw .unsupported
  | .map a f => do
    match ← getVal regs a, regs[f]? with
    | .array _ n (some ca), some (.fn fid ret _) => do
      let k ← alloc
      let arr := Val.array (.cls ret) n (some k)
      let ty ← liftE arr.toMir
      put k (.map ca fid ty)
      one arr
    | _, some .dead => throw .dead
    | _, _ => throw .unsupported
  | .reduce a f init => do
    match ← getVal regs a, regs[f]?, ← getVal regs init with
    | .array _ _ (some ca), some (.fn fid ret _), vi => do
      let ci ← childOf vi
      let k ← alloc
      put k (.reduce ca fid ci (.scalar ret.mirName))
      one (.scalar ret (some k) none)
    | _, some .dead, _ => throw .dead
    | _, _, _ => throw .unsupported
  | .innerProduct a b => do
    match ← getVal regs a, ← getVal regs b with
    | .array ea na (some ca), .array eb nb (some cb) =>
      if na ≠ nb then throw .incompatible else do
      let ta ← liftE ea.innerType
      let tb ← liftE eb.innerType
      if !(isIntegerTy ta && isIntegerTy tb) then throw .invalidType else
      match ea.scalarClass, eb.scalarClass with
      | some tl, some tr =>
        if tl.base ≠ tr.base then throw .invalidType else
        let t : STy := ⟨Mode.max tl.mode tr.mode, tl.base⟩
        if t.mode = .const then throw .unsupported else do
        let k ← alloc
        put k (.binary "InnerProduct" ca cb (.scalar t.mirName))
        one (.scalar t (some k) none)
      | _, _ => throw .unsupported
    | _, _ => throw .unsupported
  | .beginFn name params => do
    let fid ← alloc
    let (ps, bound) ← bindParams fid params
    pure (bound, { fid := fid, name := name, params := ps, pnames := params.map (·.1) } :: frames)
  | .endFn ret retAnn =>
    match frames with
    | [] => throw .unsupported
    | fr :: rest =>
      match regs[ret]? with
      | some (.val v) =>
        if retAnn.mode = .const then throw .notAllowed
        else if fr.params.all (fun p => isLiteralScalar p.2) then throw .notAllowed
        else match v with
          -- `isinstance(child, return_type)` (repaired F-C03-1) and `child.child.id`
          | .scalar t (some c) _ =>
            if t ≠ retAnn then throw .T else do
            put fr.fid (.function fr.name (fr.params.map (·.1)) c (.scalar retAnn.mirName))
            pure ([.fn fr.fid retAnn fr.pnames], rest)
          | _ => throw .T
      | some .dead | none => throw .dead
      | _ => throw .unsupported
  | .call f args kws =>
    match regs[f]? with
    | some (.fn fid ret names) => do
      -- `NadaFunction.__call__`: positional arguments first, then every remaining parameter — in
      -- declaration order — must be given by keyword; nothing may be left over
      if args.length > names.length then throw .T else
      let rest := names.drop args.length
      match rest.mapM (fun n => (kws.find? (·.1 == n)).map (·.2)) with
      | none => throw .T
      | some kwRegs =>
      if kws.any (fun kv => !rest.contains kv.1) then throw .T else
      let vs ← (args ++ kwRegs).mapM (getVal regs)
      let k ← alloc
      let ids ← childIds vs
      put k (.call ids fid (.scalar ret.mirName))
      one (.scalar ret (some k) none)
    | some .dead | none => throw .dead
    | _ => throw .unsupported

/-- Number of registers a command binds (fixed, so register numbers are static). -/
def Cmd.arity : Cmd → Nat
  | .beginFn _ ps => ps.length
  | _ => 1

/-- The machine: tracing globals, registers, open function brackets. -/
structure Mach where
  st : St := {}
  regs : List RVal := []
  frames : List Frame := []
  deriving Repr, Inhabited

/-- One step: run `exec`; on failure keep the partial state effects, bind dead registers, and leave
the innermost function bracket if the failing command was its `endFn`. -/
def step (m : Mach) (c : Cmd) : Mach × Option Err :=
  match (exec m.regs m.frames c).run.run m.st with
  | (.ok (vals, frames), st) => ({ st := st, regs := m.regs ++ vals, frames := frames }, none)
  | (.error e, st) =>
    let frames := match c with | .endFn .. => m.frames.drop 1 | _ => m.frames
    ({ st := st, regs := m.regs ++ List.replicate c.arity .dead, frames := frames }, some e)

def runCmds (m : Mach) : List Cmd → Mach × List (Option Err)
  | [] => (m, [])
  | c :: cs =>
    let (m', e) := step m c
    let (m'', es) := runCmds m' cs
    (m'', e :: es)

end NadaVerif
