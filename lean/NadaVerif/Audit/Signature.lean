/-
Layer U — `nada_dsl.audit.signature` against the compiled interface (C18).

A program of the common subset, after Python has unrolled the host-language control flow (lists,
loops, comprehensions, helper functions leave no trace in either interpreter), is a straight-line
list of commands over registers.  Two interpreters consume it:

* `absStep` / `absRun` — abstract execution under `nada_dsl.audit`: `Party(..)`, `Input(..)` and
  `Output(..)` append to the aggregators `Abstract.parties / inputs / outputs` when they are
  *created*; wrapping an input records the wrapper's class as the input's `_type` (the last wrapper
  wins); operator result classes are looked up in the table regenerated from `abstract.py` (T5).
  `signature()` returns the three aggregators.
* `realStep` / `realRun` — the real DSL as far as the interface is concerned: operator result types
  come from the scalar typing kernel (`typeBin` / `typeIfElse`, tied to the real classes by T1); a
  value carries the Input objects below it in its operation graph (`deps`); wrapping an input
  overwrites the stored input record (last wrapper wins).  `iface` is what
  `nada_dsl_to_nada_mir` emits for the outputs: the inputs reachable from some output, the parties
  that own a reachable input or receive an output (by name, each once), the outputs in order.
-/
import NadaVerif.Spec.C15

namespace NadaVerif.Sig
open NadaVerif NadaVerif.C15

abbrev Reg := Nat

inductive Cmd where
  | party (name : String)
  | input (name : String) (party : Reg)
  | wrap (secret : Bool) (inp : Reg)            -- `SecretInteger(i)` / `PublicInteger(i)`
  | lit (v : Int)                               -- `Integer(v)`
  | bin (op : BinOp) (a b : Reg)
  | ifElse (c a b : Reg)
  | out (v : Reg) (name : String) (party : Reg)
  deriving Repr, DecidableEq, Inhabited

/-- key of an operator in the regenerated tables -/
def opKey : BinOp → String
  | .add => "add" | .sub => "sub" | .mul => "mul" | .div => "div" | .mod => "mod" | .pow => "pow"
  | .shl => "shl" | .shr => "shr" | .lt => "lt" | .gt => "gt" | .le => "le" | .ge => "ge"
  | .eq => "eq" | .ne => "ne" | .and => "and" | .or => "or" | .xor => "xor"

/-- An `Input` object: its name, the Party object it names (creation index), and the class of the
last wrapper built on it (`none`: never wrapped; `some true`: `SecretInteger`). -/
structure InputObj where
  name : String
  party : Nat
  secret : Option Bool
  deriving Repr, DecidableEq, Inhabited

def setTy (xs : List InputObj) (i : Nat) (s : Bool) : List InputObj :=
  match xs[i]? with
  | some o => xs.set i { o with secret := some s }
  | none => xs

def wrapCls (s : Bool) : String := if s then "SecretInteger" else "PublicInteger"
def wrapTy (s : Bool) : STy := ⟨if s then .sec else .pub, .int⟩

/-! ### abstract execution -/

inductive AV where
  | party (i : Nat) | input (i : Nat) | val (cls : String) | outObj
  deriving Repr, DecidableEq, Inhabited

structure ASt where
  regs : List AV := []
  parties : List String := []
  inputs : List InputObj := []
  outputs : List (String × Nat × String) := []      -- name, Party object, class of the value
  deriving Repr, Inhabited

/-- result class of an operator under abstract execution; `none` when it raises — or returns a
plain Python `bool` (`==` / `!=` between abstract booleans falls back to object identity), which is
not a value of the common subset: programs computing one are outside the subset -/
def absOp (key : String) (args : List String) : Option String :=
  match lookupAbs key args with
  | some c => if c = "reject" ∨ c = "pybool" then none else some c
  | none => none

def absStep (s : ASt) : Cmd → Option ASt
  | .party n => some { s with regs := s.regs ++ [.party s.parties.length], parties := s.parties ++ [n] }
  | .input n p =>
    match s.regs[p]? with
    | some (.party i) =>
      some { s with regs := s.regs ++ [.input s.inputs.length], inputs := s.inputs ++ [⟨n, i, none⟩] }
    | _ => none
  | .wrap sec r =>
    match s.regs[r]? with
    | some (.input i) => some { s with regs := s.regs ++ [.val (wrapCls sec)], inputs := setTy s.inputs i sec }
    | _ => none
  | .lit _ => some { s with regs := s.regs ++ [.val "Integer"] }
  | .bin op a b =>
    match s.regs[a]?, s.regs[b]? with
    | some (.val ca), some (.val cb) =>
      match absOp (opKey op) [ca, cb] with
      | some c => some { s with regs := s.regs ++ [.val c] }
      | none => none
    | _, _ => none
  | .ifElse c a b =>
    match s.regs[c]?, s.regs[a]?, s.regs[b]? with
    | some (.val cc), some (.val ca), some (.val cb) =>
      match absOp "ifElse" [cc, ca, cb] with
      | some r => some { s with regs := s.regs ++ [.val r] }
      | none => none
    | _, _, _ => none
  | .out v n p =>
    match s.regs[v]?, s.regs[p]? with
    | some (.val c), some (.party i) =>
      if c = "PublicInteger" ∨ c = "SecretInteger" then
        some { s with regs := s.regs ++ [.outObj], outputs := s.outputs ++ [(n, i, c)] }
      else none
    | _, _ => none

def absRun (s : ASt) : List Cmd → Option ASt
  | [] => some s
  | c :: cs => match absStep s c with | some s' => absRun s' cs | none => none

/-! ### the real DSL, interface view -/

inductive RV where
  /-- `src = some i`: the value is a direct wrapper of Input object `i` (its operation *is* the stored
  input record, which a later wrapper of the same Input overwrites) -/
  | party (i : Nat) | input (i : Nat) | val (t : STy) (deps : List Nat) (src : Option Nat) | outObj
  deriving Repr, DecidableEq, Inhabited

structure ROut where
  name : String
  party : Nat
  ty : STy                 -- class of the value object handed to `Output`
  deps : List Nat
  src : Option Nat
  deriving Repr, DecidableEq, Inhabited

structure RSt where
  regs : List RV := []
  parties : List String := []                      -- the Party objects created so far
  inputs : List InputObj := []                     -- the Input objects; `secret` = the stored record's type
  outputs : List ROut := []
  deriving Repr, Inhabited

def outTy : Out → Option STy
  | .ok t _ => some t
  | .reject => none

def realStep (s : RSt) : Cmd → Option RSt
  | .party n => some { s with regs := s.regs ++ [.party s.parties.length], parties := s.parties ++ [n] }
  | .input n p =>
    match s.regs[p]? with
    | some (.party i) =>
      some { s with regs := s.regs ++ [.input s.inputs.length], inputs := s.inputs ++ [⟨n, i, none⟩] }
    | _ => none
  | .wrap sec r =>
    match s.regs[r]? with
    | some (.input i) => some { s with regs := s.regs ++ [.val (wrapTy sec) [i] (some i)], inputs := setTy s.inputs i sec }
    | _ => none
  | .lit _ => some { s with regs := s.regs ++ [.val ⟨.const, .int⟩ [] none] }
  | .bin op a b =>
    match s.regs[a]?, s.regs[b]? with
    | some (.val ta da _), some (.val tb db _) =>
      match outTy (typeBin op ta tb) with
      | some t => some { s with regs := s.regs ++ [.val t (da ++ db) none] }
      | none => none
    | _, _ => none
  | .ifElse c a b =>
    match s.regs[c]?, s.regs[a]?, s.regs[b]? with
    | some (.val tc dc _), some (.val ta da _), some (.val tb db _) =>
      match outTy (typeIfElse tc ta tb) with
      | some t => some { s with regs := s.regs ++ [.val t (dc ++ da ++ db) none] }
      | none => none
    | _, _, _ => none
  | .out v n p =>
    match s.regs[v]?, s.regs[p]? with
    | some (.val t d src), some (.party i) =>
      some { s with regs := s.regs ++ [.outObj], outputs := s.outputs ++ [⟨n, i, t, d, src⟩] }
    | _, _ => none

def realRun (s : RSt) : List Cmd → Option RSt
  | [] => some s
  | c :: cs => match realStep s c with | some s' => realRun s' cs | none => none

/-- Input objects some output depends on (what the traversal from the outputs reaches). -/
def RSt.reached (s : RSt) (i : Nat) : Bool := s.outputs.any fun o => o.deps.contains i

structure Iface where
  inputs : List (Nat × InputObj)                  -- reachable Input objects with their creation index
  parties : List String                           -- names, each once
  outputs : List (String × String × String)       -- name, party name, MIR type name
  deriving Repr, DecidableEq, Inhabited

def partyName (ps : List String) (i : Nat) : String := ps[i]?.getD ""

/-- The type the MIR records for an output: the type of the operation the value names.  For a
direct wrapper of an Input that is the *stored input record's* type, i.e. the class of the last
wrapper built on that Input (known finding F-C03-2 when that differs from the wrapper at hand). -/
def RSt.outTy (s : RSt) (o : ROut) : STy :=
  match o.src with
  | none => o.ty
  | some i =>
    match s.inputs[i]? with
    | some ⟨_, _, some sec⟩ => wrapTy sec
    | _ => o.ty

/-- hypothesis `NoStaleWrapperOutput` (complement of F-C03-2 for this property): no output hands over
a wrapper of an Input that was re-wrapped at another class afterwards -/
def RSt.freshOutputs (s : RSt) : Bool := s.outputs.all fun o => s.outTy o == o.ty

def dedup : List String → List String
  | [] => []
  | x :: xs => if xs.contains x then dedup xs else x :: dedup xs

/-- The interface of the emitted MIR; `none` = the compiler rejects (two different reachable inputs
under one name). -/
def iface (s : RSt) : Option Iface :=
  let reach := (List.range s.inputs.length).filter s.reached
  let ins := reach.filterMap fun i => s.inputs[i]?.map fun o => (i, o)
  if ins.any (fun a => ins.any fun b => a.2.name = b.2.name ∧ a.1 ≠ b.1) then none
  else some {
    inputs := ins
    parties := dedup (ins.map (fun a => partyName s.parties a.2.party) ++
                      s.outputs.map (fun o => partyName s.parties o.party))
    outputs := s.outputs.map fun o => (o.name, partyName s.parties o.party, (s.outTy o).mirName) }

/-- the signature of abstract execution: (parties, inputs, outputs) -/
structure Signature where
  parties : List String
  inputs : List InputObj
  outputs : List (String × String × String)       -- name, party name, class name
  deriving Repr, DecidableEq, Inhabited

def signature (s : ASt) : Signature :=
  { parties := s.parties, inputs := s.inputs,
    outputs := s.outputs.map fun (n, p, c) => (n, partyName s.parties p, c) }

end NadaVerif.Sig
