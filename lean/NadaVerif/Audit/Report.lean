/-
Layer U — `richreports.report` as the auditor uses it: a two-dimensional array of cells, each a
character with a stack of left delimiters and a stack of right delimiters; `enrich` pushes one left
delimiter on some cell and right delimiters on some cells; `render` emits, per cell, the left stack
reversed, the character, the right stack.  Which cells `enrich` picks (whitespace skipping,
intermediate lines) does not matter for the text-preservation theorem, so a push is modelled with
an arbitrary target cell.
-/
namespace NadaVerif.Audit

/-- one cell of `_stacks` (`c = none` is the sentinel `''` that ends every line) -/
structure Cell where
  pres : List String
  c : Option Char
  posts : List String
  deriving Repr, DecidableEq

abbrev Report := List (List Cell)

/-- `richreports.report(string)`: one cell per character plus the end-of-line sentinel -/
def mkLine (l : List Char) : List Cell := l.map (fun ch => ⟨[], some ch, []⟩) ++ [⟨[], none, []⟩]
def mkReport (lines : List (List Char)) : Report := lines.map mkLine

/-- what `render` emits: characters of the source and inserted delimiters, kept apart -/
inductive Tok where
  | ch (c : Char)
  | delim (s : String)
  | newline
  deriving Repr, DecidableEq

def renderCell (x : Cell) : List Tok :=
  x.pres.reverse.map .delim ++ (match x.c with | some ch => [.ch ch] | none => []) ++ x.posts.map .delim

def renderLine (l : List Cell) : List Tok := l.flatMap renderCell

def render : Report → List Tok
  | [] => []
  | [l] => renderLine l
  | l :: ls => renderLine l ++ .newline :: render ls

/-- removing the inserted markup -/
def erase (ts : List Tok) : List Tok := ts.filter (fun t => match t with | .delim _ => false | _ => true)

/-- one push of `enrich`: a left (`side = false`) or right delimiter on the cell at (line, column);
positions outside the report change nothing -/
structure Push where
  line : Nat
  col : Nat
  right : Bool
  s : String
  deriving Repr

def pushCell (p : Push) (x : Cell) : Cell :=
  if p.right then { x with posts := x.posts ++ [p.s] } else { x with pres := x.pres ++ [p.s] }

/-- apply `f` to the element at index `n` (nothing happens past the end) -/
def modifyAt {α} (f : α → α) : Nat → List α → List α
  | _, [] => []
  | 0, x :: xs => f x :: xs
  | n + 1, x :: xs => x :: modifyAt f n xs

def applyPush (r : Report) (p : Push) : Report :=
  modifyAt (modifyAt (pushCell p) p.col) p.line r

/-- the source text as tokens -/
def plain (lines : List (List Char)) : List Tok :=
  match lines with
  | [] => []
  | [l] => l.map .ch
  | l :: ls => l.map .ch ++ .newline :: plain ls

end NadaVerif.Audit
