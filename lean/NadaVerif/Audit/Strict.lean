/-
Layer U — the fragments of the strict checker (`audit/strict.py`, `audit/common.py`,
`audit/report.py`) whose totality is not obvious: resolving annotations, unification and
monomorphism tests on type terms *including error values*, the loop over subscript targets, and
the normalisation of report ranges.  Each is a total Lean function (structural recursion or
explicit measure) with a result type that has no "raised" / "ran user code" outcome; each is run
against the Python function on generated inputs by the C16 check.
-/
namespace NadaVerif.Audit

/-- what the checker manipulates as "types": classes, `list[t]`, bare `list`, and type-error
*instances* (which have no `__name__`) -/
inductive Ty where
  | base (name : String)
  | listOf (t : Ty)
  | list
  | err (root : Bool)
  deriving DecidableEq, Repr, Inhabited

def Ty.hasName : Ty → Bool
  | .err _ => false
  | _ => true

/-- no error instance occurs in the term (two error *instances* are never `==`) -/
def Ty.noErr : Ty → Bool
  | .err _ => false
  | .listOf t => t.noErr
  | _ => true

/-- `common.unify` (type-error values are distinct instances, so `t_a == t_b` holds only for equal
error-free terms) -/
def unify : Ty → Ty → Option Ty
  | a, b =>
    if a = b ∧ a.noErr then some a
    else if !a.hasName || !b.hasName then none
    else match a, b with
      | .listOf x, .listOf y => (unify x y).map .listOf      -- the list of what the item types unify to (repair a9fb43a)
      | .listOf x, .list => some (.listOf x)
      | _, _ => none

def baseNames : List String :=
  ["bool", "int", "str", "Integer", "PublicInteger", "SecretInteger", "Boolean", "PublicBoolean", "SecretBoolean"]

/-- `_types_list_monomorphic` -/
def listMonomorphic : Ty → Bool
  | .listOf t => listMonomorphic t
  | .base n => baseNames.contains n
  | .list => false
  | .err _ => false

/-- `_types_list_monomorphic_depth` -/
def listDepth : Ty → Nat
  | .listOf t => 1 + listDepth t
  | _ => 0

/-- annotation expressions as `_types_eval` sees them -/
inductive Ann where
  | name (id : String)
  | subscript (value : Ann) (slice : Ann)
  | other                                  -- calls, attributes, constants, missing annotation, …
  deriving DecidableEq, Repr, Inhabited

def annNames : List String := "list" :: baseNames

/-- `_types_eval`: a type, or `none` for `ValueError`. There is no third outcome: nothing of the
annotation is ever evaluated. -/
def typesEval : Ann → Option Ty
  | .name id => if id = "list" then some .list else if baseNames.contains id then some (.base id) else none
  | .subscript (.name "list") slice => (typesEval slice).map .listOf
  | .subscript _ _ => none
  | .other => none

/-- assignment targets -/
inductive Target where
  | name (id : String)
  | subscript (value : Target) (sliceIsInt : Bool)
  | other
  deriving DecidableEq, Repr, Inhabited

/-- The `while isinstance(target_, ast.Subscript)` loop of the subscript-assignment clause:
returns (depth, what the loop ended on, invalid index seen). Each iteration moves to
`target_.value`, or leaves the loop when that is neither a variable nor a subscript. -/
def subscriptLoop : Target → Nat → Nat × Target × Bool
  | .subscript value true, depth =>
    (match value with
     | .name _ | .subscript _ _ => subscriptLoop value (depth + 1)
     | .other => (depth + 1, .subscript value true, false))      -- `break` (repaired)
  | .subscript value false, depth => (depth + 1, .subscript value false, true)
  | t, depth => (depth, t, false)

/-- `_enrich`'s first normalisation loop: a start at or past the end of a non-empty line moves to
the beginning of the next line. `lens` are the line lengths; returns the new (line, column). -/
def normaliseStart (lens : List Nat) : Nat → Nat → Nat → Nat × Nat
  | 0, line, col => (line, col)
  | fuel + 1, line, col =>
    if 1 ≤ line ∧ line < lens.length ∧ 0 < lens.getD (line - 1) 0 ∧ col ≥ lens.getD (line - 1) 0 then
      normaliseStart lens fuel (line + 1) 0
    else (line, col)

end NadaVerif.Audit
