/-
Layer B — what a Python variable of a traced Nada program holds, and `to_mir()`.
Mirrors `NadaType.to_mir`, `Collection.to_mir`, `retrieve_inner_type`, `ArrayType.to_mir`,
`TupleType.to_mir` clause by clause (DESIGN Appendix G).
-/
import NadaVerif.Mir

namespace NadaVerif

/-- Value of a literal wrapper (`Integer(5).value`, `Boolean(True).value`). -/
inductive LitVal where
  | int (v : Int) | bool (b : Bool)
  deriving DecidableEq, Repr, Inhabited

/-- Python's `str(value)`. -/
def LitVal.str : LitVal → String
  | .int v => toString v
  | .bool true => "True"
  | .bool false => "False"

/-- Canonical error classes (DESIGN Appendix D). `T` groups TypeError/AttributeError (a rejection
by Python's own typing), the others are the DSL's exception classes. `unsupported` is not a Python
error: the model declines to predict (the generator must not produce such commands). -/
inductive Err where
  | T | index | value | zeroDiv | notAllowed | incompatible | invalidType | compiler | key
  | dead          -- an operand register is dead (an earlier command failed)
  | unsupported
  deriving DecidableEq, Repr, Inhabited

mutual
inductive Val where
  | scalar (t : STy) (child : Option Id) (lit : Option LitVal)
  | array (elem : Elem) (size : Option Int) (child : Option Id)
  | tuple (l r : Elem) (child : Option Id)
  | ntuple (vs : Vals) (child : Option Id)
  | object (fs : VFields) (child : Option Id)
  deriving DecidableEq, Repr
/-- A `contained_type` / `left_type` / `right_type`: the code stores classes, instances, the
TypeVar `T`, or `ArrayType` markers there and treats them differently. -/
inductive Elem where
  | cls (t : STy)
  | inst (v : Val)
  | typeVar
  | arrayType (e : Elem) (size : Option Int)
  deriving DecidableEq, Repr
inductive Vals where
  | nil | cons (v : Val) (vs : Vals)
  deriving DecidableEq, Repr
inductive VFields where
  | nil | cons (k : String) (v : Val) (fs : VFields)
  deriving DecidableEq, Repr
end

instance : Inhabited Val := ⟨.scalar default none none⟩

def Vals.toList : Vals → List Val
  | .nil => [] | .cons v vs => v :: vs.toList
def Vals.ofList : List Val → Vals
  | [] => .nil | v :: vs => .cons v (Vals.ofList vs)
def VFields.toList : VFields → List (String × Val)
  | .nil => [] | .cons k v fs => (k, v) :: fs.toList
def VFields.ofList : List (String × Val) → VFields
  | [] => .nil | (k, v) :: fs => .cons k v (VFields.ofList fs)

def Val.child : Val → Option Id
  | .scalar _ c _ | .array _ _ c | .tuple _ _ c | .ntuple _ c | .object _ c => c

/-- `type(value).class_to_mir()`: the class name only (so compound members become bare names). -/
def Val.classToMir : Val → MTy
  | .scalar t _ _ => .scalar t.mirName
  | .array .. => .bare "Array"
  | .tuple .. => .bare "Tuple"
  | .ntuple .. => .bare "NTuple"
  | .object .. => .bare "Object"

/-- `{"size": self.size} if self.size else {}` -/
def sizeOfArray : Option Int → Size
  | none => .omitted
  | some n => if n = 0 then .omitted else .n n

/-- `"size": self.size` of `ArrayType.to_mir` (always present). -/
def sizeOfArrayType : Option Int → Size
  | none => .null
  | some n => .n n

mutual
/-- `value.to_mir()` -/
def Val.toMir : Val → Except Err MTy
  | .scalar t _ _ => .ok (.scalar t.mirName)
  | .array e n _ => do
      let inner ← e.innerType
      .ok (.array inner (sizeOfArray n))
  | .tuple l r _ => do
      let lt ← l.sideType
      let rt ← r.sideType
      .ok (.tuple lt rt)
  | .ntuple vs _ => do .ok (.ntuple (← vs.memberTypes))
  | .object fs _ => do .ok (.object (← fs.memberTypes))
/-- `retrieve_inner_type()` -/
def Elem.innerType : Elem → Except Err MTy
  | .typeVar => .ok (.bare "T")
  | .cls t => .ok (.scalar t.mirName)
  | .inst v => v.toMir
  | .arrayType e n => do
      let inner ← e.asInstanceToMir
      .ok (.array inner (sizeOfArrayType n))
/-- one side of `Tuple.to_mir`: `.to_mir()` for instances, `.class_to_mir()` otherwise -/
def Elem.sideType : Elem → Except Err MTy
  | .typeVar => .error .T            -- 'TypeVar' object has no attribute 'class_to_mir'
  | .cls t => .ok (.scalar t.mirName)
  | .inst v => v.toMir
  | .arrayType e n => do
      let inner ← e.asInstanceToMir
      .ok (.array inner (sizeOfArrayType n))
/-- `self.contained_type.to_mir()` inside `ArrayType.to_mir`: raises for a class / the TypeVar -/
def Elem.asInstanceToMir : Elem → Except Err MTy
  | .typeVar => .error .T
  | .cls _ => .error .T              -- unbound method call: missing `self`
  | .inst v => v.toMir
  | .arrayType e n => do
      let inner ← e.asInstanceToMir
      .ok (.array inner (sizeOfArrayType n))
/-- `[value.to_mir() for value in self.values]` (after the repair of F-C05-1) -/
def Vals.memberTypes : Vals → Except Err MTys
  | .nil => .ok .nil
  | .cons v vs => do
      let t ← v.toMir
      let ts ← vs.memberTypes
      .ok (.cons t ts)
def VFields.memberTypes : VFields → Except Err MFields
  | .nil => .ok .nil
  | .cons k v fs => do
      let t ← v.toMir
      let ts ← fs.memberTypes
      .ok (.cons k t ts)
end

/-- What a register holds. -/
inductive RVal where
  | val (v : Val)
  | fn (id : Id) (ret : STy) (pnames : List String)     -- a NadaFunction: id, return class, parameter names in order
  | party (name : String)
  | input (id : Id) (name party doc : String)     -- a raw `Input(...)` object
  | dead
  deriving DecidableEq, Repr, Inhabited

end NadaVerif
