/-
How CPython evaluates the constructs that need a concrete truth value or iterate, in terms of the
special-method slots of the operand's class (looked up on the type, so an instance's provenance
cannot change them — a trusted CPython fact).  The slot behaviours come from the regenerated
`Generated.classTable` (T3); the predictions are cross-checked against real executions of each
construct on every run.
-/
import NadaVerif.Generated.ClassTable

namespace NadaVerif.Py
open NadaVerif.Generated

abbrev ClassTable := List (String × String × String × String × String)

/-- behaviour tag of one slot (for binary slots: against one kind of other operand) -/
def slotBeh (t : ClassTable) (cls slot other : String) : String :=
  match t.find? (fun r => r.1 = cls ∧ r.2.1 = slot ∧ r.2.2.1 = other) with
  | some r => r.2.2.2.2
  | none => "missing"

def kindOf (t : ClassTable) (cls : String) : String :=
  match t.find? (fun r => r.1 = cls ∧ r.2.1 = "!kind") with
  | some r => r.2.2.2.1
  | none => "missing"

/-- What Python ends up with. `silent`: a concrete Python value was obtained without any error —
exactly what must not happen for non-literal Nada values. -/
inductive Outcome where
  | raises | nada | silent
  deriving DecidableEq, Repr

/-- `bool(x)` / `if x` / `not x` / `x and y` / `while x` / `assert x`: `__bool__`, else `__len__`,
else every object is true. -/
def truthOf (t : ClassTable) (cls : String) : Outcome :=
  match slotBeh t cls "__bool__" "" with
  | "raises" => .raises
  | "absent" =>
    (match slotBeh t cls "__len__" "" with
     | "raises" => .raises
     | _ => .silent)           -- a length, or no `__len__` at all (then the object is simply true)
  | "nada" | "notimpl" => .raises     -- `__bool__ should return bool`
  | _ => .silent

def reflected : String → String
  | "__lt__" => "__gt__" | "__gt__" => "__lt__" | "__le__" => "__ge__" | "__ge__" => "__le__"
  | s => s

/-- value of the expression `x OP y` where `x : cls` and `y` is of the given kind -/
def cmpOutcome (t : ClassTable) (cls slot other : String) : Outcome :=
  match slotBeh t cls slot other with
  | "raises" => .raises
  | "nada" => .nada
  | "notimpl" | "absent" =>
    -- Python tries the reflected method of the other operand
    let refl :=
      if other = "same" then slotBeh t cls (reflected slot) "same"
      else if other = "array" then slotBeh t "Array" (reflected slot) "same"
      else "notimpl"                      -- int / None / str / list do not know Nada classes
    (match refl with
     | "raises" => .raises
     | "nada" => .nada
     | "notimpl" | "absent" =>
       if slot = "__eq__" ∨ slot = "__ne__" then .silent    -- falls back to identity comparison
       else .raises                                       -- TypeError: '<' not supported
     | _ => .silent)
  | _ => .silent

/-- the truth test of the Nada boolean that a comparison of non-literals returns -/
def nadaBoolTruth (t : ClassTable) : Outcome :=
  match truthOf t "PublicBoolean", truthOf t "SecretBoolean" with
  | .raises, .raises => .raises
  | _, _ => .silent

/-- a comparison whose result is then used as a condition (chained comparison, `min`/`max`/
`sorted`, membership by equality, `list.index`, `list.count`) -/
def cmpThenTruth (t : ClassTable) (cls slot other : String) : Outcome :=
  match cmpOutcome t cls slot other with
  | .raises => .raises
  | .nada =>
    -- comparing two literals folds to a literal `Boolean`, which has a concrete truth value
    if kindOf t cls = "literal" ∧ other = "same" then truthOf t "Boolean" else nadaBoolTruth t
  | .silent => .silent

/-- `for e in x`, `list(x)`, unpacking, comprehension: `__iter__`, else the `__getitem__` sequence
protocol, else TypeError -/
def iterOf (t : ClassTable) (cls : String) : Outcome :=
  match slotBeh t cls "__iter__" "" with
  | "raises" => .raises
  | "absent" =>
    (match slotBeh t cls "__getitem__" "same" with
     | "absent" => .raises
     | _ => .silent)
  | _ => .silent

/-- `reversed(x)`: `__reversed__`, else the sequence protocol (`__len__` **and** `__getitem__`), else TypeError -/
def reversedOf (t : ClassTable) (cls : String) : Outcome :=
  match slotBeh t cls "__reversed__" "" with
  | "raises" => .raises
  | "absent" | "missing" =>
    (match slotBeh t cls "__len__" "", slotBeh t cls "__getitem__" "same" with
     | "absent", _ | "raises", _ | _, "absent" | _, "raises" => .raises
     | _, _ => .silent)
  | _ => .silent

/-- `for i in range(len(x)): x[i]`: walks the members through `__len__` and `__getitem__` without `__iter__` -/
def indexWalkOf (t : ClassTable) (cls : String) : Outcome :=
  match slotBeh t cls "__len__" "", slotBeh t cls "__getitem__" "same" with
  | "absent", _ | "raises", _ | _, "absent" | _, "raises" => .raises
  | _, _ => .silent

/-- `probe in x` with a non-literal Nada probe: `__contains__` (its answer is coerced to a truth value), else `__iter__`,
else the `__getitem__` sequence protocol — each member is then compared with the probe by `==`, which for a non-literal
probe gives a Nada boolean whose truth value Python asks for — else TypeError. -/
def containsOf (t : ClassTable) (cls : String) : Outcome :=
  match slotBeh t cls "__contains__" "same" with
  | "raises" => .raises
  | "nada" | "notimpl" => nadaBoolTruth t
  | "absent" | "missing" =>
    (match slotBeh t cls "__iter__" "" with
     | "raises" => .raises
     | "absent" =>
       (match slotBeh t cls "__getitem__" "same" with
        | "absent" | "raises" | "missing" => .raises
        | _ => nadaBoolTruth t)
     | _ => nadaBoolTruth t)
  | _ => .silent

/-- use as a dict key / set element -/
def hashOf (t : ClassTable) (cls : String) : Outcome :=
  match slotBeh t cls "__hash__" "" with
  | "absent" => if (t.find? (fun r => r.1 = cls ∧ r.2.1 = "__hash__")).map (·.2.2.2.1) = some "None" then .raises else .silent
  | "raises" => .raises
  | _ => .silent

end NadaVerif.Py
