/-
A tiny semantics of the Python expressions that occur in the folding lambdas of
`scalar_types.py` and the value propagation of `audit/abstract.py`.
Python `int` is unbounded, like Lean's `Int`.  Validated against CPython by correspondence K4.
-/
namespace NadaVerif.Py

inductive PyErr where
  | zeroDiv | valueErr | typeErr | overflow
  | modelGap        -- the model declines to predict (float results beyond 2^53, `untranslated`)
  deriving DecidableEq, Repr, Inhabited

/-- Python values that can flow through the lambdas. `quot a b` is the `float` produced by the
true division `a / b` of two ints (kept symbolically). -/
inductive PyVal where
  | int (v : Int)
  | bool (b : Bool)
  | quot (a b : Int)
  deriving DecidableEq, Repr, Inhabited

inductive PyBin where
  | add | sub | mul | truediv | floordiv | mod | pow | shl | shr | bitand | bitor | bitxor
  deriving DecidableEq, Repr

inductive PyCmp where
  | lt | gt | le | ge | eq | ne
  deriving DecidableEq, Repr

inductive PyExpr where
  | lhs | rhs
  | bin (op : PyBin) (a b : PyExpr)
  | cmp (op : PyCmp) (a b : PyExpr)
  | not (a : PyExpr)
  | callBool (a : PyExpr)
  | callInt (a : PyExpr)
  | neg (a : PyExpr)
  | ite (c t e : PyExpr)          -- `t if c else e`
  | third                         -- a third variable (if_else value propagation)
  | untranslated (src : String)
  deriving DecidableEq, Repr

def two53 : Int := 9007199254740992

/-- `int(x)` for an int/bool operand, as the arithmetic operators coerce. -/
def asInt : PyVal → Except PyErr Int
  | .int v => .ok v
  | .bool b => .ok (if b then 1 else 0)
  | .quot _ _ => .error .modelGap

def truth : PyVal → Bool
  | .int v => v ≠ 0
  | .bool b => b
  | .quot a _ => a ≠ 0

/-- `int(v)`. For the float `a / b`: truncation of the correctly rounded double. When `|a| < 2^53`
the rounding error is `< 1/|b|`, less than the distance of a non-integral quotient to the next
integer, so the result is the truncated exact quotient; beyond that the model does not predict. -/
def pyInt : PyVal → Except PyErr Int
  | .int v => .ok v
  | .bool b => .ok (if b then 1 else 0)
  | .quot a b => if a.natAbs < two53.natAbs then .ok (Int.tdiv a b) else .error .modelGap

def evalBin (op : PyBin) (x y : PyVal) : Except PyErr PyVal :=
  match op, x, y with
  | .bitand, .bool a, .bool b => .ok (.bool (a && b))
  | .bitor, .bool a, .bool b => .ok (.bool (a || b))
  | .bitxor, .bool a, .bool b => .ok (.bool (a != b))
  | .bitand, _, _ | .bitor, _, _ | .bitxor, _, _ => .error .modelGap
  | op, x, y => do
    let a ← asInt x
    let b ← asInt y
    match op with
    | .add => .ok (.int (a + b))
    | .sub => .ok (.int (a - b))
    | .mul => .ok (.int (a * b))
    | .truediv => if b = 0 then .error .zeroDiv else .ok (.quot a b)
    | .floordiv => if b = 0 then .error .zeroDiv else .ok (.int (Int.fdiv a b))
    | .mod => if b = 0 then .error .zeroDiv else .ok (.int (Int.fmod a b))
    | .pow => if 0 ≤ b then .ok (.int (a ^ b.toNat))
              else if a = 0 then .error .zeroDiv else .error .modelGap
    | .shl => if b < 0 then .error .valueErr else .ok (.int (a * 2 ^ b.toNat))
    | .shr => if b < 0 then .error .valueErr else .ok (.int (Int.shiftRight a b.toNat))
    | _ => .error .modelGap

def evalCmp (op : PyCmp) (x y : PyVal) : Except PyErr PyVal := do
  let a ← asInt x
  let b ← asInt y
  .ok (.bool (match op with
    | .lt => decide (a < b) | .gt => decide (a > b) | .le => decide (a ≤ b)
    | .ge => decide (a ≥ b) | .eq => decide (a = b) | .ne => decide (a ≠ b)))

def eval3 (e : PyExpr) (l r t : PyVal) : Except PyErr PyVal :=
  match e with
  | .lhs => .ok l
  | .rhs => .ok r
  | .third => .ok t
  | .bin op a b => do evalBin op (← eval3 a l r t) (← eval3 b l r t)
  | .cmp op a b => do evalCmp op (← eval3 a l r t) (← eval3 b l r t)
  | .not a => do .ok (.bool (!truth (← eval3 a l r t)))
  | .callBool a => do .ok (.bool (truth (← eval3 a l r t)))
  | .callInt a => do .ok (.int (← pyInt (← eval3 a l r t)))
  | .neg a => do .ok (.int (- (← asInt (← eval3 a l r t))))
  | .ite c a b => do if truth (← eval3 c l r t) then eval3 a l r t else eval3 b l r t
  | .untranslated _ => .error .modelGap

def eval (e : PyExpr) (l r : PyVal) : Except PyErr PyVal := eval3 e l r (.int 0)

end NadaVerif.Py
