/- JSON decoding of commands and encoding of the model's MIR in the canonical form that the harness
also derives from the real MIR (DESIGN Appendix D). -/
import Lean.Data.Json
import NadaVerif.Compile
import NadaVerif.Spec.C02
import NadaVerif.Spec.Graph
import NadaVerif.Spec.Edge
import NadaVerif.Spec.Taint

namespace NadaVerif.Driver
open Lean NadaVerif

def parseSTy (s : String) : Option STy := STy.all.find? (·.pyName == s)

def getStr (j : Json) (k : String) : Except String String := j.getObjValAs? String k
def getNat (j : Json) (k : String) : Except String Nat := j.getObjValAs? Nat k
def getInt (j : Json) (k : String) : Except String Int := do
  let v ← j.getObjVal? k
  match v with
  | .str s => match s.toInt? with | some i => pure i | none => throw s!"bad int {s}"
  | .num n => if n.exponent = 0 then pure n.mantissa else throw "non-integer"
  | _ => throw "bad int"
def getNats (j : Json) (k : String) : Except String (List Nat) := do
  let a ← j.getObjValAs? (Array Nat) k
  pure a.toList
def getSTy (j : Json) (k : String) : Except String STy := do
  let s ← getStr j k
  match parseSTy s with | some t => pure t | none => throw s!"bad type {s}"
def getBase (j : Json) (k : String) : Except String Base := do
  match ← getStr j k with
  | "int" => pure .int | "uint" => pure .uint | "bool" => pure .bool | s => throw s!"bad base {s}"

partial def parseAnn (j : Json) : Except String Ann :=
  match j with
  | .str "Array" => pure .bareArray
  | .str s => match parseSTy s with | some t => pure (.scalar t) | none => throw s!"bad ann {s}"
  | .arr #[.str "Array", inner] => do pure (.array (← parseAnn inner))
  | _ => throw "bad ann"

def parseCmd (j : Json) : Except String Cmd := do
  match ← getStr j "op" with
  | "nop" => pure .nop
  | "party" => pure (.party (← getStr j "name"))
  | "inputObj" => pure (.inputObj (← getStr j "name") (← getStr j "doc") (← getNat j "party"))
  | "wrap" => pure (.wrap (← getSTy j "t") (← getNat j "r"))
  | "arrayOf" =>
      let size ← (match j.getObjVal? "size" with
        | .ok .null => pure none
        | .ok _ => do pure (some (← getInt j "size"))
        | .error _ => pure none : Except String (Option Int))
      pure (.arrayOf (← getNat j "r") size)
  | "lit" =>
      let base ← getBase j "base"
      let v ← (match j.getObjVal? "v" with
        | .ok (.bool b) => pure (LitVal.bool b)
        | .ok _ => do pure (LitVal.int (← getInt j "v"))
        | .error e => throw e : Except String LitVal)
      pure (.lit base v)
  | "bin" =>
      match C02.binOpOf (← getStr j "bop") with
      | some b => pure (.bin b (← getNat j "a") (← getNat j "b"))
      | none => throw "bad bop"
  | "invert" => pure (.invert (← getNat j "a"))
  | "reveal" => pure (.reveal (← getNat j "a"))
  | "truncPr" => pure (.truncPr (← getNat j "a") (← getNat j "b"))
  | "publicEquals" => pure (.publicEquals (← getNat j "a") (← getNat j "b"))
  | "ifElse" => pure (.ifElse (← getNat j "c") (← getNat j "a") (← getNat j "b"))
  | "random" => pure (.random (← getSTy j "t"))
  | "radd" => pure (.radd (← getInt j "k") (← getNat j "a"))
  | "arrayNew" => pure (.arrayNew (← getNats j "xs"))
  | "tupleNew" => pure (.tupleNew (← getNat j "a") (← getNat j "b"))
  | "ntupleNew" => pure (.ntupleNew (← getNats j "xs"))
  | "objectNew" => do
      let fs ← j.getObjValAs? (Array Json) "fs"
      let ps ← fs.toList.mapM fun f => match f with
        | .arr #[.str n, r] => do pure (n, ← (fromJson? r : Except String Nat))
        | _ => throw "bad field"
      pure (.objectNew ps)
  | "ntupleGet" => pure (.ntupleGet (← getNat j "t") (← getInt j "i"))
  | "objectGet" => pure (.objectGet (← getNat j "o") (← getStr j "key"))
  | "zip" => pure (.zip (← getNat j "a") (← getNat j "b"))
  | "unzip" => pure (.unzip (← getNat j "a"))
  | "map" => pure (.map (← getNat j "a") (← getNat j "f"))
  | "reduce" => pure (.reduce (← getNat j "a") (← getNat j "f") (← getNat j "init"))
  | "innerProduct" => pure (.innerProduct (← getNat j "a") (← getNat j "b"))
  | "beginFn" => do
      let ps ← j.getObjValAs? (Array Json) "params"
      let params ← ps.toList.mapM fun p => match p with
        | .arr #[.str n, a] => do pure (n, ← parseAnn a)
        | _ => throw "bad param"
      pure (.beginFn (← getStr j "name") params)
  | "endFn" => pure (.endFn (← getNat j "ret") (← getSTy j "retAnn"))
  | "call" => do
      let kws ← match j.getObjValAs? (Array Json) "kw" with
        | .ok ks => ks.toList.mapM fun f => match f with
            | .arr #[.str n, r] => do pure (n, ← (fromJson? r : Except String Nat))
            | _ => throw "bad keyword argument"
        | .error _ => pure []
      pure (.call (← getNat j "f") (← getNats j "args") kws)
  | s => throw s!"unknown command {s}"

def errStr : Err → String
  | .T => "T" | .index => "IndexError" | .value => "ValueError" | .zeroDiv => "ZeroDivision"
  | .notAllowed => "NotAllowed" | .incompatible => "IncompatibleTypes" | .invalidType => "InvalidType"
  | .compiler => "Compiler" | .key => "KeyError" | .dead => "dead" | .unsupported => "unsupported"

def sizeJson : Size → List (String × Json)
  | .omitted => [] | .null => [("size", Json.null)] | .n v => [("size", Json.num v)]

mutual
partial def mtyJson : MTy → Json
  | .scalar n => Json.str n
  | .bare n => Json.str n
  | .array i s => Json.mkObj [("Array", Json.mkObj ([("inner_type", mtyJson i)] ++ sizeJson s))]
  | .tuple l r => Json.mkObj [("Tuple", Json.mkObj [("left_type", mtyJson l), ("right_type", mtyJson r)])]
  | .ntuple ts => Json.mkObj [("NTuple", Json.mkObj [("types", Json.arr (ts.toList.map mtyJson).toArray)])]
  | .object fs => Json.mkObj [("Object", Json.mkObj [("types",
      Json.arr (fs.toList.map fun (k, t) => Json.arr #[Json.str k, mtyJson t]).toArray)])]
end

def ids (xs : List Id) : Json := Json.arr (xs.map fun (i : Nat) => Json.num i).toArray
def nid (i : Id) : Json := Json.num (i : Nat)

/-- `op.to_mir()` with `source_ref_index` dropped. -/
def opJson (k : Id) (op : AstOp) : Json :=
  let t := ("type", mtyJson op.ty)
  let i := ("id", nid k)
  match op with
  | .binary n l r _ => Json.mkObj [(n, Json.mkObj [i, ("left", nid l), ("right", nid r), t])]
  | .unary n c _ => Json.mkObj [(n, Json.mkObj [i, ("this", nid c), t])]
  | .ifElse c a b _ => Json.mkObj [("IfElse", Json.mkObj [i, ("this", nid c), ("arg_0", nid a), ("arg_1", nid b), t])]
  | .random _ => Json.mkObj [("Random", Json.mkObj [i, t])]
  | .input n _ _ _ => Json.mkObj [("InputReference", Json.mkObj [i, ("refers_to", Json.str n), t])]
  | .literal _ idx _ => Json.mkObj [("LiteralReference", Json.mkObj [i, ("refers_to", Json.str (toString idx)), t])]
  | .reduce c f ini _ => Json.mkObj [("Reduce", Json.mkObj [i, ("fn", nid f), ("inner", nid c), ("initial", nid ini), t])]
  | .map c f _ => Json.mkObj [("Map", Json.mkObj [i, ("fn", nid f), ("inner", nid c), t])]
  | .new _ es _ => Json.mkObj [("New", Json.mkObj [i, ("elements", ids es), t])]
  | .call as f _ => Json.mkObj [("NadaFunctionCall", Json.mkObj [i, ("function_id", nid f), ("args", ids as), t, ("return_type", mtyJson op.ty)])]
  | .argRef n f _ => Json.mkObj [("NadaFunctionArgRef", Json.mkObj [i, ("function_id", nid f), ("refers_to", Json.str n), t])]
  | .function .. => Json.mkObj []
  | .ntupleAcc idx s _ => Json.mkObj [("NTupleAccessor", Json.mkObj [i, ("index", Json.num idx), ("source", nid s), t])]
  | .objectAcc key s _ => Json.mkObj [("ObjectAccessor", Json.mkObj [i, ("key", Json.str key), ("source", nid s), t])]

def tableJson (tbl : List (Id × AstOp)) : Json :=
  Json.arr (tbl.map fun (k, op) => Json.arr #[nid k, opJson k op]).toArray

def mirJson (m : MirProg) : Json :=
  Json.mkObj [
    ("functions", Json.arr (m.functions.map fun f => Json.mkObj [
        ("id", nid f.id),
        ("args", Json.arr (f.args.map fun (n, t) => Json.mkObj [("name", Json.str n), ("type", mtyJson t)]).toArray),
        ("function", Json.str f.name), ("return_operation_id", nid f.returnOp),
        ("operations", tableJson f.ops), ("return_type", mtyJson f.returnType)]).toArray),
    ("parties", Json.arr (m.parties.map fun p => Json.mkObj [("name", Json.str p)]).toArray),
    ("inputs", Json.arr (m.inputs.map fun i => Json.mkObj [
        ("name", Json.str i.name), ("type", mtyJson i.ty), ("party", Json.str i.party), ("doc", Json.str i.doc)]).toArray),
    ("literals", Json.arr (m.literals.map fun l => Json.mkObj [
        ("name", Json.str l.name), ("value", Json.str l.value), ("type", mtyJson l.ty)]).toArray),
    ("outputs", Json.arr (m.outputs.map fun o => Json.mkObj [
        ("operation_id", nid o.opId), ("name", Json.str o.name), ("party", Json.str o.party), ("type", mtyJson o.ty)]).toArray),
    ("operations", tableJson m.operations)]

/-- Resolve `[valueReg, name, partyReg]` against the registers. -/
def parseOut (regs : List RVal) (j : Json) : Except String OutDecl :=
  match j with
  | .arr #[v, .str name, p] => do
    let vr ← (fromJson? v : Except String Nat)
    let pr ← (fromJson? p : Except String Nat)
    match regs[vr]?, regs[pr]? with
    | some (.val val), some (.party pn) =>
      match val.child with
      | some c => pure { root := c, name := name, party := pn }
      | none => throw "badout"
    | _, _ => throw "badout"
  | _ => throw "bad output"

/-- Run a list of events (`{"c": cmd}` or `{"compile": [outs]}`) from a given machine. -/
def runEvents (m : Mach) (evs : List Json) : List Json × Mach := Id.run do
  let mut m := m
  let mut out : List Json := []
  let mut clean := true
  for ev in evs do
    match ev.getObjVal? "c" with
    | .ok cj =>
      match parseCmd cj with
      | .error e => out := out ++ [Json.mkObj [("error", Json.str e)]]
      | .ok c =>
        clean := clean && Edge.cleanStepB m c
        let (m', e) := step m c
        m := m'
        out := out ++ [match e with | none => Json.mkObj [("s", Json.null)] | some e => Json.mkObj [("s", Json.str (errStr e))]]
    | .error _ =>
      match ev.getObjValAs? (Array Json) "compile" with
      | .ok os =>
        match os.toList.mapM (parseOut m.regs) with
        | .error e => out := out ++ [Json.mkObj [("err", Json.str e)]]
        | .ok decls =>
          match compile m.st decls with
          | .ok mir => out := out ++ [Json.mkObj [("mir", mirJson mir), ("spec", Json.mkObj [
              ("closed", Json.bool (Spec.closed mir)), ("acyclic", Json.bool (Spec.acyclic mir)),
              ("scoped", Json.bool (Spec.argScoped mir)), ("exact", Json.bool (Spec.exact mir)),
              ("storeWF", Json.bool (Spec.storeWF m.st)),
              ("clean", Json.bool clean), ("edges", Json.bool (Edge.storeEdgesOK m.st)),
              ("reduceInit", Json.bool (Taint.reduceInitOK m.st)), ("taint", Json.bool (Taint.storeTaintOK m.st))])]]
          | .error e => out := out ++ [Json.mkObj [("err", Json.str (errStr e))]]
      | .error _ => out := out ++ [Json.mkObj [("error", Json.str "bad event")]]
  return (out, m)

def handleProg (j : Json) : Json :=
  match j.getObjValAs? (Array Json) "events" with
  | .ok evs =>
    let (out, m) := runEvents {} evs.toList
    Json.mkObj [("results", Json.arr out.toArray), ("counter", Json.num (m.st.counter : Nat)),
                ("nregs", Json.num (m.regs.length : Nat))]
  | .error e => Json.mkObj [("error", Json.str e)]

end NadaVerif.Driver
