import Lean.Data.Json
import NadaVerif.Audit.Strict

namespace NadaVerif.Driver
open Lean NadaVerif.Audit

partial def parseAuditTy (j : Json) : Option Ty :=
  match j with
  | .str "list" => some .list
  | _ =>
    match j.getObjVal? "b", j.getObjVal? "l", j.getObjVal? "e" with
    | .ok (.str n), _, _ => some (.base n)
    | _, .ok t, _ => (parseAuditTy t).map .listOf
    | _, _, .ok (.bool r) => some (.err r)
    | _, _, _ => none

partial def tyJson : Ty → Json
  | .base n => Json.mkObj [("b", Json.str n)]
  | .listOf t => Json.mkObj [("l", tyJson t)]
  | .list => Json.str "list"
  | .err r => Json.mkObj [("e", Json.bool r)]

partial def parseAuditAnn (j : Json) : Option Ann :=
  match j with
  | .str "o" => some .other
  | _ =>
    match j.getObjVal? "n", j.getObjVal? "s" with
    | .ok (.str n), _ => some (.name n)
    | _, .ok (.arr #[v, s]) => do pure (.subscript (← parseAuditAnn v) (← parseAuditAnn s))
    | _, _ => none

def optTy : Option Ty → Json
  | some t => tyJson t
  | none => Json.null

def handleAudit (j : Json) : Json :=
  match j.getObjValAs? String "f" with
  | .ok "unify" =>
    (match (j.getObjVal? "a").toOption.bind parseAuditTy, (j.getObjVal? "b").toOption.bind parseAuditTy with
     | some a, some b => Json.mkObj [("r", optTy (unify a b))]
     | _, _ => Json.mkObj [("error", Json.str "bad types")])
  | .ok "mono" =>
    (match (j.getObjVal? "a").toOption.bind parseAuditTy with
     | some a => Json.mkObj [("mono", Json.bool (listMonomorphic a)), ("depth", Json.num (listDepth a : Nat))]
     | none => Json.mkObj [("error", Json.str "bad type")])
  | .ok "eval" =>
    (match (j.getObjVal? "a").toOption.bind parseAuditAnn with
     | some a => Json.mkObj [("r", optTy (typesEval a))]
     | none => Json.mkObj [("error", Json.str "bad annotation")])
  | _ => Json.mkObj [("error", Json.str "unknown audit function")]

end NadaVerif.Driver
