/- nvdriver request `sig`: run the two interpreters of `Audit/Signature.lean` on a command list. -/
import Lean.Data.Json
import NadaVerif.Audit.Signature
import NadaVerif.Spec.C02

namespace NadaVerif.Driver
open Lean NadaVerif NadaVerif.Sig

def parseSigCmd (j : Json) : Option Sig.Cmd :=
  match j.getObjValAs? String "op" with
  | .ok "party" => (j.getObjValAs? String "name").toOption.map .party
  | .ok "input" =>
    match j.getObjValAs? String "name", j.getObjValAs? Nat "party" with
    | .ok n, .ok p => some (.input n p) | _, _ => none
  | .ok "wrap" =>
    match j.getObjValAs? Bool "secret", j.getObjValAs? Nat "r" with
    | .ok s, .ok r => some (.wrap s r) | _, _ => none
  | .ok "lit" =>
    match j.getObjValAs? String "v" with
    | .ok v => v.toInt?.map .lit | _ => none
  | .ok "bin" =>
    match j.getObjValAs? String "bop", j.getObjValAs? Nat "a", j.getObjValAs? Nat "b" with
    | .ok o, .ok a, .ok b => (C02.binOpOf o).map fun op => .bin op a b
    | _, _, _ => none
  | .ok "ifElse" =>
    match j.getObjValAs? Nat "c", j.getObjValAs? Nat "a", j.getObjValAs? Nat "b" with
    | .ok c, .ok a, .ok b => some (.ifElse c a b) | _, _, _ => none
  | .ok "out" =>
    match j.getObjValAs? Nat "v", j.getObjValAs? String "name", j.getObjValAs? Nat "party" with
    | .ok v, .ok n, .ok p => some (.out v n p) | _, _, _ => none
  | _ => none

def secJson : Option Bool → Json
  | none => Json.null
  | some true => Json.str "SecretInteger"
  | some false => Json.str "PublicInteger"

def inputObjJson (ps : List String) (o : InputObj) : Json :=
  Json.arr #[Json.str o.name, Json.str (partyName ps o.party), secJson o.secret]

def triple (t : String × String × String) : Json := Json.arr #[Json.str t.1, Json.str t.2.1, Json.str t.2.2]

def handleSig (j : Json) : Json :=
  match j.getObjValAs? (Array Json) "cmds" with
  | .error e => Json.mkObj [("error", Json.str e)]
  | .ok arr =>
    match arr.toList.mapM parseSigCmd with
    | none => Json.mkObj [("error", Json.str "bad sig command")]
    | some cmds =>
      let a := absRun {} cmds
      let r := realRun {} cmds
      Json.mkObj [
        ("abs", match a with
          | none => Json.str "reject"
          | some s =>
            let sg := signature s
            Json.mkObj [("parties", Json.arr (sg.parties.map Json.str).toArray),
                        ("inputs", Json.arr (sg.inputs.map (inputObjJson sg.parties)).toArray),
                        ("outputs", Json.arr (sg.outputs.map triple).toArray)]),
        ("real", match r with
          | none => Json.str "reject"
          | some s =>
            match iface s with
            | none => Json.str "compile-reject"
            | some m =>
              Json.mkObj [("parties", Json.arr (m.parties.map Json.str).toArray),
                          ("inputs", Json.arr (m.inputs.map (fun e => inputObjJson s.parties e.2)).toArray),
                          ("input_ids", Json.arr (m.inputs.map (fun e => Json.num (e.1 : Nat))).toArray),
                          ("outputs", Json.arr (m.outputs.map triple).toArray)])]

end NadaVerif.Driver
