import NadaVerif.Runtime.Timer
import NadaVerif.Runtime.Helpers
import Lean.Data.Json
import NadaVerif.Scalar
import NadaVerif.Py.Int
import NadaVerif.Generated.ScalarTable
import NadaVerif.Generated.FoldOps
import NadaVerif.Spec.C02
import NadaVerif.Spec.C06
import NadaVerif.Spec.C03
import NadaVerif.Spec.C07
import NadaVerif.Runtime.SourceRef
import NadaVerif.Driver.AuditJson
import NadaVerif.Spec.C15
import NadaVerif.Driver.ProgJson
import NadaVerif.Driver.SigJson

namespace NadaVerif.Driver
open Lean NadaVerif NadaVerif.Py NadaVerif.Generated

def styJson (t : STy) : Json := Json.str t.pyName

def routJson : ROut → Json
  | .reject => Json.str "reject"
  | .weird => Json.str "weird"
  | .ok t f n m => Json.mkObj [("type", styJson t), ("folded", Json.bool f), ("op", Json.str n), ("mir", Json.str m)]

def rowJson (r : Row) : Json :=
  Json.mkObj [("op", Json.str r.1), ("args", Json.arr (r.2.1.map styJson).toArray),
              ("outcomes", Json.arr (r.2.2.map routJson).toArray)]

def failingRows (p : Row → Bool) : Json :=
  Json.arr ((scalarTables.flatten.filter (fun r => !p r)).map rowJson).toArray

def parseBinOp : String → Option BinOp := C02.binOpOf
def parseBase : String → Option Base
  | "int" => some .int | "uint" => some .uint | "bool" => some .bool | _ => none

def parsePyVal (j : Json) : Option PyVal :=
  match j with
  | .bool b => some (.bool b)
  | .str s => s.toInt?.map .int
  | _ => none

def pyValJson : PyVal → Json
  | .int v => Json.str (toString v)
  | .bool b => Json.bool b
  | .quot a b => Json.mkObj [("quot", Json.arr #[Json.str (toString a), Json.str (toString b)])]

def errName : PyErr → String
  | .zeroDiv => "ZeroDivisionError" | .valueErr => "ValueError" | .typeErr => "TypeError"
  | .overflow => "OverflowError" | .modelGap => "modelGap"

def resJson : Except PyErr PyVal → Json
  | .ok v => Json.mkObj [("ok", pyValJson v)]
  | .error e => Json.mkObj [("err", Json.str (errName e))]

def handleFold (j : Json) : Json :=
  match j.getObjValAs? String "op", j.getObjValAs? String "base", j.getObjVal? "a", j.getObjVal? "b" with
  | .ok op, .ok base, .ok a, .ok b =>
    match parseBase base, parsePyVal a, parsePyVal b with
    | some bs, some x, some y =>
      if op == "invert" then resJson (eval invertExpr x y)
      else match parseBinOp op with
        | some o => resJson (eval (foldExpr o bs) x y)
        | none => Json.mkObj [("error", Json.str "bad op")]
    | _, _, _ => Json.mkObj [("error", Json.str "bad operand")]
  | _, _, _, _ => Json.mkObj [("error", Json.str "bad fold request")]

def handle (j : Json) : Json :=
  match j.getObjValAs? String "k" with
  | .ok "ping" => Json.mkObj [("pong", Json.bool true)]
  | .ok "c02cells" => Json.mkObj [
      ("cellOK", failingRows C02.cellOK),
      ("eqModel", failingRows fun r => C02.eraseOut r.2.2 = some (C02.modelOut r.1 r.2.1)),
      ("foldedIffLiteral", failingRows C06.foldedIffLiteral)]
  | .ok "c03cells" => Json.mkObj [("noDeclass", failingRows C03.noDeclass)]
  | .ok "c07routes" => Json.arr ((C07.routes classTable).map fun (c, r, o, out) =>
      Json.arr #[Json.str c, Json.str r, Json.str o,
        Json.str (match out with | .raises => "raises" | .nada => "nada" | .silent => "silent")]).toArray
  | .ok "lineinfo" =>
    (match j.getObjValAs? (Array String) "lines", j.getObjValAs? Nat "lineno" with
     | .ok ls, .ok n =>
       let r := Runtime.lineInfo (ls.toList.map String.toList) n
       Json.arr #[Json.num (r.1 : Nat), Json.num (r.2 : Nat)]
     | _, _ => Json.mkObj [("error", Json.str "bad lineinfo request")])
  | .ok "intern" =>
    -- one compilation's `to_index` calls replayed from the table "table" (the repaired code starts from [])
    let refOf (a : Array Json) : Option Runtime.Ref :=
      match a.toList with
      | [l, o, f, n] => (match l.getNat?, o.getNat?, f.getStr?, n.getNat? with
          | .ok l, .ok o, .ok f, .ok n => some ⟨l, o, f, n⟩
          | _, _, _, _ => none)
      | _ => none
    let refJson (r : Runtime.Ref) : Json := Json.arr #[Json.num (r.lineno : Nat), Json.num (r.offset : Nat), Json.str r.file, Json.num (r.length : Nat)]
    (match j.getObjValAs? (Array (Array Json)) "table", j.getObjValAs? (Array (Array Json)) "refs" with
     | .ok t, .ok rs =>
       (match t.toList.mapM refOf, rs.toList.mapM refOf with
        | some t, some rs =>
          let p := Runtime.internAll t rs
          Json.mkObj [("indices", Json.arr (p.1.map fun (i : Nat) => Json.num i).toArray), ("table", Json.arr (p.2.map refJson).toArray)]
        | _, _ => Json.mkObj [("error", Json.str "bad reference")])
     | _, _ => Json.mkObj [("error", Json.str "bad intern request")])
  | .ok "timers" =>
    -- a history of compilations with the timers enabled: outcome codes, the attempted start / stop calls, the timers left running
    let nameStr : Runtime.TName → String
      | .compileScript => "nada_dsl.compile.compile"
      | .compileString => "nada_dsl.compile.compile_string"
      | .importProgram => "nada_dsl.compile.compile.__import__"
      | .output n => "nada_dsl.compiler_frontend.nada_dsl_to_nada_mir." ++ n ++ ".process_operation"
    let progOf (j : Json) : Option (Bool × Runtime.Prog) :=
      match j.getObjValAs? Bool "string", j.getObjValAs? Bool "importFails", j.getObjValAs? Bool "mainFails",
            j.getObjValAs? (Array Json) "outputs" with
      | .ok v, .ok i, .ok m, .ok os =>
        (os.toList.mapM fun (o : Json) => match o.getArrVal? 0, o.getArrVal? 1 with
          | .ok n, .ok f => (match n.getStr?, f.getBool? with | .ok n, .ok f => some (n, f) | _, _ => none)
          | _, _ => none).map fun outs => (v, { importFails := i, mainFails := m, outputs := outs })
      | _, _, _, _ => none
    (match j.getObjValAs? (Array Json) "history" with
     | .ok h =>
       (match h.toList.mapM progOf with
        | some hist =>
          let r := Runtime.runHistory {} hist
          Json.mkObj [("outcomes", Json.arr (r.1.map fun o => Json.num (Runtime.TErr.code o : Nat)).toArray),
                      ("log", Json.arr (r.2.log.map fun (st, n) => Json.arr #[Json.bool st, Json.str (nameStr n)]).toArray),
                      ("running", Json.arr (r.2.running.map fun n => Json.str (nameStr n)).toArray)]
        | none => Json.mkObj [("error", Json.str "bad program")])
     | _ => Json.mkObj [("error", Json.str "bad timers request")])
  | .ok "helpers" =>
    -- a history of compilations and edits: per compilation the helper modules whose files are executed
    let stepOf (j : Json) : Option (List (String × String × Nat) × String × List String) :=
      match j.getObjValAs? (Array Json) "disk", j.getObjValAs? String "dir", j.getObjValAs? (Array String) "names" with
      | .ok d, .ok dir, .ok ns =>
        (d.toList.mapM fun (e : Json) => match e.getArrVal? 0, e.getArrVal? 1, e.getArrVal? 2 with
          | .ok a, .ok b, .ok c => (match a.getStr?, b.getStr?, c.getNat? with | .ok a, .ok b, .ok c => some (a, b, c) | _, _, _ => none)
          | _, _, _ => none).map fun disk => (disk, dir, ns.toList)
      | _, _, _ => none
    (match j.getObjValAs? (Array Json) "history" with
     | .ok h =>
       (match h.toList.mapM stepOf with
        | some steps =>
          let run := steps.foldl (fun (acc : Runtime.Registry × List (List String)) (st : List (String × String × Nat) × String × List String) =>
            let disk : Runtime.Disk := fun d n => (st.1.find? fun e => e.1 == d && e.2.1 == n).map (·.2.2)
            let r := Runtime.compileFrom disk st.2.1 st.2.2 acc.1
            (r.1, acc.2 ++ [r.2])) ([], [])
          Json.mkObj [("executed", Json.arr (run.2.map fun l => Json.arr (l.map Json.str).toArray).toArray),
                      ("loaded", Json.arr (run.1.map fun h => Json.arr #[Json.str h.name, Json.str h.owner]).toArray)]
        | none => Json.mkObj [("error", Json.str "bad step")])
     | _ => Json.mkObj [("error", Json.str "bad helpers request")])
  | .ok "c15cells" => Json.mkObj [
      ("cellAgrees", failingRows C15.cellAgrees),
      ("checkerSound", Json.arr ((checkerTable.filter (fun r => !C15.checkerCellSound r || !C15.checkerCellProgress r)).map fun r =>
          Json.mkObj [("op", Json.str r.1), ("args", Json.arr (r.2.1.map Json.str).toArray), ("checker", Json.str r.2.2),
                      ("abstract", match C15.lookupAbs r.1 r.2.1 with | some s => Json.str s | none => Json.null)]).toArray)]
  | .ok "audit" => handleAudit j
  | .ok "fold" => handleFold j
  | .ok "prog" => handleProg j
  | .ok "sig" => handleSig j
  | .ok k => Json.mkObj [("error", Json.str ("unknown request " ++ k))]
  | .error e => Json.mkObj [("error", Json.str e)]

end NadaVerif.Driver
