"""Writes /verif/MANIFEST.json from the registry below (keeps it valid and in one place)."""
import json
import os
from .core import VERIF

MODEL_NOTE = ("Trusted: Lean kernel; the layer-B/Compile model is hand-written and tied to the Python code by the K1/K2 differential run "
              "(every step outcome and the property's projection of every MIR compared on this run's generated programs), so the claim "
              "about the real code is proof about the model + sampling of the tie; known findings mask only their listed signature.")

CHECKS = {
    "C02": dict(
        text="Lean theorem `scalarTable_ok` (decide +kernel) over the complete operator x type-tuple table that translator T1 "
             "regenerates from the running classes on every run (2295 cells x 5 operand provenances), plus `scalarTable_complete` "
             "and closed-form rule theorems; exhaustive, so nothing is sampled at the type level.",
        note="Trusted: Lean kernel, T1 (drives the real classes through Python operators), CPython operator dispatch. "
             "Provenance beyond the 5 enumerated classes rests on the layer-B correspondence.",
        technique="Lean 4 proof by kernel evaluation (decide +kernel) over a table regenerated from the code",
        design="6 C02"),
    "C01": dict(
        text="Lean theorems, for every store and every output list (induction over the iterative DFS and the function worklist of the "
             "compile model): all emitted tables are closed under operand references, file each id once, consist of store entries, "
             "contain the designated output / return operations, and are acyclic when operand ids are smaller than referring ids; "
             "`decide +kernel` over the AST schema regenerated from ast_util.py (T6) shows every operand key exported by to_mir is a child "
             "the traversal follows. The compile model is tied to compiler_frontend.py by a differential run (K1/K2) on generated programs; "
             "a Python oracle (closed / acyclic / scoped / unique resolution) runs on every real MIR.",
        note="Trusted: Lean kernel; T6 sentinel evaluation (straight-line bodies checked syntactically); the layer-B/Compile model is "
             "hand-written and sampled against the real code, so assurance for the real compiler is proof about the model + sampling of "
             "the tie. Unique resolution of function/input/literal references and scoping are currently decided by the oracle and the "
             "Lean Bool spec evaluated on every model MIR, not yet by a theorem.",
        technique="Lean 4 proof by induction over the traversal + kernel-decided schema table, model tied by differential testing",
        design="6 C01"),
    "C03": dict(
        text="Lean `table_no_declass` (decide +kernel) over the complete operator table regenerated from the running classes (T1): no "
             "accepted application other than to_public/public_equals is typed less secret than an operand, random() is secret, MIR "
             "names record secrecy faithfully; closed-form no-declassification theorems for all operators and types. Whole-MIR level: a "
             "taint analysis (sources: secret inputs and Random; sinks: every typed scalar leaf, component-wise through containers and "
             "function bindings) runs on every real MIR of the differential run; the whole-program Lean theorem is not proved yet.",
        note=MODEL_NOTE, technique="Lean 4 proof by kernel evaluation over a regenerated table + case analysis; taint oracle on real MIRs",
        design="6 C03"),
    "C04": dict(
        text="Lean `schema_roundtrip` (decide +kernel over the T6/T7 tables regenerated from store_in_ast / to_mir): every operand a wrapper "
             "holds reaches its MIR key, in order; per-command theorems for all register files and states (operand order of binary "
             "operations and if_else, fresh node per executed operation, rejected operations change nothing). The whole-program statement "
             "is decided by an oracle that matches the expression DAG written by the program (built from the command list alone) against "
             "every real MIR with a node<->id bijection (sharing included).",
        note=MODEL_NOTE, technique="Lean 4 proof (kernel-decided schema composition, simp over the trace model) + DAG-matching oracle",
        design="6 C04"),
    "C05": dict(
        text="Lean `toMir_complete` by mutual structural induction over arbitrarily nested DSL values: to_mir() of a value with positive "
             "sizes and no TypeVar is a complete Nada type; edge rules of zip/unzip/map/new as theorems for all sizes and element types; "
             "scalar edges via the regenerated table (`scalarTable_eq_model`); outputs carry their operation's type. An edge-consistency "
             "oracle re-derives every operation's type from its operands' recorded types on every real MIR.",
        note=MODEL_NOTE, technique="Lean 4 proof by mutual structural induction + kernel-decided table; type re-derivation oracle",
        design="6 C05"),
    "C07": dict(
        text="Lean `nonliterals_oblivious` (decide +kernel) over the special-method table regenerated by reflection from the running "
             "classes (T3: every Nada value class x protocol slot x kind of other operand): with CPython's dispatch rules modelled in "
             "Py/Protocol.lean, every truth test of a non-literal value raises, every comparison raises or returns a Nada value, "
             "comparisons used as conditions / ordering / membership raise, the classes are unhashable, iterating an Array raises. "
             "Partial: the dispatch model is validated, not derived — every construct is executed on real instances (three provenances) "
             "on every run and compared with the model's prediction, and judged directly.",
        note="Trusted: Lean kernel, T3 reflection, Py/Protocol.lean as a model of CPython special-method dispatch (checked against real "
             "executions of 26+ constructs per class on every run). 'MIR is a function of the program text' is C13's determinism clause.",
        technique="Lean 4 proof by kernel evaluation over a reflected protocol table + exhaustive route execution",
        design="6 C07"),
    "C08": dict(
        text="Lean `compile_mono` (induction over the traversal, the function worklist and the output list): if the store returns for "
             "every id the program's own record, then whatever else it holds — records of earlier programs, partial effects of failed "
             "commands, later traces — the emitted MIR is identical; corollaries for 'B traced after history A' and for later traces; "
             "emitted tables hold only records reachable from the outputs. The compile model keeps no state between compilations; that "
             "the real compiler behaves so is checked by running whole histories (failing compilations included) through model and real "
             "code (K3) and by a metamorphic oracle on the real code (B after history vs B fresh, up to id / literal renaming).",
        note=MODEL_NOTE + " Invariance under the id shift and literal renaming induced by a history is not proved in Lean; it is decided "
             "by the metamorphic run.",
        technique="Lean 4 proof of store-monotonicity of compilation + history differential run and metamorphic oracle",
        design="6 C08"),
    "C09": dict(
        text="Lean theorems for every store and output list (induction over the iterative DFS / function worklist of the compile model): "
             "no dead operation in any emitted table (reachability from outputs / return operation), nothing missing (closure, roots "
             "present), no id twice, entries are the store's own records. List-level clauses (functions/inputs/literals/parties exactly "
             "the referenced ones, literal entries carry the written value, distinct pairs distinct entries) are the executable spec "
             "`Spec.exact`, evaluated on every model MIR and mirrored by the oracle on every real MIR.",
        note=MODEL_NOTE + " md5 of the literal key is assumed collision-free on the keys that occur.",
        technique="Lean 4 proof by induction over the traversal; exactness oracle on real MIRs", design="6 C09"),
    "C10": dict(
        text="Lean theorems about the compile model: outputs are emitted in declaration order with name, party and designated operation; a "
             "second different input under a used name is rejected whatever parties own them; accepting an input lists its party. Oracle: "
             "every real MIR's inputs/outputs/parties against the declarations in the command list; non-Nada outputs are probed.",
        note=MODEL_NOTE, technique="Lean 4 proof by induction over the output list + interface oracle", design="6 C10"),
    "C11": dict(
        text="Lean `schema_roundtrip` over regenerated T6/T7 tables (function -> fn/function_id, arguments in call order, parameter names) "
             "and theorems about the trace model for all register files and states: call/reduce/map bindings, arity and literal-type "
             "restrictions, the stored function record. Oracle: signatures and site bindings of every real MIR against the definitions and "
             "call sites in the command list; each function emitted once.",
        note=MODEL_NOTE, technique="Lean 4 proof (kernel-decided schema tables, simp over the trace model) + binding oracle", design="6 C11"),
    "C12": dict(
        text="Lean theorems about the trace model for all register files, states, sizes (Option Int), element types, indices and keys: "
             "size mismatch, non-integer inner product, empty / mixed Array.new, out-of-range index, undeclared field are rejected without "
             "any state change; an accepted index is recorded in 0..n-1; result type rules of zip/unzip/map/new. Oracle: the real step "
             "outcomes against preconditions computed from the real operands, and collection edges of every real MIR.",
        note=MODEL_NOTE, technique="Lean 4 proof (simp/omega over the trace model) + precondition oracle on the real code", design="6 C12"),
    "C06": dict(
        text="Lean theorems for all Int / Bool operands about the folding term regenerated syntactically (T2) from the lambdas, helper "
             "CONSTANT-cases and literal constructors of scalar_types.py: exact +,-,*,**,<<,>>, comparisons, connectives, and the "
             "quotient/remainder law; which applications fold is proved over the regenerated T1 table. The Python-int semantics "
             "(Py/Int.lean) is validated against CPython on every run (K4) and an exact-arithmetic oracle runs on the real classes.",
        note="Trusted: Lean kernel, T2 (syntactic translator), Py/Int.lean as a model of CPython int arithmetic (K4-sampled).",
        technique="Lean 4 proof over Int (omega / core Int lemmas) about a term regenerated from the source",
        design="6 C06"),
    "C13": dict(
        text="Lean theorems about the model of the command-line entry point (exactly one line for every argument list; Success with "
             "the MIR iff the program compiled, Failure with the reason otherwise; file and base64 entry points agree on the same text) "
             "and determinism of the trace/compile model (a function: no set or hash order can enter). Partial: hash randomisation, the "
             "import system, stdout and timers are runtime; every run compiles generated programs in fresh processes through both "
             "entry points under several PYTHONHASHSEED values and with NADA_TIMER, requiring byte-identical stdout and equal MIRs.",
        note="Trusted: Lean kernel; Runtime/Cli.lean is a hand-written model of compile.py's __main__ block; the determinism of the real "
             "process is sampled (fresh-process runs), not proved.",
        technique="Lean 4 proof about the CLI/compile model + fresh-process differential runs across entry points and hash seeds",
        design="6 C13"),
    "C14": dict(
        text="Partial. Lean `checker_tables_sound` / `checker_tables_progress` (decide +kernel over tables regenerated by running the "
             "real checker and the real abstract classes, T5): for every operator application (+ - * unary, six comparisons, if_else) "
             "over every combination of Nada classes, a class inferred by the checker is exactly the class abstract execution yields, "
             "and it does not raise. Whole-program preservation/progress (assignments, lists, loops, comprehensions, helper functions) "
             "is decided by an instrumented run: generated programs are checked, then executed under nada_dsl.audit with every typed "
             "expression recorded, and inferred type vs bound value compared.",
        note="Trusted: Lean kernel, T5 (exhaustive evaluation through the real checker on one-line programs). No Lean model of the whole "
             "checker / evaluator: preservation for compound programs is sampled, not proved.",
        technique="Lean 4 proof by kernel evaluation over regenerated checker/abstract tables + instrumented abstract execution",
        design="6 C14"),
    "C15": dict(
        text="Lean `abstract_accepts_when_real` (decide +kernel over two regenerated tables: T1 from the real classes, T5 from "
             "nada_dsl.audit): for every modelled operator and every combination of integer/boolean operand classes, real acceptance "
             "implies abstract acceptance with the class of the same name; exactness theorems for all Int values about the value-"
             "propagation terms translated syntactically from abstract.py (arithmetic, negation, comparisons, the conditional). "
             "Compositions and big values are run through both libraries and compared with exact integer evaluation (K5).",
        note="Trusted: Lean kernel, T1/T5 (exhaustive evaluation), the syntactic translator, Py/Int.lean (K4-validated).",
        technique="Lean 4 proof by kernel evaluation over regenerated tables + exactness over Int of translated terms",
        design="6 C15"),
    "C16": dict(
        text="Partial. The fragments of the checker whose totality is not obvious — annotation resolution (no eval: the result type has "
             "no 'executed' outcome), unification and monomorphism tests on type terms including error values, the subscript-target loop, "
             "range normalisation of the report — are total Lean functions with theorems (termination by structural recursion / measure, "
             "results in range) and are diffed against the Python functions on generated inputs. The whole auditor (ast.parse, parsial, "
             "asttokens, types, enrich, render, html) is run on generated sources covering every ast statement/expression class, type "
             "errors, layout variation and corrupted lines under a watchdog and an audit hook: it must return a report, never raise, "
             "never loop, never exec code of the audited text.",
        note="Trusted: Lean kernel; only fragments of strict.py are modelled (the bulk of `types` is structural recursion over the ast "
             "tree and is sampled, not proved); third-party parser/tokeniser/report libraries are exercised, not modelled.",
        technique="Lean 4 totality proofs for the non-obvious fragments + watchdog/audit-hook fuzzing of the whole auditor",
        design="6 C16"),
    "C17": dict(
        text="Lean `render_erase`: for every source text and every sequence of delimiter pushes (hence any sequence of enrich calls with "
             "any ranges, whitespace skipping or intermediate lines), removing the inserted markup from the rendered report gives back "
             "the source, line for line (induction over pushes, lines and cells of the richreports model). Partial: proper nesting, the "
             "displayed type/error of every audited node, display of every restriction and marking of skipped lines are decided by an "
             "oracle that reads every real report token by token from its stacks (delimiters identified by position, not by pattern).",
        note="Trusted: Lean kernel; Audit/Report.lean is a model of richreports' stacks/render; token positions come from asttokens.",
        technique="Lean 4 proof by induction over pushes/cells of the report model + token-level report oracle",
        design="6 C17"),
    "C18": dict(
        text="Lean theorems for every straight-line program of the common subset (any length; unused, never-wrapped, re-wrapped and "
             "same-name inputs, duplicate party names included) that both interpreters of Audit/Signature.lean accept: `outputs_agree` "
             "(same names, parties, value classes, order), `mir_inputs_in_signature`, `mir_parties_in_signature`, `extra_inputs_exact`, "
             "`extra_parties_exact` (the signature's extras are exactly what no output depends on / is delivered to), by a lockstep "
             "simulation (`run_rel`) whose operator case is `tables_agree`: decide +kernel over the abstract-operator table regenerated "
             "from abstract.py (T5) against the scalar typing kernel (tied to the real classes by T1). Both interpreters are tied to the "
             "code by K8: real signature() and real compile_string() on rendered programs (lists, sum, loops, comprehensions, helper "
             "functions, module-level declarations) are compared with the model's two results, and the property is decided directly on "
             "the two real results.",
        note="Trusted: Lean kernel, T5/T1; Audit/Signature.lean is a hand-written model (abstract aggregators; interface view of the "
             "compiler = inputs reachable from outputs), sampled against the real code by K8. `mir_outputs` needs the hypothesis "
             "freshOutputs (no output hands over a stale wrapper of a re-wrapped Input), the complement of known finding F-C03-2; "
             "`stale_wrapper_output_differs` shows it is necessary.",
        technique="Lean 4 proof by simulation induction over the command list + kernel-decided regenerated table; differential run of both real sides",
        design="6 C18"),
    "C19": dict(
        text="Lean theorems for all texts and line numbers (`lineInfo_exact`: offset/length delimit exactly the line, last line "
             "included; `intern_*`: to_index returns an equal entry and keeps earlier indices; `resolve_user`: the frame walk returns "
             "the innermost frame outside the package) and `frames_user` / `call_sites_covered` (decide +kernel) over the table "
             "regenerated by running a catalogue of every DSL entry point from a user file (T4). Partial: frame objects are runtime; the "
             "catalogue is re-run from three file names in one process and try_get_line_info is compared with the Lean lineInfo on random "
             "texts on every run.",
        note="Trusted: Lean kernel, T4 (dynamic catalogue run; all syntactic back_frame() call sites must be reached), CPython frame "
             "semantics; Runtime/SourceRef.lean is a hand-written model of source_ref.py, diffed against it on random texts.",
        technique="Lean 4 proof (induction over lines / frames) + kernel-decided regenerated frame table",
        design="6 C19"),
}


def build():
    checks = []
    for pid in sorted(CHECKS):
        c = CHECKS[pid]
        checks.append({
            "property_id": pid,
            "quick_cmd": f"./check {pid} --tier quick",
            "thorough_cmd": f"./check {pid} --tier thorough",
            "evidence_file": f"evidence/{pid}.json",
            "replay_cmd_template": f"./check {pid} --replay {{path}}",
            "engine": "nada-verif-lean",
            "level_claimed": {"category": "proof", "text": c["text"], "design_ref": c["design"]},
            "level_note": c["note"],
            "technique": c["technique"],
        })
    all_ids = [f"C{i:02d}" for i in range(1, 20)]
    na = [{"property_id": p, "reason": "check not built yet in this session (work in progress, see DESIGN.md §10); not a claim that the technique cannot apply"}
          for p in all_ids if p not in CHECKS]
    m = {
        "version": 1,
        "setup_cmd": "cd lean && lake build",
        "hooks": {
            "guard": "NADA_DSL_VERIF",
            "enable": "no hooks are installed in /repo; all instrumentation wraps the code from the harness process",
            "baseline_off_cmd": "cd /repo && /venv/bin/python -m pytest -ra -q -p no:cacheprovider --timeout=900 --continue-on-collection-errors",
            "source_commits": [],
            "add_only": True,
        },
        "engines": [{
            "name": "nada-verif-lean", "path": "lean/ + harness/nv + check",
            "serves_properties": sorted(CHECKS),
            "kind_free_text": "Lean 4 models and theorems (lake project, no dependencies) tied to /repo by translators that regenerate "
                              "Lean tables/terms from the working tree and by differential runs of the compiled model (nvdriver) "
                              "against the real implementation; Python oracles on the real code produce replays",
        }],
        "checks": checks,
        "notes": "All checks: ./check Cnn [--tier quick|thorough] [--replay FILE]; exit 0 held / 1 VIOLATION / 2 machinery problem.",
        "not_applicable": na,
    }
    with open(os.path.join(VERIF, "MANIFEST.json"), "w", encoding="utf-8") as f:
        json.dump(m, f, indent=1)
    return m


if __name__ == "__main__":
    build()
