"""Writes /verif/MANIFEST.json from the registry below (keeps it valid and in one place)."""
import json
import os
from .core import VERIF

CHECKS = {
    "C02": dict(
        text="Lean theorem `scalarTable_ok` (decide +kernel) over the complete operator x type-tuple table that translator T1 "
             "regenerates from the running classes on every run (2295 cells x 5 operand provenances), plus `scalarTable_complete` "
             "and closed-form rule theorems; exhaustive, so nothing is sampled at the type level.",
        note="Trusted: Lean kernel, T1 (drives the real classes through Python operators), CPython operator dispatch. "
             "Provenance beyond the 5 enumerated classes rests on the layer-B correspondence.",
        technique="Lean 4 proof by kernel evaluation (decide +kernel) over a table regenerated from the code",
        design="6 C02"),
    "C01": dict(
        text="Lean theorems, for every store and every output list (induction over the iterative DFS and the function worklist of the "
             "compile model): all emitted tables are closed under operand references, file each id once, consist of store entries, "
             "contain the designated output / return operations, and are acyclic when operand ids are smaller than referring ids; "
             "`decide +kernel` over the AST schema regenerated from ast_util.py (T6) shows every operand key exported by to_mir is a child "
             "the traversal follows. The compile model is tied to compiler_frontend.py by a differential run (K1/K2) on generated programs; "
             "a Python oracle (closed / acyclic / scoped / unique resolution) runs on every real MIR.",
        note="Trusted: Lean kernel; T6 sentinel evaluation (straight-line bodies checked syntactically); the layer-B/Compile model is "
             "hand-written and sampled against the real code, so assurance for the real compiler is proof about the model + sampling of "
             "the tie. Unique resolution of function/input/literal references and scoping are currently decided by the oracle and the "
             "Lean Bool spec evaluated on every model MIR, not yet by a theorem.",
        technique="Lean 4 proof by induction over the traversal + kernel-decided schema table, model tied by differential testing",
        design="6 C01"),
    "C06": dict(
        text="Lean theorems for all Int / Bool operands about the folding term regenerated syntactically (T2) from the lambdas, helper "
             "CONSTANT-cases and literal constructors of scalar_types.py: exact +,-,*,**,<<,>>, comparisons, connectives, and the "
             "quotient/remainder law; which applications fold is proved over the regenerated T1 table. The Python-int semantics "
             "(Py/Int.lean) is validated against CPython on every run (K4) and an exact-arithmetic oracle runs on the real classes.",
        note="Trusted: Lean kernel, T2 (syntactic translator), Py/Int.lean as a model of CPython int arithmetic (K4-sampled).",
        technique="Lean 4 proof over Int (omega / core Int lemmas) about a term regenerated from the source",
        design="6 C06"),
}


def build():
    checks = []
    for pid in sorted(CHECKS):
        c = CHECKS[pid]
        checks.append({
            "property_id": pid,
            "quick_cmd": f"./check {pid} --tier quick",
            "thorough_cmd": f"./check {pid} --tier thorough",
            "evidence_file": f"evidence/{pid}.json",
            "replay_cmd_template": f"./check {pid} --replay {{path}}",
            "engine": "nada-verif-lean",
            "level_claimed": {"category": "proof", "text": c["text"], "design_ref": c["design"]},
            "level_note": c["note"],
            "technique": c["technique"],
        })
    all_ids = [f"C{i:02d}" for i in range(1, 20)]
    na = [{"property_id": p, "reason": "check not built yet in this session (work in progress, see DESIGN.md §10); not a claim that the technique cannot apply"}
          for p in all_ids if p not in CHECKS]
    m = {
        "version": 1,
        "setup_cmd": "cd lean && lake build",
        "hooks": {
            "guard": "NADA_DSL_VERIF",
            "enable": "no hooks are installed in /repo; all instrumentation wraps the code from the harness process",
            "baseline_off_cmd": "cd /repo && /venv/bin/python -m pytest -ra -q -p no:cacheprovider --timeout=900 --continue-on-collection-errors",
            "source_commits": [],
            "add_only": True,
        },
        "engines": [{
            "name": "nada-verif-lean", "path": "lean/ + harness/nv + check",
            "serves_properties": sorted(CHECKS),
            "kind_free_text": "Lean 4 models and theorems (lake project, no dependencies) tied to /repo by translators that regenerate "
                              "Lean tables/terms from the working tree and by differential runs of the compiled model (nvdriver) "
                              "against the real implementation; Python oracles on the real code produce replays",
        }],
        "checks": checks,
        "notes": "All checks: ./check Cnn [--tier quick|thorough] [--replay FILE]; exit 0 held / 1 VIOLATION / 2 machinery problem.",
        "not_applicable": na,
    }
    with open(os.path.join(VERIF, "MANIFEST.json"), "w", encoding="utf-8") as f:
        json.dump(m, f, indent=1)
    return m


if __name__ == "__main__":
    build()
