"""Run in a fresh interpreter: a history of edits of helper files and compilations of programs; prints, per compilation, the helper
modules whose files were executed (in order) and whether the program compiled.

usage: python -m nv.real.helper_hist <script.json>      script: [["edit", path, text] | ["compile", program path], ...]
Every helper file reports its own execution through `builtins.NV_EXEC`."""
import builtins
import contextlib
import io
import json
import sys


def main():
    from nada_dsl.compile import compile_script
    with open(sys.argv[1], encoding="utf-8") as f:
        script = json.load(f)
    builtins.NV_EXEC = []
    out = []
    for op in script:
        if op[0] == "edit":
            with open(op[1], "w", encoding="utf-8") as f:
                f.write(op[2])
            continue
        del builtins.NV_EXEC[:]
        try:
            with contextlib.redirect_stdout(io.StringIO()):
                mir = json.loads(compile_script(op[1]).mir)
            lits = sorted(l["value"] for l in mir["literals"])
            out.append({"executed": list(builtins.NV_EXEC), "literals": lits})
        except BaseException as exc:  # pylint: disable=broad-except
            out.append({"executed": list(builtins.NV_EXEC), "err": f"{type(exc).__name__}: {exc}"[:200]})
    sys.stdout.write(json.dumps(out))


if __name__ == "__main__":
    main()
