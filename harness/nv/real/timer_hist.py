"""Run in a fresh interpreter: compile the given programs in order with the timers enabled and print one JSON object —
the start / stop calls that were attempted (in order), the outcome of every compilation (0 returned, 1 TimerError,
2 another exception) and the timers left running.

usage: python -m nv.real.timer_hist <script|string>:<path> [...]"""
import base64
import contextlib
import io
import json
import sys


def main():
    from nada_dsl.compile import compile_script, compile_string
    from nada_dsl.timer import timer, TimerError
    timer.enable()
    clock = timer.clock
    log = []
    real_start, real_stop = clock.start, clock.stop

    def start(name):
        log.append([True, name])
        return real_start(name)

    def stop(name):
        log.append([False, name])
        return real_stop(name)
    clock.start, clock.stop = start, stop
    outcomes = []
    for arg in sys.argv[1:]:
        via, path = arg.split(":", 1)
        try:
            with contextlib.redirect_stdout(io.StringIO()):
                if via == "script":
                    compile_script(path)
                else:
                    with open(path, "rb") as f:
                        compile_string(base64.b64encode(f.read()).decode())
            outcomes.append(0)
        except TimerError:
            outcomes.append(1)
        except BaseException:  # pylint: disable=broad-except
            outcomes.append(2)
    sys.stdout.write(json.dumps({"log": log, "outcomes": outcomes, "running": sorted(getattr(clock, "running", {}))}))


if __name__ == "__main__":
    main()
