"""Access to the real nada_dsl globals (nothing in /repo is modified)."""
import nada_dsl  # noqa: F401
from nada_dsl import ast_util, compiler_frontend, source_ref
from nada_dsl.timer import timer, Clock


def reset_globals():
    """Bring the process-global tracing/compilation state back to the import-time state
    (what the test-suite's autouse fixture does, plus the counter and FUNCTIONS)."""
    ast_util.AST_OPERATIONS.clear()
    ast_util.LITERALS.clear()
    ast_util.OPERATION_ID_COUNTER = 0
    compiler_frontend.INPUTS.clear()
    compiler_frontend.PARTIES.clear()
    compiler_frontend.FUNCTIONS.clear()
    compiler_frontend.LITERALS.clear()
    source_ref.USED_SOURCES.clear()
    getattr(source_ref, "_SOURCE_PATHS", {}).clear()
    source_ref.REFS.clear()
    source_ref.index_map.clear()
    source_ref.next_index = 0
    timer.clock = Clock()


def counter():
    return ast_util.OPERATION_ID_COUNTER
