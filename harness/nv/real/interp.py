"""Interpreter of the `Cmd` IR (DESIGN §4 layer B) over the *real* nada_dsl.

`Machine.exec(cmd)` runs one non-bracket command against the real constructors / operators and
binds the result to the next register; `Machine.run_fn` traces a `@nada_fn` whose body is a
callback (used online by the generator and offline by `run_events`).  Nothing in /repo is patched.
"""
import typing
from nada_dsl import *  # noqa
from nada_dsl import ast_util
from nada_dsl.compiler_frontend import nada_dsl_to_nada_mir, CompilerException
from nada_dsl.errors import NotAllowedException, IncompatibleTypesError, InvalidTypeError
from nada_dsl.nada_types import NadaType
from nada_dsl.nada_types.function import NadaFunction
from nada_dsl.nada_types.scalar_types import ScalarType
from nada_dsl.program_io import Input as RawInput


class _Dead(Exception):
    pass


class _Sentinel:
    def __repr__(self):
        return "DEAD"


DEAD = _Sentinel()

SCALARS = {c.__name__: c for c in (Integer, UnsignedInteger, Boolean, PublicInteger, PublicUnsignedInteger,
                                   PublicBoolean, SecretInteger, SecretUnsignedInteger, SecretBoolean)}
LITCLS = {"int": Integer, "uint": UnsignedInteger, "bool": Boolean}

BINOPS = {
    "add": lambda a, b: a + b, "sub": lambda a, b: a - b, "mul": lambda a, b: a * b, "div": lambda a, b: a / b,
    "mod": lambda a, b: a % b, "pow": lambda a, b: a ** b, "shl": lambda a, b: a << b, "shr": lambda a, b: a >> b,
    "lt": lambda a, b: a < b, "gt": lambda a, b: a > b, "le": lambda a, b: a <= b, "ge": lambda a, b: a >= b,
    "eq": lambda a, b: a == b, "ne": lambda a, b: a != b, "and": lambda a, b: a & b, "or": lambda a, b: a | b,
    "xor": lambda a, b: a ^ b,
}


def canon_err(exc):
    if isinstance(exc, _Dead):
        return "dead"
    if isinstance(exc, (TypeError, AttributeError)):
        return "T"
    if isinstance(exc, IndexError):
        return "IndexError"
    if isinstance(exc, (ZeroDivisionError, OverflowError)):
        return "ZeroDivision"
    if isinstance(exc, ValueError):
        return "ValueError"
    if isinstance(exc, NotAllowedException):
        return "NotAllowed"
    if isinstance(exc, IncompatibleTypesError):
        return "IncompatibleTypes"
    if isinstance(exc, InvalidTypeError):
        return "InvalidType"
    if isinstance(exc, CompilerException):
        return "Compiler"
    if isinstance(exc, KeyError):
        return "KeyError"
    return type(exc).__name__


def ann_of(a):
    if a == "Array":
        return Array
    if isinstance(a, str):
        return SCALARS[a]
    return Array[ann_of(a[1])]


def as_int(v):
    return v if isinstance(v, bool) else int(v)


class Machine:
    def __init__(self):
        self.regs = []
        self.results = []     # one entry per event, in execution order
        self.events = []

    # -- helpers -----------------------------------------------------------------------------
    def _get(self, r):
        v = self.regs[r]
        if v is DEAD:
            raise _Dead()
        return v

    def _operands(self, cmd):
        op = cmd["op"]
        rs = []
        for k in ("a", "b", "c", "r", "t", "o", "f", "init", "party", "ret"):
            if k in cmd and isinstance(cmd[k], int) and not (op == "wrap" and k == "t") \
                    and not (op == "random" and k == "t"):
                rs.append(cmd[k])
        for k in ("xs", "args"):
            rs += list(cmd.get(k, []))
        rs += [r for _, r in cmd.get("kw", [])]
        if op == "objectNew":
            rs += [r for _, r in cmd["fs"]]
        return rs

    def _run(self, cmd):
        op = cmd["op"]
        g = self._get
        for r in self._operands(cmd):
            g(r)
        if op == "nop":
            raise _Dead()
        if op == "party":
            return Party(cmd["name"])
        if op == "inputObj":
            return RawInput(cmd["name"], g(cmd["party"]), cmd["doc"])
        if op == "wrap":
            return SCALARS[cmd["t"]](g(cmd["r"]))
        if op == "arrayOf":
            return Array(g(cmd["r"]), size=None if cmd.get("size") is None else int(cmd["size"]))
        if op == "lit":
            return LITCLS[cmd["base"]](as_int(cmd["v"]))
        if op == "bin":
            return BINOPS[cmd["bop"]](g(cmd["a"]), g(cmd["b"]))
        if op == "invert":
            return ~g(cmd["a"])
        if op == "reveal":
            return g(cmd["a"]).to_public()
        if op == "truncPr":
            return g(cmd["a"]).trunc_pr(g(cmd["b"]))
        if op == "publicEquals":
            return g(cmd["a"]).public_equals(g(cmd["b"]))
        if op == "ifElse":
            return g(cmd["c"]).if_else(g(cmd["a"]), g(cmd["b"]))
        if op == "random":
            return SCALARS[cmd["t"]].random()
        if op == "radd":
            return int(cmd["k"]) + g(cmd["a"])
        if op == "arrayNew":
            return Array.new(*[g(r) for r in cmd["xs"]])
        if op == "tupleNew":
            return Tuple.new(g(cmd["a"]), g(cmd["b"]))
        if op == "ntupleNew":
            # the caller goes on using its list: the tuple must not follow it (members rotated afterwards, nothing traced)
            members = [g(r) for r in cmd["xs"]]
            made = NTuple.new(members)
            members[:] = members[1:] + members[:1]
            return made
        if op == "objectNew":
            fields = {n: g(r) for n, r in cmd["fs"]}
            made = Object.new(fields)
            names, vals = list(fields), list(fields.values())
            fields.update(zip(names, vals[1:] + vals[:1]))
            return made
        if op == "ntupleGet":
            return g(cmd["t"])[int(cmd["i"])]
        if op == "objectGet":
            return getattr(g(cmd["o"]), cmd["key"])
        if op == "zip":
            return g(cmd["a"]).zip(g(cmd["b"]))
        if op == "unzip":
            return unzip(g(cmd["a"]))
        if op == "map":
            return g(cmd["a"]).map(g(cmd["f"]))
        if op == "reduce":
            return g(cmd["a"]).reduce(g(cmd["f"]), g(cmd["init"]))
        if op == "innerProduct":
            return g(cmd["a"]).inner_product(g(cmd["b"]))
        if op == "call":
            return g(cmd["f"])(*[g(r) for r in cmd["args"]], **{n: g(r) for n, r in cmd.get("kw", [])})
        raise ValueError("unknown command " + op)

    # -- public API --------------------------------------------------------------------------
    def exec(self, cmd):
        """Execute one non-bracket command; returns None or the canonical error class."""
        self.events.append({"c": cmd})
        try:
            v = self._run(cmd)
            err = None
        except Exception as exc:  # pylint: disable=broad-except
            v, err = DEAD, canon_err(exc)
        self.regs.append(v)
        self.results.append({"s": err})
        return err

    def run_fn(self, name, params, ret_ann, body, plain=None):
        """Trace a nada_fn. `body(param_regs)` runs inside the function and returns the register to
        return. Emits beginFn … endFn around whatever the body executes."""
        begin = {"op": "beginFn", "name": name, "params": [[n, a] for n, a in params]}
        if plain is not None:
            # rendering hint for K10 (ignored by the model and by this interpreter): functions of one group are one
            # undecorated Python function whose free variable is rebound before each use
            begin["plain"] = plain
        self.events.append({"c": begin})
        slot = len(self.results)
        self.results.append({"s": None})
        base = len(self.regs)
        state = {"entered": False, "ret": None}
        machine = self

        def _impl(*args):
            state["entered"] = True
            for a in args:
                machine.regs.append(a)
            ret = body(list(range(base, base + len(args))))
            state["ret"] = ret
            v = machine.regs[ret]
            if v is DEAD:
                raise _Dead()
            return v

        names = [n for n, _ in params]
        src = f"def {name}({', '.join(names)}):\n    return _impl({', '.join(names)})\n"
        env = {"_impl": _impl}
        exec(src, env)  # harness-local wrapper giving the function its name and parameter names
        fn = env[name]
        try:
            # explicit-type form; the dictionary is deliberately not in signature order (its order must not matter)
            res = nada_fn(fn, args_ty={n: ann_of(a) for n, a in reversed(params)}, return_ty=SCALARS[ret_ann])
            err = None
        except Exception as exc:  # pylint: disable=broad-except
            res, err = DEAD, canon_err(exc)
        if not state["entered"]:
            # the body never ran: bind dead parameters so that register numbers stay static
            for _ in params:
                self.regs.append(DEAD)
            self.results[slot] = {"s": err}
            ret = body(list(range(base, base + len(params)))) if False else None
            state["ret"] = len(self.regs) - 1 if self.regs else 0
            err_end = "dead"
        else:
            err_end = err
        self.events.append({"c": {"op": "endFn", "ret": state["ret"], "retAnn": ret_ann}})
        self.regs.append(res)
        self.results.append({"s": err_end})
        return err_end

    def compile(self, outs):
        """outs: list of [valueReg, name, partyReg]."""
        self.events.append({"compile": [list(o) for o in outs]})
        try:
            outputs = [Output(self._get(v), name, self._get(p)) for v, name, p in outs]
            mir = nada_dsl_to_nada_mir(outputs)
            res = {"mir": mir}
        except Exception as exc:  # pylint: disable=broad-except
            res = {"err": canon_err(exc)}
        self.results.append(res)
        return res


def run_events(events):
    """Offline: execute a fixed event list (brackets matched) on a fresh machine."""
    m = Machine()

    def block(i, stop):
        while i < stop:
            ev = events[i]
            if "compile" in ev:
                m.compile(ev["compile"])
                i += 1
                continue
            c = ev["c"]
            if c["op"] == "beginFn":
                depth, j = 0, i + 1
                while j < len(events):
                    cj = events[j].get("c", {})
                    if cj.get("op") == "beginFn":
                        depth += 1
                    elif cj.get("op") == "endFn":
                        if depth == 0:
                            break
                        depth -= 1
                    j += 1
                end = events[j]["c"] if j < len(events) else {"ret": 0, "retAnn": "SecretInteger"}

                def body(_param_regs, i=i, j=j, end=end):
                    block(i + 1, min(j, len(events)))
                    return end["ret"]

                m.run_fn(c["name"], [tuple(p) for p in c["params"]], end["retAnn"], body, plain=c.get("plain"))
                i = j + 1
            elif c["op"] == "endFn":
                i += 1      # unmatched: ignored
            else:
                m.exec(c)
                i += 1
        return i

    block(0, len(events))
    return m


def ann_shape(x):
    """a value / contained type in the shape of a parameter annotation: a class name, or ["Array", element shape]"""
    if isinstance(x, type):
        return x.__name__
    if isinstance(x, Array):
        return ["Array", ann_shape(x.contained_type)]
    return type(x).__name__


def describe(v):
    """Classification of a register's real content for the generator."""
    if v is DEAD:
        return ("dead",)
    if isinstance(v, Party):
        return ("party",)
    if isinstance(v, RawInput):
        return ("input",)
    if isinstance(v, NadaFunction):
        return ("fn", v.return_type.__name__, len(v.args))
    if isinstance(v, ScalarType):
        return ("scalar", type(v).__name__)
    if isinstance(v, Array):
        ct = v.contained_type
        if isinstance(ct, type):
            e = ct.__name__
        else:
            e = type(ct).__name__
        return ("array", v.size, e, ann_shape(ct))
    if isinstance(v, Tuple):
        return ("tuple",)
    if isinstance(v, NTuple):
        return ("ntuple", len(v.values))
    if isinstance(v, Object):
        return ("object", list(v.values.keys()))
    return ("other", type(v).__name__)
