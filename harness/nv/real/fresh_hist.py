"""Run in a fresh interpreter: compile the given program files in order through the real entry point and print
one JSON list — {"mir": <raw MIR>} or {"err": <exception class>, "msg": …} per program.

usage: python -m nv.real.fresh_hist <script|string> <path | @write:dst=src> [...]"""
import base64
import contextlib
import io
import json
import sys


def main():
    via, paths = sys.argv[1], sys.argv[2:]
    from nada_dsl.compile import compile_script, compile_string
    import os
    if os.environ.get("NV_TIMERS"):
        from nada_dsl.timer import timer
        timer.enable()
    out = []
    for path in paths:
        if path.startswith("@write:"):
            # `@write:<destination>=<source>`: the program file is replaced by another text before the next compilation
            dst, src = path[len("@write:"):].split("=", 1)
            with open(src, encoding="utf-8") as f:
                text = f.read()
            with open(dst, "w", encoding="utf-8") as f:
                f.write(text)
            continue
        try:
            with contextlib.redirect_stdout(io.StringIO()):
                if via == "script":
                    r = compile_script(path)
                else:
                    with open(path, encoding="utf-8") as f:
                        r = compile_string(base64.b64encode(f.read().encode()).decode())
            out.append({"mir": json.loads(r.mir)})
        except BaseException as exc:  # pylint: disable=broad-except
            out.append({"err": type(exc).__name__, "msg": str(exc)[:200]})
    sys.stdout.write(json.dumps(out))


if __name__ == "__main__":
    main()
