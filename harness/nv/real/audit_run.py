"""Run the real strict auditor on one source text under a watchdog and an audit hook."""
import signal
import sys
import traceback

_EVENTS = []
_ARMED = [False]
_HOOKED = [False]


def _hook(event, args):
    if not _ARMED[0]:
        return
    if event == "exec":
        code = args[0]
        fn = getattr(code, "co_filename", "")
        # lazily imported library modules exec their own files; code objects that do not come from a
        # file ("<string>", "<unknown>", "") are what eval/exec of audited text produces
        if not fn or fn.startswith("<"):
            _EVENTS.append(("exec", fn, getattr(code, "co_name", "")))
    elif event in ("os.system", "subprocess.Popen", "open") and False:
        _EVENTS.append((event, str(args[:1])))


def ensure_hook():
    if not _HOOKED[0]:
        sys.addaudithook(_hook)
        _HOOKED[0] = True


class _Timeout(Exception):
    pass


def _alarm(signum, frame):
    raise _Timeout()


def crash_site(tb):
    """innermost frame inside nada_dsl/audit (or richreports / asttokens / parsial): (module, function, statement text)"""
    frames = traceback.extract_tb(tb)
    pick = None
    for fr in frames:
        if "nada_dsl/audit" in fr.filename.replace("\\", "/"):
            pick = fr
    lib = frames[-1] if frames else None
    site = (pick.filename.split("/")[-1], pick.name, " ".join((pick.line or "").split())) if pick else ("?", "?", "?")
    inner = (lib.filename.split("/")[-1], lib.name) if lib else ("?", "?")
    return site, inner


def run_strict(source, timeout=4):
    """Returns dict(outcome=ok|raises|loops|runs-user-code, …)."""
    from nada_dsl.audit.strict import strict
    from nada_dsl.audit.report import html
    ensure_hook()
    _EVENTS.clear()
    old = signal.signal(signal.SIGALRM, _alarm)
    signal.alarm(timeout)
    res = {}
    try:
        _ARMED[0] = True
        try:
            report = strict(source)
            page = html(report)
            rendered = report.render()
            res = {"outcome": "ok", "render": rendered, "html_len": len(page), "report": report}
        finally:
            _ARMED[0] = False
            signal.alarm(0)
    except _Timeout:
        res = {"outcome": "loops"}
    except RecursionError:
        res = {"outcome": "raises", "exc": "RecursionError", "site": ("?", "?", "recursion"), "inner": ("?", "?")}
    except BaseException as exc:  # pylint: disable=broad-except
        site, inner = crash_site(sys.exc_info()[2])
        res = {"outcome": "raises", "exc": type(exc).__name__, "msg": str(exc)[:200], "site": site, "inner": inner}
    finally:
        signal.signal(signal.SIGALRM, old)
    if _EVENTS:
        res["executed"] = list(_EVENTS)
        if res.get("outcome") == "ok":
            res["outcome"] = "runs-user-code"
    return res
