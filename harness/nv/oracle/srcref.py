"""C19 oracle on a whole real MIR compiled from files: every element's source reference resolves, names a user file
whose text is embedded, delimits exactly one line of it, and — where the program text tells which statement created the
element — that statement's line."""


def elements(mir):
    """(description, source_ref_index, op id or None)"""
    for p in mir.get("parties", []):
        yield f"party {p['name']}", p.get("source_ref_index"), None, ("party", p["name"])
    for i in mir.get("inputs", []):
        yield f"input {i['name']}", i.get("source_ref_index"), None, ("input", i["name"])
    for o in mir.get("outputs", []):
        yield f"output {o['name']}", o.get("source_ref_index"), None, ("output", o["name"])
    for k, op in mir.get("operations", {}).items():
        for name, body in op.items():
            yield f"operation {name}#{k}", body.get("source_ref_index"), int(k), None
    for f in mir.get("functions", []):
        yield f"function {f['function']}#{f['id']}", f.get("source_ref_index"), None, ("function", f["id"])
        for a in f.get("args", []):
            yield f"parameter {a['name']} of {f['function']}", a.get("source_ref_index"), None, None
        for k, op in f.get("operations", {}).items():
            for name, body in op.items():
                yield f"{f['function']}: operation {name}#{k}", body.get("source_ref_index"), int(k), None


def check(mir, files, op_lines, named_lines):
    """files: {basename: text} of the user's files; op_lines: {operation id: (basename, lineno)};
    named_lines: {("party"|"input"|"output"|"function", name or id): (basename, lineno)}"""
    v = []
    refs = mir.get("source_refs", [])
    embedded = mir.get("source_files", {})
    for what, idx, opid, named in elements(mir):
        if not isinstance(idx, int) or not 0 <= idx < len(refs):
            v.append(("ref-index", f"{what}: source_ref_index {idx} does not exist (the MIR has {len(refs)} source refs)"))
            continue
        r = refs[idx]
        fn, line, off, ln = r.get("file"), r.get("lineno"), r.get("offset"), r.get("length")
        if fn not in files:
            v.append(("dsl-file", f"{what}: the reference points into {fn!r}, which is not a file of the user's program"))
            continue
        text = embedded.get(fn)
        if text is None:
            v.append(("no-source", f"{what}: the text of {fn} is not embedded in the MIR"))
            continue
        lines = files[fn].split("\n")
        if not isinstance(line, int) or not 1 <= line <= len(lines):
            v.append(("line", f"{what}: line {line} of {fn} does not exist"))
            continue
        if text[off:off + ln] != lines[line - 1]:
            v.append(("extent", f"{what}: offset {off} / length {ln} delimit {text[off:off + ln]!r} in the embedded text of {fn}; "
                                f"line {line} is {lines[line - 1]!r}"))
            continue
        # ... and at that line's own position (an earlier line may read the same, or begin with the same text)
        tlines = text.split("\n")
        if line <= len(tlines):
            start = sum(len(x) + 1 for x in tlines[:line - 1])
            if off != start:
                at = text.count("\n", 0, off) + 1
                v.append(("extent", f"{what}: offset {off} lies in line {at} of the embedded text of {fn}; line {line} begins at offset {start}"))
                continue
        want = op_lines.get(opid) if opid is not None else named_lines.get(named)
        if want is not None and (fn, line) != want:
            v.append(("wrong-line", f"{what}: created by the statement at {want[0]}:{want[1]} ({files[want[0]].split(chr(10))[want[1] - 1].strip()[:60]!r}), "
                                    f"the reference says {fn}:{line}"))
    return v
