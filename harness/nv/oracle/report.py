"""C17 oracle on a real `richreports.report` produced by `strict()`: text preservation, proper
nesting of the inserted markup (delimiters identified by position in the report's stacks, not by
pattern — the source may itself contain `<b>`), displayed types / restrictions / syntax errors."""
import ast
import re


def tokens(report):
    """[(kind, text)] with kind in ch / open / close / newline, from the stacks"""
    out = []
    stacks = report._stacks[1:]          # pylint: disable=protected-access
    for li, line in enumerate(stacks):
        if li:
            out.append(("newline", "\n"))
        for (pres, c, posts) in line:
            for d in reversed(pres):
                out.append(("delim", d))
            if c != "":
                out.append(("ch", c))
            for d in posts:
                out.append(("delim", d))
    return out


def tag_of(d):
    m = re.match(r"<\s*(/?)\s*([a-zA-Z]+)", d)
    return (m.group(2), bool(m.group(1))) if m else (d, False)


def check(report, source, atok=None, skips=()):
    v = []
    toks = tokens(report)
    rendered = report.render()
    if "".join(t for _, t in toks) != rendered:
        v.append(("render", "render() is not the concatenation of the report's cells"))
    plain = "".join(t for k, t in toks if k != "delim")
    if plain != source:
        v.append(("text", f"removing the markup does not give back the source (first difference at "
                          f"{next((i for i, (a, b) in enumerate(zip(plain, source)) if a != b), min(len(plain), len(source)))})"))
    if rendered.count("\n") != source.count("\n"):
        v.append(("text", "the number of lines changed"))
    stack = []
    pos = 0
    for k, t in toks:
        if k != "delim":
            pos += 1
            continue
        name, closing = tag_of(t)
        if not closing:
            stack.append((name, pos, t))
        else:
            if not stack:
                v.append(("nesting", f"closing {t} without an open element near character {pos}"))
                break
            top = stack.pop()
            if top[0] != name:
                v.append(("nesting", f"{top[2][:40]} opened near {top[1]} is closed by {t} near {pos}: markup is not properly nested"))
                break
    else:
        if stack:
            v.append(("nesting", f"{len(stack)} elements are never closed"))
    # every element must enclose at least one character of the source
    return v


def spans(report):
    """[(data-detail text or class, start offset, end offset)] of the inserted elements, offsets in
    the source text (characters, newlines included)"""
    out, stack, pos = [], [], 0
    for k, t in tokens(report):
        if k != "delim":
            pos += 1
            continue
        name, closing = tag_of(t)
        if not closing:
            stack.append((t, pos))
        elif stack:
            t0, p0 = stack.pop()
            out.append((t0, p0, pos))
    return out


def marked_lines(report, source):
    """indices of the source lines that carry the syntax-error markup"""
    lines = source.split("\n")
    starts = [0]
    for l in lines:
        starts.append(starts[-1] + len(l) + 1)
    out = set()
    for t, a, b in spans(report):
        if "rules-SyntaxError" in t:
            for i in range(len(lines)):
                if starts[i] <= a and b <= starts[i] + len(lines[i]) and b > a:
                    out.add(i)
    return sorted(out)


def type_to_str(t):
    """How an inferred type is written in the report (the oracle's own rendering, not the auditor's): a type error by its
    message, a list type with its element type, anything else that has a name (classes, `Callable[...]` of an admitted
    helper used as a value) by that name."""
    if isinstance(t, TypeError):
        return "TypeError: " + str(t)
    name = getattr(t, "__name__", None)
    if name == "list":
        args = getattr(t, "__args__", None)
        return "list[" + type_to_str(args[0]) + "]" if args else "list"
    if name is not None:
        return str(name)
    return "TypeError: type cannot be determined"


def displayed(report, source, tree, atok, skips):
    """Each audited expression's inferred type / error, each restriction and each skipped line is
    shown by an element that lies inside the node's text."""
    from nada_dsl.audit.common import audits, SyntaxRestriction, RuleInAncestor, TypeInParent
    v = []
    sp = spans(report)
    lines = source.split("\n")
    starts = [0]
    for l in lines:
        starts.append(starts[-1] + len(l) + 1)

    def off(line, col):
        return starts[line - 1] + col

    def has(detail, lo, hi):
        needle = f'data-detail="{detail}"'
        return any(needle in t and lo <= a and b <= hi and b > a for t, a, b in sp)

    parents = {}
    for a in ast.walk(tree):
        for c in ast.iter_child_nodes(a):
            parents[id(c)] = a
    for a in ast.walk(tree):
        if not hasattr(a, "lineno"):
            continue
        try:
            (l0, c0), (l1, c1) = atok.get_text_positions(a, True)
        except Exception:  # pylint: disable=broad-except
            continue
        lo, hi = off(l0, c0), off(l1, c1)
        r = audits(a, "rules")
        t = audits(a, "types")
        if isinstance(r, RuleInAncestor):
            # "covered by a prohibited ancestor": when that ancestor is an expression or a simple statement (whose highlight is its
            # own text, or its first target), the highlight must really enclose this node's text; the body of a prohibited
            # compound statement is shown as it is, under the highlighted header
            b = parents.get(id(a))
            while b is not None and not isinstance(audits(b, "rules"), SyntaxRestriction):
                b = parents.get(id(b))
            simple = b is not None and not hasattr(b, "body") and not isinstance(b, (ast.excepthandler, ast.match_case, ast.arguments, ast.arg,
                                                                                  ast.keyword, ast.comprehension, ast.withitem, ast.alias))
            # (a highlight that runs over several lines is displayed as one element per line: the node's text is enclosed when
            # every character of it that is not white space lies inside some displayed restriction)
            restr = [(x, y) for t, x, y in sp if "rules-SyntaxRestriction" in t]
            if simple and not isinstance(a, (ast.expr_context, ast.operator, ast.unaryop, ast.cmpop, ast.boolop)) and hi > lo \
                    and source[lo:hi].strip() \
                    and not all(source[k].isspace() or any(x <= k < y for x, y in restr) for k in range(lo, hi)):
                v.append(("restriction-not-shown", f"{type(a).__name__} at line {l0} col {c0} was not admitted (a prohibited construct "
                                                   f"encloses it) but no displayed syntax restriction encloses its text"))
            continue
        if isinstance(r, SyntaxRestriction):
            if not isinstance(a, (ast.expr_context, ast.operator, ast.unaryop, ast.cmpop, ast.boolop)) and hi > lo:
                if not has("SyntaxRestriction: " + str(r), lo, hi):
                    v.append(("restriction-not-shown", f"{type(a).__name__} at line {l0}: its syntax restriction is not displayed"))
            continue
        if t is None or isinstance(t, TypeInParent):
            continue
        if isinstance(a, ast.Return) and isinstance(t, TypeError) and hi > lo:
            if not has("TypeError: " + str(t), lo, hi):
                v.append(("type-not-shown", f"Return at line {l0}: the type error the checker found ({t}) is not displayed at the statement"))
            continue
        if isinstance(a, (ast.Assign, ast.AnnAssign, ast.Call, ast.BoolOp, ast.BinOp, ast.Compare, ast.UnaryOp, ast.Constant, ast.Name,
                          ast.List, ast.Subscript, ast.ListComp)):
            d = type_to_str(t) if not (isinstance(a, (ast.Assign, ast.AnnAssign)) and isinstance(t, TypeError)) else "TypeError: " + str(t)
            if isinstance(a, ast.UnaryOp) and not isinstance(a.op, (ast.UAdd, ast.USub, ast.Not)):
                continue
            if isinstance(a, ast.BinOp) and not isinstance(a.op, (ast.Add, ast.Sub, ast.Mult)):
                continue
            if isinstance(a, ast.BoolOp) and len(a.values) < 2:
                continue
            if not has(d, lo, hi):
                v.append(("type-not-shown", f"{type(a).__name__} at line {l0} col {c0}: inferred {d!r} is not displayed at the expression"))
    for i in skips:
        if i < len(lines) and lines[i].strip():
            lo, hi = starts[i], starts[i] + len(lines[i])
            if not any("rules-SyntaxError" in t and lo <= a and b <= hi for t, a, b in sp):
                v.append(("syntax-error-not-marked", f"line {i + 1} could not be parsed but is not marked as a syntax error"))
    return v


def invented(report, source, tree, atok, skips=()):
    """The converse of `displayed`: every detail the report shows is one the checker attached to a node whose text touches
    the line(s) where it is shown — the report does not announce types, errors or restrictions nobody inferred."""
    from nada_dsl.audit.common import audits, SyntaxRestriction, RuleInAncestor, TypeInParent
    v = []
    lines = source.split("\n")
    starts = [0]
    for l in lines:
        starts.append(starts[-1] + len(l) + 1)

    def line_of(offset):
        import bisect
        return max(1, bisect.bisect_right(starts, offset))

    allowed = {}        # detail text -> set of lines
    for a in ast.walk(tree):
        if not hasattr(a, "lineno"):
            continue
        try:
            (l0, _), (l1, _) = atok.get_text_positions(a, True)
        except Exception:  # pylint: disable=broad-except
            l0, l1 = a.lineno, getattr(a, "end_lineno", a.lineno)
        ds = set()
        r, t = audits(a, "rules"), audits(a, "types")
        if isinstance(r, RuleInAncestor):
            continue        # inside a prohibited construct: the ancestor's restriction is what is shown
        if isinstance(a, (ast.Assign, ast.AnnAssign)) and not isinstance(r, SyntaxRestriction):
            # an assignment always shows what was inferred for it — "type cannot be determined" when nothing was
            ds.add(type_to_str(t))
        if isinstance(r, SyntaxRestriction):
            ds.add("SyntaxRestriction: " + str(r))      # a prohibited construct shows its restriction, nothing else
        elif t is not None and not isinstance(t, TypeInParent) and (hasattr(t, "__name__") or isinstance(t, TypeError)):
            # (anything else has no printable type: only an assignment shows "type cannot be determined", see above)
            try:
                ds.add(type_to_str(t))
            except Exception:  # pylint: disable=broad-except
                pass
            if isinstance(t, TypeError):
                ds.add("TypeError: " + str(t))
        if isinstance(a, ast.Return) and not isinstance(r, SyntaxRestriction):
            # the keyword shows the type of the returned value ("type cannot be determined" when none was inferred)
            ds.add(type_to_str(audits(a.value, "types") if a.value is not None else type(None)))
        for d in ds:
            allowed.setdefault(d, set()).update(range(l0, l1 + 1))
    for i in skips:
        allowed.setdefault("SyntaxError", set()).add(i + 1)
    for t, a, b in spans(report):
        m = re.search(r'data-detail="(.*)"\s*>\s*$', t, flags=re.S)
        if not m:
            continue
        d = m.group(1)
        shown = set(range(line_of(a), line_of(max(a, b - 1)) + 1))
        if not (allowed.get(d, set()) & shown):
            v.append(("detail-not-inferred", f"line {min(shown)} ({lines[min(shown) - 1].strip()[:50]!r}) displays {d[:80]!r}, which the checker "
                                             "attached to no node of that line"))
    return v
