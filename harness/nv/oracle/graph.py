"""Oracles over the *real* MIR (canonical form of corr/mir.py) for the graph properties
C01, C03, C05, C09, C10, C11, C12. Each returns a list of (kind, text) violations; `kind` is the
normalised failure used as known-finding signature. They mirror the Lean `Bool` definitions in
`lean/NadaVerif/Spec/Graph.lean` (compared on every model MIR by the checks)."""

REF1 = ("left", "right", "this", "arg_0", "arg_1", "inner", "initial", "source", "target")
REFN = ("elements", "args")
SECRET_NAMES = ("SecretInteger", "SecretUnsignedInteger", "SecretBoolean")
SCALAR_NAMES = ("Integer", "UnsignedInteger", "Boolean") + SECRET_NAMES


def body(op):
    if not op:
        return "", {}
    name = next(iter(op))
    return name, op[name]


def refs(op):
    _, b = body(op)
    out = [b[k] for k in REF1 if k in b]
    for k in REFN:
        out += list(b.get(k, []))
    return out


def fn_ref(op):
    n, b = body(op)
    if n in ("Map", "Reduce"):
        return b.get("fn")
    if n == "NadaFunctionCall":
        return b.get("function_id")
    return None


def tables(mir):
    """[(label, function-or-None, {id: op})]"""
    out = [("program", None, dict((k, v) for k, v in mir["operations"]))]
    for f in mir["functions"]:
        out.append((f"function {f['function']}#{f['id']}", f, dict((k, v) for k, v in f["operations"])))
    return out


# ------------------------------------------------------------------------------------------ C01
def c01(mir):
    v = []
    fn_ids = [f["id"] for f in mir["functions"]]
    in_names = [i["name"] for i in mir["inputs"]]
    lit_names = [l["name"] for l in mir["literals"]]
    for label, fn, tbl in tables(mir):
        keys = [k for k, _ in (mir["operations"] if fn is None else fn["operations"])]
        if len(set(keys)) != len(keys):
            v.append(("dup-key", f"{label}: an id is filed twice"))
        for k, op in tbl.items():
            n, b = body(op)
            if not n:
                v.append(("empty-op", f"{label}: operation {k} has no MIR representation"))
                continue
            if b.get("id") != k:
                v.append(("misfiled", f"{label}: operation filed under {k} has id {b.get('id')}"))
            for r in refs(op):
                if r not in tbl:
                    v.append(("dangling-operand", f"{label}: {n}#{k} refers to operand {r} which is not in this table"))
            f = fn_ref(op)
            if f is not None and fn_ids.count(f) != 1:
                v.append(("fn-ref", f"{label}: {n}#{k} refers to function {f} which resolves to {fn_ids.count(f)} entries"))
            if n == "InputReference" and in_names.count(b["refers_to"]) != 1:
                v.append(("input-ref", f"{label}: InputReference#{k} -> '{b['refers_to']}' resolves to {in_names.count(b['refers_to'])} inputs"))
            if n == "LiteralReference" and lit_names.count(b["refers_to"]) != 1:
                v.append(("literal-ref", f"{label}: LiteralReference#{k} -> '{b['refers_to']}' resolves to {lit_names.count(b['refers_to'])} literals"))
            if n == "NadaFunctionArgRef":
                if fn is None:
                    v.append(("foreign-argref", f"program table holds NadaFunctionArgRef#{k} of function {b['function_id']}"))
                elif b["function_id"] != fn["id"]:
                    v.append(("foreign-argref", f"{label} holds NadaFunctionArgRef#{k} of function {b['function_id']}"))
                elif b["refers_to"] not in [a["name"] for a in fn["args"]]:
                    v.append(("argref-name", f"{label}: NadaFunctionArgRef#{k} names undeclared argument {b['refers_to']}"))
        # acyclicity: DFS with colours
        colour = {}

        def visit(k):
            stack = [(k, iter(refs(tbl[k])))]
            colour[k] = 1
            while stack:
                node, it = stack[-1]
                nxt = next(it, None)
                if nxt is None:
                    colour[node] = 2
                    stack.pop()
                    continue
                if nxt not in tbl:
                    continue
                if colour.get(nxt) == 1:
                    return nxt
                if nxt not in colour:
                    colour[nxt] = 1
                    stack.append((nxt, iter(refs(tbl[nxt]))))
            return None

        for k in tbl:
            if k not in colour:
                c = visit(k)
                if c is not None:
                    v.append(("cycle", f"{label}: operand references lead from {c} back to itself"))
                    break
        if fn is not None and fn["return_operation_id"] not in tbl:
            v.append(("return-op", f"{label}: return operation {fn['return_operation_id']} is not in its table"))
    prog = dict(mir["operations"])
    for o in mir["outputs"]:
        if o["operation_id"] not in prog:
            v.append(("output-op", f"output {o['name']} designates operation {o['operation_id']} which is not in the program table"))
    if len(set(fn_ids)) != len(fn_ids):
        v.append(("fn-dup", "a function id is listed twice"))
    return v


# ------------------------------------------------------------------------------------------ C09
def reach(tbl, roots):
    seen, stack = set(), list(roots)
    while stack:
        k = stack.pop()
        if k in seen or k not in tbl:
            continue
        seen.add(k)
        stack += refs(tbl[k])
    return seen


def c09(mir, lit_written=None):
    v = []
    prog = dict(mir["operations"])
    keys = [k for k, _ in mir["operations"]]
    r = reach(prog, [o["operation_id"] for o in mir["outputs"]])
    for k in keys:
        if k not in r:
            v.append(("dead-op", f"program table holds operation {k} that no output reaches"))
    if len(set(keys)) != len(keys):
        v.append(("dup-op", "program table lists an id twice"))
    needed_fns = set()
    for _, fn, tbl in tables(mir):
        for op in tbl.values():
            f = fn_ref(op)
            if f is not None:
                needed_fns.add(f)
    # functions reachable from the program table transitively
    by_id = {}
    for f in mir["functions"]:
        by_id.setdefault(f["id"], f)
    live, work = set(), [fn_ref(op) for op in prog.values() if fn_ref(op) is not None]
    while work:
        f = work.pop()
        if f in live or f not in by_id:
            continue
        live.add(f)
        work += [fn_ref(op) for _, op in by_id[f]["operations"] if fn_ref(op) is not None]
    ids = [f["id"] for f in mir["functions"]]
    for f in mir["functions"]:
        if f["id"] not in live:
            v.append(("dead-fn", f"function {f['function']}#{f['id']} is listed but never referenced"))
        ftbl = dict(f["operations"])
        fr = reach(ftbl, [f["return_operation_id"]])
        for k, _ in f["operations"]:
            if k not in fr:
                v.append(("dead-op", f"function {f['function']} holds operation {k} unreachable from its return operation"))
        # ... and everything reachable is there: an operand that an operation of the table names is an operation of the table
        for k, op in f["operations"]:
            for c in refs(op):
                if c not in ftbl:
                    v.append(("missing-op", f"function {f['function']}: operation {k} uses operation {c}, which is reachable from the return "
                                            f"operation but not in the function's table"))
    for i in set(ids):
        if ids.count(i) > 1:
            v.append(("dup-fn", f"function id {i} is listed {ids.count(i)} times"))
    for f in sorted(needed_fns):
        if f not in ids:
            v.append(("missing-fn", f"referenced function {f} is not listed"))
    used_inputs, used_lits = set(), set()
    for _, _, tbl in tables(mir):
        for op in tbl.values():
            n, b = body(op)
            if n == "InputReference":
                used_inputs.add(b["refers_to"])
            if n == "LiteralReference":
                used_lits.add(b["refers_to"])
    names = [i["name"] for i in mir["inputs"]]
    for n in names:
        if n not in used_inputs:
            v.append(("dead-input", f"input '{n}' is listed but never referenced"))
        if names.count(n) > 1:
            v.append(("dup-input", f"input '{n}' is listed {names.count(n)} times"))
    for n in used_inputs:
        if n not in names:
            v.append(("missing-input", f"referenced input '{n}' is not listed"))
    lnames = [l["name"] for l in mir["literals"]]
    for n in lnames:
        if n not in used_lits:
            v.append(("dead-literal", f"literal '{n}' is listed but never referenced"))
        if lnames.count(n) > 1:
            v.append(("dup-literal", f"literal '{n}' is listed {lnames.count(n)} times"))
    for n in used_lits:
        if n not in lnames:
            v.append(("missing-literal", f"referenced literal '{n}' is not listed"))
    pn = [p["name"] for p in mir["parties"]]
    want = {i["party"] for i in mir["inputs"]} | {o["party"] for o in mir["outputs"]}
    for p in pn:
        if p not in want:
            v.append(("dead-party", f"party '{p}' is listed but owns no input and receives no output"))
        if pn.count(p) > 1:
            v.append(("dup-party", f"party '{p}' listed twice"))
    for p in want:
        if p not in pn:
            v.append(("missing-party", f"party '{p}' is not listed"))
    # literal references resolve to the value/type the program wrote; distinct pairs, distinct entries
    if lit_written is not None:
        entry = {l["name"]: (l["value"], l["type"]) for l in mir["literals"]}
        seen = {}
        for _, _, tbl in tables(mir):
            for k, op in tbl.items():
                n, b = body(op)
                if n != "LiteralReference" or k not in lit_written:
                    continue
                want_v = lit_written[k]
                got = entry.get(b["refers_to"])
                if got is not None and tuple(got) != tuple(want_v):
                    v.append(("literal-value", f"LiteralReference#{k} written as {want_v} resolves to entry {got}"))
                if b["refers_to"] in seen and seen[b["refers_to"]] != tuple(want_v):
                    v.append(("literal-shared", f"literals {seen[b['refers_to']]} and {want_v} share entry '{b['refers_to']}'"))
                seen.setdefault(b["refers_to"], tuple(want_v))
    return v


# ------------------------------------------------------------------------------------------ C05
def complete(t, template=False):
    if isinstance(t, str):
        return t in SCALAR_NAMES or t in ("EcdsaPrivateKey", "EcdsaDigestMessage", "EcdsaSignature")
    if not isinstance(t, dict) or len(t) != 1:
        return False
    k, b = next(iter(t.items()))
    if k == "Array":
        if not complete(b.get("inner_type"), template):
            return False
        if template and b.get("size") is None:
            return True
        return isinstance(b.get("size"), int) and b["size"] > 0
    if k == "Tuple":
        return complete(b.get("left_type"), template) and complete(b.get("right_type"), template)
    if k == "NTuple":
        return all(complete(x, template) for x in b.get("types", [None]))
    if k == "Object":
        return all(complete(x, template) for _, x in b.get("types", [[None, None]]))
    return False


def erase_size(t):
    """type with array sizes removed (function-parameter templates carry no sizes)"""
    if isinstance(t, dict):
        k, b = next(iter(t.items()))
        if k == "Array":
            return {"Array": {"inner_type": erase_size(b.get("inner_type"))}}
        if k == "Tuple":
            return {"Tuple": {"left_type": erase_size(b["left_type"]), "right_type": erase_size(b["right_type"])}}
        if k == "NTuple":
            return {"NTuple": {"types": [erase_size(x) for x in b["types"]]}}
        if k == "Object":
            return {"Object": {"types": [[n, erase_size(x)] for n, x in b["types"]]}}
    return t


def arr(t):
    if isinstance(t, dict) and "Array" in t:
        return t["Array"].get("inner_type"), t["Array"].get("size")
    return None


def is_secret(n):
    return isinstance(n, str) and n.startswith("Secret")


def base_of(n):
    return n.replace("Secret", "") if isinstance(n, str) else "?"


ARITH = ("Addition", "Subtraction", "Multiplication", "Division", "Modulo", "Power")
SHIFT = ("LeftShift", "RightShift")
REL = ("LessThan", "GreaterThan", "LessOrEqualThan", "GreaterOrEqualThan", "Equals", "NotEquals")
LOGIC = ("BooleanAnd", "BooleanOr", "BooleanXor")


def c05(mir):
    """Every type complete; each op's type determined by its operands' recorded types."""
    v = []
    fns = {}
    for f in mir["functions"]:
        fns.setdefault(f["id"], f)
    for label, fn, tbl in tables(mir):
        in_fn = fn is not None
        for k, op in tbl.items():
            n, b = body(op)
            if not n:
                continue
            t = b.get("type")
            # parameter templates (and what is computed from them inside a body) have size-less arrays
            if not complete(t, template=in_fn):
                v.append(("incomplete-type", f"{label}: {n}#{k} has incomplete type {t}"))
                continue
            ty = lambda r: body(tbl[r])[1].get("type") if r in tbl else None  # noqa: E731
            try:
                exp = None
                if n in ARITH or n in SHIFT:
                    l, r = ty(b["left"]), ty(b["right"])
                    if l is not None and r is not None:
                        sec = is_secret(l) or is_secret(r)
                        exp = ("Secret" if sec else "") + base_of(l)
                        if n in ARITH and base_of(l) != base_of(r):
                            v.append(("edge", f"{label}: {n}#{k} mixes base types {l} and {r}"))
                elif n in REL or n in LOGIC:
                    l, r = ty(b["left"]), ty(b["right"])
                    if l is not None and r is not None:
                        exp = ("Secret" if is_secret(l) or is_secret(r) else "") + "Boolean"
                        if base_of(l) != base_of(r):
                            v.append(("edge", f"{label}: {n}#{k} compares base types {l} and {r}"))
                elif n == "PublicOutputEquality":
                    exp = "Boolean"
                elif n == "TruncPr":
                    l = ty(b["left"])
                    exp = l if l is None else "Secret" + base_of(l)
                elif n == "Not":
                    exp = ty(b["this"])
                elif n == "Reveal":
                    l = ty(b["this"])
                    exp = l if l is None else base_of(l)
                elif n == "IfElse":
                    c, x, y = ty(b["this"]), ty(b["arg_0"]), ty(b["arg_1"])
                    if None not in (c, x, y):
                        exp = ("Secret" if any(map(is_secret, (c, x, y))) else "") + base_of(x)
                        if base_of(x) != base_of(y):
                            v.append(("edge", f"{label}: IfElse#{k} branches {x} / {y}"))
                elif n == "Zip":
                    l, r = arr(ty(b["left"])), arr(ty(b["right"]))
                    if l and r:
                        exp = {"Array": {"inner_type": {"Tuple": {"left_type": l[0], "right_type": r[0]}}, "size": l[1]}}
                        if l[1] != r[1]:
                            v.append(("edge", f"{label}: Zip#{k} of sizes {l[1]} and {r[1]}"))
                        if l[1] is None:
                            del exp["Array"]["size"]
                elif n == "Unzip":
                    a = arr(ty(b["this"]))
                    if a and isinstance(a[0], dict) and "Tuple" in a[0]:
                        tl, tr = a[0]["Tuple"]["left_type"], a[0]["Tuple"]["right_type"]
                        exp = {"Tuple": {"left_type": {"Array": {"inner_type": tl, "size": a[1]}},
                                         "right_type": {"Array": {"inner_type": tr, "size": a[1]}}}}
                elif n == "InnerProduct":
                    l, r = arr(ty(b["left"])), arr(ty(b["right"]))
                    if l and r:
                        exp = ("Secret" if is_secret(l[0]) or is_secret(r[0]) else "") + base_of(l[0])
                elif n == "Map":
                    a = arr(ty(b["inner"]))
                    f = fns.get(b["fn"])
                    if a and f:
                        exp = {"Array": {"inner_type": f["return_type"], "size": a[1]}}
                        if a[1] is None:
                            del exp["Array"]["size"]
                        if len(f["args"]) == 1 and erase_size(f["args"][0]["type"]) != erase_size(a[0]):
                            v.append(("binding", f"{label}: Map#{k} binds parameter of type {f['args'][0]['type']} to elements of type {a[0]}"))
                        elif len(f["args"]) == 2:
                            # the accepted idiom: a two-parameter function over an array of pairs
                            tt = a[0]["Tuple"] if isinstance(a[0], dict) and "Tuple" in a[0] else None
                            if tt is None or erase_size(f["args"][0]["type"]) != erase_size(tt["left_type"]) \
                                    or erase_size(f["args"][1]["type"]) != erase_size(tt["right_type"]):
                                v.append(("binding", f"{label}: Map#{k} binds parameters {[x['type'] for x in f['args']]} to elements of type {a[0]}"))
                        elif len(f["args"]) != 1:
                            v.append(("binding", f"{label}: Map#{k} maps a function of {len(f['args'])} parameters"))
                elif n == "Reduce":
                    f = fns.get(b["fn"])
                    if f:
                        exp = f["return_type"]
                        a, i0 = arr(ty(b["inner"])), ty(b["initial"])
                        if len(f["args"]) != 2:
                            v.append(("binding", f"{label}: Reduce#{k} folds with a function of {len(f['args'])} parameters"))
                        elif a and i0 is not None and (
                                erase_size(f["args"][0]["type"]) != erase_size(i0)
                                or erase_size(f["args"][1]["type"]) != erase_size(a[0])
                                or erase_size(f["return_type"]) != erase_size(f["args"][0]["type"])):
                            v.append(("binding", f"{label}: Reduce#{k} binds parameters {[x['type'] for x in f['args']]} -> {f['return_type']} "
                                                 f"to accumulator {i0} and elements {a[0]}"))
                elif n == "NadaFunctionCall":
                    f = fns.get(b["function_id"])
                    if f:
                        exp = f["return_type"]
                        if b.get("return_type") != b.get("type"):
                            v.append(("edge", f"{label}: call#{k} return_type differs from type"))
                        ats = [ty(a) for a in b["args"]]
                        if len(ats) != len(f["args"]):
                            v.append(("binding", f"{label}: call#{k} passes {len(ats)} arguments to {len(f['args'])} parameters"))
                        else:
                            for a, p in zip(ats, f["args"]):
                                if a is not None and erase_size(a) != erase_size(p["type"]):
                                    v.append(("binding", f"{label}: call#{k} binds parameter {p['name']}: {p['type']} to argument of type {a}"))
                elif n == "New":
                    es = [ty(e) for e in b["elements"]]
                    if None not in es and isinstance(t, dict):
                        kind = next(iter(t))
                        if kind == "Array":
                            exp = {"Array": {"inner_type": es[0] if es else None, "size": len(es)}}
                            if any(e != es[0] for e in es):
                                v.append(("edge", f"{label}: New#{k} array of different element types"))
                        elif kind == "Tuple" and len(es) == 2:
                            exp = {"Tuple": {"left_type": es[0], "right_type": es[1]}}
                        elif kind == "NTuple":
                            exp = {"NTuple": {"types": es}}
                        elif kind == "Object":
                            exp = {"Object": {"types": [[nm, e] for (nm, _), e in zip(t["Object"]["types"], es)]}}
                            if len(es) != len(t["Object"]["types"]):
                                exp = None
                                v.append(("edge", f"{label}: New#{k} object with {len(es)} elements for {len(t['Object']['types'])} fields"))
                elif n == "NTupleAccessor":
                    s = ty(b["source"])
                    if isinstance(s, dict) and "NTuple" in s:
                        ts = s["NTuple"]["types"]
                        if not (isinstance(b["index"], int) and 0 <= b["index"] < len(ts)):
                            v.append(("index-range", f"{label}: NTupleAccessor#{k} index {b['index']} outside 0..{len(ts) - 1}"))
                        else:
                            exp = ts[b["index"]]
                    elif s is not None:
                        v.append(("edge", f"{label}: NTupleAccessor#{k} on a value of type {s}"))
                elif n == "ObjectAccessor":
                    s = ty(b["source"])
                    if isinstance(s, dict) and "Object" in s:
                        d = dict((nm, x) for nm, x in s["Object"]["types"])
                        if b["key"] not in d:
                            v.append(("edge", f"{label}: ObjectAccessor#{k} reads undeclared field {b['key']}"))
                        else:
                            exp = d[b["key"]]
                    elif s is not None:
                        v.append(("edge", f"{label}: ObjectAccessor#{k} on a value of type {s}"))
                elif n == "NadaFunctionArgRef" and fn is not None:
                    for a in fn["args"]:
                        if a["name"] == b["refers_to"]:
                            exp = a["type"]
                if exp is not None and exp != t:
                    v.append(("edge", f"{label}: {n}#{k} has type {t}, its operands determine {exp}"))
            except (KeyError, TypeError, AttributeError) as exc:
                v.append(("edge", f"{label}: {n}#{k} malformed ({type(exc).__name__}: {exc})"))
    prog = dict(mir["operations"])
    for o in mir["outputs"]:
        if not complete(o["type"]):
            v.append(("incomplete-type", f"output {o['name']} has incomplete type {o['type']}"))
        if o["operation_id"] in prog and body(prog[o["operation_id"]])[1].get("type") != o["type"]:
            v.append(("edge", f"output {o['name']} typed {o['type']} but names an operation of type {body(prog[o['operation_id']])[1].get('type')}"))
    for i in mir["inputs"]:
        if not complete(i["type"]):
            v.append(("incomplete-type", f"input {i['name']} has incomplete type {i['type']}"))
        for _, _, tbl in tables(mir):
            for k, op in tbl.items():
                n, b = body(op)
                if n == "InputReference" and b["refers_to"] == i["name"] and b["type"] != i["type"]:
                    v.append(("input-type", f"input {i['name']} listed as {i['type']} but InputReference#{k} is typed {b['type']}"))
    for f in mir["functions"]:
        ftbl = dict(f["operations"])
        if not complete(f["return_type"], True):
            v.append(("incomplete-type", f"function {f['function']} return type {f['return_type']}"))
        ro = ftbl.get(f["return_operation_id"])
        if ro is not None and body(ro)[1].get("type") != f["return_type"]:
            v.append(("return-type", f"function {f['function']} declares return type {f['return_type']} but returns an operation of type {body(ro)[1].get('type')}"))
        for a in f["args"]:
            if not complete(a["type"], True):
                v.append(("incomplete-type", f"function {f['function']} parameter {a['name']} has incomplete type {a['type']}"))
    return v


# ------------------------------------------------------------------------------------------ C03
def leaf_secret(t):
    """shape of a type with True at secret-typed scalar leaves"""
    if isinstance(t, str):
        return is_secret(t)
    if isinstance(t, dict) and len(t) == 1:
        k, b = next(iter(t.items()))
        if k == "Array":
            return ("A", leaf_secret(b.get("inner_type")))
        if k == "Tuple":
            return ("T", leaf_secret(b.get("left_type")), leaf_secret(b.get("right_type")))
        if k == "NTuple":
            return ("N", [leaf_secret(x) for x in b.get("types", [])])
        if k == "Object":
            return ("O", [(n, leaf_secret(x)) for n, x in b.get("types", [])])
    return False


def anyt(s):
    if isinstance(s, bool):
        return s
    if s[0] == "A":
        return anyt(s[1])
    if s[0] == "T":
        return anyt(s[1]) or anyt(s[2])
    if s[0] == "N":
        return any(anyt(x) for x in s[1])
    if s[0] == "O":
        return any(anyt(x) for _, x in s[1])
    return False


def shape_fill(t, val):
    """taint of shape t with every leaf = val"""
    s = leaf_secret(t)

    def go(s):
        if isinstance(s, bool):
            return val
        if s[0] == "A":
            return ("A", go(s[1]))
        if s[0] == "T":
            return ("T", go(s[1]), go(s[2]))
        if s[0] == "N":
            return ("N", [go(x) for x in s[1]])
        return ("O", [(n, go(x)) for n, x in s[1]])
    return go(s)


def join(a, b):
    if isinstance(a, bool) and isinstance(b, bool):
        return a or b
    if isinstance(a, bool):
        return join(shape_like(b, a), b)
    if isinstance(b, bool):
        return join(a, shape_like(a, b))
    if a[0] != b[0]:
        return anyt(a) or anyt(b)
    if a[0] == "A":
        return ("A", join(a[1], b[1]))
    if a[0] == "T":
        return ("T", join(a[1], b[1]), join(a[2], b[2]))
    if a[0] == "N":
        return ("N", [join(x, y) for x, y in zip(a[1], b[1])]) if len(a[1]) == len(b[1]) else (anyt(a) or anyt(b))
    if a[0] == "O":
        return ("O", [(n, join(x, y)) for (n, x), (_, y) in zip(a[1], b[1])]) if len(a[1]) == len(b[1]) else (anyt(a) or anyt(b))
    return anyt(a) or anyt(b)


def shape_like(s, val):
    if isinstance(s, bool):
        return val
    if s[0] == "A":
        return ("A", shape_like(s[1], val))
    if s[0] == "T":
        return ("T", shape_like(s[1], val), shape_like(s[2], val))
    if s[0] == "N":
        return ("N", [shape_like(x, val) for x in s[1]])
    return ("O", [(n, shape_like(x, val)) for n, x in s[1]])


def covered(taint, typ):
    """every tainted leaf is typed secret"""
    ts = leaf_secret(typ)

    def go(a, b):
        if isinstance(a, bool):
            return (not a) or (anyt(b) if not isinstance(b, bool) else b) if isinstance(b, bool) or True else True
        if isinstance(b, bool):
            return (not anyt(a)) or b
        if a[0] != b[0]:
            return not anyt(a)
        if a[0] == "A":
            return go(a[1], b[1])
        if a[0] == "T":
            return go(a[1], b[1]) and go(a[2], b[2])
        if a[0] == "N":
            return all(go(x, y) for x, y in zip(a[1], b[1]))
        return all(go(x, y) for (_, x), (_, y) in zip(a[1], b[1]))

    def leafwise(a, b):
        if isinstance(a, bool) and isinstance(b, bool):
            return (not a) or b
        if isinstance(a, bool):
            # scalar taint against a structured type: every leaf must be secret if tainted
            return (not a) or all_leaves(b)
        if isinstance(b, bool):
            return (not anyt(a)) or b
        return go2(a, b)

    def all_leaves(b):
        if isinstance(b, bool):
            return b
        if b[0] == "A":
            return all_leaves(b[1])
        if b[0] == "T":
            return all_leaves(b[1]) and all_leaves(b[2])
        if b[0] == "N":
            return all(all_leaves(x) for x in b[1])
        return all(all_leaves(x) for _, x in b[1])

    def go2(a, b):
        if a[0] != b[0]:
            return (not anyt(a)) or all_leaves(b)
        if a[0] == "A":
            return leafwise(a[1], b[1])
        if a[0] == "T":
            return leafwise(a[1], b[1]) and leafwise(a[2], b[2])
        if a[0] == "N":
            return len(a[1]) == len(b[1]) and all(leafwise(x, y) for x, y in zip(a[1], b[1]))
        return len(a[1]) == len(b[1]) and all(leafwise(x, y) for (_, x), (_, y) in zip(a[1], b[1]))

    return leafwise(taint, ts)


def c03(mir):
    """Taint analysis over the real MIR: sources = secret-typed inputs and Random; Reveal and
    PublicOutputEquality reset; function parameters get the join of the taints bound at every
    map / reduce / call site (fixpoint); every tainted scalar leaf must be typed secret."""
    v = []
    fns = {}
    for f in mir["functions"]:
        fns.setdefault(f["id"], f)
    in_ty = {i["name"]: i["type"] for i in mir["inputs"]}
    param_taint = {fid: {a["name"]: shape_like(leaf_secret(a["type"]), False) for a in f["args"]} for fid, f in fns.items()}
    ret_taint = {fid: False for fid in fns}
    results = {}

    def elem(t):
        return t[1] if not isinstance(t, bool) and t[0] == "A" else (anyt(t) if not isinstance(t, bool) else t)

    def analyse(label, fn, tbl):
        memo = {}

        def tnt(k, depth=0):
            if k in memo:
                return memo[k]
            if k not in tbl or depth > 5000:
                return False
            memo[k] = False
            n, b = body(tbl[k])
            t = b.get("type")
            sh = leaf_secret(t)
            g = lambda r: tnt(r, depth + 1)  # noqa: E731
            if n == "InputReference":
                # the input is a source where the *input table* says it is secret
                res = shape_fill(t, False)
                src = leaf_secret(in_ty.get(b["refers_to"], t))
                res = join(res, src) if not isinstance(src, bool) or src else res
                res = join(res, leaf_secret(t))
            elif n == "Random":
                res = True
            elif n == "LiteralReference":
                res = False
            elif n in ("Reveal", "PublicOutputEquality"):
                res = False
            elif n == "NadaFunctionArgRef":
                res = param_taint.get(b["function_id"], {}).get(b["refers_to"], False)
            elif n in ARITH + SHIFT + REL + LOGIC + ("TruncPr", "IfElse", "Not", "InnerProduct"):
                res = any(anyt(g(r)) if not isinstance(g(r), bool) else g(r) for r in refs(tbl[k]))
            elif n == "Zip":
                res = ("A", ("T", elem(g(b["left"])), elem(g(b["right"]))))
            elif n == "Unzip":
                e = elem(g(b["this"]))
                if not isinstance(e, bool) and e[0] == "T":
                    res = ("T", ("A", e[1]), ("A", e[2]))
                else:
                    res = e if isinstance(e, bool) else anyt(e)
            elif n == "New":
                es = [g(e) for e in b["elements"]]
                kind = next(iter(t)) if isinstance(t, dict) else ""
                if kind == "Array":
                    acc = False
                    for e in es:
                        acc = join(acc, e)
                    res = ("A", acc)
                elif kind == "Tuple" and len(es) == 2:
                    res = ("T", es[0], es[1])
                elif kind == "NTuple":
                    res = ("N", es)
                elif kind == "Object":
                    res = ("O", [(nm, e) for (nm, _), e in zip(t["Object"]["types"], es)])
                else:
                    res = any(anyt(e) if not isinstance(e, bool) else e for e in es)
            elif n == "NTupleAccessor":
                s = g(b["source"])
                if not isinstance(s, bool) and s[0] == "N" and isinstance(b["index"], int) and -len(s[1]) <= b["index"] < len(s[1]):
                    res = s[1][b["index"]]
                else:
                    res = s if isinstance(s, bool) else anyt(s)
            elif n == "ObjectAccessor":
                s = g(b["source"])
                if not isinstance(s, bool) and s[0] == "O" and b["key"] in dict(s[1]):
                    res = dict(s[1])[b["key"]]
                else:
                    res = s if isinstance(s, bool) else anyt(s)
            elif n == "Map":
                f = b["fn"]
                a = g(b["inner"])
                if f in fns and fns[f]["args"]:
                    p0 = fns[f]["args"][0]["name"]
                    param_taint[f][p0] = join(param_taint[f][p0], elem(a))
                res = ("A", ret_taint.get(f, False))
            elif n == "Reduce":
                f = b["fn"]
                a, i0 = g(b["inner"]), g(b["initial"])
                if f in fns and len(fns[f]["args"]) >= 2:
                    p0, p1 = fns[f]["args"][0]["name"], fns[f]["args"][1]["name"]
                    acc = join(join(i0, ret_taint.get(f, False)), False)
                    param_taint[f][p0] = join(param_taint[f][p0], acc)
                    param_taint[f][p1] = join(param_taint[f][p1], elem(a))
                r = ret_taint.get(f, False)
                res = join(r, i0)
            elif n == "NadaFunctionCall":
                f = b["function_id"]
                if f in fns:
                    for a, p in zip(b["args"], fns[f]["args"]):
                        param_taint[f][p["name"]] = join(param_taint[f][p["name"]], g(a))
                res = ret_taint.get(f, False)
            else:
                res = any(anyt(g(r)) if not isinstance(g(r), bool) else g(r) for r in refs(tbl[k]))
            memo[k] = res
            return res

        for k in tbl:
            tnt(k)
        return memo

    # fixpoint over function summaries
    for _ in range(8):
        before = (repr(param_taint), repr(ret_taint))
        for label, fn, tbl in tables(mir):
            memo = analyse(label, fn, tbl)
            results[label] = (fn, tbl, memo)
            if fn is not None:
                r = memo.get(fn["return_operation_id"], False)
                ret_taint[fn["id"]] = join(ret_taint[fn["id"]], r)
        if before == (repr(param_taint), repr(ret_taint)):
            break
    for label, (fn, tbl, memo) in results.items():
        for k, op in tbl.items():
            n, b = body(op)
            if not n or n == "NadaFunctionArgRef":
                continue
            if not covered(memo.get(k, False), b.get("type")):
                v.append(("declass", f"{label}: {n}#{k} typed {b.get('type')} depends on a secret (taint {memo.get(k)}) without Reveal / PublicOutputEquality"))
    return v
