"""Python mirror of `Spec/C02.lean` (cellOK) — used for replays and as a cross-check of the Lean
definition on every cell (the two are compared on the whole table on every run)."""

RANK = {"const": 1, "pub": 2, "sec": 3}
FAM = {}
for _o in ("add", "sub", "mul", "div", "mod"):
    FAM[_o] = "arith"
FAM["pow"] = "power"
for _o in ("shl", "shr"):
    FAM[_o] = "shift"
for _o in ("lt", "gt", "le", "ge"):
    FAM[_o] = "rel"
for _o in ("eq", "ne"):
    FAM[_o] = "eqop"
for _o in ("and", "or", "xor"):
    FAM[_o] = "logic"
for _o in ("ifElse", "truncPr", "publicEquals", "invert", "reveal", "random"):
    FAM[_o] = _o

OPNAME = {
    "add": "Addition", "sub": "Subtraction", "mul": "Multiplication", "div": "Division", "mod": "Modulo",
    "pow": "Power", "shl": "LeftShift", "shr": "RightShift", "lt": "LessThan", "gt": "GreaterThan",
    "le": "LessOrEqualThan", "ge": "GreaterOrEqualThan", "eq": "Equals", "ne": "NotEquals",
    "and": "BooleanAnd", "or": "BooleanOr", "xor": "BooleanXor", "ifElse": "IfElse", "truncPr": "TruncPr",
    "publicEquals": "PublicOutputEquality", "invert": "Not", "reveal": "Reveal", "random": "Random",
}


def numeric(b):
    return b in ("int", "uint")


def max_mode(args):
    return max((a[0] for a in args), key=lambda m: RANK[m], default="const")


def mir_name(t):
    m = {"const": "", "pub": "", "sec": "Secret"}[t[0]]
    b = {"bool": "Boolean", "int": "Integer", "uint": "UnsignedInteger"}[t[1]]
    return m + b


def must_reject(f, a):
    if f in ("arith", "rel"):
        return a[0][1] != a[1][1] or not numeric(a[0][1])
    if f == "power":
        return a[0][1] != a[1][1] or not numeric(a[0][1]) or a[1][0] == "sec"
    if f in ("shift", "truncPr"):
        return not numeric(a[0][1]) or a[1][1] != "uint" or a[1][0] == "sec"
    if f in ("eqop", "publicEquals"):
        return a[0][1] != a[1][1]
    if f == "logic":
        return a[0][1] != "bool" or a[1][1] != "bool"
    if f == "ifElse":
        c, x, y = a
        return c[1] != "bool" or c[0] == "const" or x[1] == "bool" or y[1] == "bool" or x[1] != y[1]
    if f == "invert":
        return a[0][1] != "bool"
    if f == "reveal":
        return False
    if f == "random":
        return a[0][0] != "sec"
    return True


def must_accept(f, a):
    if f in ("arith", "rel"):
        return a[0][1] == a[1][1] and numeric(a[0][1])
    if f == "power":
        return a[0][1] == a[1][1] and numeric(a[0][1]) and a[0][0] != "sec" and a[1][0] != "sec"
    if f == "shift":
        return numeric(a[0][1]) and a[1][1] == "uint" and a[1][0] != "sec"
    if f == "eqop":
        return a[0][1] == a[1][1]
    if f == "logic":
        return a[0][1] == "bool" and a[1][1] == "bool"
    if f == "ifElse":
        c, x, y = a
        return c[1] == "bool" and c[0] != "const" and x[1] == y[1] and numeric(x[1])
    if f == "truncPr":
        return a[0][0] == "sec" and numeric(a[0][1]) and a[1][1] == "uint" and a[1][0] != "sec"
    if f == "publicEquals":
        return a[0][1] == a[1][1] and a[0][0] != "const" and a[1][0] != "const" and not (a[0] == ("sec", "bool"))
    if f == "invert":
        return a[0][1] == "bool"
    if f == "reveal":
        return True
    if f == "random":
        return a[0][0] == "sec"
    return False


def ruled_type(f, a):
    if f in ("arith", "power", "shift"):
        return (max_mode(a), a[0][1])
    if f in ("rel", "eqop", "logic"):
        return (max_mode(a), "bool")
    if f == "ifElse":
        return (max_mode(a), a[1][1])
    if f == "truncPr":
        return ("sec", a[0][1])
    if f == "publicEquals":
        return ("pub", "bool")
    if f in ("invert", "random"):
        return a[0]
    if f == "reveal":
        return ("pub" if a[0][0] == "sec" else a[0][0], a[0][1])
    return None


def cell_ok(op, args, outcomes):
    """outcomes: list of distinct normalised outcomes as produced by T1 (`norm`)."""
    f = FAM.get(op)
    args = [tuple(a) for a in args]
    if len(outcomes) != 1:
        return False, "outcome depends on operand provenance" if outcomes else "no outcome"
    r = outcomes[0]
    if r[0] == "reject":
        return (not must_accept(f, args)), "allowed combination rejected"
    if r[0] != "ok":
        return False, "result is not a scalar Nada value"
    _, t, folded, name, mir = r
    t = tuple(t)
    if must_reject(f, args):
        return False, "forbidden combination accepted"
    if ruled_type(f, args) != t:
        return False, f"result type {t}, rules prescribe {ruled_type(f, args)}"
    if folded:
        ok = (name == "Literal" and mir == mir_name(t) and max_mode(args) == "const") or (name == "alias" and f == "reveal")
        return ok, "folded although an operand is not a literal / wrong literal type"
    ok = name == OPNAME[op] and mir == mir_name(t)
    return ok, f"recorded op {name} of MIR type {mir}, expected {OPNAME[op]} of type {mir_name(t)}"
