"""C04 oracle: the expression DAG the program wrote (built from the command list alone, one node
per executed operation, aliases share the node) is matched against the real MIR by a simultaneous
traversal that builds a bijection node <-> MIR id per table — same operations, operand order,
inputs, literal values, positions/keys, functions, and the same sharing."""
from ..real import interp

OPNAME = {
    "add": "Addition", "sub": "Subtraction", "mul": "Multiplication", "div": "Division", "mod": "Modulo",
    "pow": "Power", "shl": "LeftShift", "shr": "RightShift", "lt": "LessThan", "gt": "GreaterThan",
    "le": "LessOrEqualThan", "ge": "GreaterOrEqualThan", "eq": "Equals", "ne": "NotEquals",
    "and": "BooleanAnd", "or": "BooleanOr", "xor": "BooleanXor",
}
EXACT = {
    "add": lambda a, b: a + b, "sub": lambda a, b: a - b, "mul": lambda a, b: a * b, "div": lambda a, b: a // b,
    "mod": lambda a, b: a % b, "pow": lambda a, b: a ** b, "shl": lambda a, b: a << b, "shr": lambda a, b: a >> b,
    "lt": lambda a, b: a < b, "gt": lambda a, b: a > b, "le": lambda a, b: a <= b, "ge": lambda a, b: a >= b,
    "eq": lambda a, b: a == b, "ne": lambda a, b: a != b, "and": lambda a, b: a & b, "or": lambda a, b: a | b,
    "xor": lambda a, b: a ^ b,
}
BOOL_OPS = ("lt", "gt", "le", "ge", "eq", "ne", "and", "or", "xor")


class Node:
    __slots__ = ("kind", "f", "kids", "fn", "members")

    def __init__(self, kind, f=None, kids=(), fn=None, members=None):
        self.kind, self.f, self.kids, self.fn, self.members = kind, f or {}, list(kids), fn, members

    def __repr__(self):
        return f"<{self.kind} {self.f} #{len(self.kids)}>"


class FnNode:
    def __init__(self, name, params):
        self.name, self.params, self.ret = name, params, None


def cls_of(v):
    return type(v).__name__


def build(events, results, regs):
    """node per register (None for dead / non-values), from the events and the *classes* of the real
    results (folded or not, alias or not are decided from the command semantics)."""
    nodes = []
    frames = []
    ri = 0

    def lit_node(value, cls):
        return Node("lit", {"value": str(value), "type": cls, "pyvalue": value})

    for ev, res in zip(events, results):
        c = ev.get("c")
        if c is None:
            continue
        op = c["op"]
        n = len(c["params"]) if op == "beginFn" else 1
        ok = res.get("s") is None
        real = regs[ri:ri + n]
        node = None
        g = lambda r: nodes[r] if r < len(nodes) else None  # noqa: E731
        if op == "beginFn":
            fn = FnNode(c["name"], [p for p, _ in c["params"]])
            frames.append(fn)
            for (pname, pann), rv in zip(c["params"], real):
                # (a parameter of a literal class is, to the accessors of n-tuples and objects, a literal member: reading it
                # back yields the member itself, not an accessor operation)
                nodes.append(Node("param", {"name": pname, "literal_class": pann in ("Integer", "UnsignedInteger", "Boolean")}, fn=fn)
                             if rv is not interp.DEAD else None)
            ri += n
            continue
        if op == "endFn":
            fn = frames.pop() if frames else None
            if ok and fn is not None:
                fn.ret = g(c["ret"])
                node = fn
            nodes.append(node)
            ri += 1
            continue
        if ok:
            rv = real[0]
            if op == "party":
                node = Node("party", {"name": c["name"]})
            elif op == "inputObj":
                node = Node("inputobj", {"name": c["name"], "doc": c["doc"], "party": g(c["party"]).f["name"]})
            elif op == "wrap":
                node = g(c["r"])
                node.kind = "input"
                node.f["type"] = c["t"]
            elif op == "arrayOf":
                node = g(c["r"])
            elif op == "lit":
                v = c["v"] if isinstance(c["v"], bool) else int(c["v"])
                node = lit_node(v, cls_of(rv))
            elif op in ("bin", "radd"):
                if op == "radd":
                    a = g(c["a"])
                    b = lit_node(int(c["k"]), {"Integer": "Integer", "UnsignedInteger": "UnsignedInteger"}.get(
                        cls_of(rv).replace("Public", "").replace("Secret", ""), "Integer"))
                    bop = "add"
                else:
                    a, b, bop = g(c["a"]), g(c["b"]), c["bop"]
                if a is not None and b is not None and a.kind == "lit" and b.kind == "lit":
                    node = lit_node(EXACT[bop](a.f["pyvalue"], b.f["pyvalue"]), cls_of(rv))
                    if bop in BOOL_OPS:
                        node.f["pyvalue"] = bool(node.f["pyvalue"])
                        node.f["value"] = str(node.f["pyvalue"])
                else:
                    node = Node(OPNAME[bop], {}, [a, b])
            elif op == "invert":
                a = g(c["a"])
                node = lit_node(not a.f["pyvalue"], cls_of(rv)) if a is not None and a.kind == "lit" else Node("Not", {}, [a])
            elif op == "reveal":
                a = g(c["a"])
                src_cls = cls_of(regs_of(regs, c["a"]))
                node = Node("Reveal", {}, [a]) if src_cls.startswith("Secret") else a
            elif op == "truncPr":
                node = Node("TruncPr", {}, [g(c["a"]), g(c["b"])])
            elif op == "publicEquals":
                node = Node("PublicOutputEquality", {}, [g(c["a"]), g(c["b"])])
            elif op == "ifElse":
                node = Node("IfElse", {}, [g(c["c"]), g(c["a"]), g(c["b"])])
            elif op == "random":
                node = Node("Random")
            elif op in ("arrayNew", "ntupleNew"):
                node = Node("New", {}, [g(r) for r in c["xs"]], members=[g(r) for r in c["xs"]])
            elif op == "tupleNew":
                node = Node("New", {}, [g(c["a"]), g(c["b"])])
            elif op == "objectNew":
                node = Node("New", {}, [g(r) for _, r in c["fs"]], members={k: g(r) for k, r in c["fs"]})
            elif op == "ntupleGet":
                t = g(c["t"])
                i = int(c["i"])
                mem = t.members if t is not None and isinstance(t.members, list) else None
                if mem is not None and not -len(mem) <= i < len(mem):
                    # the program indexes a position that does not exist (the DSL must reject this; if it does not,
                    # the precondition oracle reports it): no member to compare with
                    node = Node("NTupleAccessor", {"index": None}, [t])
                elif mem is not None:
                    j = i + len(mem) if i < 0 else i
                    m = mem[j]
                    node = m if (m is not None and (m.kind == "lit" or m.f.get("literal_class"))) else Node("NTupleAccessor", {"index": j}, [t],
                                                                                members=getattr(m, "members", None))
                else:
                    node = Node("NTupleAccessor", {"index": None}, [t])
            elif op == "objectGet":
                o = g(c["o"])
                mem = o.members if o is not None and isinstance(o.members, dict) else None
                m = mem.get(c["key"]) if mem is not None else None
                node = m if (m is not None and (m.kind == "lit" or m.f.get("literal_class"))) else Node("ObjectAccessor", {"key": c["key"]}, [o],
                                                                          members=getattr(m, "members", None))
            elif op == "zip":
                node = Node("Zip", {}, [g(c["a"]), g(c["b"])])
            elif op == "unzip":
                node = Node("Unzip", {}, [g(c["a"])])
            elif op == "innerProduct":
                node = Node("InnerProduct", {}, [g(c["a"]), g(c["b"])])
            elif op == "map":
                node = Node("Map", {}, [g(c["a"])], fn=g(c["f"]))
            elif op == "reduce":
                node = Node("Reduce", {}, [g(c["a"]), g(c["init"])], fn=g(c["f"]))
            elif op == "call":
                from ..ir import bound_args, fn_param_names
                node = Node("NadaFunctionCall", {}, [g(r) for r in (bound_args(c, fn_param_names(events).get(c["f"])) or [])], fn=g(c["f"]))
        nodes.append(node)
        ri += 1
    return nodes


def regs_of(regs, r):
    return regs[r]


KEYS = {
    "binary": ("left", "right"), "Not": ("this",), "Reveal": ("this",), "Unzip": ("this",),
    "IfElse": ("this", "arg_0", "arg_1"),
}


def mir_kids(name, b):
    if name in ("Not", "Reveal", "Unzip"):
        return [b["this"]]
    if name == "IfElse":
        return [b["this"], b["arg_0"], b["arg_1"]]
    if name == "New":
        return list(b["elements"])
    if name in ("NTupleAccessor", "ObjectAccessor"):
        return [b["source"]]
    if name == "Map":
        return [b["inner"]]
    if name == "Reduce":
        return [b["inner"], b["initial"]]
    if name == "NadaFunctionCall":
        return list(b["args"])
    if "left" in b and "right" in b:
        return [b["left"], b["right"]]
    return []


class Mismatch(Exception):
    pass


def check_outputs(mir, nodes, outs):
    """outs: [(valueReg, name, partyReg)]. Returns list of (kind, text)."""
    from .graph import body
    viol = []
    fns = {}
    for f in mir["functions"]:
        fns.setdefault(f["id"], f)
    inputs = {i["name"]: i for i in mir["inputs"]}
    lits = {l["name"]: l for l in mir["literals"]}
    fn_map = {}          # FnNode -> function id

    def match_table(root_node, root_id, tbl, cur_fn):
        n2i, i2n = {}, {}
        stack = [(root_node, root_id)]
        while stack:
            node, k = stack.pop()
            if node is None:
                raise Mismatch(f"operation {k}: the program has no live value here")
            if id(node) in n2i or k in i2n:
                if n2i.get(id(node)) != k or i2n.get(k) is not node:
                    raise Mismatch(f"sharing differs at operation {k}: one written operation is emitted as two nodes "
                                   f"or two written operations are merged")
                continue
            n2i[id(node)] = k
            i2n[k] = node
            if k not in tbl:
                raise Mismatch(f"operation {k} is not in the table")
            name, b = body(tbl[k])
            if node.kind == "input":
                if name != "InputReference" or b["refers_to"] != node.f["name"]:
                    raise Mismatch(f"operation {k}: wrote input '{node.f['name']}', MIR has {name} {b.get('refers_to')}")
                e = inputs.get(node.f["name"])
                if e is None:
                    raise Mismatch(f"operation {k}: wrote input '{node.f['name']}', the MIR's input table has no entry of that name: "
                                   f"the reference cannot be unfolded")
                if e["party"] != node.f["party"] or e["doc"] != node.f["doc"]:
                    raise Mismatch(f"input '{node.f['name']}' declared for party {node.f['party']!r} doc {node.f['doc']!r}, "
                                   f"MIR lists party {e['party']!r} doc {e['doc']!r}")
                continue
            if node.kind == "lit":
                if name != "LiteralReference":
                    raise Mismatch(f"operation {k}: wrote literal {node.f['value']}, MIR has {name}")
                e = lits.get(b["refers_to"])
                want_ty = node.f["type"].replace("Public", "")
                if e is None or e["value"] != node.f["value"] or e["type"] != want_ty:
                    raise Mismatch(f"operation {k}: wrote literal {node.f['value']}:{want_ty}, MIR resolves it to {e}")
                continue
            if node.kind == "param":
                if name != "NadaFunctionArgRef" or b["refers_to"] != node.f["name"]:
                    raise Mismatch(f"operation {k}: wrote parameter {node.f['name']}, MIR has {name} {b.get('refers_to')}")
                fid = fn_map.get(id(node.fn))
                if fid is not None and b["function_id"] != fid:
                    raise Mismatch(f"operation {k}: parameter of function {fid} recorded for function {b['function_id']}")
                continue
            if node.kind == "Random":
                if name != "Random":
                    raise Mismatch(f"operation {k}: wrote a random draw, MIR has {name}")
                continue
            if name != node.kind:
                kind = "fold-literal-param" if name == "LiteralReference" else "op"
                raise Mismatch(f"[{kind}] operation {k}: wrote {node.kind}, MIR has {name}")
            for key in ("index", "key"):
                if key in node.f and node.f[key] is not None and b.get(key) != node.f[key]:
                    raise Mismatch(f"operation {k}: wrote {key} {node.f[key]!r}, MIR records {b.get(key)!r}")
            kids = mir_kids(name, b)
            if name == "New" and isinstance(node.members, dict):
                # a consumer pairs element i with the i-th field of the recorded Object type
                ty = b.get("type")
                fields = [kv[0] for kv in ty["Object"]["types"]] if isinstance(ty, dict) and "Object" in ty else None
                if fields != list(node.members):
                    raise Mismatch(f"operation {k}: Object written with fields {list(node.members)} (elements in that order), "
                                   f"its recorded type lists the fields as {fields}")
            if len(kids) != len(node.kids):
                raise Mismatch(f"operation {k} ({name}): wrote {len(node.kids)} operands, MIR has {len(kids)}")
            if node.fn is not None:
                fid = b.get("fn", b.get("function_id"))
                match_fn(node.fn, fid)
            for kid_node, kid_id in reversed(list(zip(node.kids, kids))):
                stack.append((kid_node, kid_id))

    def match_fn(fnode, fid):
        if id(fnode) in fn_map:
            if fn_map[id(fnode)] != fid:
                raise Mismatch(f"one function is emitted under two ids ({fn_map[id(fnode)]}, {fid})")
            return
        if fid in fn_map.values():
            raise Mismatch(f"two different functions share id {fid}")
        fn_map[id(fnode)] = fid
        f = fns.get(fid)
        if f is None:
            raise Mismatch(f"function {fid} ({fnode.name}) is referenced but not listed")
        if f["function"] != fnode.name or [a["name"] for a in f["args"]] != fnode.params:
            raise Mismatch(f"function {fid}: defined as {fnode.name}({', '.join(fnode.params)}), MIR has "
                           f"{f['function']}({', '.join(a['name'] for a in f['args'])})")
        match_table(fnode.ret, f["return_operation_id"], dict(f["operations"]), fnode)

    prog = dict(mir["operations"])
    if len(mir["outputs"]) != len(outs):
        return [("outputs", f"{len(outs)} outputs declared, {len(mir['outputs'])} emitted")]
    for (v, name, _p), o in zip(outs, mir["outputs"]):
        try:
            match_table(nodes[v] if v < len(nodes) else None, o["operation_id"], prog, None)
        except Mismatch as exc:
            text = str(exc)
            kind = "fold-literal-param" if text.startswith("[fold-literal-param]") else "unfaithful"
            viol.append((kind, f"output {name}: {text}"))
        except (KeyError, TypeError, AttributeError, IndexError) as exc:
            viol.append(("unfaithful", f"output {name}: malformed MIR ({type(exc).__name__}: {exc})"))
    return viol
