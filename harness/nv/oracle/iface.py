"""Oracles for C10 (interface lists), C11 (functions) and C12 (collection preconditions), judged
against what the program *declared* (taken from the command list), not against the model."""
from .graph import body, tables

MIRNAME = {"Integer": "Integer", "UnsignedInteger": "UnsignedInteger", "Boolean": "Boolean",
           "PublicInteger": "Integer", "PublicUnsignedInteger": "UnsignedInteger", "PublicBoolean": "Boolean",
           "SecretInteger": "SecretInteger", "SecretUnsignedInteger": "SecretUnsignedInteger",
           "SecretBoolean": "SecretBoolean"}


def declared_inputs(events, results=None):
    """register of every wrapper of an Input -> declaration (name, party reg, doc, MIR type)"""
    reg = 0
    raw, decl = {}, {}
    parties = {}
    for idx, ev in enumerate(events):
        c = ev.get("c")
        if c is None:
            continue
        op = c["op"]
        if results is not None and results[idx].get("s") is not None:
            reg += len(c["params"]) if op == "beginFn" else 1
            continue
        if op == "party":
            parties[reg] = c["name"]
        elif op == "inputObj":
            raw[reg] = {"name": c["name"], "doc": c["doc"], "party": parties.get(c["party"]), "type": None, "obj": reg}
        elif op == "wrap" and c["r"] in raw:
            d = raw[c["r"]]
            d["type"] = MIRNAME[c["t"]]
            decl[reg] = d
        elif op == "arrayOf" and c["r"] in decl:
            d = dict(decl[c["r"]])
            d["type"] = {"Array": {"inner_type": d["type"], **({"size": int(c["size"])} if c.get("size") else {})}}
            decl[reg] = d
        reg += len(c["params"]) if op == "beginFn" else 1
    return decl, parties


def c10(mir, rec):
    v = []
    events, facts = rec["events"], rec["facts"]
    decl, parties = declared_inputs(events, rec.get("real"))
    outs = rec["compile"]
    if len(outs) != len(mir["outputs"]):
        v.append(("outputs", f"{len(outs)} outputs returned, {len(mir['outputs'])} emitted"))
    prog = dict(mir["operations"])
    for (vr, name, pr), o in zip(outs, mir["outputs"]):
        if o["name"] != name or o["party"] != parties.get(pr):
            v.append(("outputs", f"output declared ({name}, {parties.get(pr)}) emitted as ({o['name']}, {o['party']})"))
        if facts["child_ids"].get(vr) != o["operation_id"]:
            v.append(("outputs", f"output {name} designates operation {o['operation_id']}, the returned value is operation {facts['child_ids'].get(vr)}"))
        if o["operation_id"] in prog and body(prog[o["operation_id"]])[1].get("type") != o["type"]:
            v.append(("outputs", f"output {name} typed {o['type']} but its operation is typed {body(prog[o['operation_id']])[1].get('type')}"))
    by_id = {}
    for r, d in decl.items():
        cid = facts["child_ids"].get(r)
        if cid is not None:
            by_id[cid] = d
    used = {}
    for _, _, tbl in tables(mir):
        for k, op in tbl.items():
            n, b = body(op)
            if n == "InputReference":
                used.setdefault(b["refers_to"], set()).add(k)
    listed = {}
    for i in mir["inputs"]:
        listed.setdefault(i["name"], []).append(i)
    for name, ids in used.items():
        objs = {by_id[k]["obj"] for k in ids if k in by_id}
        if len(objs) > 1:
            v.append(("dup-accepted", f"two different inputs named '{name}' were compiled"))
        if len(listed.get(name, [])) != 1:
            v.append(("input-list", f"input '{name}' is used but listed {len(listed.get(name, []))} times"))
            continue
        e = listed[name][0]
        for k in ids:
            d = by_id.get(k)
            if d is None:
                continue
            if (e["party"], e["doc"]) != (d["party"], d["doc"]):
                v.append(("input-attrs", f"input '{name}' declared (party {d['party']!r}, doc {d['doc']!r}) listed as (party {e['party']!r}, doc {e['doc']!r})"))
            if e["type"] != d["type"]:
                v.append(("input-type", f"input '{name}' declared with type {d['type']} listed with type {e['type']}"))
    pl = [p["name"] for p in mir["parties"]]
    for p in {i["party"] for i in mir["inputs"]} | {o["party"] for o in mir["outputs"]} | \
            {by_id[k]["party"] for ids in used.values() for k in ids if k in by_id}:
        if p not in pl:
            v.append(("party-missing", f"party '{p}' owns an input or receives an output but is not listed"))
    return v


def ann_type(a):
    if a == "Array":
        return {"Array": {"inner_type": "T"}}
    if isinstance(a, str):
        return MIRNAME[a]
    return {"Array": {"inner_type": ann_type(a[1])}}


def c11(mir, rec):
    v = []
    events, facts = rec["events"], rec["facts"]
    # definitions in the program: fn register -> (name, params, ret annotation)
    reg, stack, defs = 0, [], {}
    for ev, res in zip(events, rec["real"]):
        c = ev.get("c")
        if c is None:
            continue
        if c["op"] == "beginFn":
            stack.append(c)
        elif c["op"] == "endFn" and stack:
            b = stack.pop()
            if res.get("s") is None:
                defs[reg] = (b["name"], b["params"], c["retAnn"])
        reg += len(c["params"]) if c["op"] == "beginFn" else 1
    by_fid = {facts["fn_ids"][r]: d for r, d in defs.items() if r in facts["fn_ids"]}
    ids = [f["id"] for f in mir["functions"]]
    for f in mir["functions"]:
        if ids.count(f["id"]) != 1:
            v.append(("fn-twice", f"function {f['function']}#{f['id']} is emitted {ids.count(f['id'])} times"))
        d = by_fid.get(f["id"])
        if d is None:
            v.append(("fn-unknown", f"function {f['function']}#{f['id']} was not defined by this program"))
            continue
        name, params, ret = d
        if f["function"] != name:
            v.append(("fn-signature", f"function defined as {name} emitted as {f['function']}"))
        want = [{"name": p, "type": ann_type(a)} for p, a in params]
        if f["args"] != want:
            v.append(("fn-signature", f"function {name}: parameters {want} emitted as {f['args']}"))
        if f["return_type"] != MIRNAME[ret]:
            v.append(("fn-signature", f"function {name}: declared return type {ret} emitted as {f['return_type']}"))
        names = [p for p, _ in params]
        for k, op in f["operations"]:
            n, b = body(op)
            if n == "NadaFunctionArgRef" and b["function_id"] == f["id"] and b["refers_to"] not in names:
                v.append(("fn-signature", f"function {name}: body refers to parameter {b['refers_to']}"))
    # bindings at every site
    alltbl = {}
    for _, _, tbl in tables(mir):
        alltbl.update(tbl)
    reg = 0
    for ev, res in zip(events, rec["real"]):
        c = ev.get("c")
        if c is None:
            continue
        if res.get("s") is None and c["op"] in ("map", "reduce", "call"):
            k = facts["child_ids"].get(reg)
            if k in alltbl:
                n, b = body(alltbl[k])
                want_fn = facts["fn_ids"].get(c["f"])
                got_fn = b.get("fn", b.get("function_id"))
                if got_fn != want_fn:
                    v.append(("binding", f"{n}#{k} is bound to function {got_fn}, the program passed function {want_fn}"))
                if ids.count(got_fn) != 1:
                    v.append(("fn-twice" if ids.count(got_fn) > 1 else "fn-missing",
                              f"{n}#{k} is bound to function {got_fn}, which is emitted {ids.count(got_fn)} times"))
                if c["op"] == "call":
                    from ..ir import bound_args, fn_param_names
                    want_args = [facts["child_ids"].get(a) for a in (bound_args(c, fn_param_names(events).get(c["f"])) or [])]
                    if b.get("args") != want_args:
                        v.append(("binding", f"call#{k} records arguments {b.get('args')}, the program passed {want_args}"))
                if c["op"] == "reduce" and b.get("initial") != facts["child_ids"].get(c["init"]):
                    v.append(("binding", f"Reduce#{k} initial {b.get('initial')} != {facts['child_ids'].get(c['init'])}"))
        reg += len(c["params"]) if c["op"] == "beginFn" else 1
    return v


def c12_steps(rec):
    """Preconditions, judged on the real step outcomes (no MIR needed)."""
    v = []
    desc = rec["facts"]["desc"]
    reg = 0
    d = lambda r: desc[r] if r < len(desc) else ("dead",)  # noqa: E731
    for ev, res in zip(rec["events"], rec["real"]):
        c = ev.get("c")
        if c is None:
            continue
        op, err = c["op"], res.get("s")
        live = all(d(r)[0] != "dead" for r in _operands(c))
        if live:
            if op in ("zip", "innerProduct") and d(c["a"])[0] == "array" and d(c["b"])[0] == "array":
                if d(c["a"])[1] != d(c["b"])[1] and err is None:
                    v.append(("precondition", f"{op} of arrays of sizes {d(c['a'])[1]} and {d(c['b'])[1]} was accepted"))
                if op == "innerProduct" and err is None and not all(
                        x[2] in ("Integer", "UnsignedInteger", "PublicInteger", "PublicUnsignedInteger", "SecretInteger",
                                 "SecretUnsignedInteger") for x in (d(c["a"]), d(c["b"]))):
                    v.append(("precondition", f"inner product over elements {d(c['a'])[2]} / {d(c['b'])[2]} was accepted"))
                if err is None and op == "zip" and d(reg)[:2] != ("array", d(c["a"])[1]):
                    v.append(("result", f"zip of size {d(c['a'])[1]} gives {d(reg)}"))
            if op == "arrayNew":
                ds = [d(r) for r in c["xs"]]
                if not ds and err is None:
                    v.append(("precondition", "Array.new() of no values was accepted"))
                if ds and any(x != ds[0] for x in ds) and err is None:
                    v.append(("precondition", f"Array.new of values of different types {ds} was accepted"))
                if err is None and ds and d(reg)[:2] != ("array", len(ds)):
                    v.append(("result", f"Array.new of {len(ds)} values gives {d(reg)}"))
            if op == "ntupleGet" and d(c["t"])[0] == "ntuple":
                n, i = d(c["t"])[1], int(c["i"])
                if not -n <= i < n and err is None:
                    v.append(("precondition", f"index {i} of a {n}-tuple was accepted"))
                if err is None and reg in rec["facts"]["acc_index"]:
                    j = rec["facts"]["acc_index"][reg]
                    if not (isinstance(j, int) and 0 <= j < n) or j != (i + n if i < 0 else i):
                        v.append(("index-range", f"index {i} of a {n}-tuple recorded as {j}"))
            if op == "objectGet" and d(c["o"])[0] == "object":
                if c["key"] not in d(c["o"])[1] and err is None:
                    v.append(("precondition", f"undeclared field {c['key']} of an object with fields {d(c['o'])[1]} was read"))
            if op == "map" and err is None and d(c["a"])[0] == "array" and d(reg)[:2] != ("array", d(c["a"])[1]):
                v.append(("result", f"map over size {d(c['a'])[1]} gives {d(reg)}"))
        reg += len(c["params"]) if op == "beginFn" else 1
    return v


from ..ir import operand_regs as _operands  # noqa: E402
