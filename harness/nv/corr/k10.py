"""K10 — entry-point composition: the model (and the direct K1/K2 run) treats a compilation as
"trace the commands, then `nada_dsl_to_nada_mir(outputs)`".  The real entry points
(`compile_script`, `compile_string`) must be transparent wrappers around exactly that, also when
several programs are compiled in one process and share traced values.

An event list  S0 · compile C1 · S1 · compile C2 · …  is rendered as files

    nvs_<tag>_0.py : S0 at module level            nvp_<tag>_1.py : `from nvs_<tag>_0 import *` + nada_main → C1
    nvs_<tag>_1.py : imports nvs_0, S1 at module   nvp_<tag>_2.py : `from nvs_<tag>_1 import *` + nada_main → C2 …

(commands no later segment refers to are moved into `nada_main`), compiled in order with the real
`compile_script` / `compile_string` in this process, from the import-time state.  Python imports
each shared module once, so the trace is the same command sequence as the direct run: the MIRs must
be identical, ids and literal names included.  Commands that failed in the direct run are rendered
inside `try/except` so that their partial effects (ids drawn) are reproduced too."""
import base64
import contextlib
import importlib
import io
import json
import os
import shutil
import sys
import tempfile

from .. import ir
from ..gen.render import SYM, LITCLS, ann_src
from ..real.env import reset_globals
from . import mir as cm


def expr_of(c):
    g = lambda k: f"r{c[k]}"  # noqa: E731
    op = c["op"]
    if op == "party":
        return f'Party(name="{c["name"]}")'
    if op == "inputObj":
        return f'Input(name="{c["name"]}", party={g("party")}, doc={c["doc"]!r})'
    if op == "wrap":
        return f'{c["t"]}({g("r")})'
    if op == "arrayOf":
        return f'Array({g("r")}, size={c["size"]})'
    if op == "lit":
        return f'{LITCLS[c["base"]]}({c["v"]})'
    if op == "bin":
        return f'{g("a")} {SYM[c["bop"]]} {g("b")}'
    if op == "invert":
        return f'~{g("a")}'
    if op == "reveal":
        return f'{g("a")}.to_public()'
    if op == "truncPr":
        return f'{g("a")}.trunc_pr({g("b")})'
    if op == "publicEquals":
        return f'{g("a")}.public_equals({g("b")})'
    if op == "ifElse":
        return f'{g("c")}.if_else({g("a")}, {g("b")})'
    if op == "random":
        return f'{c["t"]}.random()'
    if op == "radd":
        return f'{c["k"]} + {g("a")}'
    if op == "arrayNew":
        return f'Array.new({", ".join(f"r{x}" for x in c["xs"])})'
    if op == "tupleNew":
        return f'Tuple.new({g("a")}, {g("b")})'
    if op == "ntupleNew":
        return f'NTuple.new([{", ".join(f"r{x}" for x in c["xs"])}])'
    if op == "objectNew":
        return "Object.new({" + ", ".join(f'"{k}": r{x}' for k, x in c["fs"]) + "})"
    if op == "ntupleGet":
        return f'{g("t")}[{c["i"]}]'
    if op == "objectGet":
        return f'{g("o")}.{c["key"]}'
    if op == "zip":
        return f'{g("a")}.zip({g("b")})'
    if op == "unzip":
        return f'unzip({g("a")})'
    if op == "map":
        return f'{g("a")}.map({g("f")})'
    if op == "reduce":
        return f'{g("a")}.reduce({g("f")}, {g("init")})'
    if op == "innerProduct":
        return f'{g("a")}.inner_product({g("b")})'
    if op == "call":
        return ir.call_src(c)
    return None


operand_regs = ir.operand_regs


def statements(events, results, no_plain=frozenset()):
    """Top-level statements of the event list: [(kind, lines, regs_bound, regs_used)] where kind is
    'stmt' or 'compile' (lines = the compile spec).  Function definitions are one statement.
    Returns None when the program cannot be rendered (a definition whose header was rejected)."""
    out = []
    reg = 0
    i = 0
    events_op_after = {}
    rr = 0
    for idx, ev in enumerate(events):
        cc = ev.get("c")
        if cc is None:
            continue
        if cc["op"] == "endFn":
            nxt = events[idx + 1].get("c", {}) if idx + 1 < len(events) else {}
            events_op_after[rr] = nxt.get("op") if nxt.get("f") == rr else None
        rr += len(cc["params"]) if cc["op"] == "beginFn" else 1

    def one(i, reg, indent):
        """render event i (a non-bracket command) → (lines, bound, used, next_i, next_reg)"""
        c = events[i]["c"]
        ok = results[i].get("s") is None
        e = expr_of(c)
        pad = "    " * indent
        if e is None:                                   # nop
            return [], [reg], [], i + 1, reg + 1
        if ok:
            lines = [f"{pad}r{reg} = {e}"]
        else:
            lines = [f"{pad}try:", f"{pad}    r{reg} = {e}", f"{pad}except Exception:", f"{pad}    pass"]
        return lines, [reg], operand_regs(c), i + 1, reg + 1

    plain_defined = {}
    groups_used = []       # (statement index, group, function register) of every shared-plain rendering

    def fn(i, reg, indent):
        c = events[i]["c"]
        if results[i].get("s") is not None:
            return None
        pad = "    " * indent
        plain = c.get("plain") if indent == 0 else None
        if plain is not None and plain["group"] in no_plain:
            plain = None
        params = ", ".join(f"{n}: {ann_src(a)}" for n, a in c["params"])
        lines = [f"{pad}@nada_fn", None]
        used, bound = [], []
        body = []
        for k, (n, _) in enumerate(c["params"]):
            body.append(f"{pad}    r{reg + k} = {n}")
            bound.append(reg + k)
        reg += len(c["params"])
        i += 1
        while i < len(events):
            ev = events[i]
            if "compile" in ev:
                return None                              # a compilation inside a function body: not rendered
            cj = ev["c"]
            if cj["op"] == "endFn":
                ok = results[i].get("s") is None
                body.append(f"{pad}    return r{cj['ret']}")
                used.append(cj["ret"])
                lines[1] = f"{pad}def {c['name']}({params}) -> {cj['retAnn']}:"
                lines += body
                if plain is not None and ok:
                    # one undecorated Python function per group, reading the global `cap_<group>`; it is traced
                    # by map / reduce at each use (the use must directly follow in the event list)
                    g, cap = plain["group"], plain["cap"]
                    import re as _re
                    shape = [_re.sub(r"\br\d+\b", "r#", _re.sub(rf"\br{cap}\b", "CAP", l)) for l in lines[1:]]
                    if g not in plain_defined or plain_defined[g] == shape:
                        text = []
                        if g not in plain_defined:
                            plain_defined[g] = shape
                            text = [_re.sub(rf"\br{cap}\b", f"cap_{g}", l) for l in lines[1:]]
                        lines = text + [f"cap_{g} = r{cap}", f"r{reg} = {c['name']}"]
                        bound.append(reg)
                        groups_used.append((len(out), g, reg))
                        return lines, bound, used + [cap], i + 1, reg + 1
                if ok:
                    lines.append(f"{pad}r{reg} = {c['name']}")
                else:
                    # the decorator raised after the body was traced
                    lines = [f"{pad}try:"] + ["    " + l for l in lines] + [f"{pad}except Exception:", f"{pad}    pass"]
                bound.append(reg)
                return lines, bound, used, i + 1, reg + 1
            if cj["op"] == "beginFn":
                sub = fn(i, reg, indent + 1)
            else:
                sub = one(i, reg, indent + 1)
            if sub is None:
                return None
            l2, b2, u2, i, reg = sub
            body += l2
            bound += b2
            used += u2
        return None

    inner = set()          # registers bound inside function bodies: Python locals, invisible to later statements
    while i < len(events):
        ev = events[i]
        if "compile" in ev:
            used = [v for v, _, _ in ev["compile"]] + [p for _, _, p in ev["compile"]]
            if set(used) & inner:
                return None
            out.append(("compile", ev["compile"], [], used))
            i += 1
            continue
        c = ev["c"]
        if c["op"] == "endFn":
            return None
        sub = fn(i, reg, 0) if c["op"] == "beginFn" else one(i, reg, 0)
        if sub is None:
            return None
        lines, bound, used, i, reg = sub
        if set(used) & inner:
            return None
        if c["op"] == "beginFn":
            inner |= set(bound[:-1])
            used = [u for u in used if u not in bound]
            bound = bound[-1:]
        out.append(("stmt", lines, bound, used))
    # a shared plain function is only faithful when each of its function registers is used exactly once, by the
    # map / reduce that directly follows, and the whole group lives in one segment (one module)
    bad = set()
    seg_of, k = [], 0
    for kind, *_ in out:
        seg_of.append(k)
        k += kind == "compile"
    for j, g, freg in groups_used:
        users = [x for x in range(len(out)) if freg in out[x][3]]
        nxt = events_op_after.get(freg)
        if users != [j + 1] or nxt not in ("map", "reduce"):
            bad.add(g)
    for g in {g for _, g, _ in groups_used}:
        if len({seg_of[j] for j, gg, _ in groups_used if gg == g}) > 1:
            bad.add(g)
    if bad:
        return statements(events, results, no_plain=frozenset(no_plain | bad))
    return out, {j for j, _, _ in groups_used} | {j + 1 for j, _, _ in groups_used}


def render_scripts(events, results, tag):
    """[(filename, source)] + [(program filename, compile spec)] in compile order, or None"""
    st = statements(events, results)
    if st is None:
        return None
    st, pinned = st
    if not any(k == "compile" for k, *_ in st):
        return None
    files, programs = [], []
    seg, nseg = [], 0
    prev_shared = None
    # registers referred to after position j (by later statements or compile specs)
    later_use = [set() for _ in st]
    acc = set()
    for j in range(len(st) - 1, -1, -1):
        later_use[j] = set(acc)
        acc |= set(st[j][3])
    j = 0
    while j < len(st):
        kind, lines, bound, used = st[j]
        if kind == "stmt":
            seg.append((j, lines, bound))
            j += 1
            continue
        spec = lines
        # statements of this segment that nothing after the compile point refers to go into nada_main
        after = later_use[j]
        local = []
        while seg and not (set(seg[-1][2]) & after) and len(local) < 6 and not any(x[0] in pinned for x in seg):
            local.insert(0, seg.pop())
        shared = f"nvs_{tag}_{nseg}"
        text = "from nada_dsl import *\n"
        if prev_shared:
            text += f"from {prev_shared} import *\n"
        for _, ls, _ in seg:
            text += "\n".join(ls) + "\n"
        files.append((shared + ".py", text))
        prog = f"nvp_{tag}_{nseg}"
        ptext = f"from nada_dsl import *\nfrom {shared} import *\n\ndef nada_main():\n"
        for _, ls, _ in local:
            ptext += "".join("    " + l + "\n" for l in ls)
        # the entry points iterate over whatever `nada_main` returns: a list, a tuple, an iterator, a generator
        outs_text = "[" + ", ".join(f'Output(r{v}, "{name}", r{p})' for v, name, p in spec) + "]"
        ptext += "    return " + [outs_text, f"iter({outs_text})", f"(o for o in {outs_text})", f"tuple({outs_text})"][nseg % 4] + "\n"
        files.append((prog + ".py", ptext))
        programs.append((prog + ".py", spec))
        prev_shared = shared
        # the local statements were traced inside nada_main: later segments must not re-trace them, and by
        # construction do not refer to them
        seg = []
        nseg += 1
        j += 1
    return files, programs


def run_scripts(events, results, tag, via="script", only=None, raw=False, timers=False):
    """Compile the rendered programs in order with the real entry point; returns a list aligned with
    the compile events: {"mir": canon} | {"err": class name}, or None if not renderable."""
    from ..real.interp import canon_err
    from nada_dsl.compile import compile_script, compile_string
    r = render_scripts(events, results, tag)
    if r is None:
        return None
    files, programs = r
    d = tempfile.mkdtemp(prefix="nvk10_")
    for fn, text in files:
        with open(os.path.join(d, fn), "w", encoding="utf-8") as f:
            f.write(text)
    reset_globals()
    if timers:
        from nada_dsl.timer import timer
        timer.enable()
    before = set(sys.modules)
    sys.path.insert(0, d)
    outs = []
    try:
        for pi, (fn, _) in enumerate(programs):
            if only is not None and pi not in only:
                outs.append({"skipped": True})
                continue
            path = os.path.join(d, fn)
            try:
                with contextlib.redirect_stdout(io.StringIO()):
                    if via == "script":
                        res = compile_script(path)
                    else:
                        with open(path, encoding="utf-8") as f:
                            res = compile_string(base64.b64encode(f.read().encode()).decode())
                full = json.loads(res.mir)
                outs.append({"mir": cm.canon_mir(full), **({"raw": full} if raw else {})})
            except Exception as exc:  # pylint: disable=broad-except
                outs.append({"err": canon_err(exc), "msg": f"{type(exc).__name__}: {exc}"[:200]})
    finally:
        while d in sys.path:
            sys.path.remove(d)
        for m in set(sys.modules) - before:
            if m.startswith(("nvs_", "nvp_")) or m == "temp_program":
                del sys.modules[m]
        importlib.invalidate_caches()
        shutil.rmtree(d, ignore_errors=True)
        reset_globals()
    return outs, files


def line_map(files):
    """register -> (file name, line number) of the statement `r<n> = <expression>` that creates its value"""
    import re
    out = {}
    for fn, text in files:
        for i, l in enumerate(text.split("\n"), 1):
            m = re.match(r"\s*r(\d+) = (.*)$", l)
            if m and not re.fullmatch(r"[A-Za-z_][A-Za-z_0-9]*", m.group(2).strip()):
                out.setdefault(int(m.group(1)), (fn, i))
    return out


def expected_lines(events, facts, files, programs):
    """what the program text says about where each MIR element was created:
    ({operation id: (file, line)}, {program file: {("party"|"input"|"output", name): (file, line)}})"""
    lm = line_map(files)
    child = facts["child_ids"]
    op_lines = {}
    seen = set()
    reg = 0
    input_reg_of = {}         # wrapper register -> register of the Input(...) statement behind it
    parties, inputs = {}, {}
    for ev in events:
        c = ev.get("c")
        if c is None:
            continue
        op = c["op"]
        if op == "wrap":
            input_reg_of[reg] = c["r"]
        elif op == "arrayOf" and c["r"] in input_reg_of:
            input_reg_of[reg] = input_reg_of[c["r"]]
        if op == "party":
            parties.setdefault(c["name"], []).append(reg)
        if op == "inputObj":
            inputs.setdefault(c["name"], []).append(reg)
        width = len(c["params"]) if op == "beginFn" else 1
        for r_ in range(reg, reg + max(width, 1)):
            # (a function definition binds one register per parameter: each of them is where its parameter was created)
            k = child.get(r_, child.get(str(r_)))
            if k is not None and k not in seen:
                # only the first register holding an operation says where it was created (later ones may be aliases:
                # to_public() of a non-secret, a literal member returned by an accessor, a parameter binding)
                seen.add(k)
                src = input_reg_of.get(r_, r_)
                if src in lm:
                    op_lines[k] = lm[src]
                elif reg in lm:
                    op_lines[k] = lm[reg]
        reg += width
    named = {}
    for name, regs in parties.items():
        if len(regs) == 1 and regs[0] in lm:
            named[("party", name)] = lm[regs[0]]
    for name, regs in inputs.items():
        if len(regs) == 1 and regs[0] in lm:
            named[("input", name)] = lm[regs[0]]
    per_prog = {}
    texts = dict(files)
    for fn, spec in programs:
        d = dict(named)
        # nada_main's own return statement: the last one of the file (function bodies defined inside nada_main return earlier)
        rets = [i for i, l in enumerate(texts[fn].split("\n"), 1) if l.strip().startswith("return ")]
        ret = rets[-1] if rets else None
        if ret is not None:
            for _, oname, _ in spec:
                d[("output", oname)] = (fn, ret)
        per_prog[fn] = d
    return op_lines, per_prog
