"""K1/K2 — differential run of the layer-B model (nvdriver) against the real implementation on
generated programs; returns per-program records that the property checks project and judge."""
import copy
import json
from .. import core
from ..gen import programs
from ..real import interp
from ..real.env import reset_globals
from . import mir as cm

NOP = {"c": {"op": "nop"}}


def _model(events_list):
    return core.driver([{"k": "prog", "events": evs} for evs in events_list])


def compare(events, real_results, model_results):
    """List of disagreements between the real run and the model run of one program."""
    diffs = []
    for i, (ev, r, a) in enumerate(zip(events, real_results, model_results)):
        if "c" in ev:
            if r.get("s") != a.get("s"):
                diffs.append({"event": i, "cmd": ev["c"], "real": r.get("s"), "model": a.get("s", a)})
        else:
            if "mir" in r and "mir" in a:
                d = cm.first_diff(cm.canon_mir(r["mir"]), a["mir"])
                if d:
                    diffs.append({"event": i, "compile": ev["compile"], "mir_diff": d})
            elif r.get("err") != a.get("err"):
                diffs.append({"event": i, "compile": ev["compile"], "real": r.get("err", "mir"), "model": a.get("err", "mir")})
    return diffs


def settle(events, real_results):
    """Replace commands the model does not support by `nop` (re-running both sides) until the model
    supports the whole program. Returns (events, real_results, model_results, dropped)."""
    dropped = 0
    for _ in range(12):
        ans = _model([events])[0]
        res = ans["results"]
        bad = [i for i, a in enumerate(res) if a.get("s") == "unsupported" or a.get("err") in ("unsupported", "badout")
               or "error" in a]
        if not bad:
            return events, real_results, res, dropped
        i = bad[0]
        events = copy.deepcopy(events)
        if "c" in events[i]:
            if events[i]["c"]["op"] in ("beginFn", "endFn"):
                return None, None, None, dropped      # give up on this program
            events[i] = NOP
        else:
            events[i] = {"compile": []}
            del events[i]
        dropped += 1
        reset_globals()
        m = interp.run_events(events)
        events, real_results = m.events, m.results
    return None, None, None, dropped


def run_programs(tag, n, max_cmds=25, corpus=()):
    """Generate and run n programs (after the corpus). Yields dict records."""
    out = []
    for ev in corpus:
        reset_globals()
        m = interp.run_events(copy.deepcopy(ev))
        out.append(_record(("corpus", len(out)), m.events, m.results, {}))
    for idx in range(n):
        m, dist = programs.generate(tag, idx, max_cmds=max_cmds)
        out.append(_record((tag, idx), m.events, m.results, dist))
    reset_globals()
    return out


def _record(ident, events, real_results, dist):
    ev2, rr, mr, dropped = settle(events, real_results)
    if ev2 is None:
        return {"id": ident, "skipped": True, "dist": dist, "dropped": dropped}
    return {"id": ident, "events": ev2, "real": rr, "model": mr, "dist": dist, "dropped": dropped,
            "diffs": compare(ev2, rr, mr), "skipped": False}
