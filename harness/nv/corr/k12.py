"""K1/K2 — differential run of the layer-B model (nvdriver) against the real implementation on
generated programs; returns per-program records that the property checks project and judge."""
import copy
import json
from .. import core
from ..gen import programs
from ..real import interp
from ..real.env import reset_globals
from . import mir as cm

NOP = {"c": {"op": "nop"}}


def _model(events_list):
    return core.driver([{"k": "prog", "events": evs} for evs in events_list])


def compare(events, real_results, model_results):
    """List of disagreements between the real run and the model run of one program."""
    diffs = []
    for i, (ev, r, a) in enumerate(zip(events, real_results, model_results)):
        if "c" in ev:
            if r.get("s") != a.get("s"):
                diffs.append({"event": i, "cmd": ev["c"], "real": r.get("s"), "model": a.get("s", a)})
        else:
            if "mir" in r and "mir" in a:
                d = cm.first_diff(cm.canon_mir(r["mir"]), a["mir"])
                if d:
                    diffs.append({"event": i, "compile": ev["compile"], "mir_diff": d})
            elif r.get("err") != a.get("err"):
                diffs.append({"event": i, "compile": ev["compile"], "real": r.get("err", "mir"), "model": a.get("err", "mir")})
    return diffs


def settle(machine):
    """Replace commands the model does not support by `nop` (re-running both sides) until the model
    supports the whole program. Returns (machine, model_results, dropped) or (None, None, dropped)."""
    dropped = 0
    events = machine.events
    for _ in range(12):
        ans = _model([events])[0]
        res = ans["results"]
        bad = [i for i, a in enumerate(res) if a.get("s") == "unsupported" or a.get("err") in ("unsupported", "badout")
               or "error" in a]
        if not bad:
            return machine, res, dropped
        # a command the real code accepted and the model rejected (or vice versa) before the first unsupported event is a
        # genuine disagreement: keep the program as it is, so that it is reported and the oracles see the real MIRs
        first = bad[0]
        if any("c" in ev and r.get("s") != a.get("s") and a.get("s") != "unsupported"
               for ev, r, a in list(zip(machine.events, machine.results, res))[:first]):
            return machine, res, dropped
        i = bad[0]
        events = copy.deepcopy(events)
        if "c" in events[i]:
            if events[i]["c"]["op"] in ("beginFn", "endFn"):
                return None, None, dropped      # give up on this program
            events[i] = NOP
        else:
            del events[i]
        dropped += 1
        reset_globals()
        machine = interp.run_events(events)
        events = machine.events
    return None, None, dropped


def reg_facts(machine):
    """Facts about the program taken from the real objects in the registers (not from the MIR)."""
    from nada_dsl.nada_types.scalar_types import ScalarType
    from nada_dsl.nada_types.function import NadaFunction
    lit_written, fn_ids, child_ids = {}, {}, {}
    for r, v in enumerate(machine.regs):
        if v is interp.DEAD:
            continue
        if isinstance(v, NadaFunction):
            fn_ids[r] = v.id
            continue
        ch = getattr(v, "child", None)
        cid = getattr(ch, "id", None)
        if cid is None and hasattr(v, "id") and not hasattr(v, "child"):
            cid = None
        if cid is not None:
            child_ids[r] = cid
        if isinstance(v, ScalarType) and v.is_literal() and type(ch).__name__ == "Literal":
            lit_written[cid] = (str(v.value), type(v).__name__)
    from ..oracle import term
    acc_index = {}
    for r, v in enumerate(machine.regs):
        ch = getattr(v, "child", None)
        if type(ch).__name__ == "NTupleAccessor":
            acc_index[r] = ch.index
    return {"lit_written": lit_written, "fn_ids": fn_ids, "child_ids": child_ids, "acc_index": acc_index,
            "desc": [interp.describe(v) for v in machine.regs],
            "nodes": term.build(machine.events, machine.results, machine.regs)}


def run_programs(tag, n, max_cmds=25, corpus=(), scenario_variations=8):
    """Generate and run n programs (after the corpus). Returns dict records."""
    out = []
    for ev in corpus:
        reset_globals()
        m = interp.run_events(copy.deepcopy(ev))
        out.append(_record(("corpus", len(out)), m, {}))
    # a sweep over the structured scenarios first (several variations of each)
    for kind in programs.Gen.SCENARIOS:
        for var in range(scenario_variations):
            m, dist = programs.generate(tag, var, max_cmds=max_cmds, scenario=kind)
            out.append(_record((tag, f"scenario:{kind}:{var}"), m, dist))
    for idx in range(n):
        m, dist = programs.generate(tag, idx, max_cmds=max_cmds)
        out.append(_record((tag, idx), m, dist))
    reset_globals()
    return out


def _record(ident, machine, dist):
    m2, mr, dropped = settle(machine)
    if m2 is None:
        return {"id": ident, "skipped": True, "dist": dist, "dropped": dropped}
    return {"id": ident, "events": m2.events, "real": m2.results, "model": mr, "dist": dist, "dropped": dropped,
            "diffs": compare(m2.events, m2.results, mr), "skipped": False, "facts": reg_facts(m2)}
