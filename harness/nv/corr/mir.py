"""Canonical form of a real MIR dictionary — the shape `nvdriver` emits (Driver/ProgJson.lean):
`source_ref_index`, `source_files`, `source_refs` dropped; dictionaries whose order matters become
lists of pairs."""


def canon_type(t):
    if isinstance(t, dict):
        out = {}
        for k, v in t.items():
            if k == "Object":
                out[k] = {"types": [[n, canon_type(x)] for n, x in v["types"].items()]}
            elif k == "NTuple":
                out[k] = {"types": [canon_type(x) for x in v["types"]]}
            elif isinstance(v, dict):
                out[k] = {kk: (canon_type(vv) if kk.endswith("type") else vv) for kk, vv in v.items()}
            else:
                out[k] = v
        return out
    return t


def canon_op(op):
    out = {}
    for name, body in op.items():
        b = {k: v for k, v in body.items() if k != "source_ref_index"}
        for k in ("type", "return_type", "to"):
            if k in b:
                b[k] = canon_type(b[k])
        out[name] = b
    return out


def canon_table(tbl):
    return [[int(k), canon_op(v)] for k, v in tbl.items()]


def canon_mir(mir):
    return {
        "functions": [{
            "id": f["id"],
            "args": [{"name": a["name"], "type": canon_type(a["type"])} for a in f["args"]],
            "function": f["function"],
            "return_operation_id": f["return_operation_id"],
            "operations": canon_table(f["operations"]),
            "return_type": canon_type(f["return_type"]),
        } for f in mir["functions"]],
        "parties": [{"name": p["name"]} for p in mir["parties"]],
        "inputs": [{"name": i["name"], "type": canon_type(i["type"]), "party": i["party"], "doc": i["doc"]}
                   for i in mir["inputs"]],
        "literals": [{"name": l["name"], "value": l["value"], "type": canon_type(l["type"])} for l in mir["literals"]],
        "outputs": [{"operation_id": o["operation_id"], "name": o["name"], "party": o["party"],
                     "type": canon_type(o["type"])} for o in mir["outputs"]],
        "operations": canon_table(mir["operations"]),
    }


def first_diff(a, b, path=""):
    """A short description of the first structural difference between two JSON values."""
    if type(a) is not type(b):
        return f"{path}: {a!r} vs {b!r}"[:300]
    if isinstance(a, dict):
        for k in sorted(set(a) | set(b)):
            if k not in a or k not in b:
                return f"{path}.{k}: present only on one side ({a.get(k)!r} vs {b.get(k)!r})"[:300]
            d = first_diff(a[k], b[k], f"{path}.{k}")
            if d:
                return d
        return None
    if isinstance(a, list):
        if len(a) != len(b):
            return f"{path}: lengths {len(a)} vs {len(b)}: {a!r} vs {b!r}"[:400]
        for i, (x, y) in enumerate(zip(a, b)):
            d = first_diff(x, y, f"{path}[{i}]")
            if d:
                return d
        return None
    return None if a == b else f"{path}: {a!r} vs {b!r}"[:300]
