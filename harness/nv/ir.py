"""Helpers on the command IR shared by the interpreter, generators, renderers and oracles."""


def operand_regs(c):
    """all registers a command reads"""
    rs = []
    for k in ("a", "b", "c", "r", "t", "o", "f", "init", "party", "ret"):
        if k in c and isinstance(c[k], int) and not (c["op"] in ("wrap", "random") and k == "t"):
            rs.append(c[k])
    rs += list(c.get("xs", [])) + list(c.get("args", []))
    rs += [r for _, r in c.get("kw", [])]
    if c["op"] == "objectNew":
        rs += [r for _, r in c["fs"]]
    return rs


def fn_param_names(events):
    """register of every function value -> its parameter names in declaration order (from the program text)"""
    reg, stack, out = 0, [], {}
    for ev in events:
        c = ev.get("c")
        if c is None:
            continue
        if c["op"] == "beginFn":
            stack.append(c)
        elif c["op"] == "endFn" and stack:
            b = stack.pop()
            out[reg] = [n for n, _ in b["params"]]
        reg += len(c["params"]) if c["op"] == "beginFn" else 1
    return out


def bound_args(c, names):
    """argument registers of a call in *parameter* order: positional ones, then each remaining parameter's keyword"""
    args = list(c.get("args", []))
    kw = dict((n, r) for n, r in c.get("kw", []))
    if names is None:
        return args + [r for _, r in c.get("kw", [])]
    for n in names[len(args):]:
        if n not in kw:
            return None
        args.append(kw[n])
    return args


def call_src(c):
    parts = [f"r{x}" for x in c.get("args", [])] + [f"{n}=r{r}" for n, r in c.get("kw", [])]
    return f'r{c["f"]}({", ".join(parts)})'
