"""Shared plumbing of the checks: regenerate → build → audit → run → evidence / verdict."""
import fcntl
import hashlib
import json
import os
import re
import subprocess
import sys
import time

VERIF = os.path.dirname(os.path.dirname(os.path.dirname(os.path.abspath(__file__))))
LEAN = os.path.join(VERIF, "lean")
GEN = os.path.join(LEAN, "NadaVerif", "Generated")
EVID = os.path.join(VERIF, "evidence")
REPLAYS = os.path.join(VERIF, "replays")
REPO = os.environ.get("NADA_REPO", "/repo")
ALLOWED_AXIOMS = {"propext", "Classical.choice", "Quot.sound"}
ESCAPES = re.compile(r"\b(sorry|admit|native_decide|bv_decide|implemented_by|unsafe)\b|^\s*axiom\s|maxHeartbeats\s+0\b")

TRUSTED_BASE = [
    "Lean 4.33.0 kernel; axioms allowed: propext, Classical.choice, Quot.sound (audited with #print axioms on every run)",
    "translators / correspondence harness under /verif/harness/nv (Python)",
    "hand-written Lean models are models of the Python code, tied by regenerated tables and differential runs",
]


class Infra(Exception):
    """Machinery failure (exit 2), never a violation."""


def seed():
    try:
        return int(os.environ.get("VERIF_SEED", "0"))
    except ValueError:
        return 0


class Lock:
    def __enter__(self):
        os.makedirs(os.path.join(LEAN, ".lake"), exist_ok=True)
        self.f = open(os.path.join(LEAN, ".lake", "verif.lock"), "w")
        fcntl.flock(self.f, fcntl.LOCK_EX)
        return self

    def __exit__(self, *a):
        fcntl.flock(self.f, fcntl.LOCK_UN)
        self.f.close()


def write_if_changed(path, text):
    try:
        with open(path, encoding="utf-8") as f:
            if f.read() == text:
                return False
    except OSError:
        pass
    os.makedirs(os.path.dirname(path), exist_ok=True)
    tmp = path + ".tmp"
    with open(tmp, "w", encoding="utf-8") as f:
        f.write(text)
    os.replace(tmp, path)
    return True


def run(cmd, cwd=None, timeout=1800, env=None, input=None):
    p = subprocess.run(cmd, cwd=cwd, capture_output=True, text=True, timeout=timeout, env=env, input=input)
    return p.returncode, p.stdout, p.stderr


def lake_build(targets, timeout=3000):
    """Build the given lake targets. Returns (ok, log)."""
    rc, out, err = run(["lake", "build"] + list(targets), cwd=LEAN, timeout=timeout)
    return rc == 0, out + err


_THM = re.compile(r"^\s*(?:private\s+)?(?:theorem|lemma|def|example|instance|abbrev)\s+([A-Za-z_][\w.']*)?")


def failing_decls(log):
    """Map `error: File.lean:LINE:COL` messages of a build log to the enclosing declarations."""
    res = []
    for m in re.finditer(r"error: (\S+\.lean):(\d+):(\d+): (.*)", log):
        path, line, msg = m.group(1), int(m.group(2)), m.group(4)
        full = path if os.path.isabs(path) else os.path.join(LEAN, path)
        name = "?"
        try:
            with open(full, encoding="utf-8") as f:
                src = f.read().split("\n")
            for i in range(min(line, len(src)) - 1, -1, -1):
                mm = _THM.match(src[i])
                if mm:
                    name = mm.group(1) or "example"
                    break
        except OSError:
            pass
        res.append({"file": path, "line": line, "decl": name, "msg": msg[:300]})
    return res


def grep_escapes(paths=None):
    """Return the list of forbidden escapes (sorry/axiom/native_decide/…) outside comments."""
    hits = []
    root = os.path.join(LEAN, "NadaVerif")
    for d, _, fs in os.walk(root):
        for fn in fs:
            if not fn.endswith(".lean"):
                continue
            p = os.path.join(d, fn)
            with open(p, encoding="utf-8") as f:
                text = f.read()
            # strip block comments and line comments
            text2 = re.sub(r"/-.*?-/", lambda m: "\n" * m.group(0).count("\n"), text, flags=re.S)
            for i, line in enumerate(text2.split("\n"), 1):
                line = line.split("--")[0]
                if ESCAPES.search(line):
                    hits.append(f"{os.path.relpath(p, LEAN)}:{i}: {line.strip()[:120]}")
                if re.search(r"^\s*partial\s+def", line) and os.sep + "Driver" + os.sep not in p:
                    hits.append(f"{os.path.relpath(p, LEAN)}:{i}: partial def")
    return hits


def axiom_audit(module, names):
    """#print axioms for every name. Returns {name: [axioms]} for names that exist, and the list of
    names that are missing or depend on a non-allowed axiom."""
    src = f"import {module}\n" + "\n".join(f"#print axioms {n}" for n in names) + "\n"
    h = hashlib.md5((module + ",".join(names)).encode()).hexdigest()[:10]
    aux = os.path.join(LEAN, ".lake", f"audit_{h}.lean")
    with open(aux, "w", encoding="utf-8") as f:
        f.write(src)
    rc, out, err = run(["lake", "env", "lean", aux], cwd=LEAN, timeout=900)
    text = out + err
    found = {}
    for m in re.finditer(r"'([^']+)' depends on axioms: \[([^\]]*)\]", text, flags=re.S):
        found[m.group(1)] = [a.strip() for a in m.group(2).replace("\n", " ").split(",") if a.strip()]
    for m in re.finditer(r"'([^']+)' does not depend on any axioms", text):
        found[m.group(1)] = []
    bad = []
    for n in names:
        key = n if n in found else next((k for k in found if k.endswith("." + n) or n.endswith("." + k)), None)
        if key is None:
            bad.append((n, "missing"))
        elif not set(found[key]) <= ALLOWED_AXIOMS:
            bad.append((n, "axioms:" + ",".join(found[key])))
    try:
        os.remove(aux)
    except OSError:
        pass
    return found, bad


_DRIVER = os.path.join(LEAN, ".lake", "build", "bin", "nvdriver")


def driver(lines, timeout=900):
    """Send JSON lines to the compiled Lean model, return the parsed answers."""
    if not os.path.exists(_DRIVER):
        raise Infra("nvdriver not built")
    data = "\n".join(json.dumps(x) for x in lines) + "\n"
    p = subprocess.run([_DRIVER], input=data, capture_output=True, text=True, timeout=timeout)
    if p.returncode != 0:
        raise Infra(f"nvdriver exited {p.returncode}: {p.stderr[:500]}")
    outs = [l for l in p.stdout.split("\n") if l.strip()]
    if len(outs) != len(lines):
        raise Infra(f"nvdriver answered {len(outs)} lines for {len(lines)} requests: {p.stderr[:300]}")
    return [json.loads(l) for l in outs]


def load_findings():
    p = os.path.join(VERIF, "known_findings.json")
    try:
        with open(p, encoding="utf-8") as f:
            return json.load(f)
    except OSError:
        return {"findings": [], "fixed": []}


def write_replay(prop, obj):
    os.makedirs(REPLAYS, exist_ok=True)
    blob = json.dumps(obj, sort_keys=True, default=str)
    h = hashlib.md5(blob.encode()).hexdigest()[:10]
    path = os.path.join(REPLAYS, f"{prop}-{h}.json")
    with open(path, "w", encoding="utf-8") as f:
        json.dump(obj, f, indent=1, sort_keys=True, default=str)
    return os.path.relpath(path, VERIF)


class Result:
    """Accumulates what one check run found."""

    def __init__(self, prop, tier):
        self.prop = prop
        self.tier = tier
        self.t0 = time.time()
        self.violations = []      # (replay_path, no_input: bool, text)
        self.known = []           # text
        self.obligations = []     # names
        self.discharged = []      # names
        self.axioms = {}
        self.coverage = {}
        self.assumptions = []
        self.broken = []          # broken obligations / correspondences (dicts)
        self.notes = []

    def violation(self, replay_obj, text, no_input=False):
        path = write_replay(self.prop, replay_obj)
        self.violations.append((path, no_input, text))

    def finish(self):
        cov = dict(self.coverage)
        cov.setdefault("obligations", len(self.obligations))
        cov.setdefault("discharged", len(self.discharged))
        cov.setdefault("checker_cmd", f"cd lean && lake build NadaVerif.Props.{self.prop} nvdriver && lake env lean <#print axioms audit>")
        cov.setdefault("trusted_base", TRUSTED_BASE)
        cov["theorems"] = {n: self.axioms.get(n, None) for n in self.obligations}
        cov["broken_obligations"] = self.broken
        cov["known_findings_reproduced"] = self.known
        cov.setdefault("samples", [])
        if not cov["samples"]:
            cov["samples"] = [{"obligation": n} for n in self.obligations[:3]] or ["none"]
        ev = {
            "property_id": self.prop,
            "tier": self.tier,
            "seed": seed(),
            "level": "proof",
            "coverage": cov,
            "assumptions": self.assumptions,
            "wall_s": round(time.time() - self.t0, 2),
            "violations": len(self.violations),
            "notes": self.notes,
        }
        os.makedirs(EVID, exist_ok=True)
        with open(os.path.join(EVID, f"{self.prop}.json"), "w", encoding="utf-8") as f:
            json.dump(ev, f, indent=1, default=str)
        for k in self.known:
            print(f"KNOWN-FINDING: property={self.prop} {k}")
        for path, no_input, text in self.violations:
            print(f"# {text}")
            print(f"VIOLATION property={self.prop} replay={path}" + (" no-failing-input-found" if no_input else ""))
        sys.stdout.flush()
        return 1 if self.violations else 0
