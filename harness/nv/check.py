"""Entry point of every registered check: ./check Cnn [--tier quick|thorough] [--replay FILE]."""
import argparse
import importlib
import json
import os
import sys
import traceback

from . import core
from .extract import regen


def main():
    ap = argparse.ArgumentParser()
    ap.add_argument("prop")
    ap.add_argument("--tier", default=os.environ.get("VERIF_TIER", "quick"), choices=["quick", "thorough"])
    ap.add_argument("--replay")
    args = ap.parse_args()
    prop = args.prop.upper()
    try:
        mod = importlib.import_module(f"nv.props.{prop.lower()}")
    except ImportError as exc:
        print(f"no check for {prop}: {exc}", file=sys.stderr)
        return 2
    if args.replay:
        path = args.replay
        if not os.path.isabs(path):
            for base in (os.environ.get("NV_ORIG_PWD", "."), core.VERIF):
                if os.path.exists(os.path.join(base, path)):
                    path = os.path.join(base, path)
                    break
        with open(path, encoding="utf-8") as f:
            obj = json.load(f)
        return mod.replay(obj)
    res = core.Result(prop, args.tier)
    try:
        with core.Lock():
            changed = regen.regenerate(mod.TRANSLATORS)
            res.notes.append({"regenerated": changed})
            for key, msg in regen.FAILED:
                res.broken.append({"decl": f"translator {key} (model regenerated from the source)", "msg": msg})
            ok, log = core.lake_build(["nvdriver"])
            if not ok:
                raise core.Infra("nvdriver does not build:\n" + log[-3000:])
            built, log = core.lake_build([mod.MODULE])
            if args.tier == "thorough" and built:
                rc, out, err = core.run(["lake", "env", "leanchecker", mod.MODULE], cwd=core.LEAN, timeout=3000)
                res.notes.append({"leanchecker": rc, "tail": (out + err)[-300:]})
                if rc != 0:
                    raise core.Infra("leanchecker rejected " + mod.MODULE + ": " + (out + err)[-1000:])
            esc = core.grep_escapes()
            if esc:
                raise core.Infra("forbidden escapes in Lean sources: " + "; ".join(esc[:5]))
            res.obligations = list(mod.THEOREMS)
            if built:
                found, bad = core.axiom_audit(mod.MODULE, mod.THEOREMS)
                res.axioms = found
                res.discharged = [n for n in mod.THEOREMS if n not in [b[0] for b in bad]]
                for n, why in bad:
                    if why.startswith("axioms:"):
                        raise core.Infra(f"theorem {n} depends on non-allowed {why}")
                    res.broken.append({"decl": n, "msg": "theorem missing after build"})
            else:
                res.broken = core.failing_decls(log) or [{"decl": "?", "msg": log[-1500:]}]
                res.discharged = []
        try:
            mod.run(res, args.tier)
        except core.Infra:
            if not (res.broken or res.violations):
                raise
            res.notes.append({"run_aborted": "infrastructure error after a broken obligation"})
        except Exception as exc:  # pylint: disable=broad-except
            # the harness itself tripped over the code under check; with an obligation already broken that is part of the same
            # finding, otherwise it is a fault of the machinery
            if not (res.broken or res.violations):
                raise core.Infra(f"check aborted: {type(exc).__name__}: {exc}") from exc
            res.notes.append({"run_aborted": f"{type(exc).__name__}: {exc}"[:300]})
        # a broken obligation with no concrete failing input found by the search
        if res.broken and not res.violations:
            res.violation(
                {"property": prop, "kind": "broken-obligation", "broken": res.broken,
                 "note": "a theorem or correspondence no longer checks and the search found no failing input"},
                "proof obligation / correspondence broken: " + ", ".join(sorted({b.get('decl', '?') for b in res.broken})),
                no_input=True)
        return res.finish()
    except core.Infra as exc:
        print(f"INFRA: {exc}", file=sys.stderr)
        return 2
    except Exception:  # pylint: disable=broad-except
        traceback.print_exc()
        return 2


if __name__ == "__main__":
    sys.exit(main())
