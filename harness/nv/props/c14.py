"""C14 — strict checker is sound: inferred static types equal the types at run time."""
import ast
import contextlib
import copy
import importlib
import io
import json
from .. import core
from ..gen import pysrc, rng as R

MODULE = "NadaVerif.Props.C14"
TRANSLATORS = None
THEOREMS = [f"NadaVerif.C14.{n}" for n in ("checker_tables_sound", "checker_tables_progress", "checker_table_covers")]


def conforms(value, t):
    """the run-time value is of exactly the inferred type"""
    import nada_dsl.audit.abstract as A
    if t in (int, str, bool, range):
        return type(value) is t
    if t is type(None):
        return value is None
    if getattr(t, "__name__", None) == "list":
        if not isinstance(value, list):
            return False
        args = getattr(t, "__args__", None)
        return True if not args else all(conforms(v, args[0]) for v in value)
    if isinstance(t, type):
        return type(value) is t
    return True


class Recorder(ast.NodeTransformer):
    """wrap every expression the checker typed (and every assigned value) in __rec__(key, expr)"""

    def __init__(self, typed):
        self.typed = typed

    def generic_visit(self, node):
        node = super().generic_visit(node)
        for field in ("body", "orelse", "finalbody"):
            stmts = getattr(node, field, None)
            if isinstance(stmts, list) and stmts and all(isinstance(x, ast.stmt) for x in stmts):
                out = []
                for st in stmts:
                    if getattr(st, "_nv_flagged", False):
                        out.append(ast.copy_location(ast.Expr(ast.Call(func=ast.Name(id="__flag__", ctx=ast.Load()), args=[], keywords=[])), st))
                    out.append(st)
                setattr(node, field, out)
        key = getattr(node, "_nv_key", None)
        if key is not None and key in self.typed and isinstance(node, ast.expr) and isinstance(getattr(node, "ctx", ast.Load()), ast.Load):
            call = ast.Call(func=ast.Name(id="__rec__", ctx=ast.Load()), args=[ast.Constant(key), node], keywords=[])
            return ast.copy_location(call, node)
        return node


def analyse(src):
    """(report of the checker, per-node inferred types keyed by position, has_error, has_restriction, tree)"""
    S = importlib.import_module("nada_dsl.audit.strict")
    from nada_dsl.audit.report import parse
    from nada_dsl.audit.common import SyntaxRestriction, RuleInAncestor, TypeInParent
    atok, skips = parse(src)
    tree = atok.tree
    S.rules(tree)
    S.types(tree)
    typed, errors, restricted = {}, 0, 0
    for i, n in enumerate(ast.walk(tree)):
        n._nv_key = i
        a = getattr(n, "_audits", {})
        r, t = a.get("rules"), a.get("types")
        if isinstance(r, (SyntaxRestriction, RuleInAncestor)) and not isinstance(n, (ast.expr_context, ast.operator, ast.cmpop,
                                                                                   ast.unaryop, ast.boolop)):
            restricted += 1
        if isinstance(t, TypeError):
            errors += 1
        elif t is not None and not isinstance(t, TypeInParent) and isinstance(n, ast.expr):
            typed[i] = t
        elif t is not None and isinstance(n, (ast.Assign, ast.AnnAssign)) and not isinstance(t, TypeInParent):
            if n.value is not None:
                typed[("assign", i)] = t
                n.value._nv_assign = i
    # statements in whose text the checker reported a type error (their own, or one of an expression inside them; a compound
    # statement counts from its header on): once one of them has started to run, the later bindings are not covered
    for n in ast.walk(tree):
        if isinstance(n, ast.stmt) and not isinstance(n, (ast.FunctionDef, ast.AsyncFunctionDef, ast.ClassDef)):
            n._nv_flagged = any(isinstance(getattr(m, "_audits", {}).get("types"), TypeError) for m in ast.walk(n))
    return tree, typed, errors, restricted, bool(skips)


def abstract_run(tree, typed):
    """execute the program under nada_dsl.audit with every typed expression recorded"""
    import nada_dsl.audit.abstract as A
    t2 = copy.deepcopy(tree)
    # keys survive deepcopy as attributes
    assign_of = {}
    for n in ast.walk(t2):
        if hasattr(n, "_nv_assign"):
            assign_of[n._nv_key] = n._nv_assign
    t2 = Recorder({k for k in typed if not isinstance(k, tuple)} | set(assign_of)).visit(t2)
    for n in ast.walk(t2):
        if isinstance(n, ast.ImportFrom) and n.module == "nada_dsl":
            n.module = "nada_dsl.audit"
    ast.fix_missing_locations(t2)
    seen = {}
    flagged = [False]

    def flag():
        flagged[0] = True

    def rec(key, value):
        if flagged[0]:
            return value      # a statement the checker reported has started to run: what is bound from here on is not covered
        # judged at the moment of evaluation (lists are mutated later by append)
        ts = []
        if key in typed:
            ts.append(typed[key])
        if key in assign_of and ("assign", assign_of[key]) in typed:
            ts.append(typed[("assign", assign_of[key])])
        seen.setdefault(key, []).append([(t, type(value).__name__, conforms(value, t)) for t in ts])
        return value

    A.Abstract.initialize({})
    env = {"__rec__": rec, "__flag__": flag}
    err = None
    try:
        with contextlib.redirect_stdout(io.StringIO()):
            exec(compile(t2, "<audited>", "exec"), env)      # the harness runs the program, the auditor must not
            if "nada_main" in env:
                env["nada_main"]()
    except Exception as exc:  # pylint: disable=broad-except
        err = f"{type(exc).__name__}: {exc}"
    return seen, err, assign_of


class _Watchdog(BaseException):
    """raised by the alarm around the harness's own execution of a program (BaseException: the program cannot catch it)"""


def _alarm(signum, frame):
    raise _Watchdog()


def judge(src):
    tree, typed, errors, restricted, skipped = analyse(src)
    if restricted or skipped:
        # outside the strict subset (prohibited syntax, unparseable lines): the property does not speak about such
        # programs, and the harness must not run them (`while True:` at module level would never return)
        return [], False, 0
    import signal
    old = signal.signal(signal.SIGALRM, _alarm)
    signal.alarm(10)
    try:
        seen, err, assign_of = abstract_run(tree, typed)
    except _Watchdog:
        return [], False, 0
    finally:
        signal.alarm(0)
        signal.signal(signal.SIGALRM, old)
    v = []
    from nada_dsl.audit.report import type_to_str
    # preservation is judged for everything that is bound before a statement with a reported type error has started to run:
    # once an ill-typed statement has run (e.g. an append of the wrong element type, which the checker reports), later
    # values are not covered by the checker's promise
    for key, obs in seen.items():
        for judged in obs:
            bad = [(t, name) for t, name, ok in judged if not ok]
            if bad:
                t, name = bad[0]
                v.append(("preservation", f"checker inferred {type_to_str(t)}, abstract execution bound a value of type {name}"))
                break
    clean = errors == 0 and restricted == 0 and not skipped
    if clean and err is not None:
        v.append(("progress", f"no type error and no restriction reported, but abstract execution raised {err}"))
    return v, clean, len(seen)


EXTRA = [
    "from nada_dsl import *\ndef nada_main():\n    p = Party(name='P')\n    a = SecretInteger(Input(name='a', party=p))\n    b = PublicInteger(Input(name='b', party=p))\n"
    "    c = Integer(1) < Integer(2)\n    r = c.if_else(b, a)\n    s = c.if_else(Integer(0), b)\n    t = (b < b).if_else(b, b)\n    u = (a < b).if_else(b, b)\n"
    "    return [Output(s, 'o', p), Output(r, 'q', p)]\n",
    "from nada_dsl import *\ndef nada_main():\n    p = Party(name='P')\n    a = SecretInteger(Input(name='a', party=p))\n    k = Integer(5)\n    m = +a\n    n = -k\n"
    "    l = [a * k for i in range(3)]\n    t = sum(l)\n    return [Output(t + m, 'o', p)]\n",
    # a helper defined twice (the later definition, annotated or not, is the one that is called)
    "from nada_dsl import *\ndef f(x: Integer) -> Integer:\n    return x\ndef f(x: Integer):\n    return [x]\n"
    "def nada_main():\n    p = Party(name='P')\n    y = f(Integer(1))\n    z = [y]\n    return []\n",
    "from nada_dsl import *\ndef g(x: Integer) -> Integer:\n    return x\ndef g(x: Integer) -> list[Integer]:\n    return [x]\n"
    "def nada_main():\n    p = Party(name='P')\n    y = g(Integer(1))\n    z = [y]\n    return []\n",
    # helpers and variables named like the built-in functions and constructors the subset knows
    "from nada_dsl import *\ndef str(x: int) -> int:\n    return x\ndef nada_main():\n    p = Party(name='P')\n    y = str(1)\n    z = [y]\n    return []\n",
    "from nada_dsl import *\ndef sum(xs: list[SecretInteger]) -> list[SecretInteger]:\n    return xs\n"
    "def nada_main():\n    p = Party(name='P')\n    a = SecretInteger(Input(name='a', party=p))\n    y = sum([a, a])\n    z = [y]\n    return [Output(a, 'o', p)]\n",
    "from nada_dsl import *\ndef Integer(v: int) -> int:\n    return v\ndef nada_main():\n    p = Party(name='P')\n    y = Integer(1)\n    z = y + 1\n    return []\n",
    "from nada_dsl import *\ndef range(n: int) -> int:\n    return n\ndef nada_main():\n    p = Party(name='P')\n    y = range(3)\n    z = [y]\n    return []\n",
    # module-level variables rebound, with another type, after the functions that read them were defined
    "from nada_dsl import *\nk = 1\ndef nada_main():\n    p = Party(name='P')\n    y = k\n    z = [y]\n    return []\nk = 'a'\n",
    "from nada_dsl import *\nk = Integer(1)\ndef h(x: Integer) -> Integer:\n    t = x + k\n    return t\nk = 2\n"
    "def nada_main():\n    p = Party(name='P')\n    y = h(Integer(3))\n    z = [y]\n    return []\n",
    "from nada_dsl import *\nbase: int = 5\ndef nada_main():\n    p = Party(name='P')\n    y = base + 1\n    return []\nbase: str = 'five'\n",
    "from nada_dsl import *\nn = 'a'\ndef nada_main():\n    p = Party(name='P')\n    y = n\n    z = [y]\n    return []\nfor n in range(2):\n    m = n\n",
    # two programs audited one after the other: the second calls a helper and reads a module-level variable that only the first defines
    "from nada_dsl import *\nSCALE = Integer(3)\ndef weighted(x: SecretInteger) -> SecretInteger:\n    return x * SCALE\n"
    "def nada_main():\n    p = Party(name='P')\n    a = SecretInteger(Input(name='a', party=p))\n    y = weighted(a)\n    return [Output(y, 'o', p)]\n",
    "from nada_dsl import *\ndef nada_main():\n    p = Party(name='P')\n    a = SecretInteger(Input(name='a', party=p))\n    y = weighted(a)\n    z = [y]\n    return [Output(y, 'o', p)]\n",
    "from nada_dsl import *\ndef nada_main():\n    p = Party(name='P')\n    a = SecretInteger(Input(name='a', party=p))\n    y = a * SCALE\n    z = [y]\n    return [Output(y, 'o', p)]\n",
    # a definition that rebinds a module-level name other functions were typed with; the library imported again after a helper took a name
    "from nada_dsl import *\nK = 1\ndef g() -> int:\n    return K\ndef K() -> int:\n    return 2\ndef nada_main():\n    p = Party(name='P')\n    y = g()\n    z = [y]\n    return []\n",
    "from nada_dsl import *\ndef f(a: Integer) -> Integer:\n    return a\ndef g(a: Integer) -> Integer:\n    return f(a)\ndef f(a: Integer) -> str:\n    return 's'\n"
    "def nada_main():\n    p = Party(name='P')\n    y = g(Integer(1))\n    z = [y]\n    return []\n",
    "from nada_dsl import *\ndef Party(x: int) -> int:\n    return x\nfrom nada_dsl import *\ndef nada_main():\n    q = Party(1)\n    z = [q]\n    return []\n",
    # module-level statements that call a helper defined further down, or a built-in whose name a later helper takes
    "from nada_dsl import *\nBONUS = triple(Integer(2))\ndef triple(x: Integer) -> Integer:\n    return x + x + x\ndef nada_main():\n    p = Party(name='P')\n    y = BONUS\n    return []\n",
    "from nada_dsl import *\np = Party(name='P')\nvotes = [SecretInteger(Input(name='v', party=p))]\ntotal = sum(votes)\ndef sum(l: list[SecretInteger]) -> Integer:\n    return Integer(0)\n"
    "def nada_main():\n    y = total\n    z = [y]\n    return [Output(y, 'o', p)]\n",
    # a module-level variable read in a function that assigns the same name further down (the name is local to all of the body)
    "from nada_dsl import *\nk = 1\ndef nada_main():\n    y = k\n    k = 2\n    z = [y]\n    return []\n",
    "from nada_dsl import *\nk = Integer(1)\ndef h(x: Integer) -> Integer:\n    y = k + x\n    for k in range(2):\n        z = k\n    return y\n"
    "def nada_main():\n    w = h(Integer(1))\n    return []\n",
    "from nada_dsl import *\nk = 1\ndef nada_main():\n    k = 2\n    y = k\n    z = [y]\n    return []\n",
    # a local variable named like a built-in function / a library constructor, assigned after the call of that name
    "from nada_dsl import *\ndef nada_main():\n    p = Party(name='P')\n    a = SecretInteger(Input(name='a', party=p))\n    n = str(1)\n    str = 'abc'\n    return [Output(a, 'o', p)]\n",
    "from nada_dsl import *\ndef nada_main():\n    p = Party(name='P')\n    a = SecretInteger(Input(name='a', party=p))\n    k = Integer(1)\n    for Integer in range(2):\n        z = Integer\n    return [Output(a, 'o', p)]\n",
    "from nada_dsl import *\ndef nada_main():\n    p = Party(name='P')\n    a = SecretInteger(Input(name='a', party=p))\n    t = sum([a, a])\n    sum = 1\n    r = range(2)\n    return [Output(t, 'o', p)]\n",
    "from nada_dsl import *\ndef nada_main():\n    p = Party(name='P')\n    a = SecretInteger(Input(name='a', party=p))\n    str = 'abc'\n    n = str\n    z = [n]\n    return [Output(a, 'o', p)]\n",
    # the library imported again after a helper took a constructor's name: helpers defined in between call the library's
    "from nada_dsl import *\ndef Integer(x: int) -> int:\n    return x\ndef g(x: int) -> int:\n    return Integer(x)\nfrom nada_dsl import *\n"
    "def nada_main():\n    p = Party(name='P')\n    y = g(1)\n    z = [y]\n    return []\n",
    # a module-level variable read in a function that assigns the name only inside a loop body / a nested loop body
    "from nada_dsl import *\nbest = 1\ndef nada_main():\n    y = best\n    for i in range(2):\n        best = i\n    z = [y]\n    return []\n",
    "from nada_dsl import *\nbest = Integer(1)\ndef h(x: Integer) -> Integer:\n    y = best + x\n    for i in range(2):\n        for j in range(2):\n            best: int = j\n    return y\n"
    "def nada_main():\n    w = h(Integer(1))\n    return []\n",
    # a comprehension variable named like an enclosing variable of another type
    "from nada_dsl import *\ndef nada_main():\n    p = Party(name='P')\n    v = SecretInteger(Input(name='v', party=p))\n    steps = [v for v in range(3)]\n    w = steps[2]\n"
    "    return [Output(v, 'o', p)]\n",
    "from nada_dsl import *\ndef nada_main():\n    p = Party(name='P')\n    v = SecretInteger(Input(name='v', party=p))\n    k = 'text'\n"
    "    u = [[v for v in range(2)] for k in range(2)]\n    t = u[0][1]\n    s = [k for k in range(2)]\n    return [Output(v, 'o', p)]\n",
    "from nada_dsl import *\nv = 'text'\ndef nada_main():\n    p = Party(name='P')\n    xs = [v for v in range(2)]\n    y = xs[0]\n    z = v\n    return []\n",
    # the target of an inner loop is a variable that the enclosing loop's body reads
    "from nada_dsl import *\ndef nada_main():\n    p = Party(name='P')\n    j = Integer(1)\n    for i in range(2):\n        y = j\n        for j in range(1):\n            z = j\n    return []\n",
    "from nada_dsl import *\ndef nada_main():\n    p = Party(name='P')\n    a = SecretInteger(Input(name='a', party=p))\n    t = a\n    for i in range(2):\n        for k2 in range(2):\n"
    "            u = t\n            for t in range(1):\n                v = t\n    return [Output(a, 'o', p)]\n",
]


def argument_forms():
    """Every way of writing the arguments of the three library constructors: k positional arguments (none … one too many)
    followed by any subset of the parameter names (and an unknown one) as keywords — including a parameter given both by
    position and by name, which Python rejects when the call runs."""
    import itertools
    values = {"Party": {"name": "'N'"}, "Input": {"name": "'i'", "party": "p"}, "Output": {"value": "a", "name": "'o'", "party": "p"}}
    out = []
    for ctor, params in values.items():
        names = list(params)
        for k in range(len(names) + 2):
            pos = [params[nm] for nm in names[:k]] + (["p"] if k > len(names) else [])
            for r in range(len(names) + 2):
                for kws in itertools.combinations(names + ["bogus"], r):
                    args = ", ".join(pos + [f"{kw}={params.get(kw, 'p')}" for kw in kws])
                    use = {"Party": "    z = [x]\n", "Input": "    z = SecretInteger(x)\n", "Output": "    z = [x]\n"}[ctor]
                    out.append("from nada_dsl import *\ndef nada_main():\n    p = Party(name='P')\n    a = SecretInteger(Input(name='a', party=p))\n"
                               f"    x = {ctor}({args})\n{use}    return [Output(a, 'out', p)]\n")
    return out


def literal_conditions(rng, src):
    """add conditionals on literal comparisons (the abstract interpreter knows their value)"""
    if "return [" not in src or rng.random() < 0.5:
        return src
    lines = src.split("\n")
    i = next(k for k, l in enumerate(lines) if l.lstrip().startswith("return ["))
    pad = lines[i][: len(lines[i]) - len(lines[i].lstrip())]
    a, b = rng.choice(["x0", "k"]), "x0"
    ins = [f"{pad}lc = Integer({rng.randint(0, 3)}) {rng.choice(['<', '>=', '=='])} Integer({rng.randint(0, 3)})",
           f"{pad}lv = lc.if_else({rng.choice(['x0', 'Integer(7)'])}, {rng.choice(['x0', 'Integer(8)'])})"]
    return "\n".join(lines[:i] + ins + lines[i:])


def zero_trip(src):
    """F-C14-4: a loop / comprehension over range(0) or a sum over a list that may be empty"""
    import re
    return bool(re.search(r"range\(0\)|sum\(\[\]\)", src)) or ("= []" in src and "sum(" in src)


import re as _re


def run(res, tier):
    findings = [f for f in core.load_findings().get("findings", []) if "C14" in f["properties"]]
    for f in findings:
        v, _, _ = judge(f["witness_source"])
        if any(k in f["signature"]["kinds"] for k, _ in v):
            res.known.append(f"{f['id']}: {f['what']}")
    masked = 0
    ans = core.driver([{"k": "c15cells"}])[0]
    for cell in ans["checkerSound"]:
        res.violation({"property": "C14", "kind": "cell", "cell": cell},
                      f"{cell['op']}({', '.join(cell['args'])}): checker infers {cell['checker']}, abstract execution gives {cell['abstract']}")
    rng = R.make("C14")
    n = 250 if tier == "quick" else 8000
    evals, nontrivial, nclean, nrec = 0, set(), 0, 0
    samples = []
    sources = [("extra", s) for s in EXTRA] + [("argument-forms", s) for s in argument_forms()]
    # every near-miss statement of the list at least once (the list is walked cyclically; some programs use a helper instead)
    for _ in range(int(len(pysrc.NEAR_MISS) * 4.5)):
        mode, src = pysrc.generate(rng, mode="nearmiss")
        sources.append((mode, src))
    n += len(sources)
    while len(sources) < n:
        mode, src = pysrc.generate(rng, mode=rng.choice(["clean", "clean", "clean", "typed", "nearmiss"]))
        sources.append((mode, literal_conditions(rng, src)))
        # the same program without one of its module-level helper definitions, audited right after it: what an earlier
        # audit learnt about a name must not make a later program look well typed
        m_ = _re.search(r"^def (h\d+|helper|total|twice)\(.*?\n(?:    .*\n)+", src, flags=_re.M)
        if m_ and rng.random() < 0.5:
            sources.append(("helper-removed", src[:m_.start()] + src[m_.end():]))
        if m_ and rng.random() < 0.5:
            # ... and without any of them (a name a later program defines again is a new definition, not a second one)
            sources.append(("helpers-removed", _re.sub(r"^def (?!nada_main)\w+\(.*?\n(?:    .*\n)+", "", src, flags=_re.M)))
    for mode, src in sources:
        try:
            v, clean, recorded = judge(src)
        except RecursionError:
            continue
        except Exception as exc:  # pylint: disable=broad-except
            res.broken.append({"decl": "C14 instrumented run", "msg": f"{type(exc).__name__}: {exc}", "source": src[:300]})
            continue
        evals += 1
        nclean += clean
        nrec += recorded
        if recorded >= 5:
            nontrivial.add(src)
        for kind, text in v[:2]:
            # F-C14-4 shows as the Python int 0 where an integer of the DSL was inferred, or as the error that int then causes
            f4 = kind == "progress" or ("bound a value of type int" in text and "Integer" in text)
            if zero_trip(src) and f4 and any(kind in f["signature"]["kinds"] for f in findings):
                masked += 1
                continue
            res.violation({"property": "C14", "kind": kind, "text": text, "source": src}, f"{kind}: {text}"[:300])
        if len(res.violations) > 12:
            break
        if len(samples) < 2 and clean:
            samples.append({"source": src[:500], "expressions_recorded": recorded})
    res.coverage.update({
        "evaluations": evals, "distinct_nontrivial": len(nontrivial),
        "rule": "strict-subset programs from typed fragments (plus type errors in a quarter of them and conditionals on literal "
                "comparisons): the checker's per-node types are compared with the classes of the values bound when the same program is "
                "executed under nada_dsl.audit with every typed expression and assigned value recorded (AST rewrite in the harness); "
                "programs with no reported error/restriction must run to completion; non-trivial = distinct sources with >= 5 recorded values",
        "masked_by_known_findings": masked, "programs_without_errors_or_restrictions": nclean, "values_recorded": nrec, "samples": samples,
    })
    res.assumptions += ["abstract execution is performed by the harness with Python's exec of a rewritten AST (the program is executed "
                        "by the oracle, never by the auditor)", "known finding F-C14-4 (zero-trip loops / out-of-range list indices) is not generated"]


def replay(obj):
    if obj.get("kind") == "cell":
        ans = core.driver([{"k": "c15cells"}])[0]
        bad = any(c["op"] == obj["cell"]["op"] and c["args"] == obj["cell"]["args"] for c in ans["checkerSound"])
    else:
        v, clean, _ = judge(obj["source"])
        print(v)
        bad = bool(v)
    if bad:
        print("VIOLATION property=C14 replay=(replayed)")
    return 1 if bad else 0
