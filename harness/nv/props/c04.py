"""C04 — the operation graph is a faithful image of the expression the program wrote."""
from ..oracle import term as T
from . import graphcommon as gc

MODULE = "NadaVerif.Props.C04"
TRANSLATORS = None
THEOREMS = [f"NadaVerif.C04.{n}" for n in (
    "schema_roundtrip", "bin_operand_order", "ifElse_operand_order", "rejected_bin_changes_nothing",
    "random_is_fresh_node", "records_persist", "records_persistB", "bin_node_survives")]


def oracle(mir, rec):
    return T.check_outputs(mir, rec["facts"]["nodes"], rec["compile"])


def literal_param_used(events):
    """a literal-typed function parameter is used as an operand inside its function"""
    reg, lit_params = 0, set()
    for ev in events:
        c = ev.get("c")
        if c is None:
            continue
        if c["op"] == "beginFn":
            for i, (_, a) in enumerate(c["params"]):
                if a in ("Integer", "UnsignedInteger", "Boolean"):
                    lit_params.add(reg + i)
        elif any(r in lit_params for r in gc.operand_regs(c)):
            return True
        reg += len(c["params"]) if c["op"] == "beginFn" else 1
    return False


def classify(kind, rec, mir):
    if gc.rewraps(rec["events"], rec.get("real")):
        return "NoRewrap"
    if literal_param_used(rec["events"]):
        return "NoLiteralParamFold"
    return None


def run(res, tier):
    gc.run_graph(res, tier, "C04", oracle, None, classify)


def replay(obj):
    return gc.replay_graph(obj, "C04", oracle)
