"""Shared runner of the graph properties (C01, C03, C04, C05, C09, C10, C11, C12): K1/K2
differential run + property oracle on every real MIR + known-finding classification."""
import copy
import json
from .. import core
from ..corr import k10, k12, mir as cm
from ..real import interp
from ..real.env import reset_globals


# ---- hypothesis predicates on a program (events) -------------------------------------------------
def scopes(events):
    """scope id of every register (0 = program level), following the bracket structure"""
    scope, cur, nxt = [], [0], 1
    for ev in events:
        c = ev.get("c")
        if c is None:
            continue
        if c["op"] == "beginFn":
            cur.append(nxt)
            nxt += 1
            scope += [cur[-1]] * len(c["params"])
        elif c["op"] == "endFn":
            if len(cur) > 1:
                cur.pop()
            scope.append(cur[-1])
        else:
            scope.append(cur[-1])
    return scope


from ..ir import operand_regs  # noqa: E402


def uses_foreign_param(events):
    """a command uses a register bound inside another (enclosing or finished) function body"""
    scope = scopes(events)
    cur, nxt = [0], 1
    for ev in events:
        c = ev.get("c")
        if c is None:
            for v, _, p in ev["compile"]:
                if v < len(scope) and scope[v] != 0:
                    return True
            continue
        if c["op"] == "beginFn":
            cur.append(nxt)
            nxt += 1
            continue
        for r in operand_regs(c):
            if r < len(scope) and scope[r] not in (0, cur[-1]):
                return True
        if c["op"] == "endFn" and len(cur) > 1:
            cur.pop()
    return False


def rewraps(events, results=None):
    """an Input object is wrapped more than once (a scalar wrapper kept next to `Array(x, size)`, or
    two scalar wrappers of one Input) and a wrapper other than the last one is used somewhere.  With the step results
    given, a wrap / arrayOf command that the DSL rejected does not count (it re-typed nothing)."""
    reg = 0
    src = {}          # wrapper register -> input register it wraps
    wrapped = {}      # input register -> wrapper registers, in order
    used = set()
    for i, ev in enumerate(events):
        c = ev.get("c")
        if c is None:
            used.update(v for v, _, _ in ev["compile"])
            continue
        failed = results is not None and i < len(results) and results[i].get("s") is not None
        if failed and c["op"] in ("wrap", "arrayOf"):
            reg += 1
            continue
        if c["op"] == "wrap":
            src[reg] = c["r"]
            wrapped.setdefault(c["r"], []).append(reg)
        elif c["op"] == "arrayOf" and c["r"] in src:
            src[reg] = src[c["r"]]
            wrapped[src[reg]].append(reg)
        else:
            used.update(operand_regs(c))
        reg += len(c["params"]) if c["op"] == "beginFn" else 1
    return any(len(ws) > 1 and any(w in used for w in ws[:-1]) for ws in wrapped.values())


def binding_inconsistent(rec):
    """hypothesis BindingConsistent, evaluated on the *program*: some call / map / reduce site binds a parameter
    (by position, or by name for keyword arguments) to a value whose class differs from the parameter's annotation,
    or passes the wrong number of arguments to map / reduce (known finding F-C03-1p)"""
    from ..ir import bound_args
    events, desc = rec["events"], rec["facts"]["desc"]
    d = lambda r: desc[r] if r < len(desc) else ("dead",)  # noqa: E731

    def shape_of(dv):
        if dv[0] == "scalar":
            return dv[1]
        if dv[0] == "array":
            return ["Array", dv[3]] if len(dv) > 3 else ["Array", dv[2]]
        return dv[0]

    def fits_shape(ann, sh):
        if ann == "Array":
            return isinstance(sh, list)
        if isinstance(ann, str):
            return sh == ann
        return isinstance(sh, list) and fits_shape(ann[1], sh[1])

    def fits(ann, dv):
        return fits_shape(ann, shape_of(dv))

    def elem_shape(da):
        return da[3] if len(da) > 3 else da[2]

    reg, stack, defs = 0, [], {}
    for ev, res in zip(events, rec["real"]):
        c = ev.get("c")
        if c is None:
            continue
        op = c["op"]
        if op == "beginFn":
            stack.append(c)
        elif op == "endFn" and stack:
            b = stack.pop()
            defs[reg] = (b["params"], c["retAnn"])
        elif res.get("s") is None and op in ("call", "map", "reduce") and c["f"] in defs:
            params, ret = defs[c["f"]]
            if op == "call":
                bound = bound_args(c, [n for n, _ in params])
                if bound is None or len(bound) != len(params) or not all(fits(a, d(r)) for (_, a), r in zip(params, bound)):
                    return True
            elif op == "map":
                da = d(c["a"])
                if len(params) != 1 or da[0] != "array" or not fits_shape(params[0][1], elem_shape(da)):
                    return True
            else:
                da, di = d(c["a"]), d(c["init"])
                if len(params) != 2 or da[0] != "array" or not fits_shape(params[1][1], elem_shape(da)) \
                        or not fits(params[0][1], di) or params[0][1] != ret:
                    return True
        reg += len(c["params"]) if op == "beginFn" else 1
    return False


def unsized_array(events):
    return any(ev.get("c", {}).get("op") == "arrayOf" and ev["c"].get("size") is None for ev in events)


# ---- runner ---------------------------------------------------------------------------------------
def n_programs(tier):
    return (150, 25) if tier == "quick" else (3000, 60)


def load_corpus(prop):
    import os
    d = os.path.join(core.VERIF, "corpus")
    out = []
    if os.path.isdir(d):
        for fn in sorted(os.listdir(d)):
            if fn.endswith(".json"):
                with open(os.path.join(d, fn), encoding="utf-8") as f:
                    obj = json.load(f)
                if prop in obj.get("props", [prop]):
                    out.append(obj["events"])
    return out


def run_graph(res, tier, prop, oracle, project=None, classify=None, spec_key=None, extra_corpus=()):
    """oracle(mir, record) -> [(kind, text)]; project(mir) -> projection compared between model and
    real; classify(kind, record, mir) -> name of a hypothesis the program violates (or None)."""
    n, size = n_programs(tier)
    findings = [f for f in core.load_findings().get("findings", []) if prop in f["properties"] and "witness" in f]
    # 1. witnesses of the listed findings are replayed on the real code
    for f in findings:
        reset_globals()
        m = interp.run_events(copy.deepcopy(f["witness"]))
        hit = False
        for r in m.results:
            if "mir" in r:
                for kind, text in oracle(cm.canon_mir(r["mir"]), {"events": m.events, "real": m.results, "facts": k12.reg_facts(m),
                                                                  "compile": next(e["compile"] for e, rr in zip(m.events, m.results) if rr is r)}):
                    if kind in f["signature"]["kinds"]:
                        hit = True
        if hit:
            res.known.append(f"{f['id']}: {f['what']}")
    recs = k12.run_programs(f"{prop}", n, max_cmds=size, corpus=list(load_corpus(prop)) + list(extra_corpus))
    dist, nmir, nontrivial, diffs, masked = {}, 0, set(), [], {}
    clean_stats = {"clean": 0, "not_clean": 0}
    samples = []
    for rec in recs:
        if rec["skipped"]:
            continue
        for k, v in rec["dist"].items():
            dist[k] = dist.get(k, 0) + v
        # correspondence: step outcomes + the property's projection of every MIR
        for d in rec["diffs"]:
            if "cmd" in d or "mir_diff" not in d:
                diffs.append((rec, d))
        for ev, rr, mr in zip(rec["events"], rec["real"], rec["model"]):
            if "mir" not in rr:
                continue
            nmir += 1
            real = cm.canon_mir(rr["mir"])
            if "mir" in mr:
                a, b = (project(real), project(mr["mir"])) if project else (real, mr["mir"])
                d = cm.first_diff(a, b)
                if d:
                    diffs.append((rec, {"compile": ev["compile"], "mir_diff": d}))
            sig = json.dumps(real["operations"], sort_keys=True)
            if len(real["operations"]) >= 3:
                nontrivial.add(hash(sig))
            viol = oracle(real, dict(rec, compile=ev["compile"]))
            if spec_key and "spec" in mr and "mir" in mr and cm.first_diff(real, mr["mir"]) is None:
                lean_ok = all(mr["spec"][k] for k in spec_key)
                py_ok = not [k for k, _ in viol if k in spec_kinds(spec_key)] if spec_kinds(spec_key) else not viol
                if lean_ok != py_ok:
                    raise core.Infra(f"Lean spec {spec_key}={mr['spec']} and Python oracle disagree on {rec['id']}: {viol[:3]}")
            if prop in ("C05", "C03") and "spec" in mr and "mir" in mr and "clean" in mr["spec"] and cm.first_diff(real, mr["mir"]) is None:
                # tie of the whole-program theorem (C05.trace_edges_consistent): its hypothesis and its conclusion are
                # evaluated by the driver on this very program; the Python oracle must agree on the real MIR
                sp = mr["spec"]
                clean_stats["clean" if sp["clean"] else "not_clean"] += 1
                if sp["clean"] and not sp["edges"]:
                    raise core.Infra(f"driver contradicts the theorem trace_edges_consistent on {rec['id']}")
                if sp["clean"] and sp.get("reduceInit") and not sp.get("taint", True):
                    raise core.Infra(f"driver contradicts the theorem typed_covers_taint on {rec['id']}")
                if sp["clean"] and sp.get("reduceInit") and prop == "C03" and not binding_inconsistent(rec):
                    # hypotheses of C03.typed_covers_taint hold (and call sites bind what the parameters declare): the
                    # taint analysis of the Python oracle on the real MIR must agree with the theorem's conclusion
                    clean_stats["taint_theorem_applies"] = clean_stats.get("taint_theorem_applies", 0) + 1
                    dv_ = [t for k, t in viol if k == "declass"]
                    if dv_ and len(res.broken) < 5:
                        res.broken.append({"decl": "Taint.storeTaintOK (Lean, proved for every clean run) vs the taint oracle on the real MIR",
                                           "msg": dv_[0][:400], "program": rec["id"], "events": rec["events"]})
                if sp["clean"] and prop == "C05":
                    ev_ = [t for k, t in viol if k == "edge"]
                    if ev_ and len(res.broken) < 5:
                        res.broken.append({"decl": "Edge.edgeOK (Lean, proved for every clean run) vs the edge oracle on the real MIR",
                                           "msg": ev_[0][:400], "program": rec["id"], "events": rec["events"]})
            for kind, text in viol:
                hyp = classify(kind, rec, real) if classify else None
                fid = next((f["id"] for f in findings if kind in f["signature"]["kinds"]
                            and f["signature"].get("hypothesis") == hyp), None) if hyp else None
                if fid:
                    masked[fid] = masked.get(fid, 0) + 1
                    continue
                res.violation({"property": prop, "kind": kind, "text": text, "program": rec["id"],
                               "events": rec["events"], "hypothesis_violated": hyp,
                               "replay": f"./check {prop} --replay <this file>"}, f"{kind}: {text}"[:400])
            if len(samples) < 3 and len(real["operations"]) >= 4:
                samples.append({"program": rec["id"], "events": rec["events"][:12], "n_events": len(rec["events"])})
        if len(res.violations) > 20:
            break
    k10stats = run_k10(res, prop, recs, oracle, project, classify, findings, masked)
    for rec, d in diffs[:5]:
        res.broken.append({"decl": "K1/K2 correspondence (layer-B model vs real implementation)",
                           "msg": json.dumps(d, default=str)[:500], "program": rec["id"], "events": rec["events"]})
    res.coverage.update({
        "evaluations": len(recs),
        "programs": len(recs),
        "mirs_checked": nmir,
        "distinct_nontrivial": len(nontrivial),
        "rule": "seeded random layer-B programs generated online against the real implementation (80 % fitting operands, "
                "20 % malformed), several compile points per program; non-trivial = distinct real MIRs with >= 3 operations",
        "command_distribution": dist,
        "commands_dropped_unsupported_by_model": sum(r["dropped"] for r in recs),
        "programs_skipped": sum(1 for r in recs if r["skipped"]),
        "correspondence_disagreements": len(diffs),
        "traces_validated_against_impl": sum(1 for r in recs if not r["skipped"]) + k10stats.get("mirs_compared", 0),
        "disagreements_checked": len(diffs) + k10stats.get("disagreements", 0),
        "masked_by_known_findings": masked,
        "whole_program_theorem_hypothesis_on_generated_programs": clean_stats,
        "entry_point_composition_K10": k10stats,
        "samples": samples or [{"program": r["id"], "events": r.get("events", [])[:8]} for r in recs[:2]],
    })
    res.assumptions += [
        "layers B/Compile are hand-written models of the Python code; their fidelity rests on the K1/K2 differential run "
        "(every step outcome and every MIR compared on this run's programs)",
        "generated programs: sizes <= %d commands, function nesting <= 2" % size,
    ]
    return recs


def run_k10(res, prop, recs, oracle, project, classify, findings, masked):
    """K10: every program is also compiled through the real entry points (compile_script / compile_string, several
    programs per process sharing traced values); the MIRs must equal the direct ones and satisfy the property."""
    stats = {"programs": 0, "mirs_compared": 0, "not_renderable": 0, "disagreements": 0, "via": {"script": 0, "string": 0}}
    for idx, rec in enumerate(recs):
        if rec["skipped"] or len(res.violations) > 20:
            continue
        via = "string" if idx % 3 == 0 else "script"
        try:
            r = k10.run_scripts(rec["events"], rec["real"], f"{prop.lower()}x{idx}", via=via)
        except Exception as exc:  # pylint: disable=broad-except
            raise core.Infra(f"K10 harness failed on program {rec['id']}: {type(exc).__name__}: {exc}")
        if r is None:
            stats["not_renderable"] += 1
            continue
        outs, files = r
        stats["programs"] += 1
        stats["via"][via] += 1
        direct = [(ev, rr) for ev, rr in zip(rec["events"], rec["real"]) if "compile" in ev]
        for (ev, rr), ep in zip(direct, outs):
            stats["mirs_compared"] += 1
            if "mir" in rr and "mir" in ep:
                a, b = cm.canon_mir(rr["mir"]), ep["mir"]
                d = cm.first_diff(project(a), project(b)) if project else cm.first_diff(a, b)
            elif "mir" in rr or "mir" in ep:
                d = f"direct: {rr.get('err', 'compiled')}, through {via}: {ep.get('msg', ep.get('err', 'compiled'))}"
            else:
                d = None if rr.get("err") in (ep.get("err"), "dead") else f"direct error {rr.get('err')}, through {via}: {ep.get('msg')}"
            if d is None:
                continue
            stats["disagreements"] += 1
            if len(res.broken) < 5:
                res.broken.append({"decl": f"K10 entry-point composition (compile_{via} vs trace + nada_dsl_to_nada_mir)", "msg": str(d)[:500],
                                   "program": rec["id"], "files": [[fn, text[:1500]] for fn, text in files][:6]})
            if "mir" not in ep:
                # a program the direct path compiles is rejected (or vice versa) through the entry point
                if "mir" in rr:
                    res.violation({"property": prop, "kind": "entry-point-rejects", "text": str(d), "program": rec["id"], "events": rec["events"],
                                   "k10": via, "files": files, "replay": f"./check {prop} --replay <this file>"},
                                  f"entry-point-rejects: a program that compiles when traced directly fails through compile_{via}: {d}"[:400])
                continue
            for kind, text in oracle(ep["mir"], dict(rec, compile=ev["compile"])):
                hyp = classify(kind, rec, ep["mir"]) if classify else None
                fid = next((f["id"] for f in findings if kind in f["signature"]["kinds"]
                            and f["signature"].get("hypothesis") == hyp), None) if hyp else None
                if fid:
                    masked[fid] = masked.get(fid, 0) + 1
                    continue
                res.violation({"property": prop, "kind": kind, "text": text, "program": rec["id"], "events": rec["events"], "k10": via,
                               "files": files, "hypothesis_violated": hyp, "replay": f"./check {prop} --replay <this file>"},
                              f"{kind} (compiled through compile_{via}, {len(outs)} programs in one process): {text}"[:400])
    return stats


_SPEC_KINDS = {
    ("closed", "acyclic", "scoped"): None,
}


def spec_kinds(spec_key):
    return _SPEC_KINDS.get(tuple(spec_key))


def replay_graph(obj, prop, oracle):
    reset_globals()
    m = interp.run_events(copy.deepcopy(obj["events"]))
    bad = []
    if obj.get("k10"):
        facts = k12.reg_facts(m)
        outs, _ = k10.run_scripts(m.events, m.results, "replay", via=obj["k10"])
        direct = [(e, rr) for e, rr in zip(m.events, m.results) if "compile" in e]
        for (e, rr), ep in zip(direct, outs):
            if "mir" in ep:
                bad += [v for v in oracle(ep["mir"], {"events": m.events, "real": m.results, "facts": facts, "compile": e["compile"]})
                        if v[0] == obj.get("kind", v[0])]
            elif "mir" in rr and obj.get("kind") == "entry-point-rejects":
                bad.append(("entry-point-rejects", ep.get("msg")))
        print(json.dumps({"events": len(m.events), "via": obj["k10"], "violations": bad[:5]}, default=str)[:2000])
        if bad:
            print(f"VIOLATION property={prop} replay=(replayed)")
        return 1 if bad else 0
    for r in m.results:
        if "mir" in r:
            bad += [v for v in oracle(cm.canon_mir(r["mir"]), {"events": m.events, "real": m.results, "facts": k12.reg_facts(m),
                                                               "compile": next(e["compile"] for e, rr in zip(m.events, m.results) if rr is r)})
                    if v[0] == obj.get("kind", v[0])]
    print(json.dumps({"events": len(m.events), "violations": bad[:5]}, default=str)[:2000])
    if bad:
        print(f"VIOLATION property={prop} replay=(replayed)")
    return 1 if bad else 0
