"""C08 — a compilation is independent of earlier traces and failures in the process (K3)."""
import copy
import json
import os
import shutil
import subprocess
import sys
import tempfile
from concurrent.futures import ThreadPoolExecutor
from .. import core
from ..corr import k10, k12, mir as cm
from ..gen import programs, render, rng as R
from ..real import interp
from ..real.env import reset_globals
from ..oracle.graph import body
from . import graphcommon as gc

MODULE = "NadaVerif.Props.C08"
TRANSLATORS = None
THEOREMS = ["NadaVerif.C08.helpers_current_after_history", "NadaVerif.C08.helpers_reused_when_unchanged"] + [f"NadaVerif.C08.{n}" for n in (
    "compile_mono", "lookup_append", "fuel_append", "earlier_history_irrelevant", "later_traces_irrelevant",
    "only_reachable_emitted", "related_after", "trace_shift_equivariant", "after_any_history", "shifted_lookup",
    "compile_after_history", "compile_after_history_fails", "after_history_fails_alike", "outputs_follow_registers")] + [
    "NadaVerif.C08.later_program_nothing_missing", "NadaVerif.C08.after_history_same_answer", "NadaVerif.Lemmas.compile_ne_unsupported"]

REG_KEYS = ("a", "b", "c", "r", "o", "f", "init", "party", "ret")


def shift_cmd(c, n):
    c = copy.deepcopy(c)
    for k in REG_KEYS:
        if k in c and isinstance(c[k], int):
            c[k] += n
    if "t" in c and isinstance(c["t"], int):
        c["t"] += n
    for k in ("xs", "args"):
        if k in c:
            c[k] = [r + n for r in c[k]]
    if c["op"] == "objectNew":
        c["fs"] = [[name, r + n] for name, r in c["fs"]]
    if "kw" in c:
        c["kw"] = [[name, r + n] for name, r in c["kw"]]
    if isinstance(c.get("plain"), dict):
        c["plain"] = dict(c["plain"], cap=c["plain"]["cap"] + n)
    return c


def shift_events(evs, n):
    out = []
    for ev in evs:
        if "c" in ev:
            out.append({"c": shift_cmd(ev["c"], n)})
        else:
            out.append({"compile": [[v + n, name, p + n] for v, name, p in ev["compile"]]})
    return out


def normalize(mir):
    """canonical form up to an order-preserving id renaming and a literal renaming by first use"""
    m = copy.deepcopy(mir)
    ids = set()
    for tbl in [m["operations"]] + [f["operations"] for f in m["functions"]]:
        ids.update(k for k, _ in tbl)
    ids.update(f["id"] for f in m["functions"])
    for tbl in [m["operations"]] + [f["operations"] for f in m["functions"]]:
        for _, op in tbl:
            n, b = body(op)
            for key in ("function_id", "fn"):
                if key in b:
                    ids.add(b[key])
    rank = {k: i for i, k in enumerate(sorted(ids))}
    lit = {}

    def ren_op(op):
        n, b = body(op)
        if not n:
            return op
        nb = {}
        for key, val in b.items():
            if key in ("id", "left", "right", "this", "arg_0", "arg_1", "inner", "initial", "source", "target", "fn",
                       "function_id"):
                nb[key] = rank.get(val, ("?", val))
            elif key in ("elements", "args"):
                nb[key] = [rank.get(x, ("?", x)) for x in val]
            elif key == "refers_to" and n == "LiteralReference":
                nb[key] = lit.setdefault(val, f"L{len(lit)}")
            else:
                nb[key] = val
        return {n: nb}

    m["operations"] = [[rank[k], ren_op(op)] for k, op in m["operations"]]
    for f in m["functions"]:
        f["operations"] = [[rank[k], ren_op(op)] for k, op in f["operations"]]
        f["id"] = rank[f["id"]]
        f["return_operation_id"] = rank.get(f["return_operation_id"], ("?", f["return_operation_id"]))
    for o in m["outputs"]:
        o["operation_id"] = rank.get(o["operation_id"], ("?", o["operation_id"]))
    m["literals"] = sorted([[lit.get(l["name"], ("unreferenced", l["name"])), l["value"], l["type"]] for l in m["literals"]],
                           key=repr)
    return m


def one_history(tag, idx, max_cmds, n_prefix):
    """history: n_prefix programs A1..An (kept in the process, some fail), then program B."""
    rng = R.make(f"{tag}:hist:{idx}")
    reset_globals()
    combined, results = [], []
    nregs = 0
    for j in range(n_prefix):
        g = programs.Gen(R.make(f"{tag}:A:{idx}:{j}"), max_cmds=rng.choice([6, 12, max_cmds]))
        kind = rng.random()
        if kind < 0.3:
            # a program whose compilation fails after functions were discovered: duplicate input names
            g.do({"op": "party", "name": "Z"})
            g.parties.append(0)
            g.scenario(rng.choice(["diamond", "captured", "sites"]))
            a = g.new_input("SecretInteger")
            g.do({"op": "inputObj", "name": "dupname", "doc": "", "party": 0})
            g.do({"op": "wrap", "t": "SecretInteger", "r": len(g.m.regs) - 1})
            x = len(g.m.regs) - 1
            g.do({"op": "inputObj", "name": "dupname", "doc": "", "party": 0})
            g.do({"op": "wrap", "t": "SecretInteger", "r": len(g.m.regs) - 1})
            y = len(g.m.regs) - 1
            g.do({"op": "bin", "bop": "add", "a": x, "b": y})
            bad = len(g.m.regs) - 1
            live = [r for r in range(len(g.m.regs)) if g.scope[r] == 0 and g.m.regs[r] is not interp.DEAD
                    and interp.describe(g.m.regs[r])[0] in ("scalar", "array") and r not in g.hidden]
            g.m.compile([[live[len(live) // 2], "first", 0], [bad, "second", 0]])
        else:
            g.program()
        combined += shift_events(g.m.events, nregs)
        results += g.m.results
        nregs += len(g.m.regs)
    gb = programs.Gen(R.make(f"{tag}:B:{idx}"), max_cmds=max_cmds)
    if rng.random() < 0.3:
        gb.do({"op": "party", "name": "P0"})
        gb.parties.append(0)
        gb.new_input()
        gb.scenario(rng.choice(programs.Gen.SCENARIOS))
        gb.compile_now()
    else:
        gb.program()
    b_events, b_results = gb.m.events, gb.m.results
    combined += shift_events(b_events, nregs)
    results += b_results
    # reference: B alone in a fresh state
    reset_globals()
    fresh = interp.run_events(copy.deepcopy(b_events))
    return combined, results, b_events, b_results, fresh.results


def resolved_refs(raw):
    """every element of a raw MIR with its source reference *resolved* (index -> entry), in MIR order; indices may be
    renamed by a history, what they designate may not"""
    refs = raw.get("source_refs", [])

    def ref(i):
        return tuple(sorted(refs[i].items())) if isinstance(i, int) and 0 <= i < len(refs) else ("DANGLING", i, len(refs))
    out = [("party", p["name"], ref(p.get("source_ref_index"))) for p in raw["parties"]]
    out += [("input", i["name"], ref(i.get("source_ref_index"))) for i in raw["inputs"]]
    out += [("output", o["name"], ref(o.get("source_ref_index"))) for o in raw["outputs"]]
    for pos, (k, op) in enumerate(raw["operations"].items()):
        for n, b in op.items():
            out.append(("op", pos, n, ref(b.get("source_ref_index"))))
    for f in raw["functions"]:
        out.append(("function", f["function"], ref(f.get("source_ref_index"))))
        out += [("arg", f["function"], a["name"], ref(a.get("source_ref_index"))) for a in f["args"]]
        for pos, (k, op) in enumerate(f["operations"].items()):
            for n, b in op.items():
                out.append(("fn-op", f["function"], pos, n, ref(b.get("source_ref_index"))))
    return out


def source_tables_differ(ra, rb):
    """the tables a MIR carries about its source — the references (as a set: indices may be renamed) and the embedded
    files — belong to that MIR: what an earlier compilation referred to is not part of them"""
    ka = sorted(tuple(sorted(r.items())) for r in ra.get("source_refs", []))
    kb = sorted(tuple(sorted(r.items())) for r in rb.get("source_refs", []))
    if ka != kb:
        extra = [dict(r) for r in ka if r not in kb][:1] or [dict(r) for r in kb if r not in ka][:1]
        return f"the source reference table has {len(ka)} entries after the history and {len(kb)} alone (e.g. {extra[0] if extra else 'a repeated entry'})"
    fa, fb = ra.get("source_files") or {}, rb.get("source_files") or {}
    if fa != fb:
        return f"the embedded source files are {sorted(fa)} after the history and {sorted(fb)} alone" if sorted(fa) != sorted(fb) \
            else "the text of an embedded source file differs"
    return None


def entry_point_histories(res, tier):
    """Histories through the real entry points, with sharing: a generated program with several compile points is
    rendered as a chain of modules (K10) — program j consists of the shared modules 0..j and its own file.  Each
    program is compiled (a) after all earlier programs of the chain were compiled in this process and (b) alone, from
    the import-time state; the two MIRs must agree up to id renaming and literal renaming.  The program text is the
    same in both runs; only the history differs (earlier compilations, values of shared modules already traced)."""
    n = 40 if tier == "quick" else 600
    stats = {"chains": 0, "programs_compared": 0, "not_renderable": 0}
    kinds = ["sharedlit", "failedcompile", "closureloop", "samelit", None, None, "diamond", "captured", "triangle", None]
    for idx in range(n):
        scen = kinds[idx % len(kinds)]
        m, _ = programs.generate("C08ep", idx, max_cmds=22, scenario=scen)
        events, results = m.events, m.results
        ncomp = sum(1 for e in events if "compile" in e)
        if ncomp < 2:
            continue
        via = "string" if idx % 4 == 0 else "script"
        timers = idx % 3 == 1 or scen == "failedcompile" and idx % 2 == 1   # a third of the chains (and half of those with a failing compilation) with the compile timers enabled
        r = k10.run_scripts(events, results, f"c08h{idx}", via=via, timers=timers, raw=True)
        if r is None:
            stats["not_renderable"] += 1
            continue
        hist, files = r
        stats["chains"] += 1
        for j in range(1, ncomp):
            alone, _ = k10.run_scripts(events, results, f"c08h{idx}", via=via, only={j}, timers=timers, raw=True)
            a, b = hist[j], alone[j]
            stats["programs_compared"] += 1
            text = None
            if ("mir" in a) != ("mir" in b):
                text = f"after the history: {a.get('msg', 'compiled')}; alone: {b.get('msg', 'compiled')}"
            elif "mir" in a:
                d = cm.first_diff(normalize(a["mir"]), normalize(b["mir"]))
                if d:
                    text = f"MIR after the history differs from the MIR of the same program compiled alone: {d}"
                else:
                    ra, rb = resolved_refs(a["raw"]), resolved_refs(b["raw"])
                    bad = next((x for x, y in zip(ra, rb) if x != y), None)
                    if bad is not None:
                        text = f"source reference of {bad[:-1]} after the history designates {bad[-1]}, compiled alone it designates " \
                               f"{next(y for x, y in zip(ra, rb) if x != y)[-1]}"
                    else:
                        text = source_tables_differ(a["raw"], b["raw"])
            elif a.get("err") != b.get("err"):
                text = f"after the history: {a.get('msg')}; alone: {b.get('msg')}"
            if text:
                res.violation({"property": "C08", "kind": "entry-point-history", "events": events, "program_index": j, "via": via, "timers": timers,
                               "files": files, "text": text},
                              f"chain {idx}, program {j} of {ncomp} through compile_{via}: {text}"[:400])
        if len(res.violations) > 10:
            break
    return stats


def fresh_process(via, paths, cwd):
    """the programs compiled in order in a new interpreter (no state of this process, whatever it is, is involved)"""
    env = dict(os.environ, PYTHONPATH=core.REPO + os.pathsep + os.path.join(core.VERIF, "harness"), PYTHONDONTWRITEBYTECODE="1")
    env.pop("NADA_TIMER", None)
    p = subprocess.run([sys.executable, "-m", "nv.real.fresh_hist", via] + paths, cwd=cwd, env=env, capture_output=True, text=True, timeout=300)
    try:
        return json.loads(p.stdout)
    except ValueError:
        return [{"err": "harness", "msg": (p.stderr or p.stdout)[-300:]}] * len(paths)


ABORTING = "from nada_dsl import *\n\n\n# an earlier program that stops in the middle of its trace\ndef nada_main():\n    p = Party(name='Early')\n" \
           "    a = SecretInteger(Input(name='early', party=p))\n\n\n    b = a * a\n    return [Output(b + SecretBoolean(Input(name='x', party=p)), 'o', p)]\n"


def fresh_process_histories(res, tier):
    """The reference run is a *new interpreter*: program B compiled alone there, against B compiled after earlier
    programs in another new interpreter.  The earlier programs live in other directories under the same file name
    (every project's `main.py`), have other line layouts, and one of them stops in the middle of its trace.  What the
    MIR of B says — tables up to id / literal renaming, and every source reference resolved to file, line, offset,
    length — must not depend on them."""
    n = 6 if tier == "quick" else 60
    tmp = tempfile.mkdtemp(prefix="nvc08f")
    stats = {"histories": 0, "programs_compared": 0}
    try:
        srcs = []
        idx = 0
        while len(srcs) < n + 2 and idx < 8 * n:
            m, _ = programs.generate("C08fp", idx, max_cmds=16)
            idx += 1
            src = render.render(m.events, m.results)
            if src is not None and src not in srcs:
                srcs.append(src)
        reset_globals()
        jobs = []
        for i in range(max(0, len(srcs) - 2)):
            earlier = [srcs[i + 1], ABORTING if i % 2 == 0 else srcs[i + 2]]
            later = ("\n" * (i % 3)) + srcs[i]           # the same text at other line numbers than the earlier files
            d = os.path.join(tmp, f"h{i}")
            paths = []
            for k, text in enumerate(earlier + [later]):
                os.makedirs(os.path.join(d, f"proj{k}"), exist_ok=True)
                path = os.path.join(d, f"proj{k}", "main.py")
                with open(path, "w", encoding="utf-8") as f:
                    f.write(text)
                paths.append(path)
            jobs.append((i, "string" if i % 3 == 2 else "script", paths, d, later, earlier))

        def one(job):
            i, via, paths, d, later, earlier = job
            return job, fresh_process(via, paths, d)[-1], fresh_process(via, paths[-1:], d)[-1]
        with ThreadPoolExecutor(max_workers=8) as ex:
            for job, a, b in ex.map(one, jobs):
                i, via, paths, d, later, earlier = job
                stats["histories"] += 1
                stats["programs_compared"] += 1
                text = None
                if "harness" in (a.get("err"), b.get("err")):
                    raise RuntimeError(f"fresh process failed: {a.get('msg')} {b.get('msg')}")
                if ("mir" in a) != ("mir" in b):
                    text = f"after the history: {a.get('msg', 'compiled')}; alone: {b.get('msg', 'compiled')}"
                elif "mir" in a:
                    dd = cm.first_diff(normalize(cm.canon_mir(a["mir"])), normalize(cm.canon_mir(b["mir"])))
                    if dd:
                        text = f"MIR after the history differs from the MIR of the same file compiled alone in a new interpreter: {dd}"
                    else:
                        ra, rb = resolved_refs(a["mir"]), resolved_refs(b["mir"])
                        bad = next(((x, y) for x, y in zip(ra, rb) if x != y), None)
                        if bad is not None:
                            text = f"source reference of {bad[0][:-1]} after the history designates {bad[0][-1]}, compiled alone it designates {bad[1][-1]}"
                        else:
                            text = source_tables_differ(a["mir"], b["mir"])
                elif a.get("err") != b.get("err"):
                    text = f"after the history: {a.get('msg')}; alone: {b.get('msg')}"
                if text:
                    res.violation({"property": "C08", "kind": "fresh-process-history", "via": via, "later": later, "earlier": earlier, "text": text},
                                  f"fresh-process history {i} through compile_{via}: {text}"[:400])
    finally:
        shutil.rmtree(tmp, ignore_errors=True)
    return stats


def unloadable_then_good(res):
    """Earlier "programs" that cannot even be loaded (a path without a Python file behind it, a directory, a file that does
    not exist, a file with a syntax error), with and without the compile timers: the program compiled afterwards in the same
    interpreter must compile as it does alone."""
    tmp = tempfile.mkdtemp(prefix="nvc08u")
    n = 0
    try:
        good = os.path.join(tmp, "good.py")
        with open(good, "w", encoding="utf-8") as f:
            f.write("from nada_dsl import *\n\ndef nada_main():\n    p = Party(name='P')\n    a = SecretInteger(Input(name='a', party=p))\n"
                    "    return [Output(a * a, 'o', p)]\n")
        noext = os.path.join(tmp, "noext")
        with open(noext, "w", encoding="utf-8") as f:
            f.write("this is not a program\n")
        broken = os.path.join(tmp, "broken.py")
        with open(broken, "w", encoding="utf-8") as f:
            f.write("from nada_dsl import *\ndef nada_main(:\n")
        os.makedirs(os.path.join(tmp, "adir.py"), exist_ok=True)
        bads = [noext, os.path.join(tmp, "missing.py"), os.path.join(tmp, "adir.py"), broken]
        for name, text in (("boom.py", "from nada_dsl import *\nraise RuntimeError('boom')\n"),
                           ("needs.py", "from nada_dsl import *\nimport nv_no_such_helper_module\n"),
                           ("exits.py", "from nada_dsl import *\nraise SystemExit(3)\n"),
                           ("interrupted.py", "from nada_dsl import *\nraise KeyboardInterrupt()\n")):
            with open(os.path.join(tmp, name), "w", encoding="utf-8") as f:
                f.write(text)
            bads.append(os.path.join(tmp, name))
        for timers in (False, True):
            for bad in bads:
                env = dict(os.environ, PYTHONPATH=core.REPO + os.pathsep + os.path.join(core.VERIF, "harness"), PYTHONDONTWRITEBYTECODE="1")
                env.pop("NADA_TIMER", None)
                if timers:
                    env["NV_TIMERS"] = "1"
                p = subprocess.run([sys.executable, "-m", "nv.real.fresh_hist", "script", bad, bad, good], cwd=tmp, env=env,
                                   capture_output=True, text=True, timeout=120)
                try:
                    outs = json.loads(p.stdout)
                except ValueError:
                    raise core.Infra(f"fresh_hist failed: {(p.stderr or p.stdout)[-300:]}")
                n += 1
                if "mir" not in outs[-1]:
                    res.violation({"property": "C08", "kind": "after-unloadable", "bad": os.path.basename(bad), "timers": timers, "result": outs},
                                  f"after two attempts to compile {os.path.basename(bad)!r} ({outs[0].get('err')}), timers {'on' if timers else 'off'}: "
                                  f"a correct program fails with {outs[-1].get('err')}: {outs[-1].get('msg')}; alone it compiles"[:400])
    finally:
        shutil.rmtree(tmp, ignore_errors=True)
    return n


HELPER_MAIN = "from nada_dsl import *\nimport {mod}\n\n\ndef nada_main():\n    p = Party(name='P')\n    a = SecretInteger(Input(name='a', party=p))\n" \
              "    b = SecretInteger(Input(name='b', party=p))\n    return [Output({mod}.combine(a, b), 'o', p)]\n"
OPTIONAL_MAIN = "from nada_dsl import *\ntry:\n    import {mod}\n    combine = {mod}.combine\nexcept ImportError:\n    def combine(x, y):\n        return x - y\n\n\n" \
                "def nada_main():\n    p = Party(name='P')\n    a = SecretInteger(Input(name='a', party=p))\n" \
                "    b = SecretInteger(Input(name='b', party=p))\n    return [Output(combine(a, b), 'o', p)]\n"


def same_named_helpers(res, tier):
    """Projects in different directories whose programs import a helper module of the same name (each project its own
    `fees.py`, with another body), a project that has no such helper and falls back when the import fails, and a helper
    package: the program compiled after the other projects must compile as it does alone in a new interpreter."""
    tmp = tempfile.mkdtemp(prefix="nvc08h")
    n = 0
    try:
        bodies = ["def combine(x, y):\n    return x + y\n", "def combine(x, y):\n    return x * y\n",
                  "from nada_dsl import *\nK = Integer(3)\n\n\ndef combine(x, y):\n    return x * K + y\n"]
        cases = []
        for mod, pkg in (("fees", False), ("shared_rules", True)):
            projs = []
            for k, body in enumerate(bodies):
                d = os.path.join(tmp, f"{mod}{k}")
                if pkg:
                    os.makedirs(os.path.join(d, mod), exist_ok=True)
                    with open(os.path.join(d, mod, "__init__.py"), "w", encoding="utf-8") as f:
                        f.write(body)
                else:
                    os.makedirs(d, exist_ok=True)
                    with open(os.path.join(d, mod + ".py"), "w", encoding="utf-8") as f:
                        f.write(body)
                with open(os.path.join(d, "main.py"), "w", encoding="utf-8") as f:
                    f.write(HELPER_MAIN.format(mod=mod))
                projs.append(os.path.join(d, "main.py"))
            d = os.path.join(tmp, f"{mod}none")
            os.makedirs(d, exist_ok=True)
            with open(os.path.join(d, "main.py"), "w", encoding="utf-8") as f:
                f.write(OPTIONAL_MAIN.format(mod=mod))
            lone = os.path.join(d, "main.py")
            # a project whose program imports its helper and then stops in the middle of its trace
            d = os.path.join(tmp, f"{mod}fails")
            if pkg:
                os.makedirs(os.path.join(d, mod), exist_ok=True)
                with open(os.path.join(d, mod, "__init__.py"), "w", encoding="utf-8") as f:
                    f.write(bodies[1])
            else:
                os.makedirs(d, exist_ok=True)
                with open(os.path.join(d, mod + ".py"), "w", encoding="utf-8") as f:
                    f.write(bodies[1])
            with open(os.path.join(d, "main.py"), "w", encoding="utf-8") as f:
                f.write(HELPER_MAIN.format(mod=mod).replace("    return [Output", "    c = a + SecretBoolean(Input(name='c', party=p))\n    return [Output"))
            failing = os.path.join(d, "main.py")
            cases += [[projs[0], projs[1]], [projs[1], projs[0]], [projs[0], projs[1], projs[2]], [projs[2], projs[0], projs[2]],
                      [projs[0], lone], [projs[1], projs[0], projs[1]], [failing, projs[0]], [failing, lone]]
        if tier == "quick":
            cases = cases[:3] + cases[4:5] + cases[6:9] + cases[12:13] + cases[14:15]

        def one(paths):
            return paths, fresh_process("script", paths, tmp)[-1], fresh_process("script", paths[-1:], tmp)[-1]
        with ThreadPoolExecutor(max_workers=8) as ex:
            for paths, a, b in ex.map(one, cases):
                n += 1
                text = None
                if "harness" in (a.get("err"), b.get("err")):
                    raise RuntimeError(f"fresh process failed: {a.get('msg')} {b.get('msg')}")
                if ("mir" in a) != ("mir" in b):
                    text = f"after the history: {a.get('msg', 'compiled')}; alone: {b.get('msg', 'compiled')}"
                elif "mir" in a:
                    dd = cm.first_diff(normalize(cm.canon_mir(a["mir"])), normalize(cm.canon_mir(b["mir"])))
                    if dd:
                        text = f"the MIR differs from the MIR of the same file compiled alone: {dd}"
                elif a.get("err") != b.get("err"):
                    text = f"after the history: {a.get('msg')}; alone: {b.get('msg')}"
                if text:
                    rel = [os.path.relpath(x, tmp) for x in paths]
                    srcs = {}
                    for x in paths:
                        for root, _, files in os.walk(os.path.dirname(x)):
                            for fn in files:
                                full = os.path.join(root, fn)
                                with open(full, encoding="utf-8") as f:
                                    srcs[os.path.relpath(full, tmp)] = f.read()
                    res.violation({"property": "C08", "kind": "same-named-helpers", "order": rel, "files": srcs, "text": text},
                                  f"projects {rel} compiled in this order in one process, each with its own helper module of the same name: "
                                  f"the last one: {text}"[:400])
    finally:
        shutil.rmtree(tmp, ignore_errors=True)
    return n


def nested_helper_edit(res):
    """A program whose helper imports another helper (`outer.py`: `from inner import FACTOR`); between two compilations in one
    process only the *inner* file is changed.  The second MIR must be the one a new interpreter produces from the files as
    they are then — also for the helper that was not edited but holds what it imported."""
    tmp = tempfile.mkdtemp(prefix="nvc08n")
    n = 0
    try:
        files = {
            "inner.py": "FACTOR = 3\n\n\ndef offset():\n    return 7\n",
            "outer.py": "from nada_dsl import *\nfrom inner import FACTOR\nimport inner\n\n\ndef scale(x):\n    return x * Integer(FACTOR) + Integer(inner.offset())\n",
            "prog.py": "from nada_dsl import *\nfrom outer import scale\n\n\ndef nada_main():\n    p = Party(name='P')\n    a = SecretInteger(Input(name='a', party=p))\n"
                       "    return [Output(scale(a), 'o', p)]\n",
            "inner_v2.txt": "FACTOR = 50000\n\n\ndef offset():\n    return 11\n",
        }
        for name, text in files.items():
            with open(os.path.join(tmp, name), "w", encoding="utf-8") as f:
                f.write(text)
        prog, inner = os.path.join(tmp, "prog.py"), os.path.join(tmp, "inner.py")
        hist = fresh_process("script", [prog, f"@write:{inner}={os.path.join(tmp, 'inner_v2.txt')}", prog], tmp)
        alone = fresh_process("script", [prog], tmp)       # the files are in their second state now
        n += 1
        a, b = hist[-1], alone[-1]
        if "harness" in (a.get("err"), b.get("err")):
            raise RuntimeError(f"fresh process failed: {a.get('msg')} {b.get('msg')}")
        text = None
        if ("mir" in a) != ("mir" in b):
            text = f"after the edit: {a.get('msg', 'compiled')}; in a new interpreter: {b.get('msg', 'compiled')}"
        elif "mir" in a:
            d = cm.first_diff(normalize(cm.canon_mir(a["mir"])), normalize(cm.canon_mir(b["mir"])))
            if d:
                text = f"MIR differs from the one a new interpreter produces from the same files: {d}"
        if text:
            res.violation({"property": "C08", "kind": "nested-helper-edit", "files": files, "text": text},
                          f"prog.py compiled, inner.py (imported by outer.py) edited, prog.py compiled again in the same process: {text}"[:400])
    finally:
        shutil.rmtree(tmp, ignore_errors=True)
    return n


def failed_then_corrected(res):
    """A program that stops in the middle of its trace (a NameError after three operations), is corrected on disk — lines added
    above and inside — and compiled again in the same process: the MIR, every resolved source reference and the embedded text
    must be those a new interpreter produces from the corrected file."""
    tmp = tempfile.mkdtemp(prefix="nvc08c")
    n = 0
    try:
        v1 = ("from nada_dsl import *\n\n\ndef nada_main():\n    p = Party(name='P')\n    a = SecretInteger(Input(name='a', party=p))\n"
              "    b = a * a\n    c = b + undefined_name\n    return [Output(c, 'o', p)]\n")
        v2 = ("from nada_dsl import *\n\n# corrected: the missing operand is an input now\n\n\ndef nada_main():\n    p = Party(name='P')\n"
              "    a = SecretInteger(Input(name='a', party=p))\n    extra = SecretInteger(Input(name='extra', party=p))\n\n    b = a * a\n"
              "    c = b + extra\n    return [Output(c, 'o', p)]\n")
        prog, fixed = os.path.join(tmp, "prog.py"), os.path.join(tmp, "prog_v2.txt")
        for path, text in ((prog, v1), (fixed, v2)):
            with open(path, "w", encoding="utf-8") as f:
                f.write(text)
        for via in ("script", "string"):
            with open(prog, "w", encoding="utf-8") as f:
                f.write(v1)
            hist = fresh_process(via, [prog, f"@write:{prog}={fixed}", prog], tmp)
            alone = fresh_process(via, [prog], tmp)
            n += 1
            a, b = hist[-1], alone[-1]
            if "harness" in (a.get("err"), b.get("err")):
                raise RuntimeError(f"fresh process failed: {a.get('msg')} {b.get('msg')}")
            text = None
            if ("mir" in a) != ("mir" in b):
                text = f"after the failed version: {a.get('msg', 'compiled')}; in a new interpreter: {b.get('msg', 'compiled')}"
            elif "mir" in a:
                d = cm.first_diff(normalize(cm.canon_mir(a["mir"])), normalize(cm.canon_mir(b["mir"])))
                if d:
                    text = f"MIR differs from the one a new interpreter produces from the corrected file: {d}"
                else:
                    ra, rb = resolved_refs(a["mir"]), resolved_refs(b["mir"])
                    bad = next(((x, y) for x, y in zip(ra, rb) if x != y), None)
                    if bad is not None:
                        text = f"source reference of {bad[0][:-1]} designates {bad[0][-1]}, in a new interpreter {bad[1][-1]}"
                    else:
                        text = source_tables_differ(a["mir"], b["mir"])
            if text:
                res.violation({"property": "C08", "kind": "failed-then-corrected", "via": via, "first": v1, "corrected": v2, "text": text},
                              f"prog.py failed in the middle of its trace, was corrected on disk and compiled again through compile_{via} in the same process: {text}"[:400])
    finally:
        shutil.rmtree(tmp, ignore_errors=True)
    return n


def helper_registry_correspondence(res, tier):
    """K13 — tie of `Runtime.compileFrom` (Lean: the registry of helper modules as a state machine, proved to hold only the
    program's own, current helpers after every history) to `compile._program_imports`: random histories over two project
    directories with the same helper names — compilations, and edits of helper files in between — run in a new interpreter;
    every helper file reports its own execution.  The model, given the same history (file versions as stamps), must predict
    exactly which helper files each compilation executes; and each program's MIR must carry the versions that are on disk."""
    rng = R.make("C08helpers")
    n = 6 if tier == "quick" else 60
    tmp = tempfile.mkdtemp(prefix="nvc08k")
    stats = {"histories": 0, "compilations": 0, "disagreements": 0}
    helpers = ["rates", "fees", "limits"]

    def helper_text(name, d, version):
        # (the size grows with the version, so that the file's stamp changes whatever the clock's resolution)
        return f"import builtins\nbuiltins.NV_EXEC.append({name!r})\nVERSION = {1000 * (helpers.index(name) + 1) + 100 * (d == 'b') + version}\n" + "# edited\n" * version

    def program_text(names):
        imports = "".join(f"import {nm}\n" for nm in names)
        terms = " + ".join(f"Integer({nm}.VERSION)" for nm in names)
        return f"from nada_dsl import *\n{imports}\n\ndef nada_main():\n    p = Party(name='P')\n    a = SecretInteger(Input(name='a', party=p))\n" \
               f"    return [Output(a * Integer(7){' + ' if names else ''}{' + '.join(f'a * Integer({nm}.VERSION)' for nm in names)}, 'o', p)]\n"
    try:
        reqs, reals = [], []
        for h in range(n):
            root = os.path.join(tmp, f"h{h}")
            version = {}
            script, steps = [], []
            for d in ("a", "b"):
                os.makedirs(os.path.join(root, d), exist_ok=True)
                for nm in helpers:
                    version[(d, nm)] = 0
                    script.append(["edit", os.path.join(root, d, nm + ".py"), helper_text(nm, d, 0)])
            for k in range(rng.randint(3, 7)):
                if k and rng.random() < 0.5:
                    d, nm = rng.choice(["a", "b"]), rng.choice(helpers)
                    version[(d, nm)] += 1
                    script.append(["edit", os.path.join(root, d, nm + ".py"), helper_text(nm, d, version[(d, nm)])])
                d = rng.choice(["a", "a", "b"])
                names = rng.sample(helpers, rng.randint(1, 3))
                prog = os.path.join(root, d, f"prog{k}.py")
                script.append(["edit", prog, program_text(names)])
                script.append(["compile", prog])
                steps.append({"disk": [[dd, nm, v] for (dd, nm), v in version.items()], "dir": d, "names": names,
                              "want": sorted(str(1000 * (helpers.index(nm) + 1) + 100 * (d == "b") + version[(d, nm)]) for nm in names)})
            spath = os.path.join(root, "script.json")
            with open(spath, "w", encoding="utf-8") as f:
                json.dump(script, f)
            env = dict(os.environ, PYTHONPATH=core.REPO + os.pathsep + os.path.join(core.VERIF, "harness"), PYTHONDONTWRITEBYTECODE="1")
            p = subprocess.run([sys.executable, "-m", "nv.real.helper_hist", spath], cwd=root, env=env, capture_output=True, text=True, timeout=300)
            try:
                real = json.loads(p.stdout)
            except ValueError:
                raise core.Infra(f"helper_hist failed: {(p.stderr or p.stdout)[-300:]}")
            reqs.append({"k": "helpers", "history": [{"disk": s_["disk"], "dir": s_["dir"], "names": s_["names"]} for s_ in steps]})
            reals.append((steps, real, script))
        for (steps, real, script), model in zip(reals, core.driver(reqs)):
            if "error" in model:
                raise core.Infra(f"helpers request rejected: {model}")
            stats["histories"] += 1
            stats["compilations"] += len(steps)
            # the property, on the real run: each program's MIR carries the versions that are on disk when it is compiled
            for k, (st, r) in enumerate(zip(steps, real)):
                got = [x for x in r.get("literals", []) if x != "7"]
                if "err" in r or sorted(got) != st["want"]:
                    res.violation({"property": "C08", "kind": "helper-history", "script": script, "position": k, "want": st["want"], "got": r},
                                  f"compilation {k + 1} of a history of compilations and helper edits (program of directory {st['dir']}/ importing {st['names']}): "
                                  f"the MIR carries the helper constants {got or r.get('err')}, the files on disk say {st['want']}"[:400])
                    break
            if [r["executed"] for r in real] != model["executed"]:
                stats["disagreements"] += 1
                if stats["disagreements"] <= 2:
                    k = next(i for i, (a, b) in enumerate(zip([r["executed"] for r in real], model["executed"])) if a != b)
                    res.broken.append({"decl": "Runtime.compileFrom (Lean helper registry) vs helper files executed under compile._program_imports",
                                       "msg": f"compilation {k + 1}: executed {real[k]['executed']}, the model predicts {model['executed'][k]}"})
    finally:
        shutil.rmtree(tmp, ignore_errors=True)
    return stats


def names_of(mir):
    out = set()
    out.update(("input", i["name"]) for i in mir["inputs"])
    out.update(("party", p["name"]) for p in mir["parties"])
    out.update(("function", f["function"]) for f in mir["functions"])
    return out


def run(res, tier):
    n = 60 if tier == "quick" else 800
    max_cmds = 18 if tier == "quick" else 40
    evals, nontrivial, diffs = 0, set(), []
    samples = []
    for idx in range(n):
        rng = R.make(f"C08:n:{idx}")
        n_prefix = rng.choice([1, 1, 2, 3]) if tier == "quick" else rng.choice([1, 2, 3, 6, 12])
        combined, results, b_events, b_results, fresh = one_history("C08", idx, max_cmds, n_prefix)
        evals += 1
        # K3: the model (no compiler state between compilations) on the whole history
        ans = core.driver([{"k": "prog", "events": combined}])[0]["results"]
        if not any(a.get("s") == "unsupported" or a.get("err") in ("unsupported", "badout") or "error" in a for a in ans):
            for d in k12.compare(combined, results, ans):
                diffs.append((idx, d, combined))
        # metamorphic oracle on the real code: B after the history vs B in a fresh process state
        for ev, after, alone in zip(b_events, b_results, fresh):
            if "compile" not in ev:
                if after.get("s") != alone.get("s"):
                    res.violation({"property": "C08", "kind": "step-differs", "history": combined, "program": b_events,
                                   "event": ev, "after_history": after, "fresh": alone},
                                  f"history {idx}: a command of the later program behaves differently after the history: {after} vs {alone}")
                continue
            if ("mir" in after) != ("mir" in alone):
                res.violation({"property": "C08", "kind": "outcome-differs", "history": combined, "program": b_events,
                               "after_history": after.get("err", "compiled"), "fresh": alone.get("err", "compiled")},
                              f"history {idx}: compiling after the history gives {after.get('err', 'a MIR')}, fresh gives {alone.get('err', 'a MIR')}")
                continue
            if "mir" not in after:
                continue
            a, b = normalize(cm.canon_mir(after["mir"])), normalize(cm.canon_mir(alone["mir"]))
            d = cm.first_diff(a, b)
            if d:
                leaked = sorted(names_of(cm.canon_mir(after["mir"])) - names_of(cm.canon_mir(alone["mir"])))
                res.violation({"property": "C08", "kind": "mir-differs", "history": combined, "program": b_events,
                               "diff": d, "leaked_names": leaked},
                              f"history {idx}: MIR of the later program depends on the history: {d}" +
                              (f"; leaked {leaked}" if leaked else ""))
            if len(after["mir"]["operations"]) >= 3:
                nontrivial.add(json.dumps(b, sort_keys=True, default=str))
        if len(samples) < 2:
            samples.append({"history_events": len(combined), "prefix_programs": n_prefix, "later_program": b_events[:10]})
        if len(res.violations) > 10:
            break
    ep = entry_point_histories(res, tier)
    reset_globals()
    fp = fresh_process_histories(res, tier)
    fp["after_unloadable_programs"] = unloadable_then_good(res)
    fp["same_named_helper_orders"] = same_named_helpers(res, tier)
    fp["nested_helper_edits"] = nested_helper_edit(res)
    fp["failed_then_corrected"] = failed_then_corrected(res)
    fp["helper_registry_K13"] = helper_registry_correspondence(res, tier)
    for idx, d, combined in diffs[:5]:
        res.broken.append({"decl": "K3 correspondence (history run: model vs real implementation)",
                           "msg": json.dumps(d, default=str)[:500], "history": combined})
    res.coverage.update({
        "evaluations": evals, "distinct_nontrivial": len(nontrivial),
        "rule": "histories of 1..3 (quick) / 1..12 (thorough) earlier programs traced and compiled in the same process without "
                "any reset — 30 % of them fail during compilation after functions were discovered, rejected commands and aborted "
                "nada_fn bodies occur throughout — followed by an independent program B; B's steps and MIR are compared with B "
                "run from a pristine state, up to order-preserving id renaming and literal renaming by first use; "
                "non-trivial = distinct normalised MIRs of B with >= 3 operations",
        "correspondence_disagreements": len(diffs),
        "entry_point_histories": ep,
        "fresh_process_histories": fp,
        "samples": samples,
    })
    res.assumptions += [
        "abort points exercised are the natural ones (rejected operations, exceptions inside nada_fn bodies, CompilerException in the "
        "middle of a compilation); faults injected between arbitrary bytecodes are not exercised",
        "programs are closed: the later program shares no Python object with the history",
    ]


class _Collect:
    def __init__(self):
        self.violations = []

    def violation(self, obj, text, **kw):
        self.violations.append(text)


def replay(obj):
    if obj.get("kind") == "helper-history":
        tmp = tempfile.mkdtemp(prefix="nvc08r")
        try:
            # the recorded script names files of the run that found it: replay it under a new root
            script = obj["script"]
            roots = os.path.commonpath([op[1] for op in script])
            moved = [[op[0], os.path.join(tmp, os.path.relpath(op[1], roots))] + op[2:] for op in script]
            for op in moved:
                os.makedirs(os.path.dirname(op[1]), exist_ok=True)
            spath = os.path.join(tmp, "script.json")
            with open(spath, "w", encoding="utf-8") as f:
                json.dump(moved, f)
            env = dict(os.environ, PYTHONPATH=core.REPO + os.pathsep + os.path.join(core.VERIF, "harness"), PYTHONDONTWRITEBYTECODE="1")
            p = subprocess.run([sys.executable, "-m", "nv.real.helper_hist", spath], cwd=tmp, env=env, capture_output=True, text=True, timeout=300)
            real = json.loads(p.stdout)
            r = real[obj["position"]]
            got = sorted(x for x in r.get("literals", []) if x != "7")
            print(got, obj["want"])
            bad = "err" in r or got != obj["want"]
            if bad:
                print("VIOLATION property=C08 replay=(replayed)")
            return 1 if bad else 0
        finally:
            shutil.rmtree(tmp, ignore_errors=True)
    if obj.get("kind") == "failed-then-corrected":
        r = _Collect()
        failed_then_corrected(r)
        print(r.violations or "ok")
        if r.violations:
            print("VIOLATION property=C08 replay=(replayed)")
        return 1 if r.violations else 0
    if obj.get("kind") == "nested-helper-edit":
        r = _Collect()
        nested_helper_edit(r)
        print(r.violations or "ok")
        if r.violations:
            print("VIOLATION property=C08 replay=(replayed)")
        return 1 if r.violations else 0
    if obj.get("kind") == "after-unloadable":
        c = _Collect()
        unloadable_then_good(c)
        print(c.violations[:3] or "ok")
        if c.violations:
            print("VIOLATION property=C08 replay=(replayed)")
        return 1 if c.violations else 0
    if obj.get("kind") == "same-named-helpers":
        tmp = tempfile.mkdtemp(prefix="nvc08h")
        try:
            for rel, text in obj["files"].items():
                os.makedirs(os.path.dirname(os.path.join(tmp, rel)), exist_ok=True)
                with open(os.path.join(tmp, rel), "w", encoding="utf-8") as f:
                    f.write(text)
            paths = [os.path.join(tmp, rel) for rel in obj["order"]]
            a, b = fresh_process("script", paths, tmp)[-1], fresh_process("script", paths[-1:], tmp)[-1]
        finally:
            shutil.rmtree(tmp, ignore_errors=True)
        bad = ("mir" in a) != ("mir" in b) or ("mir" in a and cm.first_diff(normalize(cm.canon_mir(a["mir"])), normalize(cm.canon_mir(b["mir"])))) \
            or ("mir" not in a and a.get("err") != b.get("err"))
        print("differs" if bad else "same")
        if bad:
            print("VIOLATION property=C08 replay=(replayed)")
        return 1 if bad else 0
    if obj.get("kind") == "fresh-process-history":
        tmp = tempfile.mkdtemp(prefix="nvc08f")
        try:
            paths = []
            for k, text in enumerate(obj["earlier"] + [obj["later"]]):
                os.makedirs(os.path.join(tmp, f"proj{k}"), exist_ok=True)
                paths.append(os.path.join(tmp, f"proj{k}", "main.py"))
                with open(paths[-1], "w", encoding="utf-8") as f:
                    f.write(text)
            a, b = fresh_process(obj["via"], paths, tmp)[-1], fresh_process(obj["via"], paths[-1:], tmp)[-1]
        finally:
            shutil.rmtree(tmp, ignore_errors=True)
        bad = ("mir" in a) != ("mir" in b) or ("mir" in a and cm.first_diff(normalize(cm.canon_mir(a["mir"])), normalize(cm.canon_mir(b["mir"])))) \
            or ("mir" in a and resolved_refs(a["mir"]) != resolved_refs(b["mir"])) or ("mir" not in a and a.get("err") != b.get("err"))
        print("differs" if bad else "same")
        if bad:
            print("VIOLATION property=C08 replay=(replayed)")
        return 1 if bad else 0
    if obj.get("kind") == "entry-point-history":
        reset_globals()
        m = interp.run_events(copy.deepcopy(obj["events"]))
        j = obj["program_index"]
        hist, _ = k10.run_scripts(m.events, m.results, "c08rh", via=obj["via"], timers=obj.get("timers", False), raw=True)
        alone, _ = k10.run_scripts(m.events, m.results, "c08rh", via=obj["via"], only={j}, timers=obj.get("timers", False), raw=True)
        a, b = hist[j], alone[j]
        bad = ("mir" in a) != ("mir" in b) or ("mir" in a and cm.first_diff(normalize(a["mir"]), normalize(b["mir"]))) \
            or ("mir" in a and resolved_refs(a["raw"]) != resolved_refs(b["raw"])) \
            or ("mir" not in a and a.get("err") != b.get("err"))
        print("differs" if bad else "same")
        if bad:
            print("VIOLATION property=C08 replay=(replayed)")
        return 1 if bad else 0
    reset_globals()
    m = interp.run_events(copy.deepcopy(obj["history"]))
    nb = sum(1 for e in obj["program"])
    after = m.results[-nb:]
    reset_globals()
    fresh = interp.run_events(copy.deepcopy(obj["program"])).results
    bad = 0
    for ev, x, y in zip(obj["program"], after, fresh):
        if "compile" in ev and "mir" in x and "mir" in y:
            d = cm.first_diff(normalize(cm.canon_mir(x["mir"])), normalize(cm.canon_mir(y["mir"])))
            if d:
                bad += 1
                print("differs:", d)
        elif ("mir" in x) != ("mir" in y) or x.get("s") != y.get("s"):
            bad += 1
            print("differs:", x.get("s", x.get("err")), y.get("s", y.get("err")))
    if bad:
        print("VIOLATION property=C08 replay=(replayed)")
    return 1 if bad else 0
