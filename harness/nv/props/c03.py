"""C03 — no implicit declassification: public-typed values never derive from secrets."""
from .. import core
from ..oracle import graph as G
from . import graphcommon as gc

MODULE = "NadaVerif.Props.C03"
TRANSLATORS = None
THEOREMS = [f"NadaVerif.C03.{n}" for n in (
    "table_no_declass", "bin_no_declass", "ifElse_no_declass", "truncPr_invert_no_declass", "random_is_secret",
    "mirName_secret_iff", "typed_covers_taint", "call_args_covered", "rewrap_declassifies")]


def oracle(mir, rec):
    return G.c03(mir)


def project(mir):
    from .c05 import project as p5
    return p5(mir)


def classify(kind, rec, mir):
    if gc.rewraps(rec["events"], rec.get("real")):
        return "NoRewrap"
    if gc.binding_inconsistent(rec):
        return "BindingConsistent"
    return None


def run(res, tier):
    # (a) the regenerated scalar table, cell by cell (names the failing cells)
    ans = core.driver([{"k": "c03cells"}])[0]
    for cell in ans["noDeclass"]:
        res.violation({"property": "C03", "kind": "cell", "cell": cell},
                      f"{cell['op']}({', '.join(cell['args'])}) -> {cell['outcomes']}: result less secret than an operand")
    # (b) whole MIRs
    gc.run_graph(res, tier, "C03", oracle, project, classify)
    res.coverage["scalar_cells_checked"] = 2295


def replay(obj):
    if obj.get("kind") == "cell":
        from . import c02
        cell = obj["cell"]
        return c02.replay({"op": cell["op"], "args": [list(c02.NAME2STY[a]) for a in cell["args"]]})
    return gc.replay_graph(obj, "C03", oracle)
