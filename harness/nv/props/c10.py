"""C10 — the program's inputs, outputs and parties are reproduced exactly."""
from ..oracle import iface
from . import graphcommon as gc

MODULE = "NadaVerif.Props.C10"
TRANSLATORS = None
THEOREMS = [f"NadaVerif.C10.{n}" for n in (
    "outputs_in_order", "compile_outputs_exact", "dup_input_rejected", "mem_insertSorted", "addInput_lists_party", "inputs_as_declared", "parties_cover")]


def oracle(mir, rec):
    return iface.c10(mir, rec)


def project(mir):
    return {"inputs": mir["inputs"], "outputs": mir["outputs"], "parties": mir["parties"]}


def classify(kind, rec, mir):
    if gc.rewraps(rec["events"], rec.get("real")):
        return "NoRewrap"
    return None


def probe_non_nada_output():
    """`Output(5, ...)` and friends must be rejected with an error."""
    from nada_dsl import Output, Party
    from nada_dsl.compiler_frontend import nada_dsl_to_nada_mir
    from ..real.env import reset_globals
    bad = []
    for val in (5, "x", None, [1], 2.5, object()):
        reset_globals()
        try:
            nada_dsl_to_nada_mir([Output(val, "o", Party("p"))])
            bad.append(repr(val))
        except Exception:  # pylint: disable=broad-except
            pass
    reset_globals()
    return bad


def run(res, tier):
    for b in probe_non_nada_output():
        res.violation({"property": "C10", "kind": "non-nada-output", "value": b}, f"Output({b}, ...) was compiled")
    gc.run_graph(res, tier, "C10", oracle, project, classify)


def replay(obj):
    if obj.get("kind") == "non-nada-output":
        bad = probe_non_nada_output()
        print(bad)
        return 1 if bad else 0
    return gc.replay_graph(obj, "C10", oracle)
