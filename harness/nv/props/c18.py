"""C18 — the audited signature agrees with the compiled program's interface (K8).

Generated programs of the common subset (as command lists of `Audit/Signature.lean`) are rendered to
Python source with host-language variation (lists, `sum`, loops, comprehensions, helper functions,
module-level declarations); the real `nada_dsl.audit.signature` and the real compiler run on the same
text.  (1) correspondence: both real results are compared with the Lean model's two interpreters;
(2) oracle: the property itself is decided on the two real results, using only the program's own
dependency structure (computed from the command list, independently of model and implementation)."""
import base64
import contextlib
import io
import json

from .. import core
from ..gen import rng as R
from ..real.env import reset_globals

MODULE = "NadaVerif.Props.C18"
TRANSLATORS = None
THEOREMS = [f"NadaVerif.C18.{n}" for n in (
    "stale_wrapper_output_differs", "tables_agree", "bin_agree", "ifElse_agree", "run_rel", "outputs_agree", "mir_outputs", "mir_inputs_in_signature",
    "extra_inputs_exact", "mir_parties_exact", "mir_parties_nodup", "mir_parties_in_signature", "extra_parties_exact")]

SYM = {"add": "+", "sub": "-", "mul": "*", "lt": "<", "le": "<=", "gt": ">", "ge": ">=", "eq": "==", "ne": "!="}


# ---- generator ------------------------------------------------------------------------------------
def gen_program(rng, size):
    """command list + kinds of the registers"""
    cmds, kind = [], []          # kind: 'party' | 'input' | 'int' | 'bool' | 'lit' | 'out'

    def regs(k):
        return [i for i, x in enumerate(kind) if x in k]

    secret = {}                  # register -> is the value secret (what the generator intends; re-wraps may change it)

    def emit(c, k):
        cmds.append(c)
        kind.append(k)
        if c["op"] == "wrap":
            secret[len(kind) - 1] = bool(c.get("secret"))
        elif c["op"] in ("bin", "ifElse"):
            secret[len(kind) - 1] = any(secret.get(c[f], False) for f in ("a", "b", "c") if f in c)

    nparties = rng.choice([1, 1, 2, 2, 3, 4])
    names = [f"P{i}" for i in range(nparties)]
    if nparties >= 2 and rng.random() < 0.15:
        names[1] = names[0]                      # two Party objects with one name
    for n in names:
        emit({"op": "party", "name": n}, "party")
    ninputs = rng.randint(1, 6)
    for i in range(ninputs):
        name = f"x{i}"
        if i > 0 and rng.random() < 0.08:
            name = f"x{rng.randrange(i)}"        # a name used twice (the compiler rejects if both are reachable)
        emit({"op": "input", "name": name, "party": rng.choice(regs(["party"]))}, "input")
    wrapped = {}
    for j, r in enumerate(regs(["input"])):
        if j == 0 or rng.random() < 0.9:
            emit({"op": "wrap", "secret": rng.random() < 0.6, "r": r}, "int")
            wrapped[r] = len(kind) - 1
            if rng.random() < 0.1:               # the same Input wrapped again (last wrapper wins on both sides)
                emit({"op": "wrap", "secret": rng.random() < 0.5, "r": r}, "int")
    forced = []
    for _ in range(rng.randint(0, size)):
        k = rng.random()
        ints, bools = regs(["int", "lit"]), regs(["bool"])
        if k < 0.1:
            emit({"op": "lit", "v": str(R.big_int(rng))}, "lit")
        elif k < 0.55 and ints:
            a, b = rng.choice(ints), rng.choice(ints)
            emit({"op": "bin", "bop": rng.choice(["add", "sub", "mul"]), "a": a, "b": b, **({"aug": True} if rng.random() < 0.2 else {})},
                 "lit" if kind[a] == "lit" and kind[b] == "lit" else "int")
        elif k < 0.75 and ints:
            a, b = rng.choice(ints), rng.choice(ints)
            emit({"op": "bin", "bop": rng.choice(["lt", "le", "gt", "ge", "eq", "ne"]), "a": a, "b": b},
                 "litbool" if kind[a] == "lit" and kind[b] == "lit" else "bool")
        elif k < 0.95 and bools and ints:
            c_, a_, b_ = rng.choice(bools), rng.choice(ints), rng.choice(ints)
            if rng.random() < 0.5:
                # the secrecy of the result comes from one position only: a public condition and one secret branch (either
                # one), or a secret condition over public branches; such a result is delivered
                pub_b, sec_b = [r for r in bools if not secret.get(r)], [r for r in bools if secret.get(r)]
                pub_i, sec_i = [r for r in ints if not secret.get(r)], [r for r in ints if secret.get(r)]
                shape = rng.choice(["false-branch", "true-branch", "condition"])
                if shape == "condition" and sec_b and pub_i:
                    c_, a_, b_ = rng.choice(sec_b), rng.choice(pub_i), rng.choice(pub_i)
                elif pub_b and pub_i and sec_i:
                    c_ = rng.choice(pub_b)
                    a_, b_ = (rng.choice(pub_i), rng.choice(sec_i)) if shape != "true-branch" else (rng.choice(sec_i), rng.choice(pub_i))
                forced.append(len(kind))
            emit({"op": "ifElse", "c": c_, "a": a_, "b": b_}, "int")
        elif rng.random() < 0.3 and ints:        # malformed: arithmetic on a boolean / literal condition / party as operand
            emit({"op": "bin", "bop": "add", "a": rng.choice(regs(["int", "bool", "party", "litbool"]) or ints), "b": rng.choice(ints)}, "int")
    nouts = rng.randint(1, 4)
    cands = regs(["int"]) or regs(["lit"])
    # values that were used as the left operand of an arithmetic step and are delivered as well: the step must not have
    # changed them (an accumulator `t = x; t += y` starts as an alias of x)
    seeds_ = [c["a"] for c in cmds if c["op"] == "bin" and c["bop"] in ("add", "sub", "mul") and kind[c["a"]] == "int"]
    seeds_ = [c["a"] for c in cmds if c.get("aug") and kind[c["a"]] == "int"] * 3 + seeds_
    for i in range(nouts):
        v = rng.choice(cands if rng.random() < 0.95 else regs(["int", "lit", "bool"]) or cands)
        if seeds_ and rng.random() < 0.35:
            v = rng.choice(seeds_)
        if forced and rng.random() < 0.5:
            v = forced.pop()
        oname = f"o{i}"
        if i > 0 and rng.random() < 0.12:
            oname = f"o{rng.randrange(i)}"      # two outputs under one name (both sides accept that; both are delivered)
        emit({"op": "out", "v": v, "name": oname, "party": rng.choice(regs(["party"]))}, "out")
    if rng.random() < 0.35:
        cmds = declare_lazily(cmds)
    return cmds


REG_FIELDS = ("party", "r", "a", "b", "c", "v")


def declare_lazily(cmds):
    """the same program with every party / input / wrapper declared just before its first use (declarations that nothing
    uses stay where they were, at the end): later declarations then follow earlier computations and outputs"""
    def deps(c):
        return [c[k] for k in REG_FIELDS if k in c and isinstance(c[k], int) and not (c["op"] == "wrap" and k == "v")]
    order, done = [], set()

    def visit(i):
        if i in done:
            return
        for d in deps(cmds[i]):
            visit(d)
        done.add(i)
        order.append(i)
    # a wrapper re-typing an input that is wrapped twice must keep its place relative to the other wrapper of that input
    wraps = {}
    for i, c in enumerate(cmds):
        if c["op"] == "wrap":
            wraps.setdefault(c["r"], []).append(i)
    for i, c in enumerate(cmds):
        if c["op"] in ("party", "input", "wrap"):
            continue
        for d in deps(c):
            if cmds[d]["op"] == "wrap":
                for w in wraps[cmds[d]["r"]]:
                    if w <= d:
                        visit(w)
        visit(i)
    for i in range(len(cmds)):
        visit(i)
    pos = {old: new for new, old in enumerate(order)}
    out = []
    for old in order:
        c = dict(cmds[old])
        for k in REG_FIELDS:
            if k in c and isinstance(c[k], int) and not (c["op"] == "wrap" and k == "v"):
                c[k] = pos[c[k]]
        out.append(c)
    return out


# ---- renderer -------------------------------------------------------------------------------------
def render(rng, cmds, module_level=0):
    """Python text of the program; the first `module_level` declarations are placed at module level"""
    head, body, outs, out_stmts = [], [], [], []
    helper_used = False
    # some programs construct an output as soon as its value and party exist — before later parties and inputs are declared
    early = rng.random() < 0.4
    pending = [(i, c) for i, c in enumerate(cmds) if c["op"] == "out"] if early else []
    placed = {}

    def flush(r):
        for i, c in list(pending):
            if c["v"] <= r and c["party"] <= r and r >= module_level and rng.random() < 0.7:
                pending.remove((i, c))
                placed[i] = f'r{i} = Output(r{c["v"]}, "{c["name"]}", r{c["party"]})'
                body.append(placed[i])
    for r, c in enumerate(cmds):
        v = f"r{r}"
        op = c["op"]
        if r in placed:
            outs.append(v)
            continue
        if op == "party":
            s = rng.choice([f'{v} = Party(name="{c["name"]}")', f'{v} = Party("{c["name"]}")'])
        elif op == "input":
            s = rng.choice([f'{v} = Input(name="{c["name"]}", party=r{c["party"]})', f'{v} = Input("{c["name"]}", r{c["party"]})'])
        elif op == "wrap":
            s = f'{v} = {"SecretInteger" if c["secret"] else "PublicInteger"}(r{c["r"]})'
        elif op == "lit":
            s = f'{v} = Integer({c["v"]})'
        elif op == "bin":
            a, b, sym = f'r{c["a"]}', f'r{c["b"]}', SYM[c["bop"]]
            k = rng.random()
            if c["bop"] == "add" and k < 0.25:
                s = f"{v} = sum([{a}, {b}])"
            elif c["bop"] == "add" and k < 0.33:
                s = f"{v} = {a}\nfor _t in [{b}]:\n    {v} = {v} + _t"
            elif c["bop"] in ("add", "sub", "mul") and (0.33 <= k < 0.47 or c.get("aug")):
                # augmented assignment: the accumulator starts as an *alias* of an existing value, which must stay what it was
                s = rng.choice([f"{v} = {a}\n{v} {sym}= {b}", f"{v} = {a}\nfor _t in [{b}]:\n    {v} {sym}= _t"])
            elif k < 0.55:
                s = f"{v} = [_x {sym} {b} for _x in [{a}]][0]"
            elif k < 0.7 and c["bop"] in ("add", "sub", "mul"):
                helper_used = True
                s = f"{v} = _apply(lambda p, q: p {sym} q, {a}, {b})"
            else:
                s = f"{v} = {a} {sym} {b}"
        elif op == "ifElse":
            s = f'{v} = r{c["c"]}.if_else(r{c["a"]}, r{c["b"]})'
        else:
            s = rng.choice([f'{v} = Output(r{c["v"]}, "{c["name"]}", r{c["party"]})',
                            f'{v} = Output(r{c["v"]}, name="{c["name"]}", party=r{c["party"]})'])
            outs.append(v)
            out_stmts.append(s)
            continue
        (head if r < module_level and op in ("party", "input", "wrap") else body).append(s)
        if early and op != "out":
            flush(r)
    # the outputs are *constructed* in any order (and a draft that is never returned may be constructed too): the program's
    # outputs are the ones nada_main returns, in the order of the returned list
    if out_stmts and rng.random() < 0.4:
        rng.shuffle(out_stmts)
    if outs and rng.random() < 0.25:
        first = next(c for c in cmds if c["op"] == "out")
        out_stmts.insert(rng.randrange(len(out_stmts) + 1), f'_draft = Output(r{first["v"]}, "draft", r{first["party"]})')
    body += out_stmts
    text = "from nada_dsl import *\n"
    if helper_used:
        text += "def _apply(f, p, q):\n    return f(p, q)\n"
    text += "\n".join(head) + ("\n" if head else "")
    text += "def nada_main():\n"
    for s in body:
        for line in s.split("\n"):
            text += "    " + line + "\n"
    text += "    return [" + ", ".join(outs) + "]\n"
    return text


# ---- the two real sides -----------------------------------------------------------------------------
def real_signature(src):
    import nada_dsl.audit.abstract as A
    try:
        with contextlib.redirect_stdout(io.StringIO()):
            ps, ins, outs = A.signature(src)
    except Exception as exc:  # pylint: disable=broad-except
        return {"reject": type(exc).__name__}
    return {"parties": [p.name for p in ps],
            "inputs": [[getattr(i, "name", None), getattr(getattr(i, "party", None), "name", None),
                        getattr(getattr(i, "_type", None), "__name__", None)] for i in ins],
            "outputs": [[o.name, o.party.name, type(o.value).__name__] for o in outs]}


def extract_signature(raw):
    ps, ins, outs = raw
    return {"parties": [p.name for p in ps],
            "inputs": [[getattr(i, "name", None), getattr(getattr(i, "party", None), "name", None),
                        getattr(getattr(i, "_type", None), "__name__", None)] for i in ins],
            "outputs": [[o.name, o.party.name, type(o.value).__name__] for o in outs]}


def signature_survives(src1, src2):
    """the signature of a program is a value: auditing another program afterwards does not change what was returned"""
    import nada_dsl.audit.abstract as A
    try:
        with contextlib.redirect_stdout(io.StringIO()):
            raw1 = A.signature(src1)
            before = extract_signature(raw1)
            try:
                A.signature(src2)
            except Exception:  # pylint: disable=broad-except
                pass
            after = extract_signature(raw1)
    except Exception:  # pylint: disable=broad-except
        return None
    if before != after:
        return f"signature of the first program before auditing the second: {before}; read again afterwards: {after}"
    return None


def real_compile(src):
    from nada_dsl.compile import compile_string
    # no reset between programs: the process state left by earlier programs (accepted or rejected) must not matter
    try:
        with contextlib.redirect_stdout(io.StringIO()):
            mir = json.loads(compile_string(base64.b64encode(src.encode()).decode()).mir)
    except Exception as exc:  # pylint: disable=broad-except
        return {"reject": type(exc).__name__}
    return {"parties": [p["name"] for p in mir["parties"]],
            "inputs": [[i["name"], i["party"], i["type"]] for i in mir["inputs"]],
            "outputs": [[o["name"], o["party"], o["type"]] for o in mir["outputs"]]}


def compiled_again(src):
    """The program's declarations made once (its module body runs once, as for a program kept loaded), `nada_main()` called and
    its outputs compiled twice: the interface of the second MIR, next to the first's (None when the program does not compile)."""
    from nada_dsl.compiler_frontend import nada_compile
    from ..real.env import reset_globals
    reset_globals()
    ns = {"__name__": "nv_c18_program"}
    out = []
    try:
        with contextlib.redirect_stdout(io.StringIO()):
            exec(compile(src, "nv_c18_program.py", "exec"), ns)      # the harness runs the program (the compiler's job, not the auditor's)
            for _ in range(2):
                mir = json.loads(nada_compile(ns["nada_main"]()))
                out.append({"parties": [p["name"] for p in mir["parties"]],
                            "inputs": [[i["name"], i["party"], i["type"]] for i in mir["inputs"]],
                            "outputs": [[o["name"], o["party"], o["type"]] for o in mir["outputs"]]})
    except Exception:  # pylint: disable=broad-except
        out = None
    reset_globals()
    return out


# ---- ground truth from the command list alone -------------------------------------------------------
def deps_of(cmds):
    """for every register the set of Input registers it was computed from; outputs' value registers"""
    deps, outs = [], []
    for c in cmds:
        op = c["op"]
        if op == "wrap":
            deps.append({c["r"]})
        elif op == "bin":
            deps.append(deps[c["a"]] | deps[c["b"]])
        elif op == "ifElse":
            deps.append(deps[c["c"]] | deps[c["a"]] | deps[c["b"]])
        else:
            deps.append(set())
        if op == "out":
            outs.append(c)
    return deps, outs


MIR_OF = {"PublicInteger": "Integer", "SecretInteger": "SecretInteger", "Integer": "Integer"}


def oracle(cmds, sig, mir):
    """the property, decided on the real signature and the real MIR interface"""
    v = []
    # outputs: same names, parties, secrecy, order
    so = [[n, p, MIR_OF.get(t, t)] for n, p, t in sig["outputs"]]
    if so != mir["outputs"]:
        v.append(("outputs", f"signature outputs {sig['outputs']} vs MIR outputs {mir['outputs']}"))
    # every MIR input / party is in the signature with the same name, party, type
    sin = [[n, p, MIR_OF.get(t, t)] for n, p, t in sig["inputs"]]
    rest = list(sin)
    for i in mir["inputs"]:
        if i in rest:
            rest.remove(i)
        else:
            v.append(("mir-input-missing", f"MIR input {i} is not in the signature (signature inputs: {sig['inputs']})"))
    for p in mir["parties"]:
        if p not in sig["parties"]:
            v.append(("mir-party-missing", f"MIR party {p} is not in the signature (signature parties: {sig['parties']})"))
    # the extras are exactly what no output depends on / is delivered to (ground truth from the program text)
    deps, outs = deps_of(cmds)
    reach = set()
    for c in outs:
        reach |= deps[c["v"]]
    last_wrap = {}
    for c in cmds:
        if c["op"] == "wrap":
            last_wrap[c["r"]] = "SecretInteger" if c["secret"] else "Integer"
    pname = {r: c["name"] for r, c in enumerate(cmds) if c["op"] == "party"}
    dead = [[c["name"], pname[c["party"]], last_wrap.get(r)] for r, c in enumerate(cmds)
            if c["op"] == "input" and r not in reach]
    if sorted(rest, key=str) != sorted(dead, key=str):
        v.append(("extra-inputs", f"signature inputs beyond the MIR's: {sorted(rest, key=str)}; inputs no output depends on: {sorted(dead, key=str)}"))
    live_parties = {pname[cmds[r]["party"]] for r in reach} | {pname[c["party"]] for c in outs}
    extra_p = sorted(set(sig["parties"]) - set(mir["parties"]))
    dead_p = sorted(set(pname.values()) - live_parties)
    if extra_p != dead_p:
        v.append(("extra-parties", f"signature parties beyond the MIR's: {extra_p}; parties owning no reachable input and receiving no output: {dead_p}"))
    if len(set(mir["parties"])) != len(mir["parties"]):
        v.append(("party-twice", f"MIR lists a party twice: {mir['parties']}"))
    return v


def stale_outputs(cmds):
    """positions (in output order) whose value is a wrapper of an Input that was re-wrapped at another
    class afterwards (hypothesis NoStaleWrapperOutput / known finding F-C03-2)"""
    last = {}
    for c in cmds:
        if c["op"] == "wrap":
            last[c["r"]] = c["secret"]
    pos, k = set(), 0
    for c in cmds:
        if c["op"] == "out":
            w = cmds[c["v"]]
            if w["op"] == "wrap" and last[w["r"]] != w["secret"]:
                pos.add(k)
            k += 1
    return pos


def known_stale(kind, cmds, sig, mir):
    """the failure is exactly F-C03-2: only outputs that hand over a stale wrapper differ"""
    if kind != "outputs" or len(sig["outputs"]) != len(mir["outputs"]):
        return False
    diff = {i for i, (a, b) in enumerate(zip(sig["outputs"], mir["outputs"])) if [a[0], a[1], MIR_OF.get(a[2], a[2])] != b}
    return bool(diff) and diff <= stale_outputs(cmds)


STALE_WITNESS = [{"op": "party", "name": "P"}, {"op": "input", "name": "x", "party": 0}, {"op": "wrap", "secret": True, "r": 1},
                 {"op": "wrap", "secret": False, "r": 1}, {"op": "out", "v": 2, "name": "o", "party": 0}]


def judge(cmds, src):
    sig, mir = real_signature(src), real_compile(src)
    if "reject" in sig or "reject" in mir:
        return [], sig, mir
    return oracle(cmds, sig, mir), sig, mir


def model_view(ans):
    a, r = ans["abs"], ans["real"]
    return a, r


CORPUS = [
    # module-level declarations (F-C18-1, fixed), an unused party, an unused input, a never-wrapped input
    ([{"op": "party", "name": "P0"}, {"op": "party", "name": "Unused"}, {"op": "input", "name": "a", "party": 0},
      {"op": "input", "name": "dead", "party": 1}, {"op": "input", "name": "raw", "party": 0},
      {"op": "wrap", "secret": True, "r": 2}, {"op": "wrap", "secret": False, "r": 3},
      {"op": "bin", "bop": "mul", "a": 5, "b": 5}, {"op": "out", "v": 7, "name": "o", "party": 0}], 5),
    # accumulators seeded with an existing value that is delivered as well (`t = base; t += extra`): base stays what it was
    ([{"op": "party", "name": "Carol"}, {"op": "input", "name": "base", "party": 0}, {"op": "input", "name": "extra", "party": 0},
      {"op": "wrap", "secret": False, "r": 1}, {"op": "wrap", "secret": True, "r": 2},
      {"op": "bin", "bop": "add", "a": 3, "b": 4, "aug": True}, {"op": "bin", "bop": "mul", "a": 3, "b": 5, "aug": True},
      {"op": "bin", "bop": "sub", "a": 3, "b": 4, "aug": True},
      {"op": "out", "v": 3, "name": "base", "party": 0}, {"op": "out", "v": 5, "name": "total", "party": 0},
      {"op": "out", "v": 6, "name": "scaled", "party": 0}, {"op": "out", "v": 7, "name": "rest", "party": 0}], 0),
    # a re-wrapped input: public first, secret last
    ([{"op": "party", "name": "A"}, {"op": "input", "name": "bid", "party": 0}, {"op": "wrap", "secret": False, "r": 1},
      {"op": "wrap", "secret": True, "r": 1}, {"op": "bin", "bop": "add", "a": 2, "b": 3},
      {"op": "out", "v": 4, "name": "o", "party": 0}], 0),
    # secret condition over inputs used nowhere else, public branches, the same branch twice
    ([{"op": "party", "name": "A"}, {"op": "party", "name": "B"}, {"op": "input", "name": "t", "party": 0},
      {"op": "input", "name": "f", "party": 1}, {"op": "input", "name": "u", "party": 1},
      {"op": "wrap", "secret": True, "r": 2}, {"op": "wrap", "secret": False, "r": 3}, {"op": "wrap", "secret": False, "r": 4},
      {"op": "bin", "bop": "lt", "a": 5, "b": 6}, {"op": "ifElse", "c": 8, "a": 6, "b": 6},
      {"op": "out", "v": 9, "name": "fee", "party": 1}, {"op": "out", "v": 6, "name": "pub", "party": 0}], 0),
]


def run(res, tier):
    rng = R.make("C18")
    findings = [f for f in core.load_findings().get("findings", []) if "C18" in f["properties"]]
    v, sig, mir = judge(STALE_WITNESS, render(R.make("w"), STALE_WITNESS))
    if findings and any(known_stale(k, STALE_WITNESS, sig, mir) for k, _ in v):
        res.known.append(f"{findings[0]['id']}: {findings[0]['what']} — here: Output of the earlier wrapper is typed by the later one "
                         "(signature says SecretInteger, MIR says Integer)")
    masked = 0
    n = 150 if tier == "quick" else 4000
    size = 10 if tier == "quick" else 40
    progs = [(c, ml) for c, ml in CORPUS]
    while len(progs) < n + len(CORPUS):
        cmds = gen_program(rng, rng.randint(1, size))
        ml = rng.choice([0, 0, 0, rng.randint(1, len(cmds))])
        progs.append((cmds, ml))
    # a batch: the signature of one program is read again after the next program was audited
    batch = [render(R.make(f"b{i}"), c, ml) for i, (c, ml) in enumerate(progs[:24 if tier == "quick" else 200])]
    for s1, s2 in zip(batch, batch[1:]):
        why = signature_survives(s1, s2)
        if why:
            res.violation({"property": "C18", "kind": "signature-changed-by-later-audit", "first": s1, "second": s2, "text": why},
                          f"two programs audited in one process: {why}"[:400])
            break
    reset_globals()
    answers = core.driver([{"k": "sig", "cmds": c} for c, _ in progs])
    evals = both = nontrivial = 0
    dist = {"abs_reject": 0, "real_reject": 0, "both_accept": 0, "module_level": 0, "extras": 0}
    samples, diffs = [], []
    seen = set()
    for (cmds, ml), ans in zip(progs, answers):
        if "error" in ans:
            raise core.Infra(f"nvdriver: {ans['error']}")
        src = render(rng, cmds, ml)
        v, sig, mir = judge(cmds, src)
        evals += 1
        dist["module_level"] += bool(ml)
        ma, mr = model_view(ans)
        # --- correspondence: model vs real, per side
        real_a = "reject" if "reject" in sig else {"parties": sig["parties"], "inputs": sig["inputs"], "outputs": sig["outputs"]}
        if (ma == "reject") != (real_a == "reject") or (ma != "reject" and ma != real_a):
            diffs.append({"side": "abstract", "model": ma, "real": sig, "cmds": cmds, "source": src})
        if "reject" in mir:
            real_r = "reject"
        else:
            real_r = {"parties": sorted(mir["parties"]), "inputs": sorted(mir["inputs"]), "outputs": mir["outputs"]}
        if mr in ("reject", "compile-reject"):
            mod_r = "reject"
        else:
            mod_r = {"parties": sorted(mr["parties"]), "inputs": sorted([[n, p, MIR_OF.get(t, t)] for n, p, t in mr["inputs"]]),
                     "outputs": mr["outputs"]}
        if mod_r != real_r:
            diffs.append({"side": "compiler", "model": mr, "real": mir, "cmds": cmds, "source": src})
        dist["abs_reject"] += "reject" in sig
        dist["real_reject"] += "reject" in mir
        if "reject" not in sig and "reject" not in mir:
            both += 1
            dist["both_accept"] += 1
            if len(sig["inputs"]) > len(mir["inputs"]) or len(set(sig["parties"])) > len(mir["parties"]):
                dist["extras"] += 1
            key = json.dumps([sig, mir], sort_keys=True)
            if key not in seen and len(mir["outputs"]) >= 1 and len(cmds) >= 8:
                seen.add(key)
                nontrivial += 1
            if len(samples) < 2 and len(cmds) >= 10:
                samples.append({"source": src[:700], "signature": sig, "mir_interface": mir})
        if ml and "reject" not in sig and "reject" not in mir and evals % 2 == 0:
            # module-level declarations live as long as the module: a second compilation meets the same operation objects
            twice = compiled_again(src)
            if twice and len(twice) == 2 and twice[0] != twice[1]:
                v = v + [("second-compilation", f"the program's outputs compiled a second time in the same process (module-level declarations made once): "
                                                f"interface {twice[1]} — the first compilation gave {twice[0]}")]
        for kind, text in v:
            if findings and known_stale(kind, cmds, sig, mir):
                masked += 1
                continue
            res.violation({"property": "C18", "kind": kind, "text": text, "cmds": cmds, "module_level": ml, "source": src,
                           "signature": sig, "mir_interface": mir}, f"{kind}: {text}"[:400])
        if len(res.violations) > 12:
            break
    for d in diffs[:5]:
        res.broken.append({"decl": f"K8 correspondence ({d['side']} side of Audit/Signature.lean vs the real implementation)",
                           "msg": json.dumps({"model": d["model"], "real": d["real"]}, default=str)[:600], "source": d["source"][:600]})
    # a broken correspondence with no oracle failure: search harder on the real code with the oracle alone
    if res.broken and not res.violations:
        rng2 = R.make("C18-search")
        for _ in range(1500 if tier == "quick" else 6000):
            cmds = gen_program(rng2, rng2.randint(1, 25))
            src = render(rng2, cmds, rng2.choice([0, 0, 3]))
            v, sig, mir = judge(cmds, src)
            v = [(k, t) for k, t in v if not (findings and known_stale(k, cmds, sig, mir))]
            if v:
                kind, text = v[0]
                res.violation({"property": "C18", "kind": kind, "text": text, "cmds": cmds, "source": src, "signature": sig,
                               "mir_interface": mir}, f"{kind}: {text}"[:400])
                break
    res.coverage.update({
        "evaluations": evals, "distinct_nontrivial": nontrivial,
        "rule": "seeded common-subset programs (parties, integer inputs of both modes incl. unused / never wrapped / re-wrapped / "
                "same-name ones, literals, + - *, comparisons, if_else, 1-4 outputs) rendered to Python text with lists, sum, loops, "
                "comprehensions, a helper function and module-level declarations; real signature() and real compile_string() on the same text; "
                "non-trivial = distinct (signature, interface) pairs accepted by both sides from programs of >= 8 commands",
        "distribution": dist, "correspondence_disagreements": len(diffs), "samples": samples,
        "masked_by_known_findings": {"F-C03-2": masked},
    })
    res.assumptions += [
        "the compiler side of Audit/Signature.lean is the interface view of the compile model (inputs reachable from the outputs); it is tied "
        "to the real compiler by this run, and to the full compile model by C09's reachability theorems",
        "host-language control flow is identical in both runs because no DSL value can steer it (C07)",
    ]


def replay(obj):
    if obj.get("kind") == "signature-changed-by-later-audit":
        why = signature_survives(obj["first"], obj["second"])
        print(why or "unchanged")
        if why:
            print("VIOLATION property=C18 replay=(replayed)")
        return 1 if why else 0
    v, sig, mir = judge(obj["cmds"], obj["source"])
    v = [(k, t) for k, t in v if not known_stale(k, obj["cmds"], sig, mir)]
    print(json.dumps({"signature": sig, "mir_interface": mir, "violations": v}, default=str)[:2000])
    if v:
        print("VIOLATION property=C18 replay=(replayed)")
    return 1 if v else 0
